#!/bin/sh
# usage: run.sh <property> <quick|thorough>
# Builds the checker if needed and runs one property check against /repo's current working tree.
set -u
export GOFLAGS=-mod=mod GOPROXY=off GOSUMDB=off GOTOOLCHAIN=local GOWORK=off
cd /verif/checker || exit 2
if [ ! -x /verif/bin/verifcheck ] || [ -n "$(find . -name '*.go' -newer /verif/bin/verifcheck 2>/dev/null | head -1)" ]; then
  mkdir -p /verif/bin
  go build -o /verif/bin/verifcheck . || { echo "checker build failed"; exit 2; }
fi
exec /verif/bin/verifcheck -prop "$1" -tier "${2:-quick}" -repo /repo -verif /verif
