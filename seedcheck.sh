#!/bin/bash
# usage: seedcheck.sh <seed-dir> [props...]
# Verifies a seeded change (patch.diff + demo test) on a fresh scratch worktree of /repo and
# reports which property checks flag it. The worktree is removed afterwards.
export GOFLAGS=-mod=mod GOPROXY=off GOSUMDB=off GOTOOLCHAIN=local GOWORK=off
sd=$(realpath $1); shift
props=${@:-C01 C02 C03 C04 C05 C06 C07 C08 C09 C10 C11 C12 C13 C14 C15 C16 C17 C18 C19 C20}
name=$(basename $sd)
wt=$(mktemp -d /tmp/sv.XXXXXX)/wt
git -C /repo worktree add --detach -q $wt HEAD || exit 2
cleanup() { git -C /repo worktree remove --force $wt; rm -rf $(dirname $wt); }
trap cleanup EXIT
demo=$(ls $sd/*_test.go | head -1)
place=$(cat $sd/demo_path.txt 2>/dev/null || echo ".")
cp $demo $wt/$place/
run=$(grep -o 'func Test[A-Za-z0-9_]*' $demo | sed 's/func //' | paste -sd'|')
echo "== $name: demo tests: $run (in $place)"
( cd $wt/$place && go test -count=1 -run "$run" . > /tmp/sv.$name.base 2>&1 ); base=$?
echo "demo without patch: exit $base"
git -C $wt apply $sd/patch.diff || { echo "PATCH DOES NOT APPLY"; exit 2; }
( cd $wt && go build ./... ) || { echo "DOES NOT BUILD"; exit 2; }
mv $wt/$place/$(basename $demo) /tmp/sv.$name.demo.go
( cd $wt && go test -count=1 ./... > /tmp/sv.$name.suite 2>&1 ); suite=$?
echo "suite with patch: exit $suite"
mv /tmp/sv.$name.demo.go $wt/$place/$(basename $demo)
( cd $wt/$place && go test -count=1 -run "$run" . > /tmp/sv.$name.with 2>&1 ); with=$?
echo "demo with patch: exit $with"
rm -f $wt/$place/$(basename $demo)
mkdir -p /tmp/sv.$name.v/checker
for p in $props; do
  /verif/bin/verifcheck -prop $p -repo $wt -verif /tmp/sv.$name.v -nofixtures -findings-out /tmp/sv.$name.$p.json > /tmp/sv.$name.$p.log 2>&1
  python3 - "$p" /tmp/sv.$name.$p.json <<'PY'
import json,sys
p,f=sys.argv[1],sys.argv[2]
try: ids=json.load(open(f)) or []
except Exception as e: print(p,"ERROR",e); sys.exit()
known=json.load(open('/verif/known_findings.json'))['known']
kk={(k['property'],k['rule']+':'+k['key']) for k in known}
fresh=[i for i in ids if (p,i.split(' @ ')[0]) not in kk]
if fresh: print("  FLAGGED by",p,":",len(fresh),"finding(s):",fresh[0][:230])
PY
done
rm -rf /tmp/sv.$name.v
