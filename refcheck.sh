#!/bin/bash
# usage: refcheck.sh <dir-with-patch.diff> [props...]
# Applies a behaviour-preserving refactoring (patch.diff) to a fresh scratch worktree of /repo,
# checks that it builds and that the suite passes, then runs every property check against it.
# Every finding is a false alarm of the checker (or a refactoring that was not behaviour
# preserving after all): both need a look. The worktree is removed afterwards.
export GOFLAGS=-mod=mod GOPROXY=off GOSUMDB=off GOTOOLCHAIN=local GOWORK=off
sd=$(realpath $1); shift
props=${@:-C01 C02 C03 C04 C05 C06 C07 C08 C09 C10 C11 C12 C13 C14 C15 C16 C17 C18 C19 C20}
name=$(basename $sd)
wt=$(mktemp -d /tmp/rv.XXXXXX)/wt
git -C /repo worktree add --detach -q $wt HEAD || exit 2
cleanup() { git -C /repo worktree remove --force $wt; rm -rf $(dirname $wt) /tmp/rv.$name.*; }
trap cleanup EXIT
git -C $wt apply $sd/patch.diff || { echo "PATCH DOES NOT APPLY"; exit 2; }
( cd $wt && go build ./... ) || { echo "DOES NOT BUILD"; exit 2; }
( cd $wt && go test -count=1 ./... > /tmp/rv.$name.suite 2>&1 ); echo "suite with patch: exit $?"
mkdir -p /tmp/rv.$name.v/checker
for p in $props; do
  /verif/bin/verifcheck -prop $p -repo $wt -verif /tmp/rv.$name.v -nofixtures -findings-out /tmp/rv.$name.$p.json > /tmp/rv.$name.$p.log 2>&1
  python3 - "$p" /tmp/rv.$name.$p.json <<'PY'
import json,sys
p,f=sys.argv[1],sys.argv[2]
try: ids=json.load(open(f)) or []
except Exception as e: print(p,"ERROR",e); sys.exit()
known=json.load(open('/verif/known_findings.json'))['known']
kk={(k['property'],k['rule']+':'+k['key']) for k in known}
fresh=[i for i in ids if (p,i.split(' @ ')[0]) not in kk]
for i in fresh: print("  ALARM",p,":",i[:300])
PY
done
echo "done $name"
