#!/usr/bin/env python3
# Regenerates MANIFEST.json from the table below (kept next to the checks so the two stay in step).
import json

LEVEL_NOTE = ("Trusted base: go/packages + go/types + go/ssa (x/tools v0.29.0) and the checker's own rules; "
  "the module call graph over-approximates (CHA restricted to the module, signature-matched function values, reflect.Call -> boxed functions); "
  "library functions outside the module are modelled by small reviewed tables. No code of /repo is executed.")

CHECKS = {
 "C01": dict(tech="static analysis: sequence-confinement dataflow (SEQ) + resolved-value dataflow for reflect accessors (NF) on go/ssa",
   text="Structural necessary conditions of the path law, decided for every program and input: no internal *sequence can be nested into or escape as a value, and every reflect accessor in the path machinery gets a resolved value. Behavioural content (order, flattening, singleton collapse) is not decided; level 'other' because this is a sound effect/typestate analysis of named clauses, not a behavioural proof.",
   ref="DESIGN.md §3 SEQ, NF; §4 C01"),
 "C02": dict(tech="static analysis: resolved-value dataflow for reflect accessors (NF) on go/ssa",
   text="The NF clause of the predicate machinery for all programs/inputs: filter results and array items are resolved before Len/Index. Index arithmetic and truth casting are value-level and not decided.",
   ref="DESIGN.md §3 NF; §4 C02"),
 "C03": dict(tech="static analysis: finiteness bit-set dataflow with dominance guards (FIN), dominating-guard check (GUARD), CFG exclusivity (LAZY), enum/registration exhaustiveness (TAB)",
   text="Four clauses of the operator contract visible in the code on every path: arithmetic results are finiteness-checked before becoming values, the range size limit (10,000,000) dominates the allocation, ?: evaluates exactly one branch, operator enums are dispatched exhaustively. The operator x kind x kind result table is not decided.",
   ref="DESIGN.md §3 FIN, GUARD, TAB; §4 C03"),
 "C04": dict(tech="static analysis: extraction of the Pratt parser's parameter set (AST + go/types + SSA patterns) compared with the precedence relation of the property",
   text="For the language's token set the extracted parameters determine the parse of every operator chain, so the comparison covers all ordered operator pairs/triples at once. Representation changes of the tables make the extraction fail ('anchor lost') rather than pass. The optimize-time re-association of paths/predicates/groups is not decided.",
   ref="DESIGN.md §3 PRATT; §4 C04"),
 "C10": dict(tech="static analysis: SEQ confinement, FIN over every float-returning built-in and every float boxed under Eval, MARSHAL structural rules",
   text="No internal type or non-finite number can become (part of) a result through the enumerated sinks; callables marshal as \"\"; built-in result types are JSON-closed; ErrUndefined has one producer under the !IsValid edge; EvalBytes is decode->Eval->encode with both errors checked. Deep JSON closure of arbitrary nested values is not decided.",
   ref="DESIGN.md §3 SEQ, FIN, MARSHAL; §4 C10"),
 "C11": dict(tech="static analysis: table comparison (escape table vs RFC 8259, keyword table, array-literal case) on AST + go/types",
   text="Thin: three necessary conditions of 'JSON texts denote themselves' that are tables in the code. \\u decoding, surrogates and number scanning are not decided.",
   ref="DESIGN.md §3 TAB; §4 C11"),
 "C12": dict(tech="static analysis: scope-structure rules on SSA (SCOPE: fresh child frame per block/call, lexical parent, capture of definition-site env/context, parent link used only by lookup) + W restricted to callable and environment state",
   text="The structural part of lexical scoping for all programs: frames, parents and captures are wired lexically, bind cannot reach an outer frame, and no per-call datum lives in a shared callable (the context-defaulting defect). Signature matching, placeholder order and chain semantics are value-level and not decided.",
   ref="DESIGN.md §3 SCOPE, W; §4 C12"),
 "C13": dict(tech="static analysis: who-may-call rule for sort functions under Eval, comparator strictness and slice freshness on go/ssa, merge-step shape (MERGE)",
   text="Stability-relevant structure for all inputs: only stable sorts, strict comparators, fresh slices, and a merge step that prefers the left run on ties. Sampled tests cannot see an unstable sort below 12 items. Ordering/permutation/error clauses as values are not decided.",
   ref="DESIGN.md §3 SORT; §4 C13"),
 "C15": dict(tech="static analysis: interface-keyed map / printed-identity rule (HASH) and FIN on the aggregates",
   text="Thin: $distinct's identity test cannot panic on unhashable members nor conflate values by their printed form, and the aggregates cannot return a non-finite number. The definitional clauses of the other functions are value-level and not decided.",
   ref="DESIGN.md §3 HASH, FIN; §4 C15"),
 "C16": dict(tech="static analysis: unit typing (rune-count vs byte-offset) of integers in the position arithmetic (UNIT) and codec pairing (CODEC)",
   text="Code-point vs byte indexing cannot be mixed in Substring/Pad/positionOfNthRune; encoder/decoder pairs use the same codec; $length is a code-point count. The string laws as equalities are not decided.",
   ref="DESIGN.md §3 UNIT, CODEC; §4 C16"),
 "C05": dict(tech="static analysis: interprocedural write-target provenance (effect analysis W) over the module call graph under Eval/EvalBytes/String, plus a who-may-call rule for clock and random sources (CLOCK)",
   text="Repeatability is decided as a frame condition over ALL programs, inputs and histories: no write reachable from Eval targets memory that existed before the call (the AST, package variables, the Expr, shared built-in callables). This is exactly what the once-per-Expr tests cannot observe. One genuine defect remains and is recorded as a known finding (the transform operator writes through patterns that reach outside its copy). Map-iteration-order effects are sanctioned by the property and not decided.",
   ref="DESIGN.md §3 W, CLOCK; §4 C05"),
 "C06": dict(tech="static analysis: write-target provenance (W) separately under the Eval, Compile and package-level Register roots; must-hold lock-state dataflow and no-escape rule for the global registry (LOCK); syntactic no-goroutine/unsafe/atomic rule",
   text="Race freedom for all schedules follows from an effect argument, not from sampling interleavings: concurrent calls of the API share only memory that none of them writes, except the global registry, which is accessed only under its RWMutex and never leaves the critical section. The transform defect (writes to a shared input through $$) is a recorded known finding. Races inside user extensions are out of scope.",
   ref="DESIGN.md §3 W, LOCK; §4 C06"),
 "C07": dict(tech="static analysis: write-target provenance (W) for every in-place mutation reachable from Eval, incl. reflect.Set*/SetMapIndex/Append, append, sort, copy; deep-freshness of the transform's pattern context",
   text="Input immutability as a frame condition for all programs and inputs. Obligation (a) of the transform (pattern evaluated against a deep copy) holds; obligation (b) (mutations stay inside the copy) does not and is the recorded known finding with its failing input. That the transform result equals the specified copy is not decided.",
   ref="DESIGN.md §3 W; §4 C07"),
 "C08": dict(tech="static analysis: error-provenance dataflow in jparse (ERR), abstract interpretation of the lexer over a finite cursor/width-typestate/first-rune domain (LEX), loop-variant classification and recursion inventory under Compile (LOOP/REC), registration-vs-switch exhaustiveness and explicit-panic inventory (TAB/PANIC), MustCompile/Compile/Parse shape rules",
   text="The panic and hang classes of Compile that are visible in the shape of the code, for every input string: only *jparse.Error values with declared types leave the parser, the lexer never rewinds by a stale width and never returns an empty non-EOF token (for every first rune), every loop under Compile consumes a token/rune per cycle or has a counted/range variant, the 'unexpected ...' panics are unreachable. Runtime index/slice panics (e.g. the signature parser on an unmatched bracket) and stack depth are NOT decided, and the level note says so.",
   ref="DESIGN.md §3 ERR, LEX, LOOP, TAB; §4 C08"),
 "C09": dict(tech="static analysis: NF dataflow over all of reach(Eval), dispatch exhaustiveness (TAB), explicit-panic inventory, loop-variant classification and recursion inventory (LOOP/REC), dominating guards (GUARD), interface-keyed map rule (HASH)",
   text="The crash and hang classes that are visible in the shape of the code, decided for every program and input over the module call graph under Eval: unresolved reflect accessors, missing dispatch cases, loops without a variant, unguarded integer division / radix / repeat count, unhashable map keys. The remaining panic classes (type assertions, Set on zero Values, nil interfaces, stack depth) are not decided and are listed as such.",
   ref="DESIGN.md §3 NF, TAB, LOOP, GUARD, HASH; §4 C09"),
 "C18": dict(tech="static analysis: loop-variant classification incl. positive multiplicative scaling (LOOP class M), FIN on the number built-ins, radix/repeat guards (GUARD)",
   text="Termination of every loop under the number formatting functions (the clause behind the $formatNumber hang), finiteness of $power/$sqrt/$round results, and the exact [2,36] radix guard. Rounding, shortest form and picture rendering are value-level and not decided.",
   ref="DESIGN.md §3 LOOP, FIN, GUARD; §4 C18"),
 "C19": dict(tech="static analysis: table exhaustiveness (TAB), clock-source who-may-call rule and single-instant dataflow (CLOCK), API reachability (GUARD-API), dominating guards (GUARD)",
   text="All 17 date components are dispatched and have defaults; one clock reading per Eval shared by $now/$millis; no 64-bit-nanosecond API on the $toMillis path; no unguarded integer division under $fromMillis. Calendar field values and the inverse law are not decided.",
   ref="DESIGN.md §3 TAB, CLOCK, GUARD; §4 C19"),
 "C20": dict(tech="static analysis: must-pass-through (dominance) of validation before registry stores (REG), environment assembly order, lock discipline and no-escape of the global registry (LOCK), W under the two registration roots",
   text="Registration-time validation and registry visibility for all registration histories: entries are validated before they are stored, an Expr holds a per-key copy of the global registry taken under the lock at Compile time, method-level registration writes only the receiver's registry. The argument-conversion relation is value-level and not decided.",
   ref="DESIGN.md §3 REG, LOCK, W; §4 C20"),
}

NA = {
 "C14": "grouping is a partition law and the object-function clauses are algebraic identities over runtime objects; no structural clause that is a genuine necessary condition could be named (DESIGN.md §5)",
 "C17": "agreement of offsets, groups and $N expansion with the RE2 engine for all patterns/subjects is a relation over runtime strings; no sound static argument in reach (DESIGN.md §5)",
}
PENDING = "check under construction in this session (engine not finished yet); see DESIGN.md §4"

props=[json.loads(l)['id'] for l in open('/verif/properties.jsonl')]
m={"version":1,
 "setup_cmd":"mkdir -p /verif/bin && cd /verif/checker && GOFLAGS=-mod=mod GOPROXY=off GOSUMDB=off GOTOOLCHAIN=local GOWORK=off go build -o /verif/bin/verifcheck .",
 "hooks":{"guard":"verif","enable":"no hooks: the checker type-checks and analyses /repo's sources; nothing in /repo is built with a tag","baseline_off_cmd":"cd /repo && go test -count=1 ./...","source_commits":[],"add_only":True},
 "engines":[{"name":"verifcheck","path":"/verif/checker","serves_properties":sorted(CHECKS),"kind_free_text":"custom static analyser (go/packages + go/types + go/ssa, module-restricted call graph): rules NF, SEQ, FIN, W, LEX, ERR, LOOP, TAB, PRATT, GUARD, SORT, HASH, UNIT, CODEC, CLOCK, MARSHAL, LOCK, REG, SCOPE"}],
 "checks":[],
 "notes":"All claims are level 'other': each check is a static analysis of named structural clauses (necessary conditions) of its property, with obligations enumerated from /repo's current source on every run; none executes jsonata-go. Findings on the original tree were repaired by 'fix:' commits in /repo (see known_findings.json 'fixed').",
 "not_applicable":[]}
for p in props:
    if p in CHECKS:
        c=CHECKS[p]
        m["checks"].append({"property_id":p,"quick_cmd":"./run.sh %s quick"%p,"thorough_cmd":"./run.sh %s thorough"%p,
          "evidence_file":"/verif/evidence/%s.json"%p,"replay_cmd_template":"cat {path}","engine":"verifcheck",
          "level_claimed":{"category":"other","text":c["text"],"design_ref":c["ref"]},"level_note":LEVEL_NOTE,"technique":c["tech"]})
    else:
        m["not_applicable"].append({"property_id":p,"reason":NA.get(p,PENDING)})
json.dump(m,open('/verif/MANIFEST.json','w'),indent=1,ensure_ascii=False)
print(len(m["checks"]),"checks;",len(m["not_applicable"]),"not applicable")
