#!/usr/bin/env python3
# Regenerates MANIFEST.json from the table below (kept next to the checks so the two stay in step).
import json

LEVEL_NOTE = ("Trusted base: go/packages + go/types + go/ssa (x/tools v0.29.0) and the checker's own rules; "
  "the module call graph over-approximates (CHA restricted to the module, signature-matched function values, reflect.Call -> boxed functions); "
  "library functions outside the module are modelled by small reviewed tables. No code of /repo is executed.")

CHECKS = {
 "C01": dict(tech="static analysis: sequence-confinement dataflow (SEQ) + resolved-value dataflow for reflect accessors (NF) on go/ssa + write-target provenance (W) restricted to the path machinery",
   text="Structural necessary conditions of the path law, decided for every program and input: no internal *sequence can be nested into or escape as a value, and every reflect accessor in the path machinery gets a resolved value. Behavioural content (order, flattening, singleton collapse) is not decided; level 'other' because this is a sound effect/typestate analysis of named clauses, not a behavioural proof. A purity clause (write-target provenance W restricted to the property's functions) excludes caches and other state between calls.",
   ref="DESIGN.md §3 SEQ, NF; §4 C01 (W)"),
 "C02": dict(tech="static analysis: resolved-value dataflow for reflect accessors (NF) on go/ssa + value-flow rule for the filtered list in evalPredicate (LISTFLOW) + write-target provenance (W) restricted to the predicate machinery",
   text="The NF clause of the predicate machinery for all programs/inputs: filter results and array items are resolved before Len/Index. LISTFLOW: each filter is applied to the step's value or the previous filter's survivor list, and only those are returned (successive predicates see the survivors). Index arithmetic and truth casting are value-level and not decided. A purity clause (write-target provenance W restricted to the property's functions) excludes caches and other state between calls.",
   ref="DESIGN.md §3 NF; §4 C02 (LISTFLOW, W)"),
 "C03": dict(tech="static analysis: finiteness bit-set dataflow with dominance guards (FIN), dominating-guard check (GUARD), CFG exclusivity (LAZY), enum/registration exhaustiveness (TAB), operator-table extraction from the SSA of the operator evaluators compared with the operators' meaning (OPTAB), W restricted to the operator evaluators",
   text="Four clauses of the operator contract visible in the code on every path: arithmetic results are finiteness-checked before becoming values, the range size limit (10,000,000) dominates the allocation, ?: evaluates exactly one branch, operator enums are dispatched exhaustively. The operator x kind x kind result table is not decided. OPTAB: every operator's case computes the operation of the property with the operands in order (+ - * / % = != < <= > >= in and or &), lt is strict, no arithmetic outside the cases. A purity clause (write-target provenance W restricted to the property's functions) excludes caches and other state between calls.",
   ref="DESIGN.md §3 FIN, GUARD, TAB; §4 C03, OPTAB"),
 "C04": dict(tech="static analysis: extraction of the Pratt parser's parameter set (AST + go/types + SSA patterns) compared with the precedence relation of the property + write-target provenance (W) under the Compile/Parse roots",
   text="For the language's token set the extracted parameters determine the parse of every operator chain, so the comparison covers all ordered operator pairs/triples at once. Representation changes of the tables make the extraction fail ('anchor lost') rather than pass. The optimize-time re-association of paths/predicates/groups is not decided. The parse is a function of the text (W under Compile: no state between parses).",
   ref="DESIGN.md §3 PRATT; §4 C04 (W)"),
 "C10": dict(tech="static analysis: SEQ confinement, FIN over every float-returning built-in and every float boxed under Eval, MARSHAL structural rules, flow of boxed reflect.Value handles into results (BOXVAL)",
   text="No internal type or non-finite number can become (part of) a result through the enumerated sinks; callables marshal as \"\"; built-in result types are JSON-closed; ErrUndefined has one producer under the !IsValid edge; EvalBytes is decode->Eval->encode with both errors checked. Deep JSON closure of arbitrary nested values is not decided.",
   ref="DESIGN.md §3 SEQ, FIN, MARSHAL; §4 C10"),
 "C11": dict(tech="static analysis: table comparison (escape table vs RFC 8259, keyword table, array-literal case) on AST + go/types; value-flow identity rule for literals on go/ssa (LIT); W under Compile and on the literal evaluators",
   text="Necessary conditions of 'JSON texts denote themselves' that are visible in the code: the escape and keyword tables; number literals are strconv.ParseFloat(text, 64) with the error tested, string literals unescape(text) with ok tested, negated literals fold by arithmetic negation (sign of zero kept), and literal nodes evaluate to exactly their stored value on every path; no cache or state in between. \\u decoding, surrogates and number scanning are not decided.",
   ref="DESIGN.md §3 TAB; §4 C11, LIT"),
 "C12": dict(tech="static analysis: scope-structure rules on SSA (SCOPE: fresh child frame per block/call, lexical parent, capture of definition-site env/context, parent link used only by lookup) + W restricted to callable.go, env.go and the evaluator functions that build or apply function values",
   text="The structural part of lexical scoping for all programs: frames, parents and captures are wired lexically, bind cannot reach an outer frame, and no per-call datum lives in a shared callable (the context-defaulting defect). Signature matching, placeholder order and chain semantics are value-level and not decided.",
   ref="DESIGN.md §3 SCOPE, W; §4 C12"),
 "C13": dict(tech="static analysis: who-may-call rule for sort functions under Eval, comparator strictness and slice freshness on go/ssa, merge-step shape (MERGE)",
   text="Stability-relevant structure for all inputs: only stable sorts, strict comparators, fresh slices, and a merge step that prefers the left run on ties. Sampled tests cannot see an unstable sort below 12 items. Ordering/permutation/error clauses as values are not decided.",
   ref="DESIGN.md §3 SORT; §4 C13"),
 "C14": dict(tech="static analysis: map-store discipline in groupItemsByKey on go/ssa (GROUP: comma-ok lookup of the same key dominates every store, absent edge or same-pair test; string key by construction), traversal-shape rule (COVER) and write-target provenance (W) restricted to the object machinery",
   text="Thin: necessary conditions of the object model that are visible in the code — a second pair producing an existing key reaches the duplicate-key error rather than overwriting, non-string keys reach the illegal-key error, the object functions traverse every member once, and nothing in the object machinery keeps state. The partition law, value evaluation over a group, $merge precedence and $lookup = field selection are value-level and not decided.",
   ref="DESIGN.md §3 GROUP, COVER, W; §5"),
 "C17": dict(tech="static analysis: writer/reader agreement of the match object's member names (KEYS), API-use rules for the regexp engine (all submatch indexes; Compile of the token text with the error tested), must-pass-through of checkMatchRanges before slicing, W restricted to the regex machinery",
   text="Thin: necessary conditions of the regex functions that are visible in the code. Agreement of offsets, groups and $N expansion with RE2 as values, flags and limits are not decided.",
   ref="DESIGN.md §3 KEYS, BND, W; §5"),
 "C15": dict(tech="static analysis: write-target provenance (W) restricted to the array/higher-order/aggregate built-ins, traversal-shape rule (COVER), interface-keyed map / printed-identity rule (HASH), FIN on the aggregates",
   text="The array, higher-order and aggregate built-ins build their results in memory of their own (no append into an argument's spare capacity, no in-place reversal), traverse the whole container in order (start at the first member, step one, bounded by the same container's length; reviewed exceptions for $reduce and $zip), $distinct's identity test cannot panic or conflate values by printed form, and the aggregates cannot return a non-finite number. Fold direction, permutation and the other definitional clauses as values are not decided.",
   ref="DESIGN.md §3 HASH, FIN; §4 C15, W, COVER"),
 "C16": dict(tech="static analysis: unit typing (rune-count vs byte-offset) of integers in the position arithmetic (UNIT) and codec pairing (CODEC) + W restricted to the string built-ins",
   text="Code-point vs byte indexing cannot be mixed in Substring/Pad/positionOfNthRune; encoder/decoder pairs use the same codec; $length is a code-point count. The string laws as equalities are not decided. A purity clause (write-target provenance W restricted to the property's functions) excludes caches and other state between calls.",
   ref="DESIGN.md §3 UNIT, CODEC; §4 C16, W"),
 "C05": dict(tech="static analysis: interprocedural write-target provenance (effect analysis W) over the module call graph under Eval/EvalBytes/String, plus a who-may-call rule for clock and random sources (CLOCK)",
   text="Repeatability is decided as a frame condition over ALL programs, inputs and histories: no write reachable from Eval targets memory that existed before the call (the AST, package variables, the Expr, shared built-in callables). This is exactly what the once-per-Expr tests cannot observe. One genuine defect remains and is recorded as a known finding (the transform operator writes through patterns that reach outside its copy). Map-iteration-order effects are sanctioned by the property and not decided.",
   ref="DESIGN.md §3 W, CLOCK; §4 C05"),
 "C06": dict(tech="static analysis: write-target provenance (W) separately under the Eval, Compile and package-level Register roots; must-hold lock-state dataflow and no-escape rule for the global registry (LOCK); syntactic no-goroutine/unsafe/atomic rule",
   text="Race freedom for all schedules follows from an effect argument, not from sampling interleavings: concurrent calls of the API share only memory that none of them writes, except the global registry, which is accessed only under its RWMutex and never leaves the critical section. The transform defect (writes to a shared input through $$) is a recorded known finding. Races inside user extensions are out of scope.",
   ref="DESIGN.md §3 W, LOCK; §4 C06"),
 "C07": dict(tech="static analysis: write-target provenance (W) for every in-place mutation reachable from Eval, incl. reflect.Set*/SetMapIndex/Append, append, sort, copy; deep-freshness of the transform's pattern context",
   text="Input immutability as a frame condition for all programs and inputs. Obligation (a) of the transform (pattern evaluated against a deep copy) holds; obligation (b) (mutations stay inside the copy) does not and is the recorded known finding with its failing input. That the transform result equals the specified copy is not decided.",
   ref="DESIGN.md §3 W; §4 C07"),
 "C08": dict(tech="static analysis: error-provenance dataflow in jparse (ERR), abstract interpretation of the lexer over a finite cursor/width-typestate/first-rune domain (LEX), loop-variant classification and recursion inventory under Compile (LOOP/REC), registration-vs-switch exhaustiveness and explicit-panic inventory (TAB/PANIC), MustCompile/Compile/Parse shape rules; native index/slice bounds (BND: the Go compiler's prove pass asked via -d=ssa/check_bce on the current tree, then a difference-constraint prover, then reviewed one-site exceptions); unchecked type assertions (TA)",
   text="The panic and hang classes of Compile that are visible in the shape of the code, for every input string: only *jparse.Error values with declared types leave the parser, the lexer never rewinds by a stale width and never returns an empty non-EOF token (for every first rune), every loop under Compile consumes a token/rune per cycle or has a counted/range variant, the 'unexpected ...' panics are unreachable. Runtime index/slice panics (e.g. the signature parser on an unmatched bracket) and stack depth are NOT decided, and the level note says so. BND/TA: no index, slice or type-assertion panic under Compile outside the reviewed invariants.",
   ref="DESIGN.md §3 ERR, LEX, LOOP, TAB; §4 C08, BND, TA"),
 "C09": dict(tech="static analysis: NF dataflow over all of reach(Eval), dispatch exhaustiveness (TAB), explicit-panic inventory, loop-variant classification and recursion inventory (LOOP/REC), dominating guards (GUARD), interface-keyed map rule (HASH); reflect.Value.Index bounds (IDX); native index/slice bounds (BND: compiler prove pass via -d=ssa/check_bce + difference-constraint prover + reviewed one-site exceptions); unchecked type assertions (TA); read-only struct-field values (RO); nil reflect.Type (NILTYPE); reflective stores that could make a value cyclic (ACYC); interprocedural kind-set dataflow for the preconditions of reflect.Value methods (KIND); synthesised zero values only for types that tolerate them (ZERO)",
   text="The crash and hang classes that are visible in the shape of the code, decided for every program and input over the module call graph under Eval: unresolved reflect accessors, missing dispatch cases, loops without a variant, unguarded integer division / radix / repeat count, unhashable map keys. The remaining panic classes (type assertions, Set on zero Values, nil interfaces, stack depth) are not decided and are listed as such. Added classes: index/slice bounds (IDX, BND), unchecked type assertions (TA), values of unexported struct fields used as data (RO), methods on reflect.TypeOf(nil) (NILTYPE), kind/validity preconditions of reflect.Value methods (KIND), and cycle creation through reflection (ACYC; the transform's update store is a known finding: `$count(($ ~> |$|{\"self\":$}|).**)` does not return).",
   ref="DESIGN.md §3 NF, TAB, LOOP, GUARD, HASH; §4 C09, IDX, BND, TA, RO, NILTYPE, ZERO, ACYC, KIND"),
 "C18": dict(tech="static analysis: loop-variant classification incl. positive multiplicative scaling (LOOP class M), FIN on the number built-ins, radix/repeat guards (GUARD) + W restricted to the number built-ins",
   text="Termination of every loop under the number formatting functions (the clause behind the $formatNumber hang), finiteness of $power/$sqrt/$round results, and the exact [2,36] radix guard. Rounding, shortest form and picture rendering are value-level and not decided. A purity clause (write-target provenance W restricted to the property's functions) excludes caches and other state between calls.",
   ref="DESIGN.md §3 LOOP, FIN, GUARD; §4 C18, W"),
 "C19": dict(tech="static analysis: table exhaustiveness (TAB), clock-source who-may-call rule and single-instant dataflow (CLOCK), API reachability (GUARD-API), dominating guards (GUARD) + W restricted to $fromMillis/$toMillis and the picture machinery",
   text="All 17 date components are dispatched and have defaults; one clock reading per Eval shared by $now/$millis; no 64-bit-nanosecond API on the $toMillis path; no unguarded integer division under $fromMillis. Calendar field values and the inverse law are not decided. A purity clause (write-target provenance W restricted to the property's functions) excludes caches and other state between calls.",
   ref="DESIGN.md §3 TAB, CLOCK, GUARD; §4 C19, W"),
 "C20": dict(tech="static analysis: must-pass-through (dominance) of validation before registry stores (REG), environment assembly order, lock discipline and no-escape of the global registry (LOCK), W under the two registration roots",
   text="Registration-time validation and registry visibility for all registration histories: entries are validated before they are stored, an Expr holds a per-key copy of the global registry taken under the lock at Compile time, method-level registration writes only the receiver's registry. The argument-conversion relation is value-level and not decided.",
   ref="DESIGN.md §3 REG, LOCK, W; §4 C20"),
}

NA = {
}
PENDING = "check under construction in this session (engine not finished yet); see DESIGN.md §4"

props=[json.loads(l)['id'] for l in open('/verif/properties.jsonl')]
m={"version":1,
 "setup_cmd":"mkdir -p /verif/bin && cd /verif/checker && GOFLAGS=-mod=mod GOPROXY=off GOSUMDB=off GOTOOLCHAIN=local GOWORK=off go build -o /verif/bin/verifcheck .",
 "hooks":{"guard":"verif","enable":"no hooks: the checker type-checks and analyses /repo's sources; nothing in /repo is built with a tag","baseline_off_cmd":"cd /repo && go test -count=1 ./...","source_commits":[],"add_only":True},
 "engines":[{"name":"verifcheck","path":"/verif/checker","serves_properties":sorted(CHECKS),"kind_free_text":"custom static analyser (go/packages + go/types + go/ssa, module-restricted call graph): rules NF, SEQ, FIN, W, LEX, ERR, LOOP, TAB, PRATT, GUARD, SORT, HASH, UNIT, CODEC, CLOCK, MARSHAL, LOCK, REG, SCOPE"}],
 "checks":[],
 "notes":"All claims are level 'other': each check is a static analysis of named structural clauses (necessary conditions) of its property, with obligations enumerated from /repo's current source on every run; none executes jsonata-go. Findings on the original tree were repaired by 'fix:' commits in /repo (see known_findings.json 'fixed').",
 "not_applicable":[]}
for p in props:
    if p in CHECKS:
        c=CHECKS[p]
        m["checks"].append({"property_id":p,"quick_cmd":"./run.sh %s quick"%p,"thorough_cmd":"./run.sh %s thorough"%p,
          "evidence_file":"/verif/evidence/%s.json"%p,"replay_cmd_template":"cat {path}","engine":"verifcheck",
          "level_claimed":{"category":"other","text":c["text"],"design_ref":c["ref"]},"level_note":LEVEL_NOTE,"technique":c["tech"]})
    else:
        m["not_applicable"].append({"property_id":p,"reason":NA.get(p,PENDING)})
json.dump(m,open('/verif/MANIFEST.json','w'),indent=1,ensure_ascii=False)
print(len(m["checks"]),"checks;",len(m["not_applicable"]),"not applicable")
