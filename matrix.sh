#!/bin/bash
# usage: matrix.sh <out-dir> <patch-dir>...
# For every directory holding a patch.diff: apply it to a fresh scratch worktree of /repo, run every
# property's rules in one process (verifcheck -prop all), and write <out-dir>/<name>.txt listing, per
# property, the findings that are not known findings. Worktrees are removed as soon as they are done.
export GOFLAGS=-mod=mod GOPROXY=off GOSUMDB=off GOTOOLCHAIN=local GOWORK=off
out=$1; shift
mkdir -p $out
one() {
  sd=$(realpath $1); name=$(basename $sd); out=$2
  wt=$(mktemp -d /tmp/mx.XXXXXX)
  git -C /repo worktree add --detach -q $wt/wt HEAD || { echo "$name: worktree failed" > $out/$name.txt; return; }
  if git -C $wt/wt apply $sd/patch.diff 2>$wt/err; then
    /verif/bin/verifcheck -prop all -repo $wt/wt -verif /verif -nofixtures -findings-out $wt/f > $wt/log 2>&1
    python3 - $wt/f > $out/$name.txt <<'PY'
import json,sys,glob,os
known=json.load(open('/verif/known_findings.json'))['known']
kk={(k['property'],k['rule']+':'+k['key']) for k in known}
for f in sorted(glob.glob(sys.argv[1]+'/*.json')):
    p=os.path.basename(f)[:-5]
    ids=json.load(open(f)) or []
    fresh=[i for i in ids if (p,i.split(' @ ')[0]) not in kk]
    for i in fresh: print(p, i[:400])
if not glob.glob(sys.argv[1]+'/*.json'): print("NO OUTPUT (load failed?)")
PY
  else
    echo "PATCH DOES NOT APPLY: $(cat $wt/err | head -3)" > $out/$name.txt
  fi
  git -C /repo worktree remove --force $wt/wt; rm -rf $wt
}
export -f one
printf '%s\n' "$@" | xargs -P 6 -I{} bash -c 'one {} '"$out"
