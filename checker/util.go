package main

import (
	"strconv"
	"strings"
)

func join(s []string) string      { return "[" + strings.Join(s, "; ") + "]" }
func itoa(i int) string           { return strconv.Itoa(i) }
func contains(s, sub string) bool { return strings.Contains(s, sub) }
