package main

import (
	"go/types"
	"sort"
	"strings"

	"golang.org/x/tools/go/ssa"
	"golang.org/x/tools/go/ssa/ssautil"
)

// MCG is the module-restricted call graph of DESIGN.md §2.2.
type MCG struct {
	W          *World
	Scope      PkgSet
	Funcs      []*ssa.Function                         // every function (incl. synthetic wrappers, closures) of Scope
	InSc       map[*ssa.Function]bool                  // membership
	Out        map[*ssa.Function][]Edge                // outgoing edges, callee in Scope
	Ext        map[*ssa.Function][]ExtCall             // calls that leave Scope (leaf callees)
	Sites      map[ssa.CallInstruction][]*ssa.Function // in-scope callees per call site
	Boxed      []*ssa.Function                         // in-scope functions boxed into an interface (reflect.Call targets)
	BoxedExt   []*ssa.Function                         // out-of-scope functions boxed into an interface
	AddrTaken  map[*ssa.Function]bool
	staticUse  map[*ssa.Function][]ssa.CallInstruction // direct call sites of each function (pass 1)
	boxedSet   map[*ssa.Function]bool
	paramSrc   map[*ssa.Parameter]map[*ssa.Function][]*ssa.Function
	named      []types.Type // named types of Scope (T and *T are both tried)
	boxedTypes map[types.Type]bool
}

type Edge struct {
	Site   ssa.CallInstruction // nil for synthetic edges
	Callee *ssa.Function
	Kind   string // static | invoke | dynamic | callback | reflect
	// Cond: for a call through a function-typed parameter, the functions whose call sites pass
	// this callee; the edge exists only when one of them is itself reachable (nil: unconditional)
	Cond []*ssa.Function
}

type ExtCall struct {
	Site   ssa.CallInstruction
	Callee *ssa.Function // nil if dynamic and unresolved
}

var callbackMethodNames = map[string]bool{
	"String": true, "Error": true, "MarshalJSON": true, "MarshalText": true, "UnmarshalJSON": true,
	"Len": true, "Less": true, "Swap": true, "Format": true, "GoString": true, "Unwrap": true, "Is": true,
}

func BuildMCG(w *World, scope PkgSet) *MCG {
	g := &MCG{W: w, Scope: scope, InSc: map[*ssa.Function]bool{}, Out: map[*ssa.Function][]Edge{},
		Ext: map[*ssa.Function][]ExtCall{}, Sites: map[ssa.CallInstruction][]*ssa.Function{},
		AddrTaken: map[*ssa.Function]bool{}, boxedTypes: map[types.Type]bool{}, staticUse: map[*ssa.Function][]ssa.CallInstruction{},
		paramSrc: map[*ssa.Parameter]map[*ssa.Function][]*ssa.Function{}}
	all := ssautil.AllFunctions(w.Prog)
	for fn := range all {
		if p := fnPkg(fn); p != nil && scope[p] {
			g.Funcs = append(g.Funcs, fn)
			g.InSc[fn] = true
		}
	}
	sort.Slice(g.Funcs, func(i, j int) bool {
		a, b := g.Funcs[i], g.Funcs[j]
		if a.String() != b.String() {
			return a.String() < b.String()
		}
		return a.Pos() < b.Pos()
	})
	// named types of the scope
	for p := range scope {
		sc := p.Scope()
		for _, n := range sc.Names() {
			if tn, ok := sc.Lookup(n).(*types.TypeName); ok && !tn.IsAlias() {
				if _, isIface := tn.Type().Underlying().(*types.Interface); isIface {
					continue
				}
				g.named = append(g.named, tn.Type())
			}
		}
	}
	sort.Slice(g.named, func(i, j int) bool { return g.named[i].String() < g.named[j].String() })

	// pass 1: address-taken functions, boxed functions, boxed types
	boxed := map[*ssa.Function]bool{}
	noteVal := func(v ssa.Value) {
		switch v := v.(type) {
		case *ssa.Function:
			g.AddrTaken[v] = true
		case *ssa.MakeClosure:
			if f, ok := v.Fn.(*ssa.Function); ok {
				g.AddrTaken[f] = true
			}
		}
	}
	for _, fn := range g.Funcs {
		for _, b := range fn.Blocks {
			for _, ins := range b.Instrs {
				var calleeVal ssa.Value
				if ci, ok := ins.(ssa.CallInstruction); ok {
					if !ci.Common().IsInvoke() {
						calleeVal = ci.Common().Value
						if sc := ci.Common().StaticCallee(); sc != nil {
							g.staticUse[sc] = append(g.staticUse[sc], ci)
						}
					}
				}
				for _, op := range ins.Operands(nil) {
					if *op == nil {
						continue
					}
					if *op == calleeVal {
						// the function in callee position is not address-taken by this use,
						// unless it is a closure (MakeClosure is an instruction of its own)
						continue
					}
					noteVal(*op)
				}
				if mc, ok := ins.(*ssa.MakeClosure); ok {
					noteVal(mc)
				}
				if mi, ok := ins.(*ssa.MakeInterface); ok {
					g.boxedTypes[mi.X.Type()] = true
					if _, isSig := mi.X.Type().Underlying().(*types.Signature); isSig {
						for _, f := range g.funcValues(mi.X, nil) {
							boxed[f] = true
						}
					}
				}
			}
		}
	}
	// a function value whose target set is "all address-taken with this signature" must be resolved after pass 1
	for _, fn := range g.Funcs {
		for _, b := range fn.Blocks {
			for _, ins := range b.Instrs {
				if mi, ok := ins.(*ssa.MakeInterface); ok {
					if _, isSig := mi.X.Type().Underlying().(*types.Signature); isSig {
						for _, f := range g.funcValues(mi.X, nil) {
							boxed[f] = true
						}
					}
				}
			}
		}
	}
	g.boxedSet = boxed
	for f := range boxed {
		if g.InSc[f] {
			g.Boxed = append(g.Boxed, f)
		} else {
			g.BoxedExt = append(g.BoxedExt, f)
		}
	}
	sortFns(g.Boxed)
	sortFns(g.BoxedExt)

	// pass 2: edges
	for _, fn := range g.Funcs {
		for _, b := range fn.Blocks {
			for _, ins := range b.Instrs {
				ci, ok := ins.(ssa.CallInstruction)
				if !ok {
					continue
				}
				g.addCallEdges(fn, ci)
			}
		}
	}
	return g
}

func sortFns(fs []*ssa.Function) {
	sort.Slice(fs, func(i, j int) bool {
		if fs[i].String() != fs[j].String() {
			return fs[i].String() < fs[j].String()
		}
		return fs[i].Pos() < fs[j].Pos()
	})
}

// funcValues resolves a func-typed SSA value to the functions it may denote.
func (g *MCG) funcValues(v ssa.Value, seen map[ssa.Value]bool) []*ssa.Function {
	if seen == nil {
		seen = map[ssa.Value]bool{}
	}
	if seen[v] {
		return nil
	}
	seen[v] = true
	switch v := v.(type) {
	case *ssa.Function:
		return []*ssa.Function{v}
	case *ssa.MakeClosure:
		if f, ok := v.Fn.(*ssa.Function); ok {
			return []*ssa.Function{f}
		}
	case *ssa.Phi:
		var out []*ssa.Function
		all := true
		for _, e := range v.Edges {
			if c, ok := e.(*ssa.Const); ok && c.IsNil() {
				continue
			}
			fs := g.funcValues(e, seen)
			if fs == nil {
				all = false
				break
			}
			out = append(out, fs...)
		}
		if all && len(out) > 0 {
			return out
		}
	case *ssa.ChangeType:
		return g.funcValues(v.X, seen)
	case *ssa.Const:
		return nil
	case *ssa.Parameter:
		// a function-typed parameter of an unexported plain function that is only ever called
		// directly: the values its call sites pass (each remembered with the calling function)
		if fs := g.paramFuncValues(v, seen); fs != nil {
			return fs
		}
	case *ssa.Call:
		// a function value returned by a statically known module function: the values it returns
		if callee := v.Call.StaticCallee(); callee != nil && len(callee.Blocks) > 0 && callee.Signature.Results().Len() == 1 {
			var out []*ssa.Function
			all := true
			for _, b := range callee.Blocks {
				for _, ins := range b.Instrs {
					if ret, ok := ins.(*ssa.Return); ok {
						if c, isC := ret.Results[0].(*ssa.Const); isC && c.IsNil() {
							continue
						}
						fs := g.funcValues(ret.Results[0], seen)
						if fs == nil {
							all = false
						}
						out = append(out, fs...)
					}
				}
			}
			if all && len(out) > 0 {
				sortFns(out)
				return out
			}
		}
	}
	// unknown origin: every address-taken function of identical signature
	sig, ok := v.Type().Underlying().(*types.Signature)
	if !ok {
		return nil
	}
	var out []*ssa.Function
	for f := range g.AddrTaken {
		if types.Identical(f.Signature, sig) {
			out = append(out, f)
		} else if len(f.FreeVars) > 0 || f.Signature.Recv() != nil {
			// bound-method closures: signature without receiver already (ssa strips it)
		}
	}
	sortFns(out)
	return out
}

// paramFuncValues: see funcValues. nil when the parameter's function can be called in a way the
// module does not show (exported, a method, address-taken, boxed) or an argument is unknown.
func (g *MCG) paramFuncValues(p *ssa.Parameter, seen map[ssa.Value]bool) []*ssa.Function {
	f := p.Parent()
	if f == nil || !g.InSc[f] || f.Signature.Recv() != nil || f.Parent() != nil || g.AddrTaken[f] || g.boxedSet[f] || g.boxedSet == nil {
		return nil
	}
	if obj := f.Object(); obj == nil || obj.Exported() {
		return nil
	}
	idx := -1
	for i, q := range f.Params {
		if q == p {
			idx = i
		}
	}
	sites := g.staticUse[f]
	if idx < 0 || len(sites) == 0 {
		return nil
	}
	src := map[*ssa.Function][]*ssa.Function{}
	var out []*ssa.Function
	for _, site := range sites {
		args := site.Common().Args
		if idx >= len(args) {
			return nil
		}
		if k, ok := args[idx].(*ssa.Const); ok && k.IsNil() {
			continue
		}
		sub := map[ssa.Value]bool{}
		for k, v := range seen {
			sub[k] = v
		}
		fs := g.funcValues(args[idx], sub)
		if fs == nil {
			return nil
		}
		for _, cf := range fs {
			if src[cf] == nil {
				out = append(out, cf)
			}
			src[cf] = append(src[cf], site.Parent())
		}
	}
	if len(out) == 0 {
		return nil
	}
	g.paramSrc[p] = src
	sortFns(out)
	return out
}

func (g *MCG) addEdge(from *ssa.Function, site ssa.CallInstruction, callee *ssa.Function, kind string) {
	if callee == nil {
		return
	}
	if !g.InSc[callee] {
		g.Ext[from] = append(g.Ext[from], ExtCall{site, callee})
		return
	}
	for _, e := range g.Out[from] {
		if e.Site == site && e.Callee == callee {
			return
		}
	}
	g.Out[from] = append(g.Out[from], Edge{Site: site, Callee: callee, Kind: kind})
	if site != nil && kind != "callback" && kind != "reflect" {
		// only edges whose arguments correspond positionally to the callee's parameters
		g.Sites[site] = append(g.Sites[site], callee)
	}
}

// implementations returns the in-scope methods that an invoke of iface.method can reach.
func (g *MCG) implementations(iface *types.Interface, m *types.Func) []*ssa.Function {
	var out []*ssa.Function
	for _, T := range g.named {
		for _, X := range []types.Type{T, types.NewPointer(T)} {
			if !types.Implements(X, iface) {
				continue
			}
			sel := g.W.Prog.MethodSets.MethodSet(X).Lookup(m.Pkg(), m.Name())
			if sel == nil {
				continue
			}
			if f := g.W.Prog.MethodValue(sel); f != nil {
				out = append(out, f)
			}
		}
	}
	return out
}

func isReflectValueMethod(f *ssa.Function, name string) bool {
	if f == nil || f.Signature.Recv() == nil || f.Name() != name {
		return false
	}
	return isNamed(f.Signature.Recv().Type(), "reflect", "Value")
}

func isNamed(t types.Type, pkg, name string) bool {
	if p, ok := t.(*types.Pointer); ok {
		t = p.Elem()
	}
	n, ok := t.(*types.Named)
	if !ok {
		return false
	}
	o := n.Obj()
	return o.Name() == name && o.Pkg() != nil && (o.Pkg().Path() == pkg || strings.HasSuffix(o.Pkg().Path(), "/"+pkg))
}

func (g *MCG) addCallEdges(from *ssa.Function, ci ssa.CallInstruction) {
	c := ci.Common()
	if c.IsInvoke() {
		iface, _ := c.Value.Type().Underlying().(*types.Interface)
		if iface != nil {
			impls := g.implementations(iface, c.Method)
			for _, f := range impls {
				g.addEdge(from, ci, f, "invoke")
			}
			if len(impls) == 0 {
				g.Ext[from] = append(g.Ext[from], ExtCall{ci, nil})
			}
		}
		return
	}
	if sc := c.StaticCallee(); sc != nil {
		g.addEdge(from, ci, sc, "static")
		if !g.InSc[sc] {
			g.addCallbackEdges(from, ci, sc)
		}
		return
	}
	if _, isBuiltin := c.Value.(*ssa.Builtin); isBuiltin {
		return
	}
	// dynamic call of a func value
	fs := g.funcValues(c.Value, nil)
	for _, f := range fs {
		g.addEdge(from, ci, f, "dynamic")
		if p, ok := c.Value.(*ssa.Parameter); ok && g.paramSrc[p] != nil && g.InSc[f] {
			for i := range g.Out[from] {
				if e := &g.Out[from][i]; e.Site == ci && e.Callee == f {
					e.Cond = g.paramSrc[p][f]
				}
			}
		}
	}
	if len(fs) == 0 {
		g.Ext[from] = append(g.Ext[from], ExtCall{ci, nil})
	}
}

// addCallbackEdges models what out-of-scope code may call back: func-typed arguments,
// well-known methods of boxed scope types, and — for reflect.Value.Call — boxed functions.
func (g *MCG) addCallbackEdges(from *ssa.Function, ci ssa.CallInstruction, ext *ssa.Function) {
	c := ci.Common()
	if isReflectValueMethod(ext, "Call") || isReflectValueMethod(ext, "CallSlice") {
		for _, f := range g.Boxed {
			g.addEdge(from, ci, f, "reflect")
		}
		for _, f := range g.BoxedExt {
			g.Ext[from] = append(g.Ext[from], ExtCall{ci, f})
		}
		return
	}
	passesBox := false
	for _, a := range c.Args {
		if _, ok := a.Type().Underlying().(*types.Signature); ok {
			for _, f := range g.funcValues(a, nil) {
				g.addEdge(from, ci, f, "callback")
			}
			continue
		}
		if mightCarryScopeValue(a.Type()) {
			passesBox = true
		}
	}
	if passesBox {
		for _, T := range g.named {
			for _, X := range []types.Type{T, types.NewPointer(T)} {
				ms := g.W.Prog.MethodSets.MethodSet(X)
				for i := 0; i < ms.Len(); i++ {
					sel := ms.At(i)
					if !callbackMethodNames[sel.Obj().Name()] {
						continue
					}
					if f := g.W.Prog.MethodValue(sel); f != nil {
						g.addEdge(from, ci, f, "callback")
					}
				}
			}
		}
	}
}

// mightCarryScopeValue: can a value of this static type hold a value of a scope type
// whose methods out-of-scope code could call? (interfaces, and containers of interfaces)
func mightCarryScopeValue(t types.Type) bool {
	switch u := t.Underlying().(type) {
	case *types.Interface:
		return true
	case *types.Slice:
		return mightCarryScopeValue(u.Elem())
	case *types.Array:
		return mightCarryScopeValue(u.Elem())
	case *types.Map:
		return mightCarryScopeValue(u.Elem()) || mightCarryScopeValue(u.Key())
	case *types.Pointer:
		return mightCarryScopeValue(u.Elem())
	case *types.Struct:
		// reflect.Value and friends: opaque carriers
		return true
	case *types.Named:
		return true
	}
	return false
}

// Reach computes the set reachable from roots together with a BFS parent map for path reporting.
type Reach struct {
	Set    map[*ssa.Function]bool
	Parent map[*ssa.Function]*ssa.Function
	Roots  []*ssa.Function
}

func (g *MCG) Reach(roots ...*ssa.Function) *Reach {
	r := &Reach{Set: map[*ssa.Function]bool{}, Parent: map[*ssa.Function]*ssa.Function{}, Roots: roots}
	var q []*ssa.Function
	for _, f := range roots {
		if f != nil && !r.Set[f] {
			r.Set[f] = true
			q = append(q, f)
		}
	}
	type held struct {
		from *ssa.Function
		e    Edge
	}
	var waiting []held // conditional edges whose passing call sites are not reached (yet)
	for {
		for len(q) > 0 {
			f := q[0]
			q = q[1:]
			for _, e := range g.Out[f] {
				if r.Set[e.Callee] {
					continue
				}
				if len(e.Cond) > 0 {
					active := false
					for _, src := range e.Cond {
						if r.Set[src] {
							active = true
						}
					}
					if !active {
						waiting = append(waiting, held{f, e})
						continue
					}
				}
				r.Set[e.Callee] = true
				r.Parent[e.Callee] = f
				q = append(q, e.Callee)
			}
			// anonymous functions are reachable with their parent only if referenced; MakeClosure
			// makes them address-taken, and a call edge is added where they are called.
		}
		var still []held
		for _, h := range waiting {
			if r.Set[h.e.Callee] {
				continue
			}
			active := false
			for _, src := range h.e.Cond {
				if r.Set[src] {
					active = true
				}
			}
			if active {
				r.Set[h.e.Callee] = true
				r.Parent[h.e.Callee] = h.from
				q = append(q, h.e.Callee)
			} else {
				still = append(still, h)
			}
		}
		waiting = still
		if len(q) == 0 {
			break
		}
	}
	return r
}

func (r *Reach) Path(f *ssa.Function) string {
	var parts []string
	for f != nil {
		parts = append([]string{shortFn(f)}, parts...)
		f = r.Parent[f]
		if len(parts) > 40 {
			break
		}
	}
	return strings.Join(parts, " -> ")
}

func (r *Reach) Sorted() []*ssa.Function {
	var out []*ssa.Function
	for f := range r.Set {
		out = append(out, f)
	}
	sortFns(out)
	return out
}

// Fn looks up a package-level function or method by short name: "jsonata.eval",
// "jsonata.(*Expr).Eval", "jlib.Sum".
func (w *World) Fn(name string) *ssa.Function {
	dot := strings.Index(name, ".")
	pkgShort, rest := name[:dot], name[dot+1:]
	sp := w.LibSSA[pkgShort]
	if sp == nil {
		sp = w.FixSSA[pkgShort]
	}
	if sp == nil {
		return nil
	}
	if strings.HasPrefix(rest, "(") {
		// (*T).M or (T).M
		end := strings.Index(rest, ")")
		tn := rest[1:end]
		m := rest[end+2:]
		ptr := strings.HasPrefix(tn, "*")
		tn = strings.TrimPrefix(tn, "*")
		obj, _ := sp.Pkg.Scope().Lookup(tn).(*types.TypeName)
		if obj == nil {
			return nil
		}
		var T types.Type = obj.Type()
		if ptr {
			T = types.NewPointer(T)
		}
		sel := w.Prog.MethodSets.MethodSet(T).Lookup(sp.Pkg, m)
		if sel == nil {
			return nil
		}
		return w.Prog.MethodValue(sel)
	}
	return sp.Func(rest)
}
