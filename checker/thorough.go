package main

import (
	"encoding/json"
	"fmt"
	"os"
	"os/exec"
	"path/filepath"
	"sort"
	"strings"
	"sync"

	"golang.org/x/tools/go/callgraph/cha"
	"golang.org/x/tools/go/callgraph/vta"
	"golang.org/x/tools/go/ssa/ssautil"
)

// The thorough tier repeats the property's analysis under GOARCH=386 (identical findings
// required), cross-checks the module call graph against x/tools' VTA graph (every M x M edge
// VTA finds must be an MCG edge), and runs the property's part of the mutant catalogue: each
// mutant is a semantic patch applied to a scratch copy of the CURRENT /repo (removed right
// after), which must still type-check and must make the check report a finding that names the
// mutated construct. A mutant whose pattern no longer applies is reported as skipped.

type mutant struct {
	Name   string
	Props  []string
	File   string
	Old    string
	New    string
	Expect []string // substrings; one finding ID must contain each
}

func runThorough(c *Ctx, r *Result, p *propDef, repo, verif string) {
	// 1. VTA ⊆ MCG
	crossCheckVTA(c, r)
	// 2. GOARCH=386
	self, err := os.Executable()
	if err != nil {
		r.LoseAnchor("thorough: cannot locate own executable: %v", err)
		return
	}
	tmp, err := os.MkdirTemp("", "verifthorough")
	if err != nil {
		r.LoseAnchor("thorough: %v", err)
		return
	}
	defer os.RemoveAll(tmp)
	mine := map[string]bool{}
	for _, o := range r.Obls {
		if o.Verdict == Finding || o.Verdict == Undecided {
			mine[o.ID()] = true
		}
	}
	ids386, err := subRun(self, p.ID, repo, tmp, "386", "arch386")
	if err != nil {
		r.LoseAnchor("thorough: GOARCH=386 run failed: %v", err)
	} else {
		got := map[string]bool{}
		for _, id := range ids386 {
			got[strings.SplitN(id, " @ ", 2)[0]] = true
		}
		same := len(got) == len(mine)
		for id := range mine {
			if !got[id] {
				same = false
			}
		}
		if same {
			r.Note("thorough: GOARCH=386 re-analysis gives the identical set of %d findings", len(mine))
			r.Count("thorough GOARCH=386 findings", len(got))
		} else {
			r.LoseAnchor("thorough: findings differ between the default architecture (%d) and GOARCH=386 (%d)", len(mine), len(got))
		}
	}
	// 3. mutants
	var todo []mutant
	for _, m := range mutantCatalogue {
		for _, id := range m.Props {
			if id == p.ID {
				todo = append(todo, m)
			}
		}
	}
	results := make([]MutantOutcome, len(todo))
	var wg sync.WaitGroup
	sem := make(chan struct{}, 8)
	for i, m := range todo {
		wg.Add(1)
		go func(i int, m mutant) {
			defer wg.Done()
			sem <- struct{}{}
			defer func() { <-sem }()
			results[i] = runMutant(self, p.ID, repo, tmp, m, mine)
		}(i, m)
	}
	wg.Wait()
	r.Mutants = append(r.Mutants, results...)
}

func subRun(self, prop, repo, tmp, arch, tag string) ([]string, error) {
	out := filepath.Join(tmp, tag+".json")
	vdir := filepath.Join(tmp, "verif-"+tag)
	os.MkdirAll(vdir, 0o755)
	args := []string{"-prop", prop, "-repo", repo, "-verif", vdir, "-nofixtures", "-findings-out", out}
	if arch != "" {
		args = append(args, "-goarch", arch)
	}
	cmd := exec.Command(self, args...)
	cmd.Env = os.Environ()
	b, err := cmd.CombinedOutput()
	if err != nil {
		return nil, fmt.Errorf("%v: %s", err, lastLines(string(b), 5))
	}
	data, err := os.ReadFile(out)
	if err != nil {
		return nil, fmt.Errorf("no findings file: %s", lastLines(string(b), 5))
	}
	var ids []string
	if err := json.Unmarshal(data, &ids); err != nil {
		return nil, err
	}
	return ids, nil
}

func lastLines(s string, n int) string {
	ls := strings.Split(strings.TrimSpace(s), "\n")
	if len(ls) > n {
		ls = ls[len(ls)-n:]
	}
	return strings.Join(ls, " | ")
}

func runMutant(self, prop, repo, tmp string, m mutant, baseline map[string]bool) MutantOutcome {
	res := MutantOutcome{Name: m.Name}
	src, err := os.ReadFile(filepath.Join(repo, m.File))
	if err != nil {
		res.Status, res.Note = "skipped", "file not found: "+m.File
		return res
	}
	if strings.Count(string(src), m.Old) < 1 {
		res.Status, res.Note = "skipped", "pattern no longer present in "+m.File
		return res
	}
	dir, err := os.MkdirTemp("", "verifmutant")
	if err != nil {
		res.Status, res.Note = "builderror", err.Error()
		return res
	}
	defer os.RemoveAll(dir)
	scratch := filepath.Join(dir, "repo")
	if err := copyRepo(repo, scratch); err != nil {
		res.Status, res.Note = "builderror", "copy: "+err.Error()
		return res
	}
	mutated := strings.Replace(string(src), m.Old, m.New, 1)
	// a mutant that brings a call into a package the file does not import yet
	for _, pkg := range []string{"errors", "sort"} {
		if strings.Contains(m.New, pkg+".") && !strings.Contains(m.Old, pkg+".") && !strings.Contains(mutated, "\""+pkg+"\"") {
			mutated = strings.Replace(mutated, "import (", "import (\n\t\""+pkg+"\"", 1)
		}
	}
	if err := os.WriteFile(filepath.Join(scratch, m.File), []byte(mutated), 0o644); err != nil {
		res.Status, res.Note = "builderror", err.Error()
		return res
	}
	ids, err := subRun(self, prop, scratch, dir, "", "m")
	if err != nil {
		res.Status, res.Note = "builderror", err.Error()
		return res
	}
	var fresh []string
	for _, id := range ids {
		key := strings.SplitN(id, " @ ", 2)[0]
		if !baseline[key] {
			fresh = append(fresh, id)
		}
	}
	sort.Strings(fresh)
	res.Findings = fresh
	if len(res.Findings) > 6 {
		res.Findings = append(res.Findings[:6], fmt.Sprintf("... (%d findings)", len(fresh)))
	}
	ok := len(fresh) > 0
	for _, want := range m.Expect {
		found := false
		for _, id := range fresh {
			if strings.Contains(id, want) {
				found = true
			}
		}
		if !found {
			ok = false
			res.Note = "no finding names " + want
		}
	}
	if ok {
		res.Status = "killed"
	} else {
		res.Status = "survived"
	}
	return res
}

func copyRepo(src, dst string) error {
	return filepath.Walk(src, func(p string, info os.FileInfo, err error) error {
		if err != nil {
			return err
		}
		rel, _ := filepath.Rel(src, p)
		if rel == ".git" || strings.HasPrefix(rel, ".git"+string(filepath.Separator)) {
			if info.IsDir() {
				return filepath.SkipDir
			}
			return nil
		}
		out := filepath.Join(dst, rel)
		if info.IsDir() {
			return os.MkdirAll(out, 0o755)
		}
		if !info.Mode().IsRegular() {
			return nil
		}
		b, err := os.ReadFile(p)
		if err != nil {
			return err
		}
		return os.WriteFile(out, b, 0o644)
	})
}

// crossCheckVTA: every edge between two module functions in x/tools' VTA call graph must be an
// edge of the module call graph (soundness cross-check of the MCG construction).
func crossCheckVTA(c *Ctx, r *Result) {
	all := ssautil.AllFunctions(c.W.Prog)
	g := vta.CallGraph(all, cha.CallGraph(c.W.Prog))
	edges, missing := 0, 0
	var examples []string
	for fn, node := range g.Nodes {
		if fn == nil || !c.G.InSc[fn] {
			continue
		}
		for _, e := range node.Out {
			callee := e.Callee.Func
			if callee == nil || !c.G.InSc[callee] {
				continue
			}
			edges++
			found := false
			for _, me := range c.G.Out[fn] {
				if me.Callee == callee {
					found = true
					break
				}
			}
			if !found {
				missing++
				if len(examples) < 5 {
					examples = append(examples, shortFn(fn)+" -> "+shortFn(callee))
				}
			}
		}
	}
	r.Count("thorough VTA module edges cross-checked", edges)
	if missing > 0 {
		r.LoseAnchor("thorough: %d call edges found by VTA are missing from the module call graph (e.g. %v): the reach sets may be unsound", missing, examples)
	} else {
		r.Note("thorough: all %d module-to-module call edges of x/tools' VTA graph are edges of the module call graph", edges)
	}
}
