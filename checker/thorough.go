package main

func runThorough(c *Ctx, r *Result, p *propDef, repo, verif string) {}
