package main

import (
	"fmt"
	"go/token"
	"go/types"

	"golang.org/x/tools/go/ssa"
)

// ---------------------------------------------------------------------------------------
// RO — values read from struct fields (C09).
//
// reflect marks a Value obtained from an unexported struct field read-only: Interface, Set,
// Append, Call, SetMapIndex ... panic when given one, and the mark is inherited by everything
// reached through it. Input data may be Go structs and every built-in function value is a
// struct with unexported fields, so `$sum.params[0]` or `$sum.*` reach such values. Rule: the
// result of Value.Field/FieldByName/FieldByIndex/FieldByNameFunc may only be inspected
// (IsValid, CanInterface, Kind, Type) until a test has shown it usable: every other use lies
// on the true edge of CanInterface() of that value, or after `t.Field(i).PkgPath == ""` for the
// same index.

var roSources = map[string]bool{"reflect.Value.Field": true, "reflect.Value.FieldByName": true, "reflect.Value.FieldByIndex": true, "reflect.Value.FieldByNameFunc": true}
var roInspect = map[string]bool{"reflect.Value.IsValid": true, "reflect.Value.CanInterface": true, "reflect.Value.Kind": true, "reflect.Value.Type": true}

// exportedGuard: cond is `<t.Field(idx)>.PkgPath == ""` (succ 0) or `!= ""` (succ 1).
func exportedGuard(cond ssa.Value, idx ssa.Value) (int, bool) {
	bo, ok := cond.(*ssa.BinOp)
	if !ok || (bo.Op != token.EQL && bo.Op != token.NEQ) {
		return 0, false
	}
	var s ssa.Value
	switch {
	case isEmptyStringConst(bo.Y):
		s = bo.X
	case isEmptyStringConst(bo.X):
		s = bo.Y
	default:
		return 0, false
	}
	isPkgPathOf := func(v ssa.Value) bool {
		// Field #? "PkgPath" of a reflect.StructField value (or a load of its spill)
		var base ssa.Value
		switch x := v.(type) {
		case *ssa.Field:
			if fieldName(x.X.Type(), x.Field) != "PkgPath" {
				return false
			}
			base = x.X
		case *ssa.UnOp:
			fa, ok := x.X.(*ssa.FieldAddr)
			if x.Op != token.MUL || !ok || fieldName(fa.X.Type(), fa.Field) != "PkgPath" {
				return false
			}
			al, ok := fa.X.(*ssa.Alloc)
			if !ok {
				return false
			}
			for _, r := range *al.Referrers() {
				if st, ok := r.(*ssa.Store); ok && st.Addr == ssa.Value(al) {
					base = st.Val
				}
			}
		default:
			return false
		}
		if u, ok := base.(*ssa.UnOp); ok && u.Op == token.MUL {
			if al, ok := u.X.(*ssa.Alloc); ok {
				for _, r := range *al.Referrers() {
					if st, ok := r.(*ssa.Store); ok && st.Addr == ssa.Value(al) {
						base = st.Val
					}
				}
			}
		}
		call, ok := base.(*ssa.Call)
		if !ok || !call.Call.IsInvoke() || call.Call.Method.Name() != "Field" || len(call.Call.Args) != 1 {
			return false
		}
		return call.Call.Args[0] == idx
	}
	if !isPkgPathOf(s) {
		return 0, false
	}
	if bo.Op == token.EQL {
		return 0, true
	}
	return 1, true
}

func isEmptyStringConst(v ssa.Value) bool {
	k, ok := v.(*ssa.Const)
	return ok && k.Value != nil && isStringType(k.Type()) && constantString(k) == ""
}

func runRO(c *Ctx, r *Result, rule string, fns []*ssa.Function, reach *Reach) int {
	n := 0
	for _, f := range fns {
		ord := 0
		for _, ins := range instrsIn(f) {
			src, ok := ins.(*ssa.Call)
			if !ok || !roSources[staticName(src)] {
				continue
			}
			ord++
			n++
			o := Obligation{Rule: rule, Key: fmt.Sprintf("%s:%s#%d", shortFn(f), src.Call.StaticCallee().Name(), ord), Fn: shortFn(f), Pos: c.W.Pos(src.Pos()), Nontrivial: true}
			var idx ssa.Value
			if src.Call.StaticCallee().Name() == "Field" {
				idx = src.Call.Args[1]
			}
			guarded := func(b *ssa.BasicBlock, v ssa.Value) bool {
				return domGuard(b, func(cond ssa.Value) (int, bool) {
					if call, ok := cond.(*ssa.Call); ok && staticName(call) == "reflect.Value.CanInterface" && call.Call.Args[0] == v {
						return 0, true
					}
					if idx != nil {
						return exportedGuard(cond, idx)
					}
					return 0, false
				})
			}
			bad := ""
			seen := map[ssa.Value]bool{}
			var check func(v ssa.Value)
			check = func(v ssa.Value) {
				if seen[v] || bad != "" {
					return
				}
				seen[v] = true
				refs := v.Referrers()
				if refs == nil {
					return
				}
				for _, rf := range *refs {
					switch u := rf.(type) {
					case *ssa.DebugRef:
						continue
					case *ssa.Call:
						if roInspect[staticName(u)] && u.Call.Args[0] == v {
							continue
						}
						if !guarded(u.Block(), v) {
							bad = "used by " + u.String() + " without a dominating CanInterface test"
						}
					case *ssa.Phi:
						for i, e := range u.Edges {
							if e == v && !guarded(u.Block().Preds[i], v) {
								// the merged value carries the mark: it must obey the rule itself
								check(u)
							}
						}
					default:
						if ui, ok := rf.(ssa.Instruction); ok && !guarded(ui.Block(), v) {
							bad = "used by " + ui.String() + " without a dominating CanInterface test"
						}
					}
				}
			}
			check(src)
			if bad == "" {
				o.Verdict, o.Reason = Discharged, "the field value is only inspected (IsValid/CanInterface/Kind/Type) until a CanInterface test (or the PkgPath test of the same field) has shown it is not read-only"
			} else {
				o.Verdict, o.Reason = Finding, "value of a struct field that may be unexported is "+bad+": reflect panics when a read-only value is used as data"
				if reach != nil {
					o.Path = reach.Path(f)
				}
			}
			r.Add(o)
		}
	}
	return n
}

// ---------------------------------------------------------------------------------------
// NILTYPE — reflect.TypeOf(x) is a nil Type for a nil interface x; calling a method on it
// dereferences nil (C09).

func runNILTYPE(c *Ctx, r *Result, rule string, fns []*ssa.Function, reach *Reach) int {
	n := 0
	for _, f := range fns {
		ord := 0
		for _, ins := range instrsIn(f) {
			call, ok := ins.(*ssa.Call)
			if !ok || staticName(call) != "reflect.TypeOf" {
				continue
			}
			// only when a method is called on the result
			used := false
			if refs := call.Referrers(); refs != nil {
				for _, rf := range *refs {
					if u, ok := rf.(*ssa.Call); ok && u.Call.IsInvoke() && u.Call.Value == ssa.Value(call) {
						used = true
					}
				}
			}
			if !used {
				continue
			}
			ord++
			n++
			o := Obligation{Rule: rule, Key: fmt.Sprintf("%s:TypeOf#%d", shortFn(f), ord), Fn: shortFn(f), Pos: c.W.Pos(call.Pos()), Nontrivial: true}
			x := call.Call.Args[0]
			why := ""
			switch a := x.(type) {
			case *ssa.MakeInterface:
				if _, isIface := a.X.Type().Underlying().(*types.Interface); !isIface {
					why = "the argument boxes a value of the concrete type " + shortType(a.X.Type())
				}
			}
			if why == "" && domGuard(call.Block(), func(cond ssa.Value) (int, bool) {
				bo, ok := cond.(*ssa.BinOp)
				if !ok || (bo.Op != token.EQL && bo.Op != token.NEQ) {
					return 0, false
				}
				var other ssa.Value
				switch {
				case bo.X == x:
					other = bo.Y
				case bo.Y == x:
					other = bo.X
				default:
					return 0, false
				}
				if k, ok := other.(*ssa.Const); !ok || !k.IsNil() {
					return 0, false
				}
				if bo.Op == token.NEQ {
					return 0, true
				}
				return 1, true
			}) {
				why = "dominated by a test that the argument is not nil"
			}
			if why == "" {
				if ex, ok := x.(*ssa.Extract); ok && ex.Index == 0 {
					if cl, ok := ex.Tuple.(*ssa.Call); ok {
						if callee := cl.Call.StaticCallee(); callee != nil && len(callee.Blocks) > 0 && boxesConcrete(callee) && errNilDominates(cl, call.Block()) {
							why = "the argument is the first result of " + shortFn(callee) + ", whose every success return boxes a concrete (non-interface) value, and its error was tested nil"
						}
					}
				}
			}
			if why != "" {
				o.Verdict, o.Reason = Discharged, why
			} else {
				o.Verdict, o.Reason = Finding, "a method is called on reflect.TypeOf(x) where x may be a nil interface: reflect.TypeOf(nil) is a nil Type and the call dereferences it"
				if reach != nil {
					o.Path = reach.Path(f)
				}
			}
			r.Add(o)
		}
	}
	return n
}

// boxesConcrete: every success return of f returns, as first result, a MakeInterface of a
// non-interface type (so the interface is never nil).
func boxesConcrete(f *ssa.Function) bool {
	for _, b := range f.Blocks {
		ret, ok := b.Instrs[len(b.Instrs)-1].(*ssa.Return)
		if !ok {
			continue
		}
		if len(ret.Results) != 2 {
			return false
		}
		if !isSuccessReturn(ret) {
			continue
		}
		if !concreteBox(ret.Results[0], map[ssa.Value]bool{}) {
			return false
		}
	}
	return true
}

func concreteBox(v ssa.Value, seen map[ssa.Value]bool) bool {
	if seen[v] {
		return true
	}
	seen[v] = true
	switch x := v.(type) {
	case *ssa.MakeInterface:
		_, isIface := x.X.Type().Underlying().(*types.Interface)
		return !isIface
	case *ssa.ChangeInterface:
		return concreteBox(x.X, seen)
	case *ssa.Phi:
		for _, e := range x.Edges {
			if !concreteBox(e, seen) {
				return false
			}
		}
		return true
	}
	return false
}
