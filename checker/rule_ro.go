package main

import (
	"fmt"
	"go/token"
	"go/types"

	"golang.org/x/tools/go/ssa"
)

// ---------------------------------------------------------------------------------------
// RO — values read from struct fields (C09).
//
// reflect marks a Value obtained from an unexported struct field read-only: Interface, Set,
// Append, Call, SetMapIndex ... panic when given one, and the mark is inherited by everything
// reached through it. Input data may be Go structs and every built-in function value is a
// struct with unexported fields, so `$sum.params[0]` or `$sum.*` reach such values. Rule: the
// result of Value.Field/FieldByName/FieldByIndex/FieldByNameFunc may only be inspected
// (IsValid, CanInterface, Kind, Type) until a test has shown it usable: every other use lies
// on the true edge of CanInterface() of that value, or after `t.Field(i).PkgPath == ""` for the
// same index.

var roSources = map[string]bool{"reflect.Value.Field": true, "reflect.Value.FieldByName": true, "reflect.Value.FieldByIndex": true, "reflect.Value.FieldByNameFunc": true}
var roInspect = map[string]bool{"reflect.Value.IsValid": true, "reflect.Value.CanInterface": true, "reflect.Value.Kind": true, "reflect.Value.Type": true}

// exportedGuard: cond is `<t.Field(idx)>.PkgPath == ""` (succ 0) or `!= ""` (succ 1).
func exportedGuard(cond ssa.Value, idx ssa.Value) (int, bool) {
	bo, ok := cond.(*ssa.BinOp)
	if !ok || (bo.Op != token.EQL && bo.Op != token.NEQ) {
		return 0, false
	}
	var s ssa.Value
	switch {
	case isEmptyStringConst(bo.Y):
		s = bo.X
	case isEmptyStringConst(bo.X):
		s = bo.Y
	default:
		return 0, false
	}
	isPkgPathOf := func(v ssa.Value) bool {
		// Field #? "PkgPath" of a reflect.StructField value (or a load of its spill)
		var base ssa.Value
		switch x := v.(type) {
		case *ssa.Field:
			if fieldName(x.X.Type(), x.Field) != "PkgPath" {
				return false
			}
			base = x.X
		case *ssa.UnOp:
			fa, ok := x.X.(*ssa.FieldAddr)
			if x.Op != token.MUL || !ok || fieldName(fa.X.Type(), fa.Field) != "PkgPath" {
				return false
			}
			al, ok := fa.X.(*ssa.Alloc)
			if !ok {
				return false
			}
			for _, r := range *al.Referrers() {
				if st, ok := r.(*ssa.Store); ok && st.Addr == ssa.Value(al) {
					base = st.Val
				}
			}
		default:
			return false
		}
		if u, ok := base.(*ssa.UnOp); ok && u.Op == token.MUL {
			if al, ok := u.X.(*ssa.Alloc); ok {
				for _, r := range *al.Referrers() {
					if st, ok := r.(*ssa.Store); ok && st.Addr == ssa.Value(al) {
						base = st.Val
					}
				}
			}
		}
		call, ok := base.(*ssa.Call)
		if !ok || !call.Call.IsInvoke() || call.Call.Method.Name() != "Field" || len(call.Call.Args) != 1 {
			return false
		}
		return call.Call.Args[0] == idx
	}
	if !isPkgPathOf(s) {
		return 0, false
	}
	if bo.Op == token.EQL {
		return 0, true
	}
	return 1, true
}

func isEmptyStringConst(v ssa.Value) bool {
	k, ok := v.(*ssa.Const)
	return ok && k.Value != nil && isStringType(k.Type()) && constantString(k) == ""
}

func runRO(c *Ctx, r *Result, rule string, fns []*ssa.Function, reach *Reach) int {
	n := 0
	for _, f := range fns {
		ord := 0
		for _, ins := range instrsIn(f) {
			src, ok := ins.(*ssa.Call)
			if !ok || !roSources[staticName(src)] {
				continue
			}
			ord++
			n++
			o := Obligation{Rule: rule, Key: fmt.Sprintf("%s:%s#%d", shortFn(f), src.Call.StaticCallee().Name(), ord), Fn: shortFn(f), Pos: c.W.Pos(src.Pos()), Nontrivial: true}
			var idx ssa.Value
			if src.Call.StaticCallee().Name() == "Field" {
				idx = src.Call.Args[1]
			}
			guarded := func(b *ssa.BasicBlock, v ssa.Value) bool {
				return domGuard(b, func(cond ssa.Value) (int, bool) {
					if call, ok := cond.(*ssa.Call); ok && staticName(call) == "reflect.Value.CanInterface" && call.Call.Args[0] == v {
						return 0, true
					}
					if idx != nil {
						return exportedGuard(cond, idx)
					}
					return 0, false
				})
			}
			bad := ""
			seen := map[ssa.Value]bool{}
			var check func(v ssa.Value)
			check = func(v ssa.Value) {
				if seen[v] || bad != "" {
					return
				}
				seen[v] = true
				refs := v.Referrers()
				if refs == nil {
					return
				}
				for _, rf := range *refs {
					switch u := rf.(type) {
					case *ssa.DebugRef:
						continue
					case *ssa.Call:
						if roInspect[staticName(u)] && u.Call.Args[0] == v {
							continue
						}
						if !guarded(u.Block(), v) {
							bad = "used by " + u.String() + " without a dominating CanInterface test"
						}
					case *ssa.Phi:
						for i, e := range u.Edges {
							if e == v && !guarded(u.Block().Preds[i], v) {
								// the merged value carries the mark: it must obey the rule itself
								check(u)
							}
						}
					default:
						if ui, ok := rf.(ssa.Instruction); ok && !guarded(ui.Block(), v) {
							bad = "used by " + ui.String() + " without a dominating CanInterface test"
						}
					}
				}
			}
			check(src)
			if bad == "" {
				o.Verdict, o.Reason = Discharged, "the field value is only inspected (IsValid/CanInterface/Kind/Type) until a CanInterface test (or the PkgPath test of the same field) has shown it is not read-only"
			} else {
				o.Verdict, o.Reason = Finding, "value of a struct field that may be unexported is "+bad+": reflect panics when a read-only value is used as data"
				if reach != nil {
					o.Path = reach.Path(f)
				}
			}
			r.Add(o)
		}
	}
	return n
}

// ---------------------------------------------------------------------------------------
// NILTYPE — reflect.TypeOf(x) is a nil Type for a nil interface x; calling a method on it
// dereferences nil (C09).

func runNILTYPE(c *Ctx, r *Result, rule string, fns []*ssa.Function, reach *Reach) int {
	n := 0
	for _, f := range fns {
		ord := 0
		for _, ins := range instrsIn(f) {
			call, ok := ins.(*ssa.Call)
			if !ok || staticName(call) != "reflect.TypeOf" {
				continue
			}
			// only when a method is called on the result
			used := false
			if refs := call.Referrers(); refs != nil {
				for _, rf := range *refs {
					if u, ok := rf.(*ssa.Call); ok && u.Call.IsInvoke() && u.Call.Value == ssa.Value(call) {
						used = true
					}
				}
			}
			if !used {
				continue
			}
			ord++
			n++
			o := Obligation{Rule: rule, Key: fmt.Sprintf("%s:TypeOf#%d", shortFn(f), ord), Fn: shortFn(f), Pos: c.W.Pos(call.Pos()), Nontrivial: true}
			x := call.Call.Args[0]
			why := ""
			switch a := x.(type) {
			case *ssa.MakeInterface:
				if _, isIface := a.X.Type().Underlying().(*types.Interface); !isIface {
					why = "the argument boxes a value of the concrete type " + shortType(a.X.Type())
				}
			}
			if why == "" && domGuard(call.Block(), func(cond ssa.Value) (int, bool) {
				bo, ok := cond.(*ssa.BinOp)
				if !ok || (bo.Op != token.EQL && bo.Op != token.NEQ) {
					return 0, false
				}
				var other ssa.Value
				switch {
				case bo.X == x:
					other = bo.Y
				case bo.Y == x:
					other = bo.X
				default:
					return 0, false
				}
				if k, ok := other.(*ssa.Const); !ok || !k.IsNil() {
					return 0, false
				}
				if bo.Op == token.NEQ {
					return 0, true
				}
				return 1, true
			}) {
				why = "dominated by a test that the argument is not nil"
			}
			if why == "" {
				if ex, ok := x.(*ssa.Extract); ok && ex.Index == 0 {
					if cl, ok := ex.Tuple.(*ssa.Call); ok {
						if callee := cl.Call.StaticCallee(); callee != nil && len(callee.Blocks) > 0 && boxesConcrete(callee) && errNilDominates(cl, call.Block()) {
							why = "the argument is the first result of " + shortFn(callee) + ", whose every success return boxes a concrete (non-interface) value, and its error was tested nil"
						}
					}
				}
			}
			if why != "" {
				o.Verdict, o.Reason = Discharged, why
			} else {
				o.Verdict, o.Reason = Finding, "a method is called on reflect.TypeOf(x) where x may be a nil interface: reflect.TypeOf(nil) is a nil Type and the call dereferences it"
				if reach != nil {
					o.Path = reach.Path(f)
				}
			}
			r.Add(o)
		}
	}
	return n
}

// boxesConcrete: every success return of f returns, as first result, a MakeInterface of a
// non-interface type (so the interface is never nil).
func boxesConcrete(f *ssa.Function) bool {
	for _, b := range f.Blocks {
		ret, ok := b.Instrs[len(b.Instrs)-1].(*ssa.Return)
		if !ok {
			continue
		}
		if len(ret.Results) != 2 {
			return false
		}
		if !isSuccessReturn(ret) {
			continue
		}
		if !concreteBox(ret.Results[0], map[ssa.Value]bool{}) {
			return false
		}
	}
	return true
}

func concreteBox(v ssa.Value, seen map[ssa.Value]bool) bool {
	if seen[v] {
		return true
	}
	seen[v] = true
	switch x := v.(type) {
	case *ssa.MakeInterface:
		_, isIface := x.X.Type().Underlying().(*types.Interface)
		return !isIface
	case *ssa.ChangeInterface:
		return concreteBox(x.X, seen)
	case *ssa.Phi:
		for _, e := range x.Edges {
			if !concreteBox(e, seen) {
				return false
			}
		}
		return true
	}
	return false
}

// ---------------------------------------------------------------------------------------
// BOXVAL — a reflect.Value is a handle, not data (C10). Boxing one into an interface{} that is
// returned by a library function or stored into a result container puts an internal type into
// the value Eval returns (it marshals as {}).

func runBOXVAL(c *Ctx, r *Result, rule string, fns []*ssa.Function, reach *Reach) int {
	n := 0
	for _, f := range fns {
		ord := 0
		for _, ins := range instrsIn(f) {
			mi, ok := ins.(*ssa.MakeInterface)
			if !ok || !isReflectValue(mi.X.Type()) {
				continue
			}
			if _, isEmpty := mi.Type().Underlying().(*types.Interface); !isEmpty {
				continue
			}
			ord++
			n++
			o := Obligation{Rule: rule, Key: fmt.Sprintf("%s:box-reflect.Value#%d", shortFn(f), ord), Fn: shortFn(f), Pos: c.W.Pos(mi.Pos()), Nontrivial: true}
			bad := ""
			seen := map[ssa.Value]bool{}
			var flow func(v ssa.Value)
			flow = func(v ssa.Value) {
				if seen[v] || bad != "" {
					return
				}
				seen[v] = true
				refs := v.Referrers()
				if refs == nil {
					return
				}
				for _, rf := range *refs {
					switch u := rf.(type) {
					case *ssa.Return:
						bad = "returned as an interface{} result"
					case *ssa.Phi:
						flow(u)
					case *ssa.MapUpdate:
						if u.Value == v {
							bad = "stored as a map member"
						}
					case *ssa.Store:
						if ia, isIA := u.Addr.(*ssa.IndexAddr); isIA && u.Val == v {
							// elements of the implicit argument array of a variadic call (fmt.Errorf ...) are not data
							if al, isAl := ia.X.(*ssa.Alloc); isAl && al.Comment == "varargs" {
								continue
							}
							bad = "stored as an element of a slice or array"
						}
					case *ssa.Call:
						if bi, isB := u.Call.Value.(*ssa.Builtin); isB && bi.Name() == "append" {
							for _, a := range u.Call.Args[1:] {
								if a == v {
									bad = "appended to a result slice"
								}
							}
						}
					}
				}
			}
			flow(mi)
			if bad == "" {
				o.Verdict, o.Reason = Discharged, "the boxed reflect.Value is only handed to a library call (formatting, reflect.ValueOf), not returned or stored as data"
			} else {
				o.Verdict, o.Reason = Finding, "a reflect.Value is boxed into an interface{} and "+bad+": the handle, an internal type, becomes part of the result instead of the value it refers to (missing .Interface())"
				if reach != nil {
					o.Path = reach.Path(f)
				}
			}
			r.Add(o)
		}
	}
	return n
}

// ---------------------------------------------------------------------------------------
// ZERO — a zero value synthesised for a missing argument (C09). reflect.Zero(t) handed to a Go
// built-in stands for "no value"; that is only harmless for types whose zero value every
// built-in tolerates: optional wrappers, reflect.Value (the zero Value is the evaluator's "no
// value") and interface{}. A nil named interface (a nil jtypes.Callable) or a nil map/pointer
// makes the first method call or write in the built-in panic. Every reflect.Zero under Eval must
// therefore be reached, on every path, through one of: a true `isOpt` flag of the parameter, or
// `t == G` for a type variable G denoting interface{} or reflect.Value.

func runZERO(c *Ctx, r *Result, rule string, fns []*ssa.Function, reach *Reach) int {
	e := &kindEngine{lenHelpers: map[*ssa.Function]kset{}, c: c, g: c.G, val: map[ssa.Value]kset{}, ret: map[*ssa.Function]kset{}, rval: map[ssa.Value]kset{}, rret: map[*ssa.Function]kset{}, extArgs: map[*ssa.Function]bool{}}
	globals := c.reflectTypeGlobals()
	const unverified = kInvalid // one bit of the lattice serves as the "no accepted test yet" flag
	n := 0
	for _, f := range fns {
		ord := 0
		for _, ins := range instrsIn(f) {
			call, ok := ins.(*ssa.Call)
			if !ok || staticName(call) != "reflect.Zero" {
				continue
			}
			ord++
			n++
			t := call.Call.Args[0]
			o := Obligation{Rule: rule, Key: fmt.Sprintf("%s:reflect.Zero#%d", shortFn(f), ord), Fn: shortFn(f), Pos: c.W.Pos(call.Pos()), Nontrivial: true}
			// only zero values that are handed on as values matter; reflect.Zero(t).Interface()
			// used to query a type's methods at registration time is not an argument
			bndCtx = c
			k := e.refine(ssa.Value(nil), call.Block(), 0, func(cond ssa.Value) (kset, kset, bool) {
				switch x := cond.(type) {
				case *ssa.UnOp:
					// load of a boolean field named isOpt
					if x.Op == token.MUL {
						if fa, ok := x.X.(*ssa.FieldAddr); ok && fieldName(fa.X.Type(), fa.Field) == "isOpt" {
							return kAny &^ unverified, kAny, true
						}
					}
				case *ssa.BinOp:
					if x.Op != token.EQL && x.Op != token.NEQ {
						return 0, 0, false
					}
					for _, pr := range [][2]ssa.Value{{x.X, x.Y}, {x.Y, x.X}} {
						if !sameTypeValue(pr[0], t) {
							continue
						}
						if u, ok := pr[1].(*ssa.UnOp); ok && u.Op == token.MUL {
							if g, ok := u.X.(*ssa.Global); ok {
								if gt := globals[g]; gt != nil {
									accepted := isReflectValue(gt)
									if it, isI := gt.Underlying().(*types.Interface); isI && it.Empty() {
										accepted = true
									}
									if accepted {
										if x.Op == token.EQL {
											return kAny &^ unverified, kAny, true
										}
										return kAny, kAny &^ unverified, true
									}
								}
							}
						}
					}
				}
				return 0, 0, false
			})
			if k&unverified == 0 {
				o.Verdict, o.Reason = Discharged, "every path to this reflect.Zero passes a true isOpt flag or a test that the type is interface{} or reflect.Value"
			} else {
				o.Verdict, o.Reason = Finding, "reflect.Zero of a type that has not been shown to be optional, interface{} or reflect.Value: a nil named interface, map or pointer handed to a built-in as a missing argument makes its first method call or write panic"
				if reach != nil {
					o.Path = reach.Path(f)
				}
			}
			r.Add(o)
		}
	}
	return n
}

// sameTypeValue: a and b are the same reflect.Type value (the same SSA value, or two loads of
// the same field of the same parameter spill).
func sameTypeValue(a, b ssa.Value) bool {
	if a == b {
		return true
	}
	if bndCtx != nil && bndCtx.canon(a) == bndCtx.canon(b) {
		return true
	}
	// two loads of the same field of a parameter spilled at function entry
	la, oka := a.(*ssa.UnOp)
	lb, okb := b.(*ssa.UnOp)
	if oka && okb && la.Op == token.MUL && lb.Op == token.MUL {
		fa, ok1 := la.X.(*ssa.FieldAddr)
		fb, ok2 := lb.X.(*ssa.FieldAddr)
		if ok1 && ok2 && fa.X == fb.X && fa.Field == fb.Field {
			if al, isAl := fa.X.(*ssa.Alloc); isAl && spillOnly(al) {
				for _, rf := range *al.Referrers() {
					if st, isSt := rf.(*ssa.Store); isSt && st.Addr == ssa.Value(al) {
						_, fromParam := st.Val.(*ssa.Parameter)
						return fromParam && st.Block() == al.Parent().Blocks[0]
					}
				}
			}
		}
	}
	return false
}
