package main

import (
	"flag"
	"fmt"
	"go/types"
	"os"
	"path/filepath"
	"runtime/debug"
	"sort"
	"strconv"
	"strings"
	"time"

	"golang.org/x/tools/go/ssa"
)

// Ctx is what every rule gets: the loaded program, the module call graph and the root sets.
type Ctx struct {
	W        *World
	G        *MCG
	Lib      PkgSet
	Tier     string
	VerifDir string

	REval, RCompile, RReg, RStr, RInit *Reach
	reachCache                         map[string]*Reach
	callers                            map[*ssa.Function][]ssa.CallInstruction
	fnKeySet                           map[string]bool
	nonStatic                          map[*ssa.Function]bool
	bmem                               *bndMem
	rtGlobals                          map[*ssa.Global]types.Type
	bce                                []*bceResidual
	bceErr                             error
	bret                               map[bretKey][]bretFact
	bretBusy                           map[bretKey]bool
}

type propDef struct {
	ID          string
	Explanation string
	Rule        string
	Run         func(c *Ctx, r *Result)
	Fixtures    []string // rule fixture groups used by this property
}

var props = map[string]*propDef{}

func register(p *propDef) { props[p.ID] = p }

func (c *Ctx) fn(name string) *ssa.Function { return c.W.Fn(name) }

// mustFn returns the named function or records a lost anchor.
func (c *Ctx) mustFn(r *Result, name string) *ssa.Function {
	f := c.W.Fn(name)
	if f == nil {
		r.LoseAnchor("function %s not found", name)
	}
	return f
}

func newCtx(w *World, tier, verifDir string) *Ctx {
	c := &Ctx{W: w, Tier: tier, VerifDir: verifDir, Lib: w.LibSet(), reachCache: map[string]*Reach{}}
	c.G = BuildMCG(w, c.Lib)
	roots := func(names ...string) []*ssa.Function {
		var out []*ssa.Function
		for _, n := range names {
			if f := w.Fn(n); f != nil {
				out = append(out, f)
			}
		}
		return out
	}
	c.REval = c.G.Reach(roots("jsonata.(*Expr).Eval", "jsonata.(*Expr).EvalBytes")...)
	c.RCompile = c.G.Reach(roots("jsonata.Compile", "jsonata.MustCompile", "jparse.Parse")...)
	c.RReg = c.G.Reach(roots("jsonata.RegisterExts", "jsonata.RegisterVars", "jsonata.(*Expr).RegisterExts", "jsonata.(*Expr).RegisterVars")...)
	c.RStr = c.G.Reach(roots("jsonata.(*Expr).String")...)
	var inits []*ssa.Function
	for _, sp := range w.LibSSA {
		if f := sp.Func("init"); f != nil {
			inits = append(inits, f)
		}
	}
	sortFns(inits)
	c.RInit = c.G.Reach(inits...)
	return c
}

// baseCounts records the load and graph facts every evidence file carries.
func (c *Ctx) baseCounts(r *Result) {
	r.Count("packages_loaded", c.W.NPkgs)
	r.Count("mcg_functions", len(c.G.Funcs))
	r.Count("reach_eval", len(c.REval.Set))
	r.Count("reach_compile", len(c.RCompile.Set))
	r.Count("reach_register", len(c.RReg.Set))
	r.Count("reach_init", len(c.RInit.Set))
	r.Count("boxed_functions", len(c.G.Boxed)+len(c.G.BoxedExt))
	// sanity of the graph: Eval never parses and never builds a Go callable
	for _, n := range []string{"jparse.Parse", "jparse.(*lexer).next", "jsonata.newGoCallable", "jparse.(*parser).parseExpression"} {
		f := c.W.Fn(n)
		if f == nil {
			r.LoseAnchor("graph sanity: function %s not found", n)
			continue
		}
		if c.REval.Set[f] {
			r.LoseAnchor("graph sanity: %s is reachable from Eval (%s)", n, c.REval.Path(f))
		}
	}
	for _, f := range c.G.Funcs {
		if f.Name() == "optimize" && c.REval.Set[f] {
			r.LoseAnchor("graph sanity: %s is reachable from Eval (%s)", shortFn(f), c.REval.Path(f))
		}
	}
	if len(c.REval.Set) < 300 {
		r.LoseAnchor("reach(Eval) has only %d functions (>= 300 expected)", len(c.REval.Set))
	}
}

var processStart = time.Now()

func main() {
	prop := flag.String("prop", "", "property id (C01..C20) or 'all'")
	tier := flag.String("tier", "quick", "quick|thorough")
	repo := flag.String("repo", "/repo", "repository root")
	verif := flag.String("verif", "/verif", "verif root")
	dump := flag.String("dump", "", "debug dump: reach|boxed|edges:<fn>")
	noFix := flag.Bool("nofixtures", false, "skip fixtures (mutant sub-runs)")
	arch := flag.String("goarch", "", "GOARCH for the load")
	jsonOut := flag.String("findings-out", "", "write the list of finding IDs to this file (mutant sub-runs)")
	flag.Parse()
	if t := os.Getenv("VERIF_TIER"); t != "" && *tier == "" {
		*tier = t
	}
	seed := 0
	if s := os.Getenv("VERIF_SEED"); s != "" {
		seed, _ = strconv.Atoi(s)
	}
	exit := 2
	defer func() {
		if e := recover(); e != nil {
			fmt.Printf("internal panic: %v\n%s\n", e, debug.Stack())
			if *prop != "" && *dump == "" {
				fmt.Printf("VIOLATION property=%s replay=%s\n", *prop, filepath.Join(*verif, "evidence", *prop+".findings.json"))
			}
			os.Exit(2)
		}
		os.Exit(exit)
	}()
	fixDir := filepath.Join(*verif, "checker", "fixtures")
	if *noFix {
		fixDir = ""
	}
	w, err := Load(*repo, fixDir, *arch)
	if err != nil {
		fmt.Printf("LOAD FAILED: %v\n", err)
		exit = 2
		return
	}
	c := newCtx(w, *tier, *verif)
	knownProgFns = c.fnKeys()
	if *dump != "" {
		doDump(c, *dump)
		exit = 0
		return
	}
	if *prop == "all" || strings.Contains(*prop, ",") {
		// matrix mode (seed/refactoring cross-checks): one load, every listed property, finding IDs
		// written to <findings-out>/<id>.json. Not used by registered checks.
		var ids []string
		if *prop == "all" {
			for id := range props {
				ids = append(ids, id)
			}
		} else {
			ids = strings.Split(*prop, ",")
		}
		sort.Strings(ids)
		os.MkdirAll(*jsonOut, 0o755)
		for _, id := range ids {
			p := props[id]
			if p == nil {
				continue
			}
			func() {
				r := NewResult(p.ID)
				var out []string
				defer func() {
					if e := recover(); e != nil {
						out = append(out, fmt.Sprintf("LOST:internal panic: %v", e))
					}
					writeJSON(filepath.Join(*jsonOut, id+".json"), out)
				}()
				c.baseCounts(r)
				p.Run(c, r)
				kf, _ := loadKnown(filepath.Join(*verif, "known_findings.json"))
				knownUsed = map[*KnownEntry]bool{}
				for _, o := range r.Obls {
					if o.Verdict == Finding || o.Verdict == Undecided {
						if kf != nil && o.Verdict == Finding && kf.match(id, o) != nil {
							continue
						}
						out = append(out, o.ID()+" @ "+o.Pos+" :: "+o.Reason)
					}
				}
				for _, l := range r.Lost {
					out = append(out, "LOST:"+l)
				}
			}()
		}
		exit = 0
		return
	}
	p := props[*prop]
	if p == nil {
		var ids []string
		for id := range props {
			ids = append(ids, id)
		}
		sort.Strings(ids)
		fmt.Printf("unknown property %q; have %s\n", *prop, strings.Join(ids, " "))
		return
	}
	r := NewResult(p.ID)
	r.start = processStart
	c.baseCounts(r)
	p.Run(c, r)
	if !*noFix {
		runFixtures(c, r, p.Fixtures)
	}
	if *tier == "thorough" && !*noFix {
		runThorough(c, r, p, *repo, *verif)
	}
	if *jsonOut != "" {
		var ids []string
		for _, o := range r.Obls {
			if o.Verdict == Finding || o.Verdict == Undecided {
				ids = append(ids, o.ID()+" @ "+o.Pos+" :: "+o.Reason)
			}
		}
		for _, l := range r.Lost {
			ids = append(ids, "LOST:"+l)
		}
		writeJSON(*jsonOut, ids)
		exit = 0
		return
	}
	exit = r.Finish(*verif, *tier, seed, p.Explanation, p.Rule)
}

func doDump(c *Ctx, what string) {
	switch {
	case what == "reach":
		fmt.Printf("functions in M: %d\n", len(c.G.Funcs))
		fmt.Printf("reach(Eval)=%d reach(Compile)=%d reach(Register)=%d reach(String)=%d reach(init)=%d boxed=%d boxedExt=%d\n",
			len(c.REval.Set), len(c.RCompile.Set), len(c.RReg.Set), len(c.RStr.Set), len(c.RInit.Set), len(c.G.Boxed), len(c.G.BoxedExt))
		for _, f := range c.REval.Sorted() {
			fmt.Println("  E", shortFn(f))
		}
	case what == "index":
		dumpIndexSites(c)
	case what == "writes":
		dumpWriteSites(c)
	case what == "guards":
		dumpGuardSites(c)
	case what == "panicops":
		dumpPanicOps(c)
	case strings.HasPrefix(what, "kind:"):
		dumpKINDfn(c, strings.TrimPrefix(what, "kind:"))
	case what == "kind":
		dumpKIND(c)
	case what == "bnd":
		dumpBND(c)
	case what == "boxed":
		for _, f := range c.G.Boxed {
			fmt.Println("  in ", shortFn(f))
		}
		for _, f := range c.G.BoxedExt {
			fmt.Println("  ext", shortFn(f))
		}
	case strings.HasPrefix(what, "edges:"):
		f := c.W.Fn(strings.TrimPrefix(what, "edges:"))
		if f == nil {
			fmt.Println("not found")
			return
		}
		for _, e := range c.G.Out[f] {
			fmt.Printf("  %-8s %s\n", e.Kind, shortFn(e.Callee))
		}
	case strings.HasPrefix(what, "path:"):
		f := c.W.Fn(strings.TrimPrefix(what, "path:"))
		fmt.Println(c.REval.Path(f))
	case strings.HasPrefix(what, "ssa:"):
		f := c.W.Fn(strings.TrimPrefix(what, "ssa:"))
		if f != nil {
			f.WriteTo(os.Stdout)
		}
	}
}
