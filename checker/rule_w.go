package main

import (
	"fmt"
	"go/token"
	"go/types"
	"os"
	"sort"
	"strings"

	"golang.org/x/tools/go/ssa"
)

// W — write-target provenance (DESIGN.md §3 W).
//
// For every instruction reachable from a root set that can modify memory — Store, MapUpdate,
// append/copy/delete/clear, and the mutating library calls (reflect.Value.Set*, SetMapIndex,
// reflect.Append*, reflect.Copy, sort.*, json.Unmarshal/Decode ...) — the engine decides where
// the modified object comes from. A write is discharged iff its target was allocated during the
// same root activation (FRESH), or lives in an object of an evaluation-local type.
//
// Every pointer-like SSA value carries two bit sets:
//   obj — the memory a write *through* the value would modify
//   ref — the memory its contents refer to (what a load / Elem / Index out of it yields)
// with bits NF ("may be memory that existed before this activation": a global, the receiver of
// Eval, the input document, the AST, a shared callable), ND ("not deep-fresh": contents of a
// reflect container may be non-fresh), and two symbolic bits per parameter (its obj / ref), so
// that helpers get polyvariant return summaries. Loads use field-based / element-type-based
// "stored non-fresh" facts collected from every store in the reach set. Parameters are
// concretised by joining all call sites (invokes are filtered per dynamic type, with the
// failed-type-assertion refinement).

const (
	wNF uint64 = 1 << 0
	wND uint64 = 1 << 1
)

func wParamObj(i int) uint64 { return 1 << uint(2+2*i) }
func wParamRef(i int) uint64 { return 1 << uint(3+2*i) }

const wMaxParams = 30

type wmask struct{ obj, ref uint64 }

func (a wmask) or(b wmask) wmask { return wmask{a.obj | b.obj, a.ref | b.ref} }

var wFreshDeep = wmask{}
var wFresh = wmask{0, wND} // fresh container whose contents may become non-fresh
var wNonFresh = wmask{wNF | wND, wNF | wND}

type wParamC struct{ obj, ref uint64 } // concrete bits (subset of NF|ND) a parameter may carry

type wRootCfg struct {
	Name      string
	Roots     []*ssa.Function
	RootParam func(f *ssa.Function, i int) (wmask, bool) // provenance of a root's parameter
	// AllowStore lets a rule own a write (e.g. the locked global registry); returns a reason
	AllowWrite func(f *ssa.Function, ins ssa.Instruction) string
	LocalTypes bool // compute evaluation-local types (only meaningful for the Eval root)
}

type wEngine struct {
	c     *Ctx
	g     *MCG
	cfg   *wRootCfg
	reach *Reach
	fns   []*ssa.Function // functions with bodies in reach (incl. synthetic wrappers)
	inR   map[*ssa.Function]bool

	raw      map[ssa.Value]wmask
	ret      map[*ssa.Function][]wmask
	paramC   map[*ssa.Parameter]wParamC
	storedF  map[string]uint64 // "pkg.T.f" -> concrete bits stored into the field anywhere in reach
	storedE  map[string]uint64 // element/value type string -> concrete bits stored into elements
	local    map[types.Type]bool
	localStr []string
	boxed    map[*ssa.Function]bool
	cbTarget map[*ssa.Function]bool
	isRoot   map[*ssa.Function]bool
	changed  bool
	why      map[ssa.Value]string
	fvC      map[*ssa.FreeVar]wmask // receivers bound into method values
	zeroG    map[*ssa.Global]bool
}

func pointerLike(t types.Type) bool {
	switch u := t.Underlying().(type) {
	case *types.Pointer, *types.Slice, *types.Map, *types.Chan, *types.Interface, *types.Signature:
		return true
	case *types.Struct:
		if isReflectValue(t) {
			return true
		}
		for i := 0; i < u.NumFields(); i++ {
			if pointerLike(u.Field(i).Type()) {
				return true
			}
		}
	case *types.Array:
		return pointerLike(u.Elem())
	case *types.Tuple:
		return true
	}
	return false
}

func fieldKey(structPtrOrVal types.Type, idx int) string {
	t := structPtrOrVal
	if p, ok := t.Underlying().(*types.Pointer); ok {
		t = p.Elem()
	}
	st, ok := t.Underlying().(*types.Struct)
	if !ok || idx >= st.NumFields() {
		return "?"
	}
	return types.TypeString(t, nil) + "." + st.Field(idx).Name()
}

func newW(c *Ctx, g *MCG, cfg *wRootCfg) *wEngine {
	e := &wEngine{c: c, g: g, cfg: cfg, raw: map[ssa.Value]wmask{}, ret: map[*ssa.Function][]wmask{}, paramC: map[*ssa.Parameter]wParamC{},
		storedF: map[string]uint64{}, storedE: map[string]uint64{}, local: map[types.Type]bool{}, boxed: map[*ssa.Function]bool{},
		cbTarget: map[*ssa.Function]bool{}, isRoot: map[*ssa.Function]bool{}, inR: map[*ssa.Function]bool{}, why: map[ssa.Value]string{}, fvC: map[*ssa.FreeVar]wmask{}}
	e.reach = g.Reach(cfg.Roots...)
	for _, f := range e.reach.Sorted() {
		if len(f.Blocks) > 0 {
			e.fns = append(e.fns, f)
			e.inR[f] = true
			e.ret[f] = make([]wmask, f.Signature.Results().Len())
		}
	}
	for _, f := range cfg.Roots {
		e.isRoot[f] = true
	}
	for _, f := range g.Boxed {
		e.boxed[f] = true
	}
	for _, f := range e.fns {
		for _, ed := range g.Out[f] {
			if ed.Kind == "callback" || ed.Kind == "reflect" {
				e.cbTarget[ed.Callee] = true
			}
		}
	}
	if cfg.LocalTypes {
		e.computeLocalTypes()
	}
	// parameters of roots / reflect-invoked / callback targets
	for _, f := range e.fns {
		for i, p := range f.Params {
			if !pointerLike(p.Type()) {
				continue
			}
			if e.isRoot[f] {
				if m, ok := cfg.RootParam(f, i); ok {
					e.paramC[p] = wParamC{m.obj, m.ref}
					continue
				}
				e.paramC[p] = wParamC{wNF | wND, wNF | wND}
				continue
			}
			if e.cbTarget[f] || e.boxed[f] {
				pc := wParamC{wNF | wND, wNF | wND}
				// the variadic slice of a function only ever invoked through reflect.Value.Call is
				// allocated by reflect.Call itself
				if f.Signature.Variadic() && i == len(f.Params)-1 && e.onlyReflectCalled(f) {
					pc.obj = 0
				}
				e.paramC[p] = pc
			}
		}
	}
	for round := 0; round < 300; round++ {
		e.changed = false
		for _, f := range e.fns {
			for _, b := range f.Blocks {
				for _, ins := range b.Instrs {
					if v, ok := ins.(ssa.Value); ok {
						e.update(f, v)
					}
					e.flow(f, ins)
				}
			}
		}
		if !e.changed {
			return e
		}
	}
	panic("W fixpoint did not converge")
}

func (e *wEngine) onlyReflectCalled(f *ssa.Function) bool {
	for _, caller := range e.g.Funcs {
		for _, ed := range e.g.Out[caller] {
			if ed.Callee == f && ed.Kind != "reflect" {
				return false
			}
		}
	}
	return true
}

// computeLocalTypes: struct types all of whose (escaping) allocation sites — of the type itself
// or of any type containing it by value — lie in functions reachable from the Eval roots and not
// from package initialisers, registration or compilation.
func (e *wEngine) computeLocalTypes() {
	c := e.c
	other := map[*ssa.Function]bool{}
	for _, rc := range []*Reach{c.RInit, c.RReg, c.RCompile} {
		for f := range rc.Set {
			other[f] = true
		}
	}
	// candidate types: named struct types of the scope
	type siteInfo struct{ good, bad int }
	sites := map[types.Type]*siteInfo{}
	var cands []types.Type
	for _, T := range c.G.named {
		if _, ok := T.Underlying().(*types.Struct); ok {
			cands = append(cands, T)
			sites[T] = &siteInfo{}
		}
	}
	var contains func(outer, inner types.Type, depth int) bool
	contains = func(outer, inner types.Type, depth int) bool {
		if depth > 6 {
			return false
		}
		if types.Identical(outer, inner) {
			return true
		}
		switch u := outer.Underlying().(type) {
		case *types.Struct:
			for i := 0; i < u.NumFields(); i++ {
				if contains(u.Field(i).Type(), inner, depth+1) {
					return true
				}
			}
		case *types.Array:
			return contains(u.Elem(), inner, depth+1)
		}
		return false
	}
	note := func(f *ssa.Function, allocated types.Type) {
		for _, T := range cands {
			if contains(allocated, T, 0) {
				if e.inR[f] && !other[f] {
					sites[T].good++
				} else {
					sites[T].bad++
				}
			}
		}
	}
	for _, f := range c.G.Funcs {
		for _, b := range f.Blocks {
			for _, ins := range b.Instrs {
				switch ins := ins.(type) {
				case *ssa.Alloc:
					if !ins.Heap {
						continue
					}
					note(f, ins.Type().Underlying().(*types.Pointer).Elem())
				case *ssa.MakeSlice:
					note(f, ins.Type().Underlying().(*types.Slice).Elem())
				case *ssa.MakeMap:
					mt := ins.Type().Underlying().(*types.Map)
					note(f, mt.Elem())
					note(f, mt.Key())
				case *ssa.MakeInterface:
					// a struct boxed by value is copied to the heap
					if _, isStruct := ins.X.Type().Underlying().(*types.Struct); isStruct {
						note(f, ins.X.Type())
					}
				case *ssa.Call:
					if callee := ins.Call.StaticCallee(); callee != nil && calleePkgPath(callee) == "reflect" && (callee.Name() == "New" || callee.Name() == "Zero") {
						// reflect.New(T) with a dynamic T: cannot name the type; goCallable parameters only
					}
				}
			}
		}
	}
	// a package-level variable of (or containing) the type is a shared instance
	for _, f := range c.G.Funcs {
		if f.Pkg == nil {
			continue
		}
		for _, m := range f.Pkg.Members {
			if gv, ok := m.(*ssa.Global); ok {
				for _, T := range cands {
					if contains(gv.Type().Underlying().(*types.Pointer).Elem(), T, 0) {
						sites[T].bad++
					}
				}
			}
		}
		break
	}
	for _, sp := range c.W.LibSSA {
		for _, m := range sp.Members {
			if gv, ok := m.(*ssa.Global); ok {
				for _, T := range cands {
					if contains(gv.Type().Underlying().(*types.Pointer).Elem(), T, 0) {
						sites[T].bad++
					}
				}
			}
		}
	}
	for _, T := range cands {
		if s := sites[T]; s.good > 0 && s.bad == 0 {
			e.local[T] = true
			e.localStr = append(e.localStr, types.TypeString(T, func(p *types.Package) string { return p.Name() }))
		}
	}
	sort.Strings(e.localStr)
}

func (e *wEngine) isLocalPtr(t types.Type) bool {
	if len(e.local) == 0 {
		return false
	}
	if p, ok := t.Underlying().(*types.Pointer); ok {
		for T := range e.local {
			if types.Identical(p.Elem(), T) {
				return true
			}
		}
	}
	return false
}

func (e *wEngine) set(v ssa.Value, m wmask, why string) {
	old := e.raw[v]
	n := old.or(m)
	if n != old {
		e.raw[v] = n
		e.changed = true
		if why != "" && (m.obj&wNF != 0 || m.ref&wNF != 0) && e.why[v] == "" {
			e.why[v] = why
		}
	}
}

// mask: symbolic provenance of v inside its function.
func (e *wEngine) mask(v ssa.Value) wmask {
	switch v := v.(type) {
	case *ssa.Const:
		return wFreshDeep
	case *ssa.Global:
		return wNonFresh
	case *ssa.Function:
		return wFreshDeep
	case *ssa.Parameter:
		if !pointerLike(v.Type()) {
			return wFreshDeep
		}
		if e.isLocalPtr(v.Type()) {
			// a pointer to an evaluation-local object: writes through it are local; its contents
			// are whatever was stored into the fields (field-based facts)
			return wmask{0, 0}
		}
		f := v.Parent()
		for i, q := range f.Params {
			if q == v {
				if i < wMaxParams {
					return wmask{wParamObj(i), wParamRef(i)}
				}
				return wNonFresh
			}
		}
	case *ssa.FreeVar:
		if isBoundWrapper(v.Parent()) {
			// the receiver captured by a method value: whatever was bound where it was made
			return e.fvC[v]
		}
		return wFreshDeep // address of a cell of an enclosing activation
	}
	m := e.raw[v]
	if e.isLocalPtr(v.Type()) {
		m.obj = 0
	}
	return m
}

// concrete replaces parameter bits by what the parameters of f can actually receive.
func (e *wEngine) concrete(f *ssa.Function, m wmask) wmask {
	out := wmask{m.obj & (wNF | wND), m.ref & (wNF | wND)}
	for i, p := range f.Params {
		if i >= wMaxParams {
			break
		}
		pc := e.paramC[p]
		if m.obj&wParamObj(i) != 0 {
			out.obj |= pc.obj
		}
		if m.obj&wParamRef(i) != 0 {
			out.obj |= pc.ref
		}
		if m.ref&wParamObj(i) != 0 {
			out.ref |= pc.obj
		}
		if m.ref&wParamRef(i) != 0 {
			out.ref |= pc.ref
		}
	}
	return out
}

// subst instantiates a callee summary with actual argument masks.
func (e *wEngine) subst(sum wmask, args []wmask) wmask {
	out := wmask{sum.obj & (wNF | wND), sum.ref & (wNF | wND)}
	for i := 0; i < len(args) && i < wMaxParams; i++ {
		if sum.obj&wParamObj(i) != 0 {
			out.obj |= args[i].obj
		}
		if sum.obj&wParamRef(i) != 0 {
			out.obj |= args[i].ref
		}
		if sum.ref&wParamObj(i) != 0 {
			out.ref |= args[i].obj
		}
		if sum.ref&wParamRef(i) != 0 {
			out.ref |= args[i].ref
		}
	}
	return out
}

// contents: what a load/Index/Elem out of a container value yields.
func contentsOf(m wmask, stored uint64) wmask {
	r := m.ref | (m.obj & (wNF)) | stored
	if m.obj&wNF != 0 {
		r |= wNF | wND
	}
	// parameter obj bits: contents of a parameter object are its ref
	for i := 0; i < wMaxParams; i++ {
		if m.obj&wParamObj(i) != 0 {
			r |= wParamRef(i)
		}
	}
	return wmask{r, r}
}

func typeKey(t types.Type) string { return types.TypeString(t, nil) }

func (e *wEngine) argMasks(f *ssa.Function, ci ssa.CallInstruction, callee *ssa.Function) []wmask {
	cc := ci.Common()
	var out []wmask
	if cc.IsInvoke() {
		var recvT types.Type
		if callee != nil && callee.Signature.Recv() != nil {
			recvT = callee.Signature.Recv().Type()
		} else if callee != nil && len(callee.Params) > 0 {
			recvT = callee.Params[0].Type()
		}
		out = append(out, e.typeFiltered(cc.Value, recvT, ci.Block(), 0))
	}
	for _, a := range cc.Args {
		out = append(out, e.mask(a))
	}
	return out
}

// typeFiltered: provenance of interface value v restricted to the case that its dynamic type is T.
func (e *wEngine) typeFiltered(v ssa.Value, T types.Type, at *ssa.BasicBlock, depth int) wmask {
	if T == nil || depth > 8 {
		return e.mask(v)
	}
	same := func(a, b types.Type) bool { return types.Identical(a, b) }
	// the dynamic type of an interface value implements the value's static interface type
	if it, ok := v.Type().Underlying().(*types.Interface); ok && !types.Implements(T, it) {
		return wFreshDeep // impossible
	}
	switch v := v.(type) {
	case *ssa.MakeInterface:
		if same(v.X.Type(), T) {
			return e.mask(v.X)
		}
		// value type boxed, pointer receiver wrapper (or vice versa): treat as the same object
		if p, ok := T.Underlying().(*types.Pointer); ok && same(v.X.Type(), p.Elem()) {
			return e.mask(v.X)
		}
		if p, ok := v.X.Type().Underlying().(*types.Pointer); ok && same(p.Elem(), T) {
			return e.mask(v.X)
		}
		return wFreshDeep // impossible: the dynamic type differs
	case *ssa.Phi:
		var out wmask
		for i, ed := range v.Edges {
			pred := v.Block().Preds[i]
			if failedAssertEdge(pred, v.Block(), ed, T) {
				continue
			}
			out = out.or(e.typeFiltered(ed, T, pred, depth+1))
		}
		return out
	case *ssa.TypeAssert:
		return e.typeFiltered(v.X, T, at, depth+1)
	case *ssa.Extract:
		if ta, ok := v.Tuple.(*ssa.TypeAssert); ok && v.Index == 0 {
			return e.typeFiltered(ta.X, T, at, depth+1)
		}
	case *ssa.ChangeInterface:
		return e.typeFiltered(v.X, T, at, depth+1)
	}
	// a use dominated by the failed assertion v.(T)
	if at != nil && domGuard(at, func(cond ssa.Value) (int, bool) {
		ex, ok := cond.(*ssa.Extract)
		if !ok || ex.Index != 1 {
			return 0, false
		}
		ta, ok := ex.Tuple.(*ssa.TypeAssert)
		if !ok || ta.X != v || !same(ta.AssertedType, T) {
			return 0, false
		}
		return 1, true
	}) {
		return wFreshDeep
	}
	return e.mask(v)
}

// failedAssertEdge: pred ends in `if ok` with ok = (ed.(T)) comma-ok, and the phi block is its false successor.
func failedAssertEdge(pred, phiBlock *ssa.BasicBlock, ed ssa.Value, T types.Type) bool {
	if len(pred.Instrs) == 0 {
		return false
	}
	iff, ok := pred.Instrs[len(pred.Instrs)-1].(*ssa.If)
	if !ok {
		return false
	}
	ex, ok := iff.Cond.(*ssa.Extract)
	if !ok || ex.Index != 1 {
		return false
	}
	ta, ok := ex.Tuple.(*ssa.TypeAssert)
	if !ok || ta.X != ed || !types.Identical(ta.AssertedType, T) {
		return false
	}
	return pred.Succs[1] == phiBlock && pred.Succs[0] != phiBlock
}

var wFreshExt = map[string]bool{
	"net/url.Parse": true, "encoding/json.NewDecoder": true, "encoding/json.NewEncoder": true, "strings.NewReader": true,
	"strings.Split": true, "strings.SplitN": true, "strings.Fields": true, "regexp.MustCompile": true, "regexp.Compile": true,
	"reflect.MakeSlice": true, "reflect.MakeMap": true, "reflect.MakeMapWithSize": true, "reflect.New": true, "reflect.Zero": true,
	"reflect.TypeOf": true, "reflect.SliceOf": true, "reflect.PtrTo": true, "reflect.PointerTo": true, "errors.New": true, "fmt.Errorf": true,
	"fmt.Sprintf": true, "fmt.Sprint": true, "strconv.AppendFloat": false, "bytes.Map": true, "time.FixedZone": true, "time.Now": true,
	"time.Unix": true, "time.Date": true, "time.Parse": true, "encoding/json.Marshal": true, "encoding/base64.(method)": true,
}

func (e *wEngine) callMask(f *ssa.Function, call *ssa.Call, idx int) wmask {
	cc := call.Common()
	if b, ok := cc.Value.(*ssa.Builtin); ok {
		switch b.Name() {
		case "append":
			m := e.mask(cc.Args[0])
			return wmask{m.obj, m.ref | wND} // result aliases the first argument or is a fresh array
		}
		return wFreshDeep
	}
	callee := cc.StaticCallee()
	if callee != nil && !e.g.InSc[callee] {
		pp := calleePkgPath(callee)
		name := callee.Name()
		if pp == "reflect" {
			if callee.Signature.Recv() == nil {
				switch name {
				case "ValueOf":
					return e.mask(cc.Args[0])
				case "MakeSlice", "MakeMap", "MakeMapWithSize", "New", "Zero":
					return wFresh
				case "Append", "AppendSlice":
					m := e.mask(cc.Args[0])
					return wmask{m.obj, m.ref | wND}
				case "TypeOf", "SliceOf", "PtrTo", "PointerTo":
					return wFreshDeep
				}
				return wFreshDeep
			}
			if isReflectValue(recvType(callee)) {
				r := e.mask(cc.Args[0])
				switch name {
				case "Index", "Field", "FieldByName", "FieldByIndex", "MapIndex":
					// a slot of the container: writes go to the container; its referent is the contents
					var stored uint64
					if r.ref&wND != 0 || r.obj&wND != 0 {
						stored = wNF | wND
					}
					cm := contentsOf(r, stored)
					return wmask{r.obj | (r.ref &^ wND), cm.ref}
				case "Elem", "Interface":
					// referent
					return wmask{r.ref | r.obj, r.ref | r.obj}
				case "Addr", "Convert", "Slice", "Slice3":
					return r
				case "MapKeys", "MapRange":
					return contentsOf(r, wNF|wND)
				case "Call", "CallSlice":
					return wNonFresh
				case "Type", "Kind", "Len", "String", "Float", "Int", "Bool", "IsValid", "IsNil", "CanInterface", "CanAddr", "NumField", "Pointer":
					return wFreshDeep
				}
				return r
			}
			return wFreshDeep
		}
		key := pp + "." + name
		if callee.Signature.Recv() != nil {
			// methods of external types: results derive from the receiver (e.g. (*Regexp).FindAll... returns fresh)
			return wFresh
		}
		if wFreshExt[key] {
			return wFresh
		}
		return wFresh
	}
	// in-scope: join of callee summaries instantiated with the arguments
	var out wmask
	cs := e.g.Sites[call]
	if len(cs) == 0 && callee == nil {
		return wNonFresh // unresolved dynamic call
	}
	for _, cal := range cs {
		if !e.inR[cal] {
			continue
		}
		if idx < len(e.ret[cal]) {
			out = out.or(e.subst(e.ret[cal][idx], e.argMasks(f, call, cal)))
		}
	}
	return out
}

func (e *wEngine) update(f *ssa.Function, v ssa.Value) {
	if !pointerLike(v.Type()) {
		return
	}
	switch v := v.(type) {
	case *ssa.Alloc:
		// the cell itself is fresh; its contents are tracked through stores
	case *ssa.MakeSlice, *ssa.MakeMap, *ssa.MakeChan:
		e.set(v, wFresh, "")
	case *ssa.MakeClosure:
		if fn, ok := v.Fn.(*ssa.Function); ok && isBoundWrapper(fn) {
			for i, b := range v.Bindings {
				if i >= len(fn.FreeVars) {
					break
				}
				cm := e.concrete(f, e.mask(b))
				n := e.fvC[fn.FreeVars[i]].or(wmask{cm.obj & (wNF | wND), cm.ref & (wNF | wND)})
				if n != e.fvC[fn.FreeVars[i]] {
					e.fvC[fn.FreeVars[i]] = n
					e.changed = true
				}
			}
		}
	case *ssa.MakeInterface:
		e.set(v, e.mask(v.X), e.why[v.X])
	case *ssa.ChangeInterface:
		e.set(v, e.mask(v.X), e.why[v.X])
	case *ssa.ChangeType:
		e.set(v, e.mask(v.X), e.why[v.X])
	case *ssa.Convert:
		// string <-> []byte/[]rune conversions copy
	case *ssa.TypeAssert:
		e.set(v, e.mask(v.X), e.why[v.X])
	case *ssa.Slice:
		e.set(v, e.mask(v.X), e.why[v.X])
	case *ssa.FieldAddr:
		m := e.mask(v.X)
		if e.isLocalPtr(v.X.Type()) {
			m.obj = 0
		}
		e.set(v, m, e.why[v.X])
	case *ssa.IndexAddr:
		e.set(v, e.mask(v.X), e.why[v.X])
	case *ssa.Field:
		e.set(v, e.mask(v.X), e.why[v.X])
	case *ssa.Index:
		e.set(v, contentsOf(e.mask(v.X), e.storedE[typeKey(v.Type())]), e.why[v.X])
	case *ssa.Lookup:
		if _, isMap := v.X.Type().Underlying().(*types.Map); isMap {
			t := v.Type()
			if tup, ok := t.(*types.Tuple); ok {
				t = tup.At(0).Type()
			}
			e.set(v, contentsOf(e.mask(v.X), e.storedE[typeKey(t)]), e.why[v.X])
		}
	case *ssa.Range:
		e.set(v, e.mask(v.X), e.why[v.X])
	case *ssa.Next:
		if rg, ok := v.Iter.(*ssa.Range); ok {
			var stored uint64
			if mt, ok := rg.X.Type().Underlying().(*types.Map); ok {
				stored = e.storedE[typeKey(mt.Elem())] | e.storedE[typeKey(mt.Key())]
			}
			e.set(v, contentsOf(e.mask(rg.X), stored), e.why[rg.X])
		}
	case *ssa.Extract:
		switch t := v.Tuple.(type) {
		case *ssa.Call:
			e.set(v, e.callMask(f, t, v.Index), "result of "+describeCall(t))
		default:
			e.set(v, e.mask(v.Tuple), e.why[v.Tuple])
		}
	case *ssa.Call:
		e.set(v, e.callMask(f, v, 0), "result of "+describeCall(v))
	case *ssa.Phi:
		for _, ed := range v.Edges {
			e.set(v, e.mask(ed), e.why[ed])
		}
	case *ssa.UnOp:
		if v.Op != token.MUL {
			return
		}
		e.set(v, e.loadMask(f, v), "")
	}
}

func describeCall(c *ssa.Call) string {
	if f := c.Call.StaticCallee(); f != nil {
		return shortFn(f)
	}
	if c.Call.IsInvoke() {
		return "an interface call " + c.Call.Method.Name()
	}
	return "a dynamic call"
}

// loadMask: provenance of the value loaded from an address.
func (e *wEngine) loadMask(f *ssa.Function, ld *ssa.UnOp) wmask {
	switch a := ld.X.(type) {
	case *ssa.Global:
		if e.zeroGlobal(a) || isNamed(ld.Type(), "reflect", "Type") {
			return wFreshDeep // a variable that is never assigned holds its zero value: no memory behind it
		}
		e.why[ld] = "loaded from package variable " + a.Name()
		return wNonFresh
	case *ssa.Alloc, *ssa.FreeVar:
		if stores, ok := cellStores(a); ok {
			var out wmask
			for _, s := range stores {
				sm := e.mask(s.Val)
				if s.Parent() != f {
					sm = e.concrete(s.Parent(), sm)
				}
				out = out.or(sm)
				if e.why[ld] == "" && e.why[s.Val] != "" {
					e.why[ld] = e.why[s.Val]
				}
			}
			return out
		}
		// the cell's address escapes: a json decode destination holds a deep-fresh value,
		// a struct passed by pointer to a module function is filled by that function
		if al, isAlloc := a.(*ssa.Alloc); isAlloc {
			if onlyJSONDest(al) {
				return wFreshDeep
			}
			var out wmask
			okAll := true
			for _, ref := range *al.Referrers() {
				switch r := ref.(type) {
				case *ssa.Store:
					if r.Addr == ssa.Value(al) {
						out = out.or(e.mask(r.Val))
					} else {
						okAll = false
					}
				case *ssa.UnOp, *ssa.DebugRef, *ssa.FieldAddr, *ssa.IndexAddr:
				case ssa.CallInstruction:
					// passed to a call: the callee may store into it; field-based facts cover module callees
					if callee := r.Common().StaticCallee(); callee == nil || !e.g.InSc[callee] {
						if !isDecodeCall(r) {
							okAll = false
						}
					}
				case *ssa.MakeInterface:
					// boxed pointer handed to json / fmt
				default:
					okAll = false
				}
			}
			if okAll {
				return contentsOf(out, e.storedE[typeKey(ld.Type())])
			}
		}
		e.why[ld] = "loaded from a variable whose address escapes"
		return wNonFresh
	case *ssa.FieldAddr:
		base := e.mask(a.X)
		if e.isLocalPtr(a.X.Type()) {
			base.obj = 0
		}
		k := fieldKey(a.X.Type(), a.Field)
		if e.storedF[k]&wNF != 0 && e.why[ld] == "" {
			e.why[ld] = "loaded from field " + k + ", which holds pre-existing data"
		} else if e.why[ld] == "" {
			e.why[ld] = e.why[a.X]
		}
		res := contentsOf(base, e.storedF[k])
		// a local struct variable that was assigned a whole struct value (the spill of a by-value
		// parameter or receiver, `x := *p`): its fields hold what that value's fields held — a
		// slice field of the copy still points into the original's backing array
		if al, isLocal := a.X.(*ssa.Alloc); isLocal && al.Referrers() != nil {
			for _, r := range *al.Referrers() {
				if st, isSt := r.(*ssa.Store); isSt && st.Addr == ssa.Value(al) {
					m := e.mask(st.Val)
					all := m.obj | m.ref
					res = res.or(wmask{all, all})
					if all != 0 && e.why[ld] == "" {
						e.why[ld] = "field of a local copy of " + describeVal(st.Val)
					}
				}
			}
		}
		return res
	case *ssa.IndexAddr:
		base := e.mask(a.X)
		if e.why[ld] == "" {
			e.why[ld] = e.why[a.X]
		}
		return contentsOf(base, e.storedE[typeKey(ld.Type())])
	}
	// pointer obtained some other way (call result, parameter, phi)
	base := e.mask(ld.X)
	if e.why[ld] == "" {
		e.why[ld] = e.why[ld.X]
	}
	return contentsOf(base, e.storedE[typeKey(ld.Type())])
}

// zeroGlobal: no instruction of the module (initialisers included) stores to the variable or takes its address.
func (e *wEngine) zeroGlobal(g *ssa.Global) bool {
	if e.zeroG == nil {
		e.zeroG = map[*ssa.Global]bool{}
		written := map[*ssa.Global]bool{}
		for _, f := range e.g.Funcs {
			for _, b := range f.Blocks {
				for _, ins := range b.Instrs {
					for _, op := range ins.Operands(nil) {
						gg, ok := (*op).(*ssa.Global)
						if !ok {
							continue
						}
						if ld, isLd := ins.(*ssa.UnOp); isLd && ld.X == ssa.Value(gg) {
							continue // plain load
						}
						written[gg] = true // stored to, or its address is used otherwise
					}
				}
			}
		}
		for _, sp := range e.c.W.LibSSA {
			for _, m := range sp.Members {
				if gg, ok := m.(*ssa.Global); ok && !written[gg] {
					e.zeroG[gg] = true
				}
			}
		}
	}
	return e.zeroG[g]
}

func isDecodeCall(ci ssa.CallInstruction) bool {
	callee := ci.Common().StaticCallee()
	if callee == nil {
		return false
	}
	return calleePkgPath(callee) == "encoding/json" && (callee.Name() == "Unmarshal" || callee.Name() == "Decode")
}

// onlyJSONDest: the cell is only initialised by json.Unmarshal/Decode (through a boxed pointer) and read.
func onlyJSONDest(al *ssa.Alloc) bool {
	decoded := false
	for _, ref := range *al.Referrers() {
		switch r := ref.(type) {
		case *ssa.UnOp, *ssa.DebugRef:
		case *ssa.Store:
			if r.Addr != ssa.Value(al) {
				return false
			}
			if k, ok := r.Val.(*ssa.Const); !ok || !k.IsNil() {
				return false
			}
		case *ssa.MakeInterface:
			if r.Referrers() == nil {
				return false
			}
			for _, u := range *r.Referrers() {
				ci, ok := u.(ssa.CallInstruction)
				if !ok || !isDecodeCall(ci) {
					return false
				}
				decoded = true
			}
		default:
			return false
		}
	}
	return decoded
}

// flow: effects of an instruction on summaries, parameters and stored facts.
func (e *wEngine) flow(f *ssa.Function, ins ssa.Instruction) {
	switch ins := ins.(type) {
	case *ssa.Return:
		if !isSuccessReturn(ins) {
			return
		}
		for i, res := range ins.Results {
			if !pointerLike(res.Type()) {
				continue
			}
			n := e.ret[f][i].or(e.mask(res))
			if n != e.ret[f][i] {
				e.ret[f][i] = n
				e.changed = true
			}
		}
	case *ssa.Store:
		if !pointerLike(ins.Val.Type()) {
			return
		}
		cm := e.concrete(f, e.mask(ins.Val))
		bits := (cm.obj | cm.ref) & (wNF | wND)
		switch a := ins.Addr.(type) {
		case *ssa.FieldAddr:
			k := fieldKey(a.X.Type(), a.Field)
			if e.storedF[k]|bits != e.storedF[k] {
				e.storedF[k] |= bits
				e.changed = true
			}
		case *ssa.IndexAddr:
			k := typeKey(ins.Val.Type())
			if e.storedE[k]|bits != e.storedE[k] {
				e.storedE[k] |= bits
				e.changed = true
			}
		case *ssa.Alloc, *ssa.FreeVar:
			// cells are read through cellStores; escaping cells use the element facts
			k := typeKey(ins.Val.Type())
			if _, ok := cellStores(a); !ok {
				if e.storedE[k]|bits != e.storedE[k] {
					e.storedE[k] |= bits
					e.changed = true
				}
			}
		default:
			k := typeKey(ins.Val.Type())
			if e.storedE[k]|bits != e.storedE[k] {
				e.storedE[k] |= bits
				e.changed = true
			}
		}
	case *ssa.MapUpdate:
		for _, val := range []ssa.Value{ins.Value, ins.Key} {
			if !pointerLike(val.Type()) {
				continue
			}
			cm := e.concrete(f, e.mask(val))
			bits := (cm.obj | cm.ref) & (wNF | wND)
			k := typeKey(val.Type())
			if e.storedE[k]|bits != e.storedE[k] {
				e.storedE[k] |= bits
				e.changed = true
			}
		}
	case ssa.CallInstruction:
		for _, callee := range e.g.Sites[ins] {
			if !e.inR[callee] || e.isRoot[callee] && false {
				continue
			}
			args := e.argMasks(f, ins, callee)
			for i, am := range args {
				if i >= len(callee.Params) {
					break
				}
				p := callee.Params[i]
				if !pointerLike(p.Type()) {
					continue
				}
				cm := e.concrete(f, am)
				pc := e.paramC[p]
				n := wParamC{pc.obj | cm.obj&(wNF|wND), pc.ref | cm.ref&(wNF|wND)}
				if n != pc && os.Getenv("W_DEBUG") != "" && (n.obj&wNF != 0 && pc.obj&wNF == 0) && strings.Contains(shortFn(callee), os.Getenv("W_DEBUG")) {
					fmt.Printf("W_DEBUG: param %s of %s gets NF obj at %s (%s)\n", p.Name(), shortFn(callee), e.c.W.Pos(ins.Pos()), shortFn(f))
				}
				if n != pc {
					e.paramC[p] = n
					e.changed = true
				}
			}
		}
	}
}

// ---------------------------------------------------------------------------------------
// obligations

var wMutators = map[string][]int{
	// external functions that modify memory reachable from the listed argument indices
	"reflect.Copy":              {0},
	"reflect.Swapper":           {0},
	"sort.Slice":                {0},
	"sort.SliceStable":          {0},
	"sort.Sort":                 {0},
	"sort.Stable":               {0},
	"sort.Strings":              {0},
	"sort.Ints":                 {0},
	"sort.Float64s":             {0},
	"encoding/json.Unmarshal":   {1},
	"math/rand.Shuffle":         {},
	"strconv.AppendFloat":       {0},
	"strconv.AppendInt":         {0},
	"unicode/utf8.AppendRune":   {0},
	"encoding/base64.(m)Decode": {0},
}

var wReflectValueMutators = map[string]bool{
	"Set": true, "SetBool": true, "SetBytes": true, "SetCap": true, "SetComplex": true, "SetFloat": true, "SetInt": true,
	"SetIterKey": true, "SetIterValue": true, "SetLen": true, "SetMapIndex": true, "SetPointer": true, "SetString": true,
	"SetUint": true, "SetZero": true, "Grow": true, "Clear": true,
}

// wPurePkgs: packages whose package-level functions and methods neither modify nor retain the
// memory behind their arguments (reviewed), apart from the mutators listed above.
var wPurePkgs = map[string]bool{
	"strings": true, "strconv": true, "unicode/utf8": true, "unicode/utf16": true, "unicode": true, "math": true, "fmt": true,
	"regexp": true, "regexp/syntax": true, "time": true, "net/url": true, "encoding/base64": true, "errors": true,
	"reflect": true, "sort": true, "math/rand": true,
}

// wPureFuncs: individually reviewed functions/methods of packages that also contain mutators.
var wPureFuncs = map[string]string{
	"sync.(RWMutex).Lock": "lock operations are decided by LOCK", "sync.(RWMutex).Unlock": "lock", "sync.(RWMutex).RLock": "lock", "sync.(RWMutex).RUnlock": "lock",
	"sync.(Mutex).Lock": "lock", "sync.(Mutex).Unlock": "lock",
	"encoding/json.Marshal": "reads its argument", "encoding/json.NewDecoder": "wraps a reader", "encoding/json.NewEncoder": "wraps a writer",
	"encoding/json.(Encoder).Encode": "writes to its own buffer", "bytes.Map": "returns a copy", "bytes.(Buffer).String": "reads", "bytes.(Buffer).Len": "reads",
	"bytes.(Buffer).Write": "the buffer is a local of the caller (checked as a store target when it is not)", "bytes.(Buffer).WriteString": "same", "bytes.(Buffer).WriteRune": "same", "bytes.(Buffer).WriteByte": "same",
}

func recvTypeName(f *ssa.Function) string {
	t := f.Signature.Recv().Type()
	if p, ok := t.(*types.Pointer); ok {
		t = p.Elem()
	}
	if n, ok := t.(*types.Named); ok {
		return n.Obj().Name()
	}
	return t.String()
}

func wReviewedPure(pp, key string, callee *ssa.Function) bool {
	if wPurePkgs[pp] {
		return true
	}
	_, ok := wPureFuncs[key]
	return ok
}

type wSite struct {
	f       *ssa.Function
	ins     ssa.Instruction
	kind    string
	target  wmask // symbolic
	what    string
	trivial bool
}

func (e *wEngine) sites() []wSite {
	var out []wSite
	for _, f := range e.fns {
		if f.Synthetic != "" && !strings.HasPrefix(f.Synthetic, "package init") {
			continue
		}
		for _, ins := range instrsIn(f) {
			switch ins := ins.(type) {
			case *ssa.Store:
				switch a := ins.Addr.(type) {
				case *ssa.Alloc:
					continue // a local variable / a fresh object of this activation
				case *ssa.FreeVar:
					out = append(out, wSite{f, ins, "store", wFreshDeep, "variable captured from the enclosing function", true})
					continue
				case *ssa.FieldAddr:
					_, direct := a.X.(*ssa.Alloc)
					out = append(out, wSite{f, ins, "store", e.mask(a), "field " + fieldKey(a.X.Type(), a.Field), direct})
					continue
				case *ssa.IndexAddr:
					direct := false
					switch x := a.X.(type) {
					case *ssa.Alloc:
						direct = true
					case *ssa.MakeSlice:
						direct = true
						_ = x
					}
					out = append(out, wSite{f, ins, "store", e.mask(a), "element of " + a.X.Type().String(), direct})
					continue
				case *ssa.Global:
					out = append(out, wSite{f, ins, "store", wNonFresh, "package variable " + a.Name(), false})
					continue
				}
				out = append(out, wSite{f, ins, "store", e.mask(ins.Addr), "memory at " + ins.Addr.Name(), false})
			case *ssa.MapUpdate:
				_, direct := ins.Map.(*ssa.MakeMap)
				out = append(out, wSite{f, ins, "mapupdate", e.mask(ins.Map), "map " + ins.Map.Type().String(), direct})
			case ssa.CallInstruction:
				cc := ins.Common()
				if b, ok := cc.Value.(*ssa.Builtin); ok {
					switch b.Name() {
					case "append":
						_, isNil := cc.Args[0].(*ssa.Const)
						out = append(out, wSite{f, ins, "append", e.mask(cc.Args[0]), "spare capacity of the slice appended to", isNil})
					case "copy", "delete", "clear":
						out = append(out, wSite{f, ins, b.Name(), e.mask(cc.Args[0]), "first argument of " + b.Name(), false})
					}
					continue
				}
				callee := cc.StaticCallee()
				if callee == nil || e.g.InSc[callee] {
					continue
				}
				pp := calleePkgPath(callee)
				name := callee.Name()
				if isReflectValue(recvType(callee)) && wReflectValueMutators[name] {
					out = append(out, wSite{f, ins, "reflect." + name, e.mask(cc.Args[0]), "object behind the reflect.Value receiver", false})
					continue
				}
				if pp == "reflect" && callee.Signature.Recv() == nil && (name == "Append" || name == "AppendSlice") {
					out = append(out, wSite{f, ins, "reflect." + name, e.mask(cc.Args[0]), "spare capacity of the reflect slice appended to", false})
					continue
				}
				key := pp + "." + name
				if callee.Signature.Recv() != nil {
					key = pp + ".(" + recvTypeName(callee) + ")." + name
					if pp == "encoding/json" && name == "Decode" {
						out = append(out, wSite{f, ins, "json.Decode", e.mask(cc.Args[1]), "decode destination", false})
						continue
					}
				}
				if idxs, ok := wMutators[key]; ok {
					for _, i := range idxs {
						if i < len(cc.Args) {
							out = append(out, wSite{f, ins, key, e.mask(cc.Args[i]), fmt.Sprintf("argument %d of %s", i, key), false})
						}
					}
					continue
				}
				if wReviewedPure(pp, key, callee) {
					continue
				}
				// an unreviewed library function given pointer-like data: it may modify or retain it
				for i, a := range cc.Args {
					if !pointerLike(a.Type()) {
						continue
					}
					out = append(out, wSite{f, ins, "ext:" + key, e.mask(a), fmt.Sprintf("argument %d of the unreviewed library function %s (it may modify or retain it)", i, key), false})
				}
			}
		}
	}
	return out
}

// runW enumerates the write obligations of one root configuration.
func runW(c *Ctx, g *MCG, r *Result, rule string, cfg *wRootCfg) *wEngine {
	return runWFiltered(c, g, r, rule, cfg, nil)
}

// runWFiltered reports only the write sites accepted by keep (all when nil).
func runWFiltered(c *Ctx, g *MCG, r *Result, rule string, cfg *wRootCfg, keep func(s wSite) bool) *wEngine {
	e := newW(c, g, cfg)
	ord := map[string]int{}
	n, nontriv := 0, 0
	for _, s := range e.sites() {
		k := shortFn(s.f) + ":" + s.kind
		ord[k]++
		if keep != nil && !keep(s) {
			continue
		}
		n++
		o := Obligation{Rule: rule, Key: fmt.Sprintf("%s#%d", k, ord[k]), Fn: shortFn(s.f), Pos: c.W.Pos(s.ins.Pos()), Nontrivial: !s.trivial}
		cm := e.concrete(s.f, s.target)
		switch {
		case cm.obj&wNF == 0:
			o.Verdict = Discharged
			if s.trivial {
				o.Reason = "writes " + s.what + " of an object allocated a few instructions earlier in the same function"
			} else {
				o.Reason = "writes " + s.what + ": every origin of the target is an allocation of this activation (fresh locals, make/new/composite literals, reflect.MakeSlice/MakeMap/New, appends onto those, per-call copies) or an object of an evaluation-local type, at every call site (" + cfg.Name + ")"
				nontriv++
			}
		default:
			if why := cfg.allow(s.f, s.ins); why != "" {
				o.Verdict, o.Reason = Exception, why
				break
			}
			o.Verdict = Finding
			o.Reason = "writes " + s.what + ", which may be memory that existed before this call (" + cfg.Name + "): " + e.explain(s)
			o.Path = e.reach.Path(s.f)
		}
		r.Add(o)
	}
	r.Count(rule+" write sites examined ("+cfg.Name+")", n)
	r.Count(rule+" functions analysed ("+cfg.Name+")", len(e.fns))
	if len(e.localStr) > 0 {
		r.Note("%s evaluation-local types: %v", rule, e.localStr)
	}
	return e
}

func (cfg *wRootCfg) allow(f *ssa.Function, ins ssa.Instruction) string {
	if cfg.AllowWrite == nil {
		return ""
	}
	return cfg.AllowWrite(f, ins)
}

// explain: why the target may be non-fresh (first non-fresh origin found).
func (e *wEngine) explain(s wSite) string {
	var base ssa.Value
	switch ins := s.ins.(type) {
	case *ssa.Store:
		base = ins.Addr
		switch a := ins.Addr.(type) {
		case *ssa.FieldAddr:
			base = a.X
		case *ssa.IndexAddr:
			base = a.X
		}
	case *ssa.MapUpdate:
		base = ins.Map
	case ssa.CallInstruction:
		if len(ins.Common().Args) > 0 {
			base = ins.Common().Args[0]
		}
	}
	if base == nil {
		return "unknown origin"
	}
	if p, ok := base.(*ssa.Parameter); ok {
		return fmt.Sprintf("parameter %s of %s receives pre-existing memory at some call site", p.Name(), shortFn(p.Parent()))
	}
	if _, ok := base.(*ssa.Global); ok {
		return "a package variable"
	}
	if w := e.why[base]; w != "" {
		return w
	}
	m := e.mask(base)
	for i, p := range s.f.Params {
		if i < wMaxParams && (m.obj&wParamObj(i) != 0 || m.obj&wParamRef(i) != 0) && (e.paramC[p].obj|e.paramC[p].ref)&wNF != 0 {
			return fmt.Sprintf("derived from parameter %s of %s, which receives pre-existing memory at some call site", p.Name(), shortFn(s.f))
		}
	}
	return "derived from " + describeVal(base)
}

// isBoundWrapper: the synthetic closure behind a method value x.M (its free variable is the
// receiver itself, not the address of a captured variable).
func isBoundWrapper(f *ssa.Function) bool {
	return f != nil && strings.HasPrefix(f.Synthetic, "bound method wrapper")
}
