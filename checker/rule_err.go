package main

import (
	"fmt"
	"go/constant"
	"go/token"
	"go/types"

	"golang.org/x/tools/go/ssa"
)

// ERR — error provenance in jparse (DESIGN.md §3 ERR).
//
// Every value of type error that reaches a return, a panic or a field store in jparse must be:
// the nil constant; a boxed *jparse.Error; the result of a jparse function (covered
// inductively, since that function's own returns are obligations too); or the field lexer.err
// (whose stores are obligations). An error handed back by strconv/regexp/fmt flowing out is a
// finding. Every Error value gets a Type that is a declared, non-zero ErrType constant.

type errEngine struct {
	c     *Ctx
	jp    *types.Package
	errT  types.Type // *jparse.Error
	memo  map[ssa.Value]int
	why   map[ssa.Value]string
	types map[string]bool // declared non-zero ErrType values
}

func (e *errEngine) ok(v ssa.Value, depth int) bool {
	if depth > 12 {
		e.why[v] = "too deep"
		return false
	}
	switch e.memo[v] {
	case 1, 3:
		return true
	case 2:
		return false
	}
	e.memo[v] = 3
	res := e.compute(v, depth)
	if res {
		e.memo[v] = 1
	} else {
		e.memo[v] = 2
	}
	return res
}

func (e *errEngine) inJparse(f *ssa.Function) bool { return f != nil && fnPkg(f) == e.jp }

func (e *errEngine) compute(v ssa.Value, depth int) bool {
	switch x := v.(type) {
	case *ssa.Const:
		return x.IsNil()
	case *ssa.MakeInterface:
		if types.Identical(x.X.Type(), e.errT) {
			return true
		}
		e.why[v] = "an error of type " + x.X.Type().String() + " (not *jparse.Error)"
		return false
	case *ssa.ChangeInterface:
		return e.ok(x.X, depth+1)
	case *ssa.Phi:
		for _, ed := range x.Edges {
			if !e.ok(ed, depth+1) {
				e.why[v] = e.why[ed]
				return false
			}
		}
		return true
	case *ssa.Call:
		return e.callOK(x, v)
	case *ssa.Extract:
		if call, ok := x.Tuple.(*ssa.Call); ok {
			return e.callOK(call, v)
		}
		if ta, ok := x.Tuple.(*ssa.TypeAssert); ok {
			if types.Identical(ta.AssertedType, e.errT) {
				return true
			}
		}
		e.why[v] = "extracted from an unrecognised tuple"
		return false
	case *ssa.TypeAssert:
		if types.Identical(x.AssertedType, e.errT) {
			return true
		}
		e.why[v] = "type assertion to " + x.AssertedType.String()
		return false
	case *ssa.UnOp:
		if x.Op == token.MUL {
			if fa, ok := x.X.(*ssa.FieldAddr); ok && isNamed(fa.X.Type(), "jparse", "lexer") {
				return true // lexer.err: its stores are checked as obligations
			}
			if stores, ok := cellStores(x.X); ok {
				for _, s := range stores {
					if !e.ok(s.Val, depth+1) {
						e.why[v] = e.why[s.Val]
						return false
					}
				}
				return true
			}
		}
		e.why[v] = "loaded from memory"
		return false
	case *ssa.Parameter:
		// every call site in the module passes an acceptable error
		f := x.Parent()
		idx := -1
		for i, p := range f.Params {
			if p == x {
				idx = i
			}
		}
		found := false
		for _, caller := range e.c.G.Funcs {
			for _, ci := range callsIn(caller) {
				for _, callee := range e.c.G.Sites[ci] {
					if callee != f {
						continue
					}
					off := 0
					if ci.Common().IsInvoke() {
						off = 1
					}
					if idx-off >= 0 && idx-off < len(ci.Common().Args) {
						found = true
						if !e.ok(ci.Common().Args[idx-off], depth+1) {
							e.why[v] = "parameter " + x.Name() + " receives " + e.why[ci.Common().Args[idx-off]]
							return false
						}
					}
				}
			}
		}
		return found
	}
	e.why[v] = fmt.Sprintf("unrecognised origin (%T)", v)
	return false
}

func (e *errEngine) callOK(call *ssa.Call, v ssa.Value) bool {
	if callee := call.Call.StaticCallee(); callee != nil {
		if e.inJparse(callee) {
			return true
		}
		e.why[v] = "the error returned by " + callee.String() + " (not a *jparse.Error)"
		return false
	}
	cs := e.c.G.Sites[call]
	if len(cs) == 0 {
		e.why[v] = "the error returned by an unresolved call"
		return false
	}
	for _, cf := range cs {
		if !e.inJparse(cf) {
			e.why[v] = "the error returned by " + shortFn(cf)
			return false
		}
	}
	return true
}

func runERR(c *Ctx, r *Result, rule string) {
	jp := c.W.Lib["jparse"]
	errObj, _ := jp.Types.Scope().Lookup("Error").(*types.TypeName)
	if errObj == nil {
		r.LoseAnchor("ERR: jparse.Error not found")
		return
	}
	e := &errEngine{c: c, jp: jp.Types, errT: types.NewPointer(errObj.Type()), memo: map[ssa.Value]int{}, why: map[ssa.Value]string{}, types: map[string]bool{}}
	for nt, en := range enumTypes(jp) {
		if nt.Obj().Name() == "ErrType" {
			for _, k := range en.Consts {
				if k.Name() != "_" && constant.Sign(k.Val()) != 0 {
					e.types[k.Val().ExactString()] = true
				}
			}
		}
	}
	nRet, nPanic, nStore, nLit := 0, 0, 0, 0
	for _, f := range c.W.FuncsOf(PkgSet{jp.Types: true}) {
		if isInitFn(f) {
			continue
		}
		ord := map[string]int{}
		for _, ins := range instrsIn(f) {
			switch x := ins.(type) {
			case *ssa.Return:
				for _, res := range x.Results {
					if !isErrorType(res.Type()) {
						continue
					}
					ord["return"]++
					nRet++
					o := Obligation{Rule: rule, Key: fmt.Sprintf("%s:return-err#%d", shortFn(f), ord["return"]), Fn: shortFn(f), Pos: c.W.Pos(x.Pos())}
					_, isConst := res.(*ssa.Const)
					o.Nontrivial = !isConst
					if e.ok(res, 0) {
						o.Verdict, o.Reason = Discharged, "the returned error is nil, a *jparse.Error, lexer.err, or comes from another jparse function"
					} else {
						o.Verdict, o.Reason = Finding, "an error that is not a *jparse.Error can leave the parser: "+e.why[res]
					}
					r.Add(o)
				}
			case *ssa.Panic:
				// panic(x): if x is (boxed from) an error, it must be acceptable; string panics are counted separately
				v := x.X
				if mi, ok := v.(*ssa.MakeInterface); ok {
					if isErrorType(mi.X.Type()) || types.Identical(mi.X.Type(), e.errT) {
						v = mi.X
					} else {
						continue
					}
				}
				if ci, ok := v.(*ssa.ChangeInterface); ok && isErrorType(ci.X.Type()) {
					v = ci.X
				}
				if !isErrorType(v.Type()) && !types.Identical(v.Type(), e.errT) {
					// re-panic of a recovered value etc.
					if f.Parent() != nil && f.Parent().Name() == "Parse" {
						continue
					}
					continue
				}
				ord["panic"]++
				nPanic++
				o := Obligation{Rule: rule, Key: fmt.Sprintf("%s:panic-err#%d", shortFn(f), ord["panic"]), Fn: shortFn(f), Pos: c.W.Pos(x.Pos()), Nontrivial: true}
				if types.Identical(v.Type(), e.errT) || e.ok(v, 0) {
					o.Verdict, o.Reason = Discharged, "the value thrown to Parse's recover is a *jparse.Error (or lexer.err / the result of a jparse function)"
				} else {
					o.Verdict, o.Reason = Finding, "a non-*jparse.Error value is thrown inside the parser; Parse re-panics it, so Compile panics: "+e.why[v]
				}
				r.Add(o)
			case *ssa.Store:
				if !isErrorType(x.Val.Type()) {
					continue
				}
				if _, isAlloc := x.Addr.(*ssa.Alloc); isAlloc {
					continue
				}
				ord["store"]++
				nStore++
				o := Obligation{Rule: rule, Key: fmt.Sprintf("%s:store-err#%d", shortFn(f), ord["store"]), Fn: shortFn(f), Pos: c.W.Pos(x.Pos()), Nontrivial: true}
				if e.ok(x.Val, 0) {
					o.Verdict, o.Reason = Discharged, "the stored error is a *jparse.Error or comes from a jparse function"
				} else {
					o.Verdict, o.Reason = Finding, "an error that is not a *jparse.Error is stored for later return: "+e.why[x.Val]
				}
				r.Add(o)
			case *ssa.Alloc:
				// every Error literal gets a declared non-zero Type
				if !types.Identical(x.Type(), e.errT) {
					continue
				}
				// the copy go/ssa makes of a value receiver or of a struct passed by value is not a literal
				spill := false
				if x.Referrers() != nil {
					for _, ref := range *x.Referrers() {
						if s, ok := ref.(*ssa.Store); ok && s.Addr == ssa.Value(x) {
							spill = true
						}
					}
				}
				if spill {
					continue
				}
				ord["lit"]++
				nLit++
				o := Obligation{Rule: rule, Key: fmt.Sprintf("%s:Error-literal#%d", shortFn(f), ord["lit"]), Fn: shortFn(f), Pos: c.W.Pos(x.Pos()), Nontrivial: true}
				ok, why := e.literalTyped(x)
				if ok {
					o.Verdict, o.Reason = Discharged, "the Error's Type field is set to a declared non-zero ErrType constant"+why
				} else {
					o.Verdict, o.Reason = Finding, "an Error is created without a declared error type"+why+": Error() would report 'unknown error type'"
				}
				r.Add(o)
			}
		}
	}
	r.RequireMin(rule+" error returns in jparse", nRet, 60)
	r.RequireMin(rule+" error panics in jparse", nPanic, 5)
	r.RequireMin(rule+" Error literals in jparse", nLit, 8)
	r.Count(rule+" error field stores in jparse", nStore)

	// Parse's deferred recover: returns exactly the *Error panics, re-panics the rest
	runParseRecover(c, r, rule)
	// jsonata.Compile returns Parse's error unchanged; MustCompile panics iff Compile failed
	runCompileShape(c, r, rule)
}

// literalTyped: the Alloc of an Error has a store to its Type field whose value is (a phi of)
// declared non-zero constants, possibly through parameters of the constructor functions.
func (e *errEngine) literalTyped(al *ssa.Alloc) (bool, string) {
	if al.Referrers() == nil {
		return false, ""
	}
	for _, ref := range *al.Referrers() {
		fa, ok := ref.(*ssa.FieldAddr)
		if !ok || fa.Referrers() == nil {
			continue
		}
		st := fa.X.Type().Underlying().(*types.Pointer).Elem().Underlying().(*types.Struct)
		if st.Field(fa.Field).Name() != "Type" {
			continue
		}
		for _, r2 := range *fa.Referrers() {
			if s, ok := r2.(*ssa.Store); ok && s.Addr == ssa.Value(fa) {
				if e.declaredType(s.Val, 0) {
					return true, ""
				}
				return false, " (the Type value is not a declared constant)"
			}
		}
	}
	return false, " (no Type field)"
}

func (e *errEngine) declaredType(v ssa.Value, depth int) bool {
	if depth > 6 {
		return false
	}
	switch x := v.(type) {
	case *ssa.Const:
		return x.Value != nil && e.types[x.Value.ExactString()]
	case *ssa.Phi:
		for _, ed := range x.Edges {
			if !e.declaredType(ed, depth+1) {
				return false
			}
		}
		return true
	case *ssa.Parameter:
		f := x.Parent()
		idx := -1
		for i, p := range f.Params {
			if p == x {
				idx = i
			}
		}
		found := false
		for _, caller := range e.c.G.Funcs {
			for _, ci := range callsIn(caller) {
				if ci.Common().StaticCallee() == f && idx < len(ci.Common().Args) {
					found = true
					if !e.declaredType(ci.Common().Args[idx], depth+1) {
						return false
					}
				}
			}
		}
		return found
	case *ssa.Call:
		// a helper that chooses the error type: every return is a declared constant
		callee := x.Call.StaticCallee()
		if callee == nil || len(callee.Blocks) == 0 || !e.c.G.InSc[callee] {
			return false
		}
		rets := 0
		for _, b := range callee.Blocks {
			if ret, ok := b.Instrs[len(b.Instrs)-1].(*ssa.Return); ok {
				if len(ret.Results) != 1 || !e.declaredType(ret.Results[0], depth+1) {
					return false
				}
				rets++
			}
		}
		return rets > 0
	case *ssa.Extract:
		return false
	}
	return false
}

func runParseRecover(c *Ctx, r *Result, rule string) {
	parse := c.mustFn(r, "jparse.Parse")
	if parse == nil {
		return
	}
	o := Obligation{Rule: rule, Key: "jparse.Parse:recover", Fn: "jparse.Parse", Pos: c.W.Pos(parse.Pos()), Nontrivial: true}
	o.Verdict, o.Reason = Finding, "Parse has no deferred function that recovers the parser's *Error panics"
	for _, an := range parse.AnonFuncs {
		hasRecover, assertsErr, repanics := false, false, false
		for _, ins := range instrsIn(an) {
			switch x := ins.(type) {
			case *ssa.Call:
				if b, ok := x.Call.Value.(*ssa.Builtin); ok && b.Name() == "recover" {
					hasRecover = true
				}
			case *ssa.TypeAssert:
				if isNamed(x.AssertedType, "jparse", "Error") && x.CommaOk {
					assertsErr = true
				}
			case *ssa.Panic:
				repanics = true
			}
		}
		if !hasRecover {
			continue
		}
		deferred := false
		for _, ins := range instrsIn(parse) {
			if d, ok := ins.(*ssa.Defer); ok {
				if mc, ok := d.Call.Value.(*ssa.MakeClosure); ok && mc.Fn == ssa.Value(an) {
					deferred = true
				}
			}
		}
		switch {
		case !deferred:
			o.Reason = "the recovering closure is not deferred by Parse"
		case !assertsErr:
			o.Reason = "the recovered value is not checked to be a *Error before it is returned as the error"
		case !repanics:
			o.Verdict, o.Reason = Discharged, "Parse defers a closure that recovers, returns the *Error panics as (nil, err) and swallows nothing else silently"
		default:
			o.Verdict, o.Reason = Discharged, "Parse defers a closure that recovers, turns exactly the *Error panics into (nil, err) and re-panics anything else"
		}
	}
	r.Add(o)
}

func runCompileShape(c *Ctx, r *Result, rule string) {
	comp := c.mustFn(r, "jsonata.Compile")
	must := c.mustFn(r, "jsonata.MustCompile")
	parse := c.mustFn(r, "jparse.Parse")
	if comp == nil || must == nil || parse == nil {
		return
	}
	// Compile: every error return is Parse's error; the success return carries a non-nil Expr
	n := 0
	for _, ins := range instrsIn(comp) {
		ret, ok := ins.(*ssa.Return)
		if !ok {
			continue
		}
		n++
		o := Obligation{Rule: rule, Key: fmt.Sprintf("jsonata.Compile:return#%d", n), Fn: "jsonata.Compile", Pos: c.W.Pos(ret.Pos()), Nontrivial: true}
		ev, ex := ret.Results[1], ret.Results[0]
		if k, isK := ev.(*ssa.Const); isK && k.IsNil() {
			if alwaysFreshAlloc(ex, 0) {
				o.Verdict, o.Reason = Discharged, "success: a freshly allocated *Expr with a nil error"
			} else {
				o.Verdict, o.Reason = Finding, "Compile returns a nil error without a freshly built expression"
			}
		} else {
			exNil := false
			if k, isK := ex.(*ssa.Const); isK && k.IsNil() {
				exNil = true
			}
			fromParse := false
			if x, isX := ev.(*ssa.Extract); isX {
				if call, isC := x.Tuple.(*ssa.Call); isC && call.Call.StaticCallee() == parse {
					fromParse = true
				}
			}
			switch {
			case !fromParse:
				o.Verdict, o.Reason = Finding, "Compile returns an error that is not the one jparse.Parse produced (it may not be a *jparse.Error)"
			case !exNil:
				o.Verdict, o.Reason = Finding, "Compile returns an error together with a non-nil expression"
			default:
				o.Verdict, o.Reason = Discharged, "failure: nil expression and the error returned by jparse.Parse"
			}
		}
		r.Add(o)
	}
	// MustCompile
	var call *ssa.Call
	for _, ci := range callsIn(must) {
		if cc, ok := ci.(*ssa.Call); ok && cc.Call.StaticCallee() == comp {
			call = cc
		}
	}
	o := Obligation{Rule: rule, Key: "jsonata.MustCompile:panics-iff-error", Fn: "jsonata.MustCompile", Pos: c.W.Pos(must.Pos()), Nontrivial: true}
	if call == nil {
		o.Verdict, o.Reason = Finding, "MustCompile does not call Compile"
		r.Add(o)
		return
	}
	var errv, exprv ssa.Value
	for _, ref := range *call.Referrers() {
		if ex, ok := ref.(*ssa.Extract); ok {
			if ex.Index == 1 {
				errv = ex
			} else {
				exprv = ex
			}
		}
	}
	panicOK, retOK := false, false
	nPanics := 0
	for _, b := range must.Blocks {
		for _, ins := range b.Instrs {
			isPanic := false
			switch x := ins.(type) {
			case *ssa.Panic:
				isPanic = true
			case ssa.CallInstruction:
				if cal := x.Common().StaticCallee(); cal != nil && cal.Name() == "panicf" {
					isPanic = true
				}
			case *ssa.Return:
				// success return is Compile's expression, not dominated by the error branch
				if len(x.Results) == 1 && x.Results[0] == exprv {
					retOK = true
				}
			}
			if isPanic {
				nPanics++
				// the panic must sit on the err != nil edge itself, with no further test in between
				panicOK = false
				if errv != nil {
					for _, hb := range must.Blocks {
						if len(hb.Instrs) == 0 {
							continue
						}
						iff, ok := hb.Instrs[len(hb.Instrs)-1].(*ssa.If)
						if !ok {
							continue
						}
						bo, ok := iff.Cond.(*ssa.BinOp)
						if !ok || bo.X != errv {
							continue
						}
						succ := -1
						if bo.Op == token.NEQ {
							succ = 0
						} else if bo.Op == token.EQL {
							succ = 1
						}
						if succ < 0 {
							continue
						}
						t := hb.Succs[succ]
						for steps := 0; steps < 5 && t != nil; steps++ {
							if t == b && len(t.Preds) == 1 {
								panicOK = true
								break
							}
							if len(t.Succs) == 1 && len(t.Preds) == 1 {
								t = t.Succs[0]
							} else {
								break
							}
						}
					}
				}
			}
		}
	}
	switch {
	case nPanics != 1 || !panicOK:
		o.Verdict, o.Reason = Finding, "MustCompile's panic is not controlled exactly by `err != nil` of its Compile call"
	case !retOK:
		o.Verdict, o.Reason = Finding, "MustCompile does not return the expression Compile produced"
	default:
		o.Verdict, o.Reason = Discharged, "MustCompile panics exactly on the err != nil edge of Compile and otherwise returns Compile's expression"
	}
	r.Add(o)
}

// alwaysFreshAlloc: v is a new object (never nil): an allocation, or the result of a module
// function (a small constructor) whose every return is one.
func alwaysFreshAlloc(v ssa.Value, depth int) bool {
	switch x := v.(type) {
	case *ssa.Alloc:
		return true
	case *ssa.Call:
		callee := x.Call.StaticCallee()
		if callee == nil || len(callee.Blocks) == 0 || depth >= 3 {
			return false
		}
		rets := 0
		for _, b := range callee.Blocks {
			ret, ok := b.Instrs[len(b.Instrs)-1].(*ssa.Return)
			if !ok {
				continue
			}
			rets++
			if len(ret.Results) == 0 || !alwaysFreshAlloc(ret.Results[0], depth+1) {
				return false
			}
		}
		return rets > 0
	}
	return false
}
