package main

import (
	"fmt"
	"go/constant"
	"go/token"
	"go/types"
	"sort"
	"strings"

	"golang.org/x/tools/go/ssa"
)

// ---------------------------------------------------------------------------------------
// integer range facts from dominating guards

func constInt(v ssa.Value) (int64, bool) {
	c, ok := v.(*ssa.Const)
	if !ok || c.Value == nil {
		return 0, false
	}
	if c.Value.Kind() == constant.Int {
		return constant.Int64Val(c.Value)
	}
	if c.Value.Kind() == constant.Float {
		f, _ := constant.Float64Val(c.Value)
		if f == float64(int64(f)) {
			return int64(f), true
		}
	}
	return 0, false
}

// guardedCmp: is the use in block b dominated by a branch edge on which `v op k` holds for
// some integer constant k satisfying want(op, k)? Both `v op k` and `k op v` forms and both
// edges (the negated relation on the false edge) are recognised.
func guardedCmp(v ssa.Value, b *ssa.BasicBlock, want func(op token.Token, k int64) bool) bool {
	neg := map[token.Token]token.Token{token.LSS: token.GEQ, token.LEQ: token.GTR, token.GTR: token.LEQ, token.GEQ: token.LSS, token.EQL: token.NEQ, token.NEQ: token.EQL}
	flip := map[token.Token]token.Token{token.LSS: token.GTR, token.LEQ: token.GEQ, token.GTR: token.LSS, token.GEQ: token.LEQ, token.EQL: token.EQL, token.NEQ: token.NEQ}
	for _, hb := range b.Parent().Blocks {
		if len(hb.Instrs) == 0 {
			continue
		}
		iff, ok := hb.Instrs[len(hb.Instrs)-1].(*ssa.If)
		if !ok {
			continue
		}
		bo, ok := iff.Cond.(*ssa.BinOp)
		if !ok {
			continue
		}
		if _, known := neg[bo.Op]; !known {
			continue
		}
		var op token.Token
		var k int64
		if bo.X == v {
			kk, ok := constInt(bo.Y)
			if !ok {
				continue
			}
			op, k = bo.Op, kk
		} else if bo.Y == v {
			kk, ok := constInt(bo.X)
			if !ok {
				continue
			}
			op, k = flip[bo.Op], kk
		} else {
			continue
		}
		for s, o := range []token.Token{op, neg[op]} {
			t := hb.Succs[s]
			if len(t.Preds) == 1 && t.Dominates(b) && want(o, k) {
				return true
			}
		}
	}
	return false
}

func impliesNonZero(op token.Token, k int64) bool {
	switch op {
	case token.NEQ:
		return k == 0
	case token.GTR:
		return k >= 0
	case token.GEQ:
		return k >= 1
	case token.LSS:
		return k <= 0
	case token.LEQ:
		return k <= -1
	case token.EQL:
		return k != 0
	}
	return false
}

func impliesNonNeg(op token.Token, k int64) bool {
	switch op {
	case token.GTR:
		return k >= -1
	case token.GEQ:
		return k >= 0
	case token.EQL:
		return k >= 0
	}
	return false
}

// nonNeg: v >= 0 at block b, structurally.
func nonNeg(c *Ctx, v ssa.Value, b *ssa.BasicBlock, depth int) bool {
	if depth > 8 {
		return false
	}
	if k, ok := constInt(v); ok {
		return k >= 0
	}
	if guardedCmp(v, b, impliesNonNeg) {
		return true
	}
	switch v := v.(type) {
	case *ssa.Parameter:
		// a parameter of a function that is only called directly: non-negative at every call
		f := v.Parent()
		idx := -1
		for i, q := range f.Params {
			if q == v {
				idx = i
			}
		}
		sites, ok := c.staticCallers(f)
		if !ok || idx < 0 || len(sites) == 0 || depth > 4 {
			return false
		}
		for _, s := range sites {
			args := s.Common().Args
			if idx >= len(args) || !nonNeg(c, args[idx], s.Block(), depth+2) {
				return false
			}
		}
		return true
	case *ssa.Call:
		if bi, ok := v.Call.Value.(*ssa.Builtin); ok && (bi.Name() == "len" || bi.Name() == "cap") {
			return true
		}
		callee := v.Call.StaticCallee()
		if callee != nil {
			n := calleePkgPath(callee) + "." + callee.Name()
			if n == "unicode/utf8.RuneCountInString" || (isReflectValue(recvType(callee)) && (callee.Name() == "Len" || callee.Name() == "NumField")) {
				return true
			}
			if len(callee.Blocks) > 0 {
				return allReturnsNonNeg(c, callee, depth+1)
			}
		}
		if v.Call.IsInvoke() {
			cs := c.G.Sites[v]
			if len(cs) == 0 {
				return false
			}
			for _, cf := range cs {
				if !allReturnsNonNeg(c, cf, depth+1) {
					return false
				}
			}
			return true
		}
	case *ssa.BinOp:
		switch v.Op {
		case token.ADD, token.MUL:
			return nonNeg(c, v.X, b, depth+1) && nonNeg(c, v.Y, b, depth+1)
		case token.QUO:
			k, ok := constInt(v.Y)
			return ok && k > 0 && nonNeg(c, v.X, b, depth+1)
		}
	case *ssa.Phi:
		for i, e := range v.Edges {
			if e == ssa.Value(v) {
				continue
			}
			if !nonNeg(c, e, v.Block().Preds[i], depth+1) {
				return false
			}
		}
		return true
	case *ssa.Convert:
		if isIntType(v.X.Type()) {
			return nonNeg(c, v.X, b, depth+1)
		}
	}
	return false
}

func allReturnsNonNeg(c *Ctx, f *ssa.Function, depth int) bool {
	if f.Synthetic != "" {
		// wrapper: follow the single static call
		for _, ci := range callsIn(f) {
			if callee := ci.Common().StaticCallee(); callee != nil && len(callee.Blocks) > 0 {
				return allReturnsNonNeg(c, callee, depth+1)
			}
		}
		return false
	}
	found := false
	for _, b := range f.Blocks {
		for _, ins := range b.Instrs {
			if ret, ok := ins.(*ssa.Return); ok && len(ret.Results) >= 1 {
				found = true
				if !nonNeg(c, ret.Results[0], b, depth) {
					return false
				}
			}
		}
	}
	return found
}

// ---------------------------------------------------------------------------------------
// GUARD: partial operations need a dominating guard on the same SSA value

func runGUARD(c *Ctx, r *Result, rule string, fns []*ssa.Function, reach *Reach) int {
	n := 0
	for _, f := range fns {
		if f.Synthetic != "" {
			continue
		}
		ord := map[string]int{}
		for _, ins := range instrsIn(f) {
			switch ins := ins.(type) {
			case *ssa.BinOp:
				if (ins.Op != token.QUO && ins.Op != token.REM) || !isIntType(ins.X.Type()) {
					continue
				}
				if k, isK := constInt(ins.Y); isK && k != 0 {
					continue
				}
				ord["intdiv"]++
				n++
				o := Obligation{Rule: rule, Key: fmt.Sprintf("%s:intdiv#%d", shortFn(f), ord["intdiv"]), Fn: shortFn(f), Pos: c.W.Pos(ins.Pos()), Nontrivial: true}
				if guardedCmp(ins.Y, ins.Block(), impliesNonZero) {
					o.Verdict, o.Reason = Discharged, "integer "+ins.Op.String()+": a dominating comparison of the divisor with a constant excludes zero"
				} else {
					o.Verdict, o.Reason = Finding, "integer "+ins.Op.String()+" by "+describeVal(ins.Y)+" with no dominating test that the divisor is non-zero (integer divide by zero panics)"
					if reach != nil {
						o.Path = reach.Path(f)
					}
				}
				r.Add(o)
			case ssa.CallInstruction:
				callee := ins.Common().StaticCallee()
				if callee == nil {
					continue
				}
				args := ins.Common().Args
				switch calleePkgPath(callee) + "." + callee.Name() {
				case "strconv.FormatInt", "strconv.FormatUint":
					ord["radix"]++
					n++
					base := args[1]
					o := Obligation{Rule: rule, Key: fmt.Sprintf("%s:radix#%d", shortFn(f), ord["radix"]), Fn: shortFn(f), Pos: c.W.Pos(ins.Pos()), Nontrivial: true}
					if k, ok := constInt(base); ok {
						o.Nontrivial = false
						if k >= 2 && k <= 36 {
							o.Verdict, o.Reason = Discharged, "constant base in [2,36]"
						} else {
							o.Verdict, o.Reason = Finding, "constant base outside strconv's domain [2,36]"
						}
					} else {
						// lower >= 2: guards must establish base >= 2 exactly (k such that the implied bound is 2), upper <= 36
						lo := guardedCmp(base, ins.Block(), func(op token.Token, k int64) bool {
							return (op == token.GEQ && k == 2) || (op == token.GTR && k == 1)
						})
						hi := guardedCmp(base, ins.Block(), func(op token.Token, k int64) bool {
							return (op == token.LEQ && k == 36) || (op == token.LSS && k == 37)
						})
						loAny := guardedCmp(base, ins.Block(), func(op token.Token, k int64) bool {
							return (op == token.GEQ && k >= 2) || (op == token.GTR && k >= 1)
						})
						hiAny := guardedCmp(base, ins.Block(), func(op token.Token, k int64) bool {
							return (op == token.LEQ && k <= 36) || (op == token.LSS && k <= 37)
						})
						switch {
						case lo && hi:
							o.Verdict, o.Reason = Discharged, "dominating tests restrict the base to exactly strconv's domain [2,36]"
						case loAny && hiAny:
							o.Verdict, o.Reason = Finding, "the radix guard is narrower than [2,36]: bases the property requires are rejected"
						default:
							o.Verdict, o.Reason = Finding, "strconv.FormatInt panics for a base outside [2,36] and no dominating test restricts it to that range"
						}
					}
					r.Add(o)
				case "strings.Repeat":
					ord["repeat"]++
					n++
					o := Obligation{Rule: rule, Key: fmt.Sprintf("%s:repeat#%d", shortFn(f), ord["repeat"]), Fn: shortFn(f), Pos: c.W.Pos(ins.Pos()), Nontrivial: true}
					if nonNeg(c, args[1], ins.Block(), 0) {
						o.Verdict, o.Reason = Discharged, "repeat count is non-negative by a dominating comparison or by construction"
					} else {
						o.Verdict, o.Reason = Finding, "strings.Repeat panics for a negative count and no dominating test excludes it"
					}
					r.Add(o)
				}
			}
		}
	}
	return n
}

// runRangeGuard: evalRange's size test dominates the allocation and the bound is the property's.
func runRangeGuard(c *Ctx, r *Result, rule string, want int64) {
	f := c.mustFn(r, "jsonata.evalRange")
	if f == nil {
		return
	}
	found := 0
	for _, ci := range callsIn(f) {
		callee := ci.Common().StaticCallee()
		if callee == nil || calleePkgPath(callee)+"."+callee.Name() != "reflect.MakeSlice" {
			continue
		}
		found++
		size := ci.Common().Args[1]
		o := Obligation{Rule: rule, Key: fmt.Sprintf("jsonata.evalRange:alloc-size#%d", found), Fn: "jsonata.evalRange", Pos: c.W.Pos(ci.Pos()), Nontrivial: true}
		lo := guardedCmp(size, ci.Block(), func(op token.Token, k int64) bool { return impliesNonNeg(op, k) })
		hiExact := guardedCmp(size, ci.Block(), func(op token.Token, k int64) bool {
			return (op == token.LEQ && k == want) || (op == token.LSS && k == want+1)
		})
		hiAny := guardedCmp(size, ci.Block(), func(op token.Token, k int64) bool { return op == token.LEQ || op == token.LSS })
		if !(lo && hiExact) {
			// the test may live in a helper that computes the size: ask the interval prover, which
			// knows the range of a helper's result over all its returns
			bndCtx = c
			p := newBndProver(c, ci, 0)
			x := bnorm(size)
			lo = lo || p.prove(zeroLin, x)
			if !hiExact && p.prove(x, blin{c: want}) {
				// not a looser bound than stated: the bound is exact unless something smaller holds too
				hiExact = !p.prove(x, blin{c: want - 1})
				hiAny = true
			} else if !hiAny {
				hiAny = p.prove(x, blin{c: 1 << 40})
			}
		}
		switch {
		case lo && hiExact:
			o.Verdict, o.Reason = Discharged, fmt.Sprintf("0 <= size <= %d is established by dominating tests before the slice is allocated", want)
		case lo && hiAny:
			o.Verdict, o.Reason = Finding, fmt.Sprintf("the range size limit is not the %d items the property states", want)
		default:
			o.Verdict, o.Reason = Finding, "the range size (computed from runtime numbers) is not bounded below and above before the slice is allocated"
		}
		r.Add(o)
		// the capacity argument must be the same value
		if ci.Common().Args[2] != size {
			r.Add(Obligation{Rule: rule, Key: fmt.Sprintf("jsonata.evalRange:alloc-cap#%d", found), Fn: "jsonata.evalRange", Pos: c.W.Pos(ci.Pos()), Verdict: Finding, Reason: "capacity differs from the guarded size", Nontrivial: true})
		}
	}
	if found == 0 {
		r.LoseAnchor("evalRange: reflect.MakeSlice call not found")
	}
}

// runCondLazy: ?: evaluates exactly one branch, chosen by jlib.Boolean of the condition.
func runCondLazy(c *Ctx, r *Result, rule string) {
	f := c.mustFn(r, "jsonata.evalConditional")
	ev := c.mustFn(r, "jsonata.eval")
	boolean := c.mustFn(r, "jlib.Boolean")
	if f == nil || ev == nil || boolean == nil {
		return
	}
	// which field of the node each eval call evaluates
	type evc struct {
		call  ssa.CallInstruction
		field string
	}
	var calls []evc
	for _, ci := range callsIn(f) {
		if ci.Common().StaticCallee() != ev {
			continue
		}
		field := "?"
		if u, ok := ci.Common().Args[0].(*ssa.UnOp); ok {
			if fa, ok := u.X.(*ssa.FieldAddr); ok {
				st := fa.X.Type().Underlying().(*types.Pointer).Elem().Underlying().(*types.Struct)
				field = st.Field(fa.Field).Name()
			}
		}
		calls = append(calls, evc{ci, field})
	}
	by := map[string][]evc{}
	for _, e := range calls {
		by[e.field] = append(by[e.field], e)
	}
	if len(by["If"]) != 1 || len(by["Then"]) != 1 || len(by["Else"]) != 1 {
		r.LoseAnchor("evalConditional: expected exactly one eval call each for If/Then/Else, found %d/%d/%d", len(by["If"]), len(by["Then"]), len(by["Else"]))
		return
	}
	th, el := by["Then"][0].call, by["Else"][0].call
	// find the branch on jlib.Boolean(result of eval(If))
	var boolIf *ssa.If
	for _, b := range f.Blocks {
		if len(b.Instrs) == 0 {
			continue
		}
		if iff, ok := b.Instrs[len(b.Instrs)-1].(*ssa.If); ok {
			if call, ok := iff.Cond.(*ssa.Call); ok && call.Call.StaticCallee() == boolean {
				boolIf = iff
			}
		}
	}
	o := Obligation{Rule: rule, Key: "jsonata.evalConditional:one-branch", Fn: "jsonata.evalConditional", Pos: c.W.Pos(f.Pos()), Nontrivial: true}
	switch {
	case boolIf == nil:
		o.Verdict, o.Reason = Finding, "no branch on jlib.Boolean(condition) found"
	default:
		tb, fb := boolIf.Block().Succs[0], boolIf.Block().Succs[1]
		thenOK := len(tb.Preds) == 1 && tb.Dominates(th.Block()) && !fb.Dominates(th.Block())
		elseOK := len(fb.Preds) == 1 && fb.Dominates(el.Block()) && !tb.Dominates(el.Block())
		// no path executes both: neither block reaches the other
		both := reaches(th.Block(), el.Block()) || reaches(el.Block(), th.Block())
		switch {
		case !thenOK:
			o.Verdict, o.Reason = Finding, "eval(node.Then) is not confined to the true edge of jlib.Boolean(condition)"
		case !elseOK:
			o.Verdict, o.Reason = Finding, "eval(node.Else) is not confined to the false edge of jlib.Boolean(condition)"
		case both:
			o.Verdict, o.Reason = Finding, "a path evaluates both branches of ?:"
		default:
			o.Verdict, o.Reason = Discharged, "Then is evaluated only on the true edge and Else only on the false edge of jlib.Boolean(eval(If)); no path runs both"
		}
	}
	r.Add(o)
}

func reaches(a, b *ssa.BasicBlock) bool {
	seen := map[*ssa.BasicBlock]bool{}
	var q []*ssa.BasicBlock
	q = append(q, a.Succs...)
	for len(q) > 0 {
		x := q[0]
		q = q[1:]
		if seen[x] {
			continue
		}
		seen[x] = true
		if x == b {
			return true
		}
		q = append(q, x.Succs...)
	}
	return false
}

// ---------------------------------------------------------------------------------------
// CLOCK (C05, C19): clock and random sources under Eval are exactly the sanctioned ones

func runCLOCK(c *Ctx, r *Result, rule string) {
	clockFns := map[string]bool{"time.Now": true, "time.Since": true, "time.Until": true, "time.After": true, "time.Tick": true, "time.NewTimer": true, "time.NewTicker": true, "time.Sleep": true}
	nowSites, randSites := 0, 0
	for _, f := range srcFuncsIn(c.REval) {
		ord := 0
		for _, ci := range callsIn(f) {
			callee := ci.Common().StaticCallee()
			if callee == nil {
				continue
			}
			pp := calleePkgPath(callee)
			full := pp + "." + callee.Name()
			switch {
			case clockFns[full] && callee.Signature.Recv() == nil:
				ord++
				nowSites++
				o := Obligation{Rule: rule, Key: fmt.Sprintf("%s:clock#%d", shortFn(f), ord), Fn: shortFn(f), Pos: c.W.Pos(ci.Pos()), Nontrivial: true}
				if shortFn(f) == "(*jsonata.Expr).newEnv" && full == "time.Now" && !inLoop(ci.Block()) {
					o.Verdict, o.Reason = Discharged, "the one sanctioned clock read: Expr.newEnv, once per Eval, outside any loop"
				} else {
					o.Verdict, o.Reason = Finding, "a clock read under Eval outside Expr.newEnv: results (and $now/$millis) could vary within one evaluation"
					o.Path = c.REval.Path(f)
				}
				r.Add(o)
			case pp == "math/rand" || pp == "math/rand/v2" || pp == "crypto/rand":
				ord++
				randSites++
				o := Obligation{Rule: rule, Key: fmt.Sprintf("%s:rand#%d", shortFn(f), ord), Fn: shortFn(f), Pos: c.W.Pos(ci.Pos()), Nontrivial: true}
				sanctioned := shortFn(f) == "jlib.Random" || shortFn(f) == "jlib.Shuffle"
				switch {
				case !sanctioned:
					o.Verdict, o.Reason = Finding, "a random source is used under Eval outside $random/$shuffle (repeatability)"
					o.Path = c.REval.Path(f)
				case callee.Signature.Recv() != nil:
					o.Verdict, o.Reason = Finding, "a *rand.Rand method is used: a shared generator is not safe for concurrent evaluations (the package-level functions are)"
				default:
					o.Verdict, o.Reason = Discharged, "package-level math/rand function (internally locked) inside "+shortFn(f)
				}
				r.Add(o)
			}
		}
	}
	r.RequireMin(rule+" clock reads under Eval", nowSites, 1)
	r.RequireMin(rule+" random calls under Eval", randSites, 2)

	// newEnv is called exactly once under Eval, by Expr.Eval, outside loops
	newEnv := c.mustFn(r, "jsonata.(*Expr).newEnv")
	if newEnv != nil {
		callers := 0
		for _, f := range srcFuncsIn(c.REval) {
			for _, ci := range callsIn(f) {
				if ci.Common().StaticCallee() == newEnv {
					callers++
					o := Obligation{Rule: rule, Key: fmt.Sprintf("%s:newEnv-call#%d", shortFn(f), callers), Fn: shortFn(f), Pos: c.W.Pos(ci.Pos()), Nontrivial: true}
					if shortFn(f) == "(*jsonata.Expr).Eval" && !inLoop(ci.Block()) && callers == 1 {
						o.Verdict, o.Reason = Discharged, "one evaluation environment (one clock reading) per Eval"
					} else {
						o.Verdict, o.Reason = Finding, "the evaluation environment is built more than once or outside Expr.Eval: $now/$millis could denote several instants in one evaluation"
					}
					r.Add(o)
				}
			}
		}
		if callers == 0 {
			r.LoseAnchor("CLOCK: no call of Expr.newEnv under Eval")
		}
	}
	// timeCallables: every NumberNode.Value store derives from one SSA value (the single ms)
	tc := c.mustFn(r, "jsonata.timeCallables")
	if tc != nil {
		roots := map[ssa.Value]bool{}
		stores := 0
		unconv := func(v ssa.Value) ssa.Value {
			for {
				if cv, ok := v.(*ssa.Convert); ok {
					v = cv.X
					continue
				}
				return v
			}
		}
		// the NumberNode may be built in timeCallables itself or by a small helper that is
		// handed the value
		nodeValueStores := func(f *ssa.Function) []ssa.Value {
			var out []ssa.Value
			for _, ins := range instrsIn(f) {
				st, ok := ins.(*ssa.Store)
				if !ok {
					continue
				}
				fa, ok := st.Addr.(*ssa.FieldAddr)
				if !ok || !isNamed(fa.X.Type(), "jparse", "NumberNode") {
					continue
				}
				out = append(out, unconv(st.Val))
			}
			return out
		}
		for _, v := range nodeValueStores(tc) {
			stores++
			roots[v] = true
		}
		for _, ci := range callsIn(tc) {
			callee := ci.Common().StaticCallee()
			if callee == nil || !c.G.InSc[callee] || len(callee.Blocks) == 0 {
				continue
			}
			for _, v := range nodeValueStores(callee) {
				if p, ok := v.(*ssa.Parameter); ok {
					for i, q := range callee.Params {
						if q == p && i < len(ci.Common().Args) {
							stores++
							roots[unconv(ci.Common().Args[i])] = true
						}
					}
				} else {
					stores++
					roots[v] = true
				}
			}
		}
		o := Obligation{Rule: rule, Key: "jsonata.timeCallables:one-instant", Fn: "jsonata.timeCallables", Pos: c.W.Pos(tc.Pos()), Nontrivial: true}
		switch {
		case stores < 2:
			o.Verdict, o.Reason = Undecided, fmt.Sprintf("expected the two time callables to embed a NumberNode each, found %d stores", stores)
		case len(roots) == 1:
			o.Verdict, o.Reason = Discharged, fmt.Sprintf("all %d embedded NumberNode values are conversions of one SSA value (the single millisecond reading)", stores)
		default:
			o.Verdict, o.Reason = Finding, "$now and $millis embed different values: they can denote different instants within one evaluation"
		}
		r.Add(o)
		// and the parameter of timeCallables is the only time source there
		for _, ci := range callsIn(tc) {
			if callee := ci.Common().StaticCallee(); callee != nil && clockFns[calleePkgPath(callee)+"."+callee.Name()] {
				r.Add(Obligation{Rule: rule, Key: "jsonata.timeCallables:no-second-clock", Fn: "jsonata.timeCallables", Pos: c.W.Pos(ci.Pos()), Verdict: Finding, Reason: "timeCallables reads the clock itself", Nontrivial: true})
			}
		}
	}
}

func inLoop(b *ssa.BasicBlock) bool { return reaches(b, b) }

// ---------------------------------------------------------------------------------------
// GUARD-API (C19): no nanoseconds-since-epoch API on the ms<->time path

func runUnixNano(c *Ctx, r *Result, rule string) {
	root := c.mustFn(r, "jlib.ToMillis")
	if root == nil {
		return
	}
	reach := c.G.Reach(root)
	n := 0
	for _, f := range srcFuncsIn(reach) {
		ord := 0
		for _, ci := range callsIn(f) {
			callee := ci.Common().StaticCallee()
			if callee == nil || calleePkgPath(callee) != "time" {
				continue
			}
			n++
			switch callee.Name() {
			case "UnixNano", "UnixMicro":
				if callee.Name() == "UnixMicro" {
					continue // int64 microseconds cover ±292,000 years
				}
				ord++
				r.Add(Obligation{Rule: rule, Key: fmt.Sprintf("%s:UnixNano#%d", shortFn(f), ord), Fn: shortFn(f), Pos: c.W.Pos(ci.Pos()), Verdict: Finding, Nontrivial: true,
					Reason: "time.Time.UnixNano is undefined outside 1678..2262 (int64 nanoseconds); $toMillis must cover years 1000..9999", Path: reach.Path(f)})
			}
		}
	}
	r.Add(Obligation{Rule: rule, Key: "jlib.ToMillis:time-api-scan", Fn: "jlib.ToMillis", Pos: c.W.Pos(root.Pos()), Verdict: Discharged, Nontrivial: true,
		Reason: fmt.Sprintf("scanned %d calls into package time in the %d functions reachable from ToMillis", n, len(reach.Set))})
	r.RequireMin(rule+" time API calls under ToMillis", n, 3)
}

// ---------------------------------------------------------------------------------------
// MARSHAL (C10)

func jsonClosed(t types.Type, depth int) (bool, string) {
	if depth > 6 {
		return false, "type too deep"
	}
	if isReflectValue(t) {
		return true, "reflect.Value (a JSONata value)"
	}
	if n, ok := t.(*types.Named); ok {
		if n.Obj().Pkg() != nil && n.Obj().Pkg().Path() == "time" {
			return false, "time." + n.Obj().Name() + " is not a JSON value"
		}
	}
	switch u := t.Underlying().(type) {
	case *types.Basic:
		if u.Info()&(types.IsBoolean|types.IsNumeric|types.IsString) != 0 && u.Info()&types.IsComplex == 0 {
			return true, ""
		}
		return false, "basic type " + u.String()
	case *types.Interface:
		if u.NumMethods() == 0 {
			return true, "interface{} (dynamic JSONata value)"
		}
		return false, "non-empty interface"
	case *types.Slice:
		return jsonClosed(u.Elem(), depth+1)
	case *types.Array:
		return jsonClosed(u.Elem(), depth+1)
	case *types.Map:
		if b, ok := u.Key().Underlying().(*types.Basic); !ok || b.Info()&types.IsString == 0 {
			return false, "map key is not a string"
		}
		return jsonClosed(u.Elem(), depth+1)
	}
	return false, "type " + t.String() + " is not JSON-representable"
}

func runMARSHAL(c *Ctx, r *Result, rule string) {
	jp := c.W.Lib["jsonata"].Types
	jt := c.W.Lib["jtypes"].Types
	callableObj, _ := jt.Scope().Lookup("Callable").(*types.TypeName)
	if callableObj == nil {
		r.LoseAnchor("jtypes.Callable not found")
		return
	}
	iface := callableObj.Type().Underlying().(*types.Interface)
	// 1. every Callable implementation of M marshals as ""
	nImpl := 0
	for _, T := range c.G.named {
		for _, X := range []types.Type{T, types.NewPointer(T)} {
			if !types.Implements(X, iface) {
				continue
			}
			if _, isPtr := X.(*types.Pointer); !isPtr {
				// value type implements: pointer does too; handle once below
			}
			nImpl++
			o := Obligation{Rule: rule, Key: "callable-marshal:" + types.TypeString(X, types.RelativeTo(jp)), Fn: types.TypeString(X, nil), Pos: c.W.Pos(T.(*types.Named).Obj().Pos()), Nontrivial: true}
			obj, _, _ := types.LookupFieldOrMethod(X, true, jp, "MarshalJSON")
			fn, _ := obj.(*types.Func)
			if fn == nil {
				o.Verdict, o.Reason = Finding, "callable type has no MarshalJSON: json.Marshal of a result containing it would expose its fields or fail"
			} else if sf := c.W.Prog.FuncValue(fn); sf == nil || !returnsQuotedEmpty(sf) {
				o.Verdict, o.Reason = Finding, "MarshalJSON of this callable type does not return the constant `\"\"`"
			} else {
				o.Verdict, o.Reason = Discharged, "MarshalJSON resolves to "+shortFn(sf)+", which returns the constant `\"\"`"
			}
			r.Add(o)
			// jtypes.Resolve dereferences pointers, and built-ins keep the resolved value in
			// their results ($reduce, $distinct): the struct itself has to be a json.Marshaler
			// too, which needs a value receiver (encoding/json cannot take the address of a
			// value held in an interface and falls back to the struct encoder: "{}")
			if _, isPtr := X.(*types.Pointer); isPtr {
				if _, isStruct := T.Underlying().(*types.Struct); isStruct {
					ov := Obligation{Rule: rule, Key: "callable-marshal-value:" + types.TypeString(T, types.RelativeTo(jp)), Fn: types.TypeString(T, nil), Pos: c.W.Pos(T.(*types.Named).Obj().Pos()), Nontrivial: true}
					if types.NewMethodSet(T).Lookup(jp, "MarshalJSON") != nil || types.NewMethodSet(T).Lookup(nil, "MarshalJSON") != nil {
						ov.Verdict, ov.Reason = Discharged, "MarshalJSON is in the method set of the struct type itself: a dereferenced callable (jtypes.Resolve) still marshals as \"\""
					} else {
						ov.Verdict, ov.Reason = Finding, "MarshalJSON has a pointer receiver only: a callable that jtypes.Resolve dereferenced (the accumulator of $reduce, the items of $distinct) is encoded by the struct encoder as {} instead of \"\""
					}
					r.Add(ov)
				}
			}
			break
		}
	}
	r.RequireMin(rule+" Callable implementations", nImpl, 8)

	// 2. every built-in's first result type is JSON-closed
	binds := baseEnvBindings(c, r)
	for _, b := range binds {
		fn, _ := b.Func.(*types.Func)
		o := Obligation{Rule: rule, Key: "builtin-result:$" + b.Name, Fn: objName(b.Func), Pos: c.W.Pos(b.Pos), Nontrivial: true}
		if fn == nil {
			o.Verdict, o.Reason = Undecided, "built-in is not bound to a named function"
			r.Add(o)
			continue
		}
		sig := fn.Type().(*types.Signature)
		if sig.Results().Len() == 0 {
			o.Verdict, o.Reason = Finding, "built-in returns nothing"
		} else if ok, why := jsonClosed(sig.Results().At(0).Type(), 0); ok {
			o.Verdict, o.Reason = Discharged, "result type "+sig.Results().At(0).Type().String()+" is JSON-closed "+why
		} else {
			o.Verdict, o.Reason = Finding, "built-in result type "+sig.Results().At(0).Type().String()+": "+why
		}
		r.Add(o)
	}
	r.RequireMin(rule+" built-ins bound in baseEnv", len(binds), 55)

	// 3. jsonata.ErrUndefined has one producer: Expr.Eval
	if g := c.W.LibSSA["jsonata"].Var("ErrUndefined"); g != nil {
		users := map[string]bool{}
		for _, f := range c.G.Funcs {
			if f.Synthetic != "" && !strings.HasPrefix(f.Synthetic, "package init") {
				continue
			}
			for _, b := range f.Blocks {
				for _, ins := range b.Instrs {
					for _, op := range ins.Operands(nil) {
						if *op == ssa.Value(g) {
							if _, isStore := ins.(*ssa.Store); isStore && f.Name() == "init" {
								continue
							}
							users[shortFn(f)] = true
						}
					}
				}
			}
		}
		var us []string
		for u := range users {
			us = append(us, u)
		}
		sort.Strings(us)
		o := Obligation{Rule: rule, Key: "ErrUndefined:single-producer", Fn: "jsonata.ErrUndefined", Pos: c.W.Pos(g.Pos()), Nontrivial: true}
		// the producer: Eval itself, or a helper that only Eval calls and whose results Eval returns as they are
		producer := c.fn("jsonata.(*Expr).Eval")
		if evf := producer; evf != nil && len(us) == 1 && us[0] != shortFn(evf) {
			if h := c.W.Fn(us[0]); h != nil {
				if sites, static := c.staticCallers(h); static && len(sites) > 0 {
					only := true
					for _, site := range sites {
						if site.Parent() != evf {
							only = false
							continue
						}
						// Eval returns the helper's results unchanged
						call, isCall := site.(*ssa.Call)
						returned := false
						if isCall {
							for _, ref := range *call.Referrers() {
								if ret, isRet := ref.(*ssa.Return); isRet && len(ret.Results) == 1 && ret.Results[0] == ssa.Value(call) {
									returned = true
								}
								if ex, isEx := ref.(*ssa.Extract); isEx {
									for _, r2 := range *ex.Referrers() {
										if ret, isRet := r2.(*ssa.Return); isRet && ex.Index < len(ret.Results) && ret.Results[ex.Index] == ssa.Value(ex) {
											returned = true
										}
									}
								}
							}
						}
						if !returned {
							only = false
						}
					}
					if only {
						producer = h
					}
				}
			}
		}
		if len(us) == 1 && producer != nil && us[0] == shortFn(producer) {
			o.Verdict, o.Reason = Discharged, "within the module ErrUndefined is referenced only by "+shortFn(producer)+" (Expr.Eval's result conversion, on the !result.IsValid() path)"
		} else {
			o.Verdict, o.Reason = Finding, fmt.Sprintf("ErrUndefined is referenced by %v: it could be reported for something other than 'no value'", us)
		}
		r.Add(o)
		// and in Eval it is returned exactly under !IsValid()
		if ev := producer; ev != nil {
			ok := false
			for _, b := range ev.Blocks {
				for _, ins := range b.Instrs {
					ret, isRet := ins.(*ssa.Return)
					if !isRet || len(ret.Results) != 2 {
						continue
					}
					if ld, isLd := ret.Results[1].(*ssa.UnOp); isLd && ld.X == ssa.Value(g) {
						// dominated by the false edge of IsValid(result)
						ok = domGuard(b, func(cond ssa.Value) (int, bool) {
							call, isC := cond.(*ssa.Call)
							if isC && call.Call.StaticCallee() != nil && isReflectValue(recvType(call.Call.StaticCallee())) && call.Call.StaticCallee().Name() == "IsValid" {
								return 1, true
							}
							return 0, false
						})
					}
				}
			}
			o2 := Obligation{Rule: rule, Key: "ErrUndefined:iff-invalid", Fn: shortFn(ev), Pos: c.W.Pos(ev.Pos()), Nontrivial: true}
			if ok {
				o2.Verdict, o2.Reason = Discharged, "Eval returns ErrUndefined exactly on the false edge of result.IsValid()"
			} else {
				o2.Verdict, o2.Reason = Finding, "Eval's ErrUndefined return is not controlled by result.IsValid()"
			}
			r.Add(o2)
		}
	} else {
		r.LoseAnchor("jsonata.ErrUndefined not found")
	}

	// 4. EvalBytes = Unmarshal -> Eval -> Marshal
	runEvalBytes(c, r, rule)
}

func returnsQuotedEmpty(f *ssa.Function) bool {
	// follow a wrapper to the real method
	for f.Synthetic != "" {
		var next *ssa.Function
		for _, ci := range callsIn(f) {
			if callee := ci.Common().StaticCallee(); callee != nil && callee.Name() == f.Name() {
				next = callee
			}
		}
		if next == nil {
			return false
		}
		f = next
	}
	ok := false
	for _, b := range f.Blocks {
		for _, ins := range b.Instrs {
			if ret, isRet := ins.(*ssa.Return); isRet {
				if len(ret.Results) != 2 {
					return false
				}
				v := ret.Results[0]
				if cv, isC := v.(*ssa.Convert); isC {
					v = cv.X
				}
				k, isK := v.(*ssa.Const)
				if !isK || k.Value == nil || k.Value.Kind() != constant.String || constant.StringVal(k.Value) != `""` {
					return false
				}
				if e, isE := ret.Results[1].(*ssa.Const); !isE || !e.IsNil() {
					return false
				}
				ok = true
			}
		}
	}
	return ok
}

func runEvalBytes(c *Ctx, r *Result, rule string) {
	f := c.mustFn(r, "jsonata.(*Expr).EvalBytes")
	ev := c.mustFn(r, "jsonata.(*Expr).Eval")
	if f == nil || ev == nil {
		return
	}
	var unm, evc, mar *ssa.Call
	for _, ci := range callsIn(f) {
		call, ok := ci.(*ssa.Call)
		if !ok {
			continue
		}
		callee := call.Call.StaticCallee()
		switch {
		case callee == ev:
			evc = call
		case callee != nil && calleePkgPath(callee) == "encoding/json" && callee.Name() == "Unmarshal":
			unm = call
		case callee != nil && calleePkgPath(callee) == "encoding/json" && callee.Name() == "Marshal":
			mar = call
		}
	}
	o := Obligation{Rule: rule, Key: "EvalBytes:decode-eval-encode", Fn: "(*jsonata.Expr).EvalBytes", Pos: c.W.Pos(f.Pos()), Nontrivial: true}
	if unm == nil || evc == nil || mar == nil {
		o.Verdict, o.Reason = Finding, "EvalBytes is not json.Unmarshal -> Eval -> json.Marshal"
		r.Add(o)
		return
	}
	errGuard := func(call *ssa.Call, idx int, user *ssa.Call) bool {
		// user is dominated by the false edge of `err != nil` where err is call's error result
		var errv ssa.Value
		if idx < 0 {
			errv = call
		} else if call.Referrers() != nil {
			for _, ref := range *call.Referrers() {
				if ex, ok := ref.(*ssa.Extract); ok && ex.Index == idx {
					errv = ex
				}
			}
		}
		if errv == nil {
			return false
		}
		return domGuard(user.Block(), func(cond ssa.Value) (int, bool) {
			bo, ok := cond.(*ssa.BinOp)
			if !ok || (bo.X != errv && bo.Y != errv) {
				return 0, false
			}
			if bo.Op == token.NEQ {
				return 1, true
			}
			if bo.Op == token.EQL {
				return 0, true
			}
			return 0, false
		})
	}
	// data flow: Unmarshal's destination cell is what Eval reads; Eval's result is what Marshal gets
	destOK, resOK := false, false
	var cell ssa.Value
	if mi, ok := unm.Call.Args[1].(*ssa.MakeInterface); ok {
		cell = mi.X
	}
	if cell != nil {
		if ld, ok := evc.Call.Args[1].(*ssa.UnOp); ok && ld.X == cell {
			destOK = true
		}
	}
	// Marshal's argument: load of the same cell after a store of Eval's first result, or the extract itself
	if ld, ok := mar.Call.Args[0].(*ssa.UnOp); ok && ld.X == cell {
		if stores, ok2 := cellStores(cell); ok2 {
			for _, s := range stores {
				if ex, isEx := s.Val.(*ssa.Extract); isEx && ex.Tuple == ssa.Value(evc) && ex.Index == 0 && s.Block().Dominates(mar.Block()) {
					resOK = true
				}
			}
		}
		// cellStores fails when the address escapes to Unmarshal; scan stores directly
		if !resOK && cell.Referrers() != nil {
			for _, ref := range *cell.Referrers() {
				if s, isS := ref.(*ssa.Store); isS {
					if ex, isEx := s.Val.(*ssa.Extract); isEx && ex.Tuple == ssa.Value(evc) && ex.Index == 0 && s.Block().Dominates(mar.Block()) {
						resOK = true
					}
				}
			}
		}
	} else if ex, ok := mar.Call.Args[0].(*ssa.Extract); ok && ex.Tuple == ssa.Value(evc) && ex.Index == 0 {
		resOK = true
	}
	switch {
	case !errGuard(unm, -1, evc):
		o.Verdict, o.Reason = Finding, "Eval is reached although json.Unmarshal reported an error (invalid JSON input is not rejected)"
	case !destOK:
		o.Verdict, o.Reason = Finding, "Eval's argument is not the value json.Unmarshal decoded"
	case !errGuard(evc, 1, mar):
		o.Verdict, o.Reason = Finding, "json.Marshal is reached although Eval returned an error"
	case !resOK:
		o.Verdict, o.Reason = Finding, "json.Marshal's argument is not Eval's result"
	default:
		// every return is either (nil, err) or exactly what json.Marshal returned
		bad := ""
		for _, b := range f.Blocks {
			for _, ins := range b.Instrs {
				ret, ok := ins.(*ssa.Return)
				if !ok || len(ret.Results) != 2 {
					continue
				}
				if k, isK := ret.Results[0].(*ssa.Const); isK && k.IsNil() {
					if e, isE := ret.Results[1].(*ssa.Const); isE && e.IsNil() {
						bad = "a path returns (nil, nil)"
					}
					continue
				}
				x0, ok0 := ret.Results[0].(*ssa.Extract)
				x1, ok1 := ret.Results[1].(*ssa.Extract)
				if !ok0 || !ok1 || x0.Tuple != ssa.Value(mar) || x1.Tuple != ssa.Value(mar) || x0.Index != 0 || x1.Index != 1 {
					bad = "a path returns bytes that are not the result of json.Marshal (the output may not be the JSON encoding of Eval's value)"
				}
			}
		}
		if bad != "" {
			o.Verdict, o.Reason = Finding, "EvalBytes: "+bad
		} else {
			o.Verdict, o.Reason = Discharged, "json.Unmarshal (error checked) -> Eval on the decoded value (error checked) -> json.Marshal of Eval's result; every return is (nil, err) or json.Marshal's own result"
		}
	}
	r.Add(o)
}

// ---------------------------------------------------------------------------------------
// IDX — reflect.Value.Index needs an index provably within 0..Len-1 (C09)

// lenLike: v is Len()/len()/NumField() of recv, or a module helper all of whose returns are
// that or the constant 0 (jlib.arrayLen).
func lenLike(v ssa.Value, recv ssa.Value, depth int) bool {
	if depth > 3 {
		return false
	}
	call, ok := v.(*ssa.Call)
	if !ok {
		return false
	}
	if callee := call.Call.StaticCallee(); callee != nil {
		if isReflectValue(recvType(callee)) && callee.Name() == "Len" && call.Call.Args[0] == recv {
			return true
		}
		if len(callee.Blocks) > 0 && len(callee.Params) == 1 && len(call.Call.Args) == 1 && call.Call.Args[0] == recv {
			ok := false
			for _, b := range callee.Blocks {
				for _, ins := range b.Instrs {
					if ret, isRet := ins.(*ssa.Return); isRet {
						if k, isK := constInt(ret.Results[0]); isK && k == 0 {
							continue
						}
						if lenLike(ret.Results[0], callee.Params[0], depth+1) {
							ok = true
							continue
						}
						return false
					}
				}
			}
			return ok
		}
	}
	return false
}

// lenAtLeast: the use in block b is dominated by a branch edge on which Len(recv) >= n.
func lenAtLeast(recv ssa.Value, b *ssa.BasicBlock, n int64) bool {
	for _, hb := range b.Parent().Blocks {
		if len(hb.Instrs) == 0 {
			continue
		}
		iff, ok := hb.Instrs[len(hb.Instrs)-1].(*ssa.If)
		if !ok {
			continue
		}
		bo, ok := iff.Cond.(*ssa.BinOp)
		if !ok {
			continue
		}
		var k int64
		var op token.Token
		if lenLike(bo.X, recv, 0) {
			kk, ok := constInt(bo.Y)
			if !ok {
				continue
			}
			k, op = kk, bo.Op
		} else if lenLike(bo.Y, recv, 0) {
			kk, ok := constInt(bo.X)
			if !ok {
				continue
			}
			k = kk
			op = map[token.Token]token.Token{token.LSS: token.GTR, token.LEQ: token.GEQ, token.GTR: token.LSS, token.GEQ: token.LEQ, token.EQL: token.EQL, token.NEQ: token.NEQ}[bo.Op]
		} else {
			continue
		}
		neg := map[token.Token]token.Token{token.LSS: token.GEQ, token.LEQ: token.GTR, token.GTR: token.LEQ, token.GEQ: token.LSS, token.EQL: token.NEQ, token.NEQ: token.EQL}
		for s, o := range []token.Token{op, neg[op]} {
			t := hb.Succs[s]
			if len(t.Preds) != 1 || !t.Dominates(b) {
				continue
			}
			switch o {
			case token.GTR:
				if k+1 >= n {
					return true
				}
			case token.GEQ, token.EQL:
				if k >= n {
					return true
				}
			case token.NEQ:
				if k == 0 && n <= 1 {
					return true
				}
			}
		}
	}
	return false
}

// madeWithLenValue: recv is reflect.MakeSlice(_, n, _) with n the given SSA value.
func madeWithLenValue(recv, n ssa.Value) bool {
	call, ok := recv.(*ssa.Call)
	if !ok {
		return false
	}
	callee := call.Call.StaticCallee()
	return callee != nil && calleePkgPath(callee) == "reflect" && callee.Name() == "MakeSlice" && call.Call.Args[1] == n
}

// lenOfSliceSizedBy: bound is len(s) (or the hoisted length of a range loop) of a slice made with
// length Len(recv).
func lenOfSliceSizedBy(bound, recv ssa.Value) bool {
	call, ok := bound.(*ssa.Call)
	if !ok {
		return false
	}
	b, ok := call.Call.Value.(*ssa.Builtin)
	if !ok || b.Name() != "len" {
		return false
	}
	ms, ok := call.Call.Args[0].(*ssa.MakeSlice)
	return ok && lenLike(ms.Len, recv, 0)
}

var idxExceptions = map[string]string{
	"jlib.Append:Index#1":        "appendSlice(vs, length) is only called as appendSlice(v1, len1) and appendSlice(v2, len2) with lenN = vN.Len() computed just before",
	"jlib.Zip:Index#1":           "i < size, and size is the minimum of arrayLen(vs[j]) over all j, computed by the first loop",
	"jsonata.evalObject:Index#1": "items is made with n = len(idx.items) elements and i ranges over idx.items",
	"jsonata.evalObject:Index#2": "the index comes from keyIndexes.items, which groupItemsByKey fills with loop indexes j < items.Len() of the same item array",
	"jsonata.evalSort:Index#1":   "results is made with len(info) elements and i ranges over info",
	"jsonata.evalSort:Index#2":   "the index is sortinfo.index, which buildSortInfo sets to the loop index i < items.Len() of the same item array",
}

func runIDX(c *Ctx, r *Result, rule string, fns []*ssa.Function, reach *Reach) int {
	n := 0
	type pending struct {
		o   Obligation
		f   *ssa.Function
		key excSiteKey
		why string
	}
	var pend []pending
	for _, f := range fns {
		if f.Synthetic != "" {
			continue
		}
		loops := findLoops(f)
		ord := 0
		// ordinals count per outermost function, so that a closure's sites share its parent's key space
		for _, ins := range instrsIn(f) {
			call, ok := ins.(*ssa.Call)
			if !ok {
				continue
			}
			callee := call.Call.StaticCallee()
			if callee == nil || !isReflectValue(recvType(callee)) || callee.Name() != "Index" {
				continue
			}
			ord++
			n++
			recv, idx := call.Call.Args[0], call.Call.Args[1]
			o := Obligation{Rule: rule, Key: fmt.Sprintf("%s:Index#%d", shortFn(f), ord), Fn: shortFn(f), Pos: c.W.Pos(call.Pos()), Nontrivial: true}
			why := ""
			if k, isK := constInt(idx); isK {
				switch {
				case k < 0:
				case madeWithLen(recv, k+1):
					why = fmt.Sprintf("constant index %d into a slice made with at least %d elements", k, k+1)
				case lenAtLeast(recv, call.Block(), k+1):
					why = fmt.Sprintf("constant index %d under a dominating test that the length is at least %d", k, k+1)
				}
			} else {
				for _, l := range loops {
					if !l.body[call.Block()] {
						continue
					}
					if w := l.indexBoundedBy(idx, recv); w != "" {
						why = w
					}
					// mirrored index: Len-1-k with k the counter of an upward loop over 0..Len-1
					if sub, isSub := idx.(*ssa.BinOp); why == "" && isSub && sub.Op == token.SUB {
						base := bnorm(sub.X)
						if base.c == -1 && base.n.v != nil && lenLike(base.n.v, recv, 0) || base.c == -1 && base.n.ln && base.n.v == recv {
							if w := l.indexBoundedBy(sub.Y, recv); strings.HasPrefix(w, "index is the counted variable of a loop that starts at >= 0") {
								why = "index is Len-1-k with k the counted variable of a loop over 0..Len-1 of the same value"
							}
						}
					}
				}
				if why == "" {
					lo := guardedCmp(idx, call.Block(), impliesNonNeg)
					hi := upperBoundedByLen(idx, recv, call.Block())
					if lo && hi {
						why = "dominating tests establish 0 <= index < Len"
					}
				}
				// a slice made here with n elements: the difference-constraint prover of BND
				// shows 0 <= index and index+1 <= n (e.g. index over s[k:], n = len(s)-k)
				if why == "" {
					if mk, ok := recv.(*ssa.Call); ok && staticName(mk) == "reflect.MakeSlice" && len(mk.Call.Args) == 3 {
						bndCtx = c
						p := newBndProver(c, call, 0)
						i := bnorm(idx)
						if p.prove(zeroLin, i) && p.prove(blin{i.n, i.c + 1}, bnorm(mk.Call.Args[1])) {
							why = "index into a slice made with n elements, with 0 <= index < n by a difference-constraint proof"
						}
					}
				}
			}
			pend = append(pend, pending{o: o, f: f, key: excSiteKey{exceptionKey(f), "Index", ord}, why: why})
		}
	}
	var keys []string
	for k := range idxExceptions {
		keys = append(keys, k)
	}
	var siteKeys, needKeys []excSiteKey
	for _, p := range pend {
		siteKeys = append(siteKeys, p.key)
		if p.why == "" {
			needKeys = append(needKeys, p.key)
		}
	}
	resolver := newExcResolver(c, keys, siteKeys, needKeys, fns, true)
	for _, p := range pend {
		o := p.o
		switch {
		case p.why != "":
			o.Verdict, o.Reason = Discharged, p.why
		default:
			if k := resolver.resolve(p.key); k != "" {
				o.Verdict, o.Reason = Exception, "reviewed ("+k+"): "+idxExceptions[k]
				break
			}
			o.Verdict, o.Reason = Finding, "reflect.Value.Index with an index that is not provably within 0..Len-1 (it is neither the variable of a loop bounded by the length, nor a constant under a length test, nor guarded on both sides): an out-of-range index panics"
			if reach != nil {
				o.Path = reach.Path(p.f)
			}
		}
		r.Add(o)
	}
	return n
}

func madeWithLen(v ssa.Value, n int64) bool {
	call, ok := v.(*ssa.Call)
	if !ok {
		return false
	}
	if callee := call.Call.StaticCallee(); callee != nil && calleePkgPath(callee) == "reflect" && callee.Name() == "MakeSlice" {
		if k, ok := constInt(call.Call.Args[1]); ok && k >= n {
			return true
		}
	}
	return false
}

// upperBoundedByLen: dominated by an edge on which idx < Len(recv).
func upperBoundedByLen(idx, recv ssa.Value, b *ssa.BasicBlock) bool {
	return domGuard(b, func(cond ssa.Value) (int, bool) {
		bo, ok := cond.(*ssa.BinOp)
		if !ok {
			return 0, false
		}
		switch {
		case bo.X == idx && lenLike(bo.Y, recv, 0) && bo.Op == token.LSS:
			return 0, true
		case bo.X == idx && lenLike(bo.Y, recv, 0) && bo.Op == token.GEQ:
			return 1, true
		case bo.Y == idx && lenLike(bo.X, recv, 0) && bo.Op == token.GTR:
			return 0, true
		case bo.Y == idx && lenLike(bo.X, recv, 0) && bo.Op == token.LEQ:
			return 1, true
		}
		return 0, false
	})
}

// indexBoundedBy: idx is the counted variable of loop l, running within 0..Len(recv)-1.
func (l *loopInfo) indexBoundedBy(idx, recv ssa.Value) string {
	for _, iff := range l.exits() {
		bo, ok := iff.Cond.(*ssa.BinOp)
		if !ok || !l.body[iff.Block().Succs[0]] {
			continue
		}
		tb := iff.Block()
		if !l.everyCycleHits(func(b *ssa.BasicBlock) bool { return b == tb }) {
			continue
		}
		// upward: i < Len(recv) (or i < N with N = Len(recv) computed before the loop)
		if bo.Op == token.LSS && bo.X == idx {
			bound := bo.Y
			if !(lenLike(bound, recv, 0) || madeWithLenValue(recv, bound) || lenOfSliceSizedBy(bound, recv) || lenEqualBy(bound, recv, l.header)) {
				continue
			}
			// idx is φ (for loops) or φ+1 (range loops) with φ starting at >= 0 (resp. -1) and stepping by +1.. on every back edge
			var phi *ssa.Phi
			startMin := int64(0)
			if p, ok := idx.(*ssa.Phi); ok && p.Block() == l.header {
				phi = p
			} else if b2, ok := idx.(*ssa.BinOp); ok {
				if p, ok := b2.X.(*ssa.Phi); ok && p.Block() == l.header {
					if k, isStep := stepOf(idx, p); isStep && k == 1 {
						phi = p
						startMin = -1
					}
				}
			}
			if phi == nil {
				continue
			}
			outside, inside := l.phiEdges(phi)
			ok := len(inside) > 0
			for _, e := range inside {
				if k, isStep := stepOf(e, phi); !isStep || k < 1 {
					ok = false
				}
			}
			for _, e := range outside {
				if k, isK := constInt(e); !isK || k < startMin {
					// a start value chosen between constants >= 0 (phi of constants)
					if p2, isP := e.(*ssa.Phi); isP {
						for _, e2 := range p2.Edges {
							if k2, isK2 := constInt(e2); !isK2 || k2 < startMin {
								ok = false
							}
						}
						continue
					}
					ok = false
				}
			}
			if ok {
				return "index is the counted variable of a loop that starts at >= 0, steps upwards and runs while index < Len of the same value"
			}
		}
		// downward: for i := Len-1; i >= 0; i--
		if (bo.Op == token.GEQ || bo.Op == token.GTR) && bo.X == idx {
			k, isK := constInt(bo.Y)
			if !isK || (bo.Op == token.GEQ && k < 0) || (bo.Op == token.GTR && k < -1) {
				continue
			}
			phi, ok := idx.(*ssa.Phi)
			if !ok || phi.Block() != l.header {
				continue
			}
			outside, inside := l.phiEdges(phi)
			good := len(inside) > 0
			for _, e := range inside {
				if st, isStep := stepOf(e, phi); !isStep || st > -1 {
					good = false
				}
			}
			for _, e := range outside {
				sub, isSub := e.(*ssa.BinOp)
				if !isSub || sub.Op != token.SUB || !lenLike(sub.X, recv, 0) {
					good = false
					continue
				}
				if c1, isK := constInt(sub.Y); !isK || c1 < 1 {
					good = false
				}
			}
			if good {
				return "index is the counted variable of a loop that starts at Len-1 of the same value and runs downwards while index >= 0"
			}
		}
		// downward with an offset: for i := Len; i > 0; i-- { … Index(i-1) }: the index is the
		// counter plus a constant c <= 0, the counter starts at Len+c0 with c0+c <= -1, steps
		// down, and the loop runs while counter+c >= 0
		if add, isAdd := idx.(*ssa.BinOp); isAdd && (add.Op == token.ADD || add.Op == token.SUB) && (bo.Op == token.GEQ || bo.Op == token.GTR) && bo.X == add.X {
			cc, isK := constInt(add.Y)
			phi, isPhi := add.X.(*ssa.Phi)
			kk, isKK := constInt(bo.Y)
			if isK && isPhi && isKK && phi.Block() == l.header {
				if add.Op == token.SUB {
					cc = -cc
				}
				// the loop runs while phi >= lo
				lo := kk
				if bo.Op == token.GTR {
					lo = kk + 1
				}
				outside, inside := l.phiEdges(phi)
				good := len(inside) > 0 && cc <= 0 && lo+cc >= 0
				for _, e := range inside {
					if st, isStep := stepOf(e, phi); !isStep || st > -1 {
						good = false
					}
				}
				for _, e := range outside {
					c0 := int64(0)
					base := e
					if sub, isSub := e.(*ssa.BinOp); isSub && (sub.Op == token.SUB || sub.Op == token.ADD) {
						if k0, isK0 := constInt(sub.Y); isK0 {
							base = sub.X
							c0 = k0
							if sub.Op == token.SUB {
								c0 = -k0
							}
						}
					}
					if !lenLike(base, recv, 0) || c0+cc > -1 {
						good = false
					}
				}
				if good {
					return "index is the loop counter plus a constant; the counter starts at Len (plus a constant) of the same value, runs downwards, and the first index is at most Len-1 and the last at least 0"
				}
			}
		}
	}
	return ""
}

// lenEqualBy: bound is the length of another container whose length was compared with recv's on
// the way to block b, and b lies on the "equal" side (two arrays walked in step after
// `if a.Len() != b.Len() { return false }`).
func lenEqualBy(bound, recv ssa.Value, b *ssa.BasicBlock) bool {
	other := lenRecv(bound)
	if other == nil {
		// N := a.Len() hoisted into a local and used as the bound
		return false
	}
	if other == recv {
		return true
	}
	return domGuard(b, func(cond ssa.Value) (int, bool) {
		bo, ok := cond.(*ssa.BinOp)
		if !ok || (bo.Op != token.NEQ && bo.Op != token.EQL) {
			return 0, false
		}
		x, y := lenRecv(bo.X), lenRecv(bo.Y)
		if x == nil || y == nil || !((x == other && y == recv) || (x == recv && y == other)) {
			return 0, false
		}
		if bo.Op == token.NEQ {
			return 1, true
		}
		return 0, true
	})
}
