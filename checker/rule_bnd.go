package main

import (
	"fmt"
	"go/ast"
	"go/constant"
	"go/token"
	"go/types"
	"os"
	"os/exec"
	"path/filepath"
	"regexp"
	"sort"
	"strconv"
	"strings"

	"golang.org/x/tools/go/ast/astutil"
	"golang.org/x/tools/go/ssa"
)

// ---------------------------------------------------------------------------------------
// BND — native index and slice expressions stay within bounds (C08 under the compile roots,
// C09 under the evaluation roots).
//
// Stage 1 asks the Go compiler itself: `go build -gcflags='-l -d=ssa/check_bce/debug=1'`
// compiles the library packages of the CURRENT tree (nothing is run) and lists every index
// and slice expression for which the compiler's prove pass could not remove the bounds check.
// An expression that is not listed has no bounds check in the generated code: it cannot
// panic. Stage 2 maps the remaining sites to SSA instructions and tries to prove
// 0 <= lo <= hi <= len with a small difference-constraint prover (facts: dominating branch
// conditions, definitions, documented post-conditions of strings.Index*, utf8.Decode*, len,
// make). What is left needs a reviewed one-site exception with the invariant that bounds it,
// or is a finding.

type bcePos struct {
	file string // path relative to the repository root
	line int
}

type bceResidual struct {
	bcePos
	col  int
	kind string // IsInBounds | IsSliceInBounds
	used bool
}

var bceLine = regexp.MustCompile(`^(.*\.go):(\d+):(\d+): Found (IsInBounds|IsSliceInBounds)`)

// bceResiduals compiles the given package patterns in dir and returns the unproven bounds
// checks. relTo is the directory file names are made relative to.
func bceResiduals(dir, relTo, goarch string, patterns []string) ([]*bceResidual, error) {
	args := append([]string{"build", "-gcflags=-l -d=ssa/check_bce/debug=1"}, patterns...)
	cmd := exec.Command("go", args...)
	cmd.Dir = dir
	var env []string
	for _, e := range os.Environ() {
		if strings.HasPrefix(e, "GOWORK=") || strings.HasPrefix(e, "GOFLAGS=") || strings.HasPrefix(e, "GOARCH=") {
			continue
		}
		env = append(env, e)
	}
	env = append(env, "GOWORK=off", "GOFLAGS=-mod=mod", "GOPROXY=off", "GOSUMDB=off", "GOTOOLCHAIN=local", "CGO_ENABLED=0")
	if goarch != "" {
		env = append(env, "GOARCH="+goarch)
	}
	cmd.Env = env
	out, err := cmd.CombinedOutput()
	if err != nil {
		return nil, fmt.Errorf("go build (bounds-check listing) failed: %v: %s", err, lastLines(string(out), 5))
	}
	var res []*bceResidual
	seen := map[string]bool{}
	for _, l := range strings.Split(string(out), "\n") {
		m := bceLine.FindStringSubmatch(strings.TrimSpace(l))
		if m == nil {
			continue
		}
		f := m[1]
		if !filepath.IsAbs(f) {
			f = filepath.Join(dir, f)
		}
		if rel, err := filepath.Rel(relTo, f); err == nil {
			f = rel
		}
		ln, _ := strconv.Atoi(m[2])
		col, _ := strconv.Atoi(m[3])
		k := fmt.Sprintf("%s:%d:%d:%s", f, ln, col, m[4])
		if seen[k] {
			continue
		}
		seen[k] = true
		res = append(res, &bceResidual{bcePos: bcePos{f, ln}, col: col, kind: m[4]})
	}
	return res, nil
}

// bndSite is one index or slice instruction of the SSA form.
type bndSite struct {
	f    *ssa.Function
	ins  ssa.Instruction
	kind string // index | slice
	x    ssa.Value
	idx  ssa.Value // index
	lo   ssa.Value // slice (may be nil)
	hi   ssa.Value
	max  ssa.Value
	pos  token.Position
}

func bndSitesIn(c *Ctx, f *ssa.Function) []*bndSite {
	var out []*bndSite
	for _, ins := range instrsIn(f) {
		var s *bndSite
		switch v := ins.(type) {
		case *ssa.IndexAddr:
			s = &bndSite{kind: "index", x: v.X, idx: v.Index}
		case *ssa.Index:
			s = &bndSite{kind: "index", x: v.X, idx: v.Index}
		case *ssa.Lookup:
			if isStringType(v.X.Type()) {
				s = &bndSite{kind: "index", x: v.X, idx: v.Index}
			}
		case *ssa.Slice:
			s = &bndSite{kind: "slice", x: v.X, lo: v.Low, hi: v.High, max: v.Max}
		}
		if s == nil || !ins.Pos().IsValid() {
			continue
		}
		s.f, s.ins = f, ins
		s.pos = c.W.Fset.Position(ins.Pos())
		out = append(out, s)
	}
	return out
}

func (c *Ctx) relFile(abs string) string {
	if rel, err := filepath.Rel(c.W.RepoDir, abs); err == nil && !strings.HasPrefix(rel, "..") {
		return rel
	}
	if i := strings.Index(abs, "/fixtures/"); i >= 0 {
		return "fixtures/" + abs[i+len("/fixtures/"):]
	}
	return abs
}

// libPatterns: the go build patterns of the library packages.
var libPatterns = []string{".", "./jlib", "./jlib/jxpath", "./jparse", "./jtypes"}

func dumpBND(c *Ctx) {
	res, err := bceResiduals(c.W.RepoDir, c.W.RepoDir, c.W.Arch, libPatterns)
	if err != nil {
		fmt.Println(err)
		return
	}
	r := NewResult("dump")
	var fns []*ssa.Function
	for _, f := range c.G.Funcs {
		if f.Synthetic == "" {
			fns = append(fns, f)
		}
	}
	sortFns(fns)
	out := runBND(c, r, "BND", fns, nil, res)
	for _, o := range r.Obls {
		tag := map[string]string{Discharged: "OK ", Finding: "???", Exception: "EXC"}[o.Verdict]
		in := ""
		for _, f := range fns {
			if shortFn(f) == o.Fn {
				if c.REval.Set[f] {
					in += "E"
				}
				if c.RCompile.Set[f] {
					in += "C"
				}
			}
		}
		fmt.Printf("%s %-2s %-28s %s\n      %s\n", tag, in, o.Pos, o.Key, o.Reason)
	}
	fmt.Printf("%+v\n", out)
	for _, x := range res {
		if !x.used {
			fmt.Printf("UNMATCHED %s:%d:%d %s\n", x.file, x.line, x.col, x.kind)
		}
	}
}

func isStringType(t types.Type) bool {
	b, ok := t.Underlying().(*types.Basic)
	return ok && b.Info()&types.IsString != 0
}

func abs(x int) int {
	if x < 0 {
		return -x
	}
	return x
}

// ---------------------------------------------------------------------------------------
// the difference-constraint prover

// bnode is a node of the constraint graph: an SSA value, the length of an SSA value, or (zero
// value) the constant 0.
type bnode struct {
	v  ssa.Value
	ln bool
}

// blin: node + constant.
type blin struct {
	n bnode
	c int64
}

// bcond: once a <= b is derivable, the consequences hold.
type bcond struct {
	two    bool // a second premise a2 <= b2 must hold as well
	a2, b2 blin
	a, b   blin
	then   [][2]blin // each pair: [0] <= [1]
	fired  bool
}

// bsum: v = x + y (sub: v = x - y), both operands non-constant.
type bsum struct {
	v    bnode
	x, y blin
	sub  bool
}

type bndProver struct {
	c      *Ctx
	f      *ssa.Function
	blk    *ssa.BasicBlock
	at     ssa.Instruction    // the query instruction (instructions executed before it did not panic)
	facts  map[[2]bnode]int64 // a - b <= c
	conds  []*bcond
	diseqs []blin // n + c != 0
	sums   []bsum
	joins  []bjoin
	seen   map[bnode]bool
	work   []bnode
	depth  int // nesting of provers (call-site queries)
	contra bool
	assume map[ssa.Value]bool // boolean values the query takes as given (a flag parameter fixed by the caller)
}

var zeroLin = blin{}

func isSignedInt(t types.Type) bool {
	b, ok := t.Underlying().(*types.Basic)
	return ok && b.Info()&types.IsInteger != 0 && b.Info()&types.IsUnsigned == 0
}

func isUntypedInt(t types.Type) bool {
	b, ok := t.(*types.Basic)
	return ok && (b.Kind() == types.UntypedInt || b.Kind() == types.UntypedRune)
}

func intConstOf(v ssa.Value) (int64, bool) {
	c, ok := v.(*ssa.Const)
	if !ok || c.Value == nil || (!isSignedInt(c.Type()) && !isUntypedInt(c.Type())) {
		return 0, false
	}
	return constInt(v)
}

// arrayLenOf: the constant length when t is an array or a pointer to one.
func arrayLenOf(t types.Type) (int64, bool) {
	if p, ok := t.Underlying().(*types.Pointer); ok {
		t = p.Elem()
	}
	if a, ok := t.Underlying().(*types.Array); ok {
		return a.Len(), true
	}
	return 0, false
}

func constantString(k *ssa.Const) string {
	s := k.Value.ExactString()
	if u, err := strconv.Unquote(s); err == nil {
		return u
	}
	return s
}

func lenNode(x ssa.Value) blin {
	if n, ok := arrayLenOf(x.Type()); ok {
		return blin{c: n}
	}
	if k, ok := x.(*ssa.Const); ok && isStringType(k.Type()) {
		if k.Value == nil {
			return blin{}
		}
		return blin{c: int64(len(constantString(k)))}
	}
	return blin{n: bnode{v: bndCtx.canon(x), ln: true}}
}

func isSliceOrArray(t types.Type) bool {
	switch u := t.Underlying().(type) {
	case *types.Slice, *types.Array:
		return true
	case *types.Pointer:
		_, ok := u.Elem().Underlying().(*types.Array)
		return ok
	}
	return false
}

func intWidth(t types.Type) int {
	b, _ := t.Underlying().(*types.Basic)
	if b == nil {
		return 0
	}
	switch b.Kind() {
	case types.Int8:
		return 8
	case types.Int16:
		return 16
	case types.Int32:
		return 32
	case types.Int:
		return 48 // 32 or 64 bits: widens only into int64, is widened into from int32 and below
	case types.Int64:
		return 64
	}
	return 0
}

// bnorm writes an integer SSA value as node + constant.
func bnorm(v ssa.Value) blin {
	var off int64
	for depth := 0; depth < 30; depth++ {
		if k, ok := intConstOf(v); ok {
			return blin{c: k + off}
		}
		switch x := v.(type) {
		case *ssa.BinOp:
			if x.Op == token.ADD {
				if k, ok := intConstOf(x.Y); ok {
					off += k
					v = x.X
					continue
				}
				if k, ok := intConstOf(x.X); ok {
					off += k
					v = x.Y
					continue
				}
			}
			if x.Op == token.SUB {
				if k, ok := intConstOf(x.Y); ok {
					off -= k
					v = x.X
					continue
				}
			}
			// go/ssa does not share common sub-expressions: `h%12 == 0` and a later `h %= 12`
			// are two instructions. The same pure operation on the same operands is the same
			// value: use the first such instruction of the function for all of them.
			if rep := sameBinOp(x); rep != nil && rep != x {
				v = rep
				continue
			}
		case *ssa.Call:
			if bi, ok := x.Call.Value.(*ssa.Builtin); ok && bi.Name() == "len" && len(x.Call.Args) == 1 {
				a := x.Call.Args[0]
				if isStringType(a.Type()) || isSliceOrArray(a.Type()) {
					r := lenNode(a)
					r.c += off
					return r
				}
			}
		case *ssa.Convert:
			if isSignedInt(x.X.Type()) && isSignedInt(x.Type()) && intWidth(x.Type()) >= intWidth(x.X.Type()) && intWidth(x.X.Type()) > 0 {
				v = x.X
				continue
			}
		case *ssa.ChangeType:
			if isSignedInt(x.X.Type()) {
				v = x.X
				continue
			}
		}
		break
	}
	return blin{n: bnode{v: bndCtx.canon(v)}, c: off}
}

func (p *bndProver) le(a, b blin) bool { // a <= b ; reports whether the fact is new or stronger
	k := [2]bnode{a.n, b.n}
	c := b.c - a.c
	if old, ok := p.facts[k]; ok && old <= c {
		return false
	}
	p.facts[k] = c
	p.touch(a.n)
	p.touch(b.n)
	return true
}

func (p *bndProver) eq(a, b blin) { p.le(a, b); p.le(b, a) }

func (p *bndProver) touch(n bnode) {
	if n.v == nil || p.seen[n] {
		return
	}
	p.seen[n] = true
	p.work = append(p.work, n)
}

func newBndProver(c *Ctx, at ssa.Instruction, depth int) *bndProver {
	p := &bndProver{c: c, f: at.Parent(), blk: at.Block(), at: at, seen: map[bnode]bool{}, facts: map[[2]bnode]int64{}, depth: depth}
	p.branchFacts()
	p.executedFacts()
	return p
}

// branchFacts: conditions of the branches that dominate the query block; at a merge point, what
// the conditions of all incoming edges have in common (a != 1 && a != 2 failing means a is 1 or 2:
// 1 <= a <= 2).
func (p *bndProver) branchFacts() {
	for d := p.blk; d != nil; d = d.Idom() {
		if len(d.Preds) > 1 {
			var common map[[2]bnode]int64
			ok := true
			for _, pr := range d.Preds {
				if d.Dominates(pr) { // back edge
					ok = false
					break
				}
				// the branch that governs this edge: the predecessor's own, or — when the edge comes
				// out of straight-line code — the one that led into that code
				src, dst := pr, d
				for hops := 0; hops < 4; hops++ {
					if _, isIf := src.Instrs[len(src.Instrs)-1].(*ssa.If); isIf {
						break
					}
					if len(src.Preds) != 1 {
						break
					}
					src, dst = src.Preds[0], src
				}
				iff, isIf := src.Instrs[len(src.Instrs)-1].(*ssa.If)
				if !isIf || src.Succs[0] == src.Succs[1] {
					ok = false
					break
				}
				q := &bndProver{c: p.c, f: p.f, blk: src, seen: map[bnode]bool{}, facts: map[[2]bnode]int64{}, depth: 3}
				q.condFact(iff.Cond, src.Succs[0] == dst, 0)
				if common == nil {
					common = q.facts
					continue
				}
				for k, cst := range common {
					if c2, has := q.facts[k]; !has {
						delete(common, k)
					} else if c2 > cst {
						common[k] = c2
					}
				}
			}
			if ok {
				for k, cst := range common {
					p.le(blin{n: k[0]}, blin{n: k[1], c: cst})
				}
			}
			continue
		}
		if len(d.Preds) != 1 {
			continue
		}
		pr := d.Preds[0]
		if len(pr.Instrs) == 0 {
			continue
		}
		iff, ok := pr.Instrs[len(pr.Instrs)-1].(*ssa.If)
		if !ok || pr.Succs[0] == pr.Succs[1] {
			continue
		}
		p.condFact(iff.Cond, d == pr.Succs[0], 0)
	}
}

var negCmp = map[token.Token]token.Token{token.LSS: token.GEQ, token.LEQ: token.GTR, token.GTR: token.LEQ, token.GEQ: token.LSS, token.EQL: token.NEQ, token.NEQ: token.EQL}

func (p *bndProver) condFact(cond ssa.Value, truth bool, depth int) {
	if depth > 4 {
		return
	}
	switch x := cond.(type) {
	case *ssa.UnOp:
		if x.Op == token.NOT {
			p.condFact(x.X, !truth, depth+1)
		}
	case *ssa.Call:
		switch staticName(x) {
		case "strings.HasPrefix", "strings.HasSuffix", "bytes.HasPrefix", "bytes.HasSuffix":
			if truth {
				p.le(lenNode(x.Call.Args[1]), lenNode(x.Call.Args[0]))
			}
		default:
			p.boolSummaryFacts(x, truth)
		}
	case *ssa.BinOp:
		op := x.Op
		if !truth {
			n, ok := negCmp[op]
			if !ok {
				return
			}
			op = n
		}
		if isStringType(x.X.Type()) { // string compared with a constant: length facts
			for _, pair := range [][2]ssa.Value{{x.X, x.Y}, {x.Y, x.X}} {
				if k, ok := pair[1].(*ssa.Const); ok {
					n := lenNode(k)
					switch op {
					case token.EQL:
						p.eq(lenNode(pair[0]), n)
					case token.NEQ:
						if n.c == 0 {
							p.le(blin{c: 1}, lenNode(pair[0]))
						}
					}
				}
			}
			return
		}
		if !isSignedInt(x.X.Type()) && !isUntypedInt(x.X.Type()) {
			return
		}
		a, b := bnorm(x.X), bnorm(x.Y)
		switch op {
		case token.LSS:
			p.le(blin{a.n, a.c + 1}, b)
		case token.LEQ:
			p.le(a, b)
		case token.GTR:
			p.le(blin{b.n, b.c + 1}, a)
		case token.GEQ:
			p.le(b, a)
		case token.EQL:
			p.eq(a, b)
		case token.NEQ:
			if b.n.v == nil {
				p.diseqs = append(p.diseqs, blin{a.n, a.c - b.c})
				p.touch(a.n)
			} else if a.n.v == nil {
				p.diseqs = append(p.diseqs, blin{b.n, b.c - a.c})
				p.touch(b.n)
			}
		}
	}
}

// executedFacts: an index or slice instruction that was executed before the query instruction
// did not panic, so its operands were in range.
func (p *bndProver) executedFacts() {
	for _, b := range p.f.Blocks {
		if b != p.blk && !b.Dominates(p.blk) {
			continue
		}
		for _, ins := range b.Instrs {
			if ins == p.at {
				break
			}
			// Within one statement the language does not fix the order of index operations (the
			// compiler evaluates the operands that contain calls first), so "came earlier in
			// go/ssa's order" is evidence only across statements.
			if sameStmt(p.c, ins.Pos(), p.at.Pos()) {
				continue
			}
			switch v := ins.(type) {
			case *ssa.IndexAddr:
				p.inRange(v.Index, v.X)
			case *ssa.Index:
				p.inRange(v.Index, v.X)
			case *ssa.Lookup:
				if isStringType(v.X.Type()) {
					p.inRange(v.Index, v.X)
				}
			case *ssa.Slice:
				lo, hi := zeroLin, lenNode(v.X)
				if v.Low != nil {
					lo = bnorm(v.Low)
				}
				if v.High != nil {
					hi = bnorm(v.High)
				}
				p.le(zeroLin, lo)
				p.le(lo, hi)
				if isStringType(v.X.Type()) || v.High == nil {
					p.le(hi, lenNode(v.X))
				}
			}
		}
	}
}

// stmtUnitAt: the simple statement (or the condition, tag or range operand of a compound one)
// that holds the position.
var stmtUnitCache = map[token.Pos]ast.Node{}

func stmtUnitAt(c *Ctx, pos token.Pos) ast.Node {
	if !pos.IsValid() || c == nil {
		return nil
	}
	if u, ok := stmtUnitCache[pos]; ok {
		return u
	}
	var unit ast.Node
	for _, pkg := range c.W.All {
		for _, file := range pkg.Syntax {
			if file.Pos() <= pos && pos < file.End() {
				path, _ := astutil.PathEnclosingInterval(file, pos, pos)
				for i, n := range path {
					st, isStmt := n.(ast.Stmt)
					if !isStmt {
						continue
					}
					switch st.(type) {
					case *ast.IfStmt, *ast.ForStmt, *ast.SwitchStmt, *ast.TypeSwitchStmt, *ast.RangeStmt, *ast.SelectStmt, *ast.BlockStmt, *ast.CaseClause, *ast.CommClause, *ast.LabeledStmt:
						// the child on the path (condition, tag, range operand) is the unit
						if i > 0 {
							unit = path[i-1]
						}
					default:
						unit = st
					}
					break
				}
			}
		}
	}
	stmtUnitCache[pos] = unit
	return unit
}

// sameStmt: both positions lie in the same simple statement (or the same condition/tag
// expression of a compound one).
func sameStmt(c *Ctx, a, b token.Pos) bool {
	ua := stmtUnitAt(c, a)
	return ua != nil && ua == stmtUnitAt(c, b)
}

func (p *bndProver) inRange(idx, x ssa.Value) {
	if !isSignedInt(idx.Type()) && !isUntypedInt(idx.Type()) {
		return
	}
	i := bnorm(idx)
	p.le(zeroLin, i)
	p.le(blin{i.n, i.c + 1}, lenNode(x))
}

func staticName(call *ssa.Call) string {
	if callee := call.Call.StaticCallee(); callee != nil {
		if callee.Signature.Recv() != nil {
			return types.TypeString(callee.Signature.Recv().Type(), nil) + "." + callee.Name()
		}
		return calleePkgPath(callee) + "." + callee.Name()
	}
	return ""
}

// expand adds the definitional facts of a node.
func (p *bndProver) expand(n bnode) {
	me := blin{n: n}
	if n.ln {
		p.le(zeroLin, me)
		switch x := n.v.(type) {
		case *ssa.MakeSlice:
			p.eq(me, bnorm(x.Len))
		case *ssa.Slice:
			lo, hi := zeroLin, lenNode(x.X)
			if x.Low != nil {
				lo = bnorm(x.Low)
			}
			if x.High != nil {
				hi = bnorm(x.High)
			}
			switch {
			case lo.n.v == nil: // constant low bound: len = hi - lo
				p.eq(me, blin{hi.n, hi.c - lo.c})
			case lo.n == hi.n: // same base: constant length
				p.eq(me, blin{c: hi.c - lo.c})
			default:
				p.le(me, hi)
				p.sums = append(p.sums, bsum{v: n, x: hi, y: lo, sub: true})
				p.touch(hi.n)
				p.touch(lo.n)
			}
		case *ssa.Call:
			switch staticName(x) {
			case "strings.TrimSpace", "strings.TrimLeft", "strings.TrimRight", "strings.Trim", "strings.TrimPrefix", "strings.TrimSuffix", "strings.TrimFunc", "strings.TrimLeftFunc", "strings.TrimRightFunc":
				p.le(me, lenNode(x.Call.Args[0]))
			}
		case *ssa.Phi:
			// a phi of slices of one length
			var first blin
			same := true
			for i, e := range x.Edges {
				l := lenNode(e)
				if mk, ok := e.(*ssa.MakeSlice); ok {
					l = bnorm(mk.Len) // slices made with one and the same length
				}
				if i == 0 {
					first = l
				} else if l != first {
					same = false
				}
			}
			if same && len(x.Edges) > 0 && first.n != n {
				p.eq(me, first)
			}
		}
		return
	}
	v := n.v
	if !isSignedInt(v.Type()) {
		return
	}
	switch x := v.(type) {
	case *ssa.BinOp:
		a, b := bnorm(x.X), bnorm(x.Y)
		switch x.Op {
		case token.ADD:
			p.sums = append(p.sums, bsum{v: n, x: a, y: b})
			p.touch(a.n)
			p.touch(b.n)
			p.indexSum(x, me)
		case token.SUB:
			p.sums = append(p.sums, bsum{v: n, x: a, y: b, sub: true})
			p.touch(a.n)
			p.touch(b.n)
		case token.MUL:
			for _, pair := range [][2]ssa.Value{{x.X, x.Y}, {x.Y, x.X}} {
				if k, ok := intConstOf(pair[1]); ok && k >= 1 && structNonNeg(pair[0], map[ssa.Value]bool{}) {
					p.le(bnorm(pair[0]), me)
				}
			}
			// a product of two non-negative factors is non-negative, and at least as large as
			// one factor when the other is >= 1
			p.conds = append(p.conds, &bcond{a: zeroLin, b: a, two: true, a2: zeroLin, b2: b, then: [][2]blin{{zeroLin, me}}})
			p.conds = append(p.conds, &bcond{a: blin{c: 1}, b: a, two: true, a2: zeroLin, b2: b, then: [][2]blin{{b, me}}})
			p.conds = append(p.conds, &bcond{a: blin{c: 1}, b: b, two: true, a2: zeroLin, b2: a, then: [][2]blin{{a, me}}})
			p.touch(a.n)
			p.touch(b.n)
		case token.QUO:
			if k, ok := intConstOf(x.Y); ok && k >= 1 && structNonNeg(x.X, map[ssa.Value]bool{}) {
				p.le(me, a)
			}
		case token.REM:
			if k, ok := intConstOf(x.Y); ok && k >= 1 {
				p.le(me, blin{c: k - 1})
				p.le(blin{c: -(k - 1)}, me)
				// the remainder has the sign of the dividend
				p.conds = append(p.conds, &bcond{a: zeroLin, b: a, then: [][2]blin{{zeroLin, me}}})
				p.touch(a.n)
			}
		}
	case *ssa.Phi:
		p.phiFacts(x, me)
	case *ssa.Call:
		p.callFacts(x, me)
	case *ssa.Extract:
		if call, ok := x.Tuple.(*ssa.Call); ok {
			p.summaryFacts(call, x.Index, me)
			switch staticName(call) {
			case "unicode/utf8.DecodeRuneInString", "unicode/utf8.DecodeLastRuneInString", "unicode/utf8.DecodeRune", "unicode/utf8.DecodeLastRune":
				if x.Index == 1 {
					s := lenNode(call.Call.Args[0])
					p.le(me, s)
					p.le(me, blin{c: 4})
					// a non-empty input decodes at least one byte
					p.conds = append(p.conds, &bcond{a: blin{c: 1}, b: s, then: [][2]blin{{blin{c: 1}, me}}})
					p.touch(s.n)
				}
			}
		}
	case *ssa.Parameter:
		p.paramFacts(x, me)
	case *ssa.UnOp:
		// a variable cell written exactly once holds the value that was written
		if x.Op == token.MUL {
			switch a := x.X.(type) {
			case *ssa.Alloc, *ssa.FreeVar:
				if stores, ok := cellStores(a); ok && len(stores) == 1 && isSignedInt(stores[0].Val.Type()) {
					val := stores[0].Val
					if k, isK := intConstOf(val); isK {
						p.eq(me, blin{c: k})
					} else if pa, isP := val.(*ssa.Parameter); isP {
						// the stored value lives in the enclosing function: only what is
						// known of that parameter at every call site carries over
						q := &bndProver{c: p.c, f: pa.Parent(), seen: map[bnode]bool{}, facts: map[[2]bnode]int64{}, depth: p.depth}
						q.paramFacts(pa, blin{n: bnode{v: pa}})
						if c, ok := q.facts[[2]bnode{{}, {v: pa}}]; ok { // 0 - pa <= c
							p.le(blin{c: -c}, me)
						}
					}
				}
			}
		}
	}
	if ex, ok := v.(*ssa.Extract); ok && ex.Index == 1 {
		if nx, ok := ex.Tuple.(*ssa.Next); ok && nx.IsString {
			if rg, ok := nx.Iter.(*ssa.Range); ok {
				p.le(blin{me.n, 1}, lenNode(rg.X)) // the key of a string range is a valid byte offset
			}
		}
	}
	if structNonNeg(v, map[ssa.Value]bool{}) {
		p.le(zeroLin, me)
	}
}

var indexFinders = map[string]int{ // name -> 1: single byte/rune finder (result < len), 2: substring finder
	"strings.IndexByte": 1, "strings.IndexRune": 1, "strings.IndexAny": 1, "strings.IndexFunc": 1,
	"strings.LastIndexByte": 1, "strings.LastIndexAny": 1, "strings.LastIndexFunc": 1,
	"strings.Index": 2, "strings.LastIndex": 2,
	"bytes.IndexByte": 1, "bytes.IndexRune": 1, "bytes.IndexAny": 1, "bytes.IndexFunc": 1, "bytes.Index": 2, "bytes.LastIndex": 2,
}

func (p *bndProver) callFacts(x *ssa.Call, me blin) {
	p.summaryFacts(x, 0, me)
	name := staticName(x)
	switch kind := indexFinders[name]; kind {
	case 1:
		p.le(blin{c: -1}, me)
		p.le(blin{me.n, 1}, lenNode(x.Call.Args[0]))
	case 2:
		s, sub := lenNode(x.Call.Args[0]), lenNode(x.Call.Args[1])
		p.le(blin{c: -1}, me)
		p.le(me, s)
		if sub.n.v == nil { // constant needle
			p.conds = append(p.conds, &bcond{a: zeroLin, b: me, then: [][2]blin{{blin{me.n, sub.c}, s}}})
			if sub.c >= 1 {
				p.le(blin{me.n, 1}, s)
			}
		}
		p.touch(s.n)
	}
	switch name {
	case "math/rand.Intn", "math/rand.Int63n", "math/rand.Int31n", "*math/rand.Rand.Intn":
		a := bnorm(x.Call.Args[len(x.Call.Args)-1])
		p.le(zeroLin, me)
		p.le(blin{me.n, 1}, a)
	case "time.Time.Hour":
		p.le(zeroLin, me)
		p.le(me, blin{c: 23})
	case "time.Time.Minute", "time.Time.Second":
		p.le(zeroLin, me)
		p.le(me, blin{c: 59})
	case "time.Time.Nanosecond":
		p.le(zeroLin, me)
		p.le(me, blin{c: 999999999})
	case "time.Time.Day":
		p.le(blin{c: 1}, me)
		p.le(me, blin{c: 31})
	case "time.Time.YearDay":
		p.le(blin{c: 1}, me)
		p.le(me, blin{c: 366})
	case "unicode/utf8.RuneLen":
		p.le(blin{c: -1}, me)
		p.le(me, blin{c: 4})
	case "unicode/utf8.RuneCountInString", "unicode/utf8.RuneCount":
		p.le(me, lenNode(x.Call.Args[0]))
	}
	if bi, ok := x.Call.Value.(*ssa.Builtin); ok {
		switch bi.Name() {
		case "cap":
			p.le(lenNode(x.Call.Args[0]), me)
		case "min":
			for _, a := range x.Call.Args {
				p.le(me, bnorm(a))
			}
		case "max":
			for _, a := range x.Call.Args {
				p.le(bnorm(a), me)
			}
		case "copy":
			p.le(me, lenNode(x.Call.Args[0]))
			p.le(me, lenNode(x.Call.Args[1]))
		}
	}
}

// indexSum: v = r + len(sub) with r = strings.Index(s, sub): once r >= 0, v <= len(s).
func (p *bndProver) indexSum(x *ssa.BinOp, me blin) {
	for _, pair := range [][2]ssa.Value{{x.X, x.Y}, {x.Y, x.X}} {
		call, ok := pair[0].(*ssa.Call)
		if !ok || indexFinders[staticName(call)] != 2 {
			continue
		}
		if bnorm(pair[1]) == lenNode(call.Call.Args[1]) {
			p.conds = append(p.conds, &bcond{a: zeroLin, b: bnorm(call), then: [][2]blin{{me, lenNode(call.Call.Args[0])}}})
			p.touch(bnode{v: call})
		}
	}
}

// parallelPhi: an integer phi that travels with a string/slice phi of the same block (a position
// and the text it was found in, both replaced on every iteration): when over every incoming edge
// the incoming position is bounded by the length of the incoming text (pos_e <= len(s_e) + c, shown
// at the end of the predecessor), the phis are related in the same way.
func (p *bndProver) parallelPhi(x *ssa.Phi, me blin) {
	if p.depth >= 2 {
		return
	}
	for _, ins := range x.Block().Instrs {
		s, ok := ins.(*ssa.Phi)
		if !ok {
			break
		}
		if s == x || !(isStringType(s.Type()) || isSliceOrArray(s.Type())) || len(s.Edges) != len(x.Edges) {
			continue
		}
		for _, cst := range []int64{-1, 0} {
			all := true
			for i := range x.Edges {
				pr := x.Block().Preds[i]
				q := newBndProver(p.c, pr.Instrs[len(pr.Instrs)-1], p.depth+1)
				a := bnorm(x.Edges[i])
				b := lenNode(s.Edges[i])
				q.saturate(a, b)
				if !q.holds(a, blin{b.n, b.c + cst}) {
					all = false
					break
				}
			}
			if all {
				l := lenNode(s)
				p.le(me, blin{l.n, l.c + cst})
				break
			}
		}
	}
}

func (p *bndProver) phiFacts(x *ssa.Phi, me blin) {
	p.parallelPhi(x, me)
	var inits []blin
	var from []*ssa.BasicBlock
	up, down := true, true
	hasInc := false
	for i, e := range x.Edges {
		l := bnorm(e)
		if l.n == me.n {
			hasInc = true
			if l.c < 0 {
				up = false
			}
			if l.c > 0 {
				down = false
			}
			continue
		}
		inits = append(inits, l)
		from = append(from, x.Block().Preds[i])
	}
	if len(inits) == 0 {
		return
	}
	if !hasInc {
		up, down = true, true
	}
	allSameBase := true
	mn, mx := inits[0].c, inits[0].c
	for _, l := range inits {
		if l.n != inits[0].n {
			allSameBase = false
		}
		if l.c < mn {
			mn = l.c
		}
		if l.c > mx {
			mx = l.c
		}
	}
	if allSameBase && defBefore(inits[0].n.v, x.Block()) {
		if up {
			p.le(blin{inits[0].n, mn}, me)
		}
		if down {
			p.le(me, blin{inits[0].n, mx})
		}
	}
	if !up && !down {
		return
	}
	p.joins = append(p.joins, bjoin{v: me.n, in: inits, from: from, at: x.Block(), up: up, down: down})
	for _, l := range inits {
		p.touch(l.n)
	}
}

// structNonNeg: v >= 0 by construction (coinductive over phis: every operation on the cycle
// preserves non-negativity).
func structNonNeg(v ssa.Value, seen map[ssa.Value]bool) bool {
	if seen[v] {
		return true
	}
	if k, ok := intConstOf(v); ok {
		return k >= 0
	}
	seen[v] = true
	switch x := v.(type) {
	case *ssa.Call:
		if bi, ok := x.Call.Value.(*ssa.Builtin); ok && (bi.Name() == "len" || bi.Name() == "cap" || bi.Name() == "copy") {
			return true
		}
		name := staticName(x)
		switch name {
		case "unicode/utf8.RuneCountInString", "unicode/utf8.RuneCount", "reflect.Value.Len", "reflect.Value.NumField", "reflect.Value.Cap", "reflect.Value.NumMethod":
			return true
		}
	case *ssa.BinOp:
		switch x.Op {
		case token.ADD:
			if l := bnorm(v); l.c >= 1 {
				if call, ok := l.n.v.(*ssa.Call); ok && !l.n.ln && indexFinders[staticName(call)] != 0 {
					return true // Index result is >= -1
				}
			}
			return structNonNeg(x.X, seen) && structNonNeg(x.Y, seen)
		case token.MUL:
			return structNonNeg(x.X, seen) && structNonNeg(x.Y, seen)
		case token.QUO, token.SHR:
			k, ok := intConstOf(x.Y)
			return ok && k >= 0 && (x.Op == token.SHR || k > 0) && structNonNeg(x.X, seen)
		case token.REM:
			return structNonNeg(x.X, seen)
		case token.AND:
			if k, ok := intConstOf(x.Y); ok && k >= 0 {
				return true
			}
			if k, ok := intConstOf(x.X); ok && k >= 0 {
				return true
			}
		}
	case *ssa.Phi:
		for _, e := range x.Edges {
			if !structNonNeg(e, seen) {
				return false
			}
		}
		return true
	case *ssa.Convert:
		if isSignedInt(x.X.Type()) && intWidth(x.Type()) >= intWidth(x.X.Type()) && intWidth(x.X.Type()) > 0 {
			return structNonNeg(x.X, seen)
		}
		if b, ok := x.X.Type().Underlying().(*types.Basic); ok && b.Info()&types.IsUnsigned != 0 && (b.Kind() == types.Uint8 || b.Kind() == types.Uint16) {
			return true
		}
	case *ssa.Extract:
		if _, ok := x.Tuple.(*ssa.Next); ok && x.Index == 1 {
			return true // key of a string range
		}
		if call, ok := x.Tuple.(*ssa.Call); ok && x.Index == 1 {
			switch staticName(call) {
			case "unicode/utf8.DecodeRuneInString", "unicode/utf8.DecodeLastRuneInString", "unicode/utf8.DecodeRune", "unicode/utf8.DecodeLastRune":
				return true
			}
		}
	}
	return false
}

// paramFacts: a parameter of a function that is only ever called statically is non-negative
// when the argument is provably so at every call site.
func (p *bndProver) paramFacts(x *ssa.Parameter, me blin) {
	if p.depth >= 2 {
		return
	}
	f := x.Parent()
	idx := -1
	for i, pa := range f.Params {
		if pa == x {
			idx = i
		}
	}
	sites, ok := p.c.staticCallers(f)
	if !ok || idx < 0 || len(sites) == 0 {
		return
	}
	lower, upper := int64(1<<40), int64(-(1 << 40))
	haveLower, haveUpper := true, true
	for _, s := range sites {
		args := s.Common().Args
		if idx >= len(args) {
			return
		}
		q := newBndProver(p.c, s, p.depth+1)
		a := bnorm(args[idx])
		q.saturate(a)
		if lb, ok := q.lower(a); ok {
			if lb < lower {
				lower = lb
			}
		} else {
			haveLower = false
		}
		// a constant upper bound at every call site (clamp(n, 1, 3) <= 3)
		if a.n.v == nil {
			if a.c > upper {
				upper = a.c
			}
		} else if ub, ok := q.dist(a.n)[bnode{}]; ok {
			if ub+a.c > upper {
				upper = ub + a.c
			}
		} else {
			haveUpper = false
		}
	}
	if haveLower {
		p.le(blin{c: lower}, me)
	}
	if haveUpper {
		p.le(me, blin{c: upper})
	}
}

// staticCallers: the call sites of f when every way of calling f inside the module is a
// static call (no method value, no interface dispatch, not boxed for reflection).
func (c *Ctx) staticCallers(f *ssa.Function) ([]ssa.CallInstruction, bool) {
	if c.callers == nil {
		c.callers = map[*ssa.Function][]ssa.CallInstruction{}
		c.nonStatic = map[*ssa.Function]bool{}
		for _, edges := range c.G.Out {
			for _, e := range edges {
				if e.Kind == "static" && e.Site != nil {
					c.callers[e.Callee] = append(c.callers[e.Callee], e.Site)
				} else {
					c.nonStatic[e.Callee] = true
				}
			}
		}
		for _, b := range c.G.Boxed {
			c.nonStatic[b] = true
		}
	}
	if c.nonStatic[f] || c.G.AddrTaken[f] {
		return nil, false
	}
	return c.callers[f], true
}

// ---------------------------------------------------------------------------------------
// solving

// bjoin: v is a phi of values with different bases; each incoming value is bounded at the end
// of the predecessor block it arrives from (where the branch conditions of that path hold).
type bjoin struct {
	v        bnode
	in       []blin
	from     []*ssa.BasicBlock
	at       *ssa.BasicBlock // the block of the phi
	up, down bool
	done     map[bnode]bool
}

// joinEdges: for every node t known to the prover (and 0): if every incoming value e satisfies
// e - t <= c_e at the end of its predecessor, then v - t <= max c_e; likewise from below.
func (p *bndProver) joinEdges(j *bjoin) bool {
	if p.depth >= 3 {
		return false
	}
	if j.done == nil {
		j.done = map[bnode]bool{}
	}
	// only values defined before the phi: a value defined inside the loop is a different
	// instance in every iteration and cannot be related to the phi across the back edge
	cands := []bnode{{}}
	for n := range p.seen {
		if n != j.v && defBefore(n.v, j.at) {
			cands = append(cands, n)
		}
	}
	var subs []*bndProver
	for i, l := range j.in {
		blk := j.from[i]
		q := newBndProver(p.c, blk.Instrs[len(blk.Instrs)-1], p.depth+1)
		if iff, ok := blk.Instrs[len(blk.Instrs)-1].(*ssa.If); ok && blk.Succs[0] != blk.Succs[1] && j.at != nil {
			// the condition of the edge the value arrives on
			q.condFact(iff.Cond, blk.Succs[0] == j.at, 0)
		}
		// an edge that contradicts what the query assumes about a boolean (a flag parameter known
		// to be true at the call under consideration) cannot be taken
		if len(p.assume) > 0 && j.at != nil {
			if cond, onTrue, ok := edgeGovernor(blk, j.at); ok {
				core, neg := cond, false
				for {
					u, isNot := core.(*ssa.UnOp)
					if !isNot || u.Op != token.NOT {
						break
					}
					core, neg = u.X, !neg
				}
				if want, has := p.assume[core]; has && (onTrue != neg) != want {
					subs = append(subs, nil)
					continue
				}
			}
		}
		q.assume = p.assume
		q.saturate(l)
		subs = append(subs, q)
	}
	feasible := 0
	for _, q := range subs {
		if q != nil {
			feasible++
		}
	}
	if feasible == 0 {
		return false
	}
	news := false
	me := blin{n: j.v}
	for _, t := range cands {
		if j.done[t] {
			continue
		}
		j.done[t] = true
		if j.down { // upper bounds: v <= t + c
			worst, ok := int64(-(1 << 50)), true
			for i, l := range j.in {
				q := subs[i]
				if q == nil {
					continue
				}
				q.saturate(blin{n: t})
				var c int64
				if l.n == t {
					c = l.c
				} else {
					d := q.dist(l.n)
					k, has := d[t]
					if !has {
						ok = false
						break
					}
					c = k + l.c
				}
				if c > worst {
					worst = c
				}
			}
			if ok && p.le(me, blin{t, worst}) {
				news = true
			}
		}
		if j.up { // lower bounds: t + c <= v
			worst, ok := int64(1<<50), true
			for i, l := range j.in {
				q := subs[i]
				if q == nil {
					continue
				}
				var c int64
				if l.n == t {
					c = l.c
				} else {
					d := q.dist(t)
					k, has := d[l.n] // t - l.n <= k  =>  l >= t - k + l.c
					if !has {
						ok = false
						break
					}
					c = -k + l.c
				}
				if c < worst {
					worst = c
				}
			}
			if ok && p.le(blin{t, worst}, me) {
				news = true
			}
		}
	}
	return news
}

func (p *bndProver) drain() {
	for n := 0; len(p.work) > 0 && n < 400; n++ {
		w := p.work[0]
		p.work = p.work[1:]
		p.expand(w)
	}
}

// dist: for every node t, the least c with src - t <= c (Bellman-Ford over the facts).
func (p *bndProver) dist(src bnode) map[bnode]int64 {
	d := map[bnode]int64{src: 0}
	for round := 0; round <= len(p.seen)+2; round++ {
		changed := false
		for k, c := range p.facts {
			if dx, ok := d[k[0]]; ok {
				if dy, ok := d[k[1]]; !ok || dx+c < dy {
					d[k[1]] = dx + c
					changed = true
				}
			}
		}
		if !changed {
			return d
		}
	}
	p.contra = true // negative cycle: the facts are contradictory, the block is unreachable
	return d
}

// holds: a <= b follows from the current facts.
func (p *bndProver) holds(a, b blin) bool {
	if a.n == b.n {
		return a.c <= b.c
	}
	d := p.dist(a.n)
	if p.contra {
		return true
	}
	c, ok := d[b.n]
	return ok && c <= b.c-a.c
}

// upper / lower: best constant bounds of a term.
func (p *bndProver) upper(t blin) (int64, bool) {
	if t.n.v == nil {
		return t.c, true
	}
	d := p.dist(t.n)
	c, ok := d[bnode{}]
	return c + t.c, ok
}

func (p *bndProver) lower(t blin) (int64, bool) {
	if t.n.v == nil {
		return t.c, true
	}
	d := p.dist(bnode{})
	c, ok := d[t.n] // 0 - t.n <= c  =>  t.n >= -c
	return -c + t.c, ok
}

// derive applies the conditional facts; reports whether anything new was learnt.
func (p *bndProver) derive() bool {
	news := false
	for _, c := range p.conds {
		if !c.fired && p.holds(c.a, c.b) && (!c.two || p.holds(c.a2, c.b2)) {
			c.fired = true
			for _, t := range c.then {
				if p.le(t[0], t[1]) {
					news = true
				}
			}
		}
	}
	for _, t := range p.diseqs {
		if p.holds(zeroLin, t) && p.le(blin{c: 1}, t) {
			news = true
		}
		if p.holds(t, zeroLin) && p.le(t, blin{c: -1}) {
			news = true
		}
	}
	for _, s := range p.sums {
		me := blin{n: s.v}
		if !s.sub { // v = x + y
			for _, pr := range [][2]blin{{s.x, s.y}, {s.y, s.x}} {
				if lb, ok := p.lower(pr[1]); ok && p.le(blin{pr[0].n, pr[0].c + lb}, me) {
					news = true
				}
				if ub, ok := p.upper(pr[1]); ok && p.le(me, blin{pr[0].n, pr[0].c + ub}) {
					news = true
				}
			}
		} else { // v = x - y
			if lb, ok := p.lower(s.y); ok && p.le(me, blin{s.x.n, s.x.c - lb}) {
				news = true
			}
			if ub, ok := p.upper(s.y); ok && p.le(blin{s.x.n, s.x.c - ub}, me) {
				news = true
			}
			// y - x <= k  =>  v >= -k ;  x - y <= k  =>  v <= k
			if d := p.dist(s.y.n); !p.contra {
				if k, ok := d[s.x.n]; ok && p.le(blin{c: -(k + s.y.c - s.x.c)}, me) {
					news = true
				}
			}
			if d := p.dist(s.x.n); !p.contra {
				if k, ok := d[s.y.n]; ok && p.le(me, blin{c: k + s.x.c - s.y.c}) {
					news = true
				}
			}
		}
	}
	// v = lo + w where w <= len(x[lo:]) + c: then v <= len(x) + c
	for _, sm := range p.sums {
		if sm.sub {
			continue
		}
		for _, pr := range [][2]blin{{sm.x, sm.y}, {sm.y, sm.x}} {
			lo, w := pr[0], pr[1]
			for n := range p.seen {
				sl, ok := n.v.(*ssa.Slice)
				if !n.ln || !ok || sl.Low == nil || sl.High != nil || bnorm(sl.Low) != lo {
					continue
				}
				if w.n == n {
					if p.le(blin{n: sm.v}, blin{lenNode(sl.X).n, lenNode(sl.X).c + w.c}) {
						news = true
					}
					continue
				}
				if d := p.dist(w.n); !p.contra {
					if k, has := d[n]; has { // w.n - len(t) <= k
						L := lenNode(sl.X)
						if p.le(blin{n: sm.v}, blin{L.n, L.c + k + w.c}) {
							news = true
						}
					}
				}
			}
		}
	}
	for ji := range p.joins {
		if p.joinEdges(&p.joins[ji]) {
			news = true
		}
	}
	p.drain()
	return news
}

func (p *bndProver) saturate(terms ...blin) {
	for _, t := range terms {
		p.touch(t.n)
	}
	p.drain()
	// two values defined as the same sum or difference are equal (n := len(s) - k and len(s[k:]))
	for i := 0; i < len(p.sums); i++ {
		for j := i + 1; j < len(p.sums); j++ {
			a, b := p.sums[i], p.sums[j]
			if a.v != b.v && a.sub == b.sub && a.x == b.x && a.y == b.y {
				p.eq(blin{n: a.v}, blin{n: b.v})
			}
		}
	}
	for round := 0; round < 6; round++ {
		if !p.derive() {
			break
		}
	}
}

// prove: a <= b at the query point.
func (p *bndProver) prove(a, b blin) bool {
	p.saturate(a, b)
	ok := p.holds(a, b)
	if dbg := os.Getenv("VERIF_BND_DEBUG"); dbg != "" && p.depth == 0 && strings.Contains(shortFn(p.f), dbg) {
		fmt.Printf("== %s: prove %s <= %s : %v (contra=%v) at %v\n", shortFn(p.f), linStr(a), linStr(b), ok, p.contra, p.at)
		var ls []string
		for k, c := range p.facts {
			ls = append(ls, fmt.Sprintf("   %s - %s <= %d", linStr(blin{n: k[0]}), linStr(blin{n: k[1]}), c))
		}
		sort.Strings(ls)
		fmt.Println(strings.Join(ls, "\n"))
	}
	return ok
}

func linStr(l blin) string {
	s := "0"
	if l.n.v != nil {
		s = l.n.v.Name()
		if l.n.ln {
			s = "len(" + s + ")"
		}
	}
	if l.c != 0 {
		s += fmt.Sprintf("%+d", l.c)
	}
	return s
}

func (p *bndProver) lowerBound(t blin) (int64, bool) {
	p.saturate(t)
	return p.lower(t)
}

// ---------------------------------------------------------------------------------------
// the rule

// exprTextAt: the source text of the index or slice expression whose '[' is at pos.
func exprTextAt(c *Ctx, pos token.Pos) string {
	for _, pkg := range c.W.All {
		for _, file := range pkg.Syntax {
			if file.Pos() <= pos && pos < file.End() {
				path, _ := astutil.PathEnclosingInterval(file, pos, pos)
				for _, n := range path {
					switch e := n.(type) {
					case *ast.IndexExpr:
						if e.Lbrack == pos {
							return types.ExprString(e)
						}
					case *ast.SliceExpr:
						if e.Lbrack == pos {
							return types.ExprString(e)
						}
					}
				}
				return ""
			}
		}
	}
	return ""
}

// bndException: a reviewed site. Only the listed sub-obligations are excused — the others must
// still be proved — and `needs`, when set, names a module function a call to which must
// dominate the site (the validation the argument relies on).
type bndException struct {
	parts  string // "low>=0 low<=high high<=len index>=0 index<len", space separated
	needs  string
	reason string
}

type bndResult struct {
	sites, proven, residual, discharged, exceptions, findings int
	stale                                                     []string // exception entries whose site is now fully proved
}

// runBND examines the index and slice expressions of fns. residuals: the compiler's list of
// unproven bounds checks (stage 1).
func runBND(c *Ctx, r *Result, rule string, fns []*ssa.Function, reach *Reach, residuals []*bceResidual) bndResult {
	var res bndResult
	bndCtx = c
	byLine := map[bcePos][]*bceResidual{}
	for _, x := range residuals {
		byLine[x.bcePos] = append(byLine[x.bcePos], x)
	}
	type pending struct {
		f       *ssa.Function
		s       *bndSite
		key     excSiteKey
		oldKey  string
		missing []string
	}
	var pend []pending
	for _, f := range fns {
		ord := map[string]int{}
		oldOrd := map[string]int{}
		for _, s := range bndSitesIn(c, f) {
			res.sites++
			key := bcePos{c.relFile(s.pos.Filename), s.pos.Line}
			want := "IsInBounds"
			if s.kind == "slice" {
				want = "IsSliceInBounds"
			}
			hit := false
			for _, x := range byLine[key] {
				if x.kind == want && abs(x.col-s.pos.Column) <= 1 {
					hit = true
					x.used = true
				}
			}
			if !hit {
				res.proven++
				continue
			}
			res.residual++
			fp, text := s.kind, s.kind
			if e, info := indexExprAt(c, s.ins.Pos()); e != nil {
				fp, text = exprFingerprint(info, e), types.ExprString(e)
			}
			fk := exceptionKey(f) + ":" + fp
			ord[fk]++
			ok := exceptionKey(f) + ":" + text
			oldOrd[ok]++
			pend = append(pend, pending{f: f, s: s, key: excSiteKey{exceptionKey(f), fp, ord[fk]}, oldKey: fmt.Sprintf("%s#%d", ok, oldOrd[ok]), missing: bndProve(c, s)})
		}
	}
	var keys []string
	for k := range bndExceptions {
		keys = append(keys, k)
	}
	var siteKeys, needKeys []excSiteKey
	for _, p := range pend {
		siteKeys = append(siteKeys, p.key)
		if len(p.missing) > 0 {
			needKeys = append(needKeys, p.key)
		}
	}
	resolver := newExcResolver(c, keys, siteKeys, needKeys, fns, true)
	for _, p := range pend {
		f, s, missing := p.f, p.s, p.missing
		full := p.key.String()
		if os.Getenv("VERIF_BND_KEYS") != "" {
			fmt.Printf("BNDKEY\t%s\t%s\tmissing=%v\n", p.oldKey, full, p.missing)
		}
		o := Obligation{Rule: rule, Key: full, Fn: shortFn(f), Pos: c.W.Pos(s.ins.Pos()), Nontrivial: true}
		var exc bndException
		hasExc := false
		matched := ""
		if len(missing) > 0 {
			if matched = resolver.resolve(p.key); matched != "" {
				exc, hasExc = bndExceptions[matched], true
			}
		} else if _, direct := bndExceptions[full]; direct {
			res.stale = append(res.stale, full)
		}
		var unexcused []string
		for _, m := range missing {
			if hasExc && strings.Contains(" "+exc.parts+" ", " "+m+" ") {
				continue
			}
			// the entry was written for another spelling of the construct (s[k+i] became a
			// range over s[k:]): "the offset stays within the container" is one claim, whether
			// it shows as index<len, high<=len or low<=high; likewise for the lower side
			if hasExc && matched != full {
				covered := false
				for _, part := range strings.Fields(exc.parts) {
					if bndPartClass(part) == bndPartClass(m) && bndPartClass(m) != "" {
						covered = true
					}
				}
				if covered {
					continue
				}
			}
			unexcused = append(unexcused, m)
		}
		needsOK := true
		if hasExc && exc.needs != "" {
			if rest, atCallers := strings.CutPrefix(exc.needs, "@callers:"); atCallers {
				// every call of this function is preceded by a call to the named one
				sites, ok := c.staticCallers(exceptionRoot(f))
				needsOK = ok && len(sites) > 0
				for _, cs := range sites {
					if !dominatedByCallTo(cs, rest) {
						needsOK = false
					}
				}
			} else {
				needsOK = dominatedByCallTo(s.ins, exc.needs)
			}
		}
		moved := ""
		if hasExc && matched != full {
			moved = " [entry " + matched + ", whose own site is gone: the construct was renamed or moved]"
		}
		switch {
		case len(missing) == 0:
			o.Verdict, o.Reason = Discharged, "in range: dominating comparisons, definitions and library post-conditions give 0 <= low <= high <= len (difference-constraint proof)"
			res.discharged++
		case len(unexcused) == 0 && needsOK:
			o.Verdict, o.Reason = Exception, "reviewed ("+strings.Join(missing, ", ")+"; the rest is proved): "+exc.reason+moved
			res.exceptions++
		case len(unexcused) == 0:
			o.Verdict, o.Reason = Finding, "the reviewed argument for this site relies on a preceding call to "+exc.needs+", which no longer dominates it"
			res.findings++
		default:
			o.Verdict = Finding
			o.Reason = "the compiler keeps a bounds check here and no proof was found for: " + strings.Join(unexcused, "; ") + " — an out-of-range value panics"
			res.findings++
		}
		if o.Verdict == Finding && reach != nil {
			o.Path = reach.Path(f)
		}
		r.Add(o)
	}
	return res
}

func valName(v ssa.Value) string {
	if v == nil {
		return "-"
	}
	return v.Name()
}

// bndProve returns the sub-obligations of the site that could not be proved.
func bndProve(c *Ctx, s *bndSite) []string {
	var missing []string
	L := lenNode(s.x)
	if s.kind == "index" {
		if !isSignedInt(s.idx.Type()) && !isUntypedInt(s.idx.Type()) {
			// unsigned index: only the upper bound matters
			p := newBndProver(c, s.ins, 0)
			i := bnorm(s.idx)
			if !p.prove(blin{i.n, i.c + 1}, L) {
				missing = append(missing, "index<len")
			}
			return missing
		}
		i := bnorm(s.idx)
		p := newBndProver(c, s.ins, 0)
		if !p.prove(zeroLin, i) {
			missing = append(missing, "index>=0")
		}
		if !p.prove(blin{i.n, i.c + 1}, L) {
			missing = append(missing, "index<len")
		}
		return missing
	}
	if s.max != nil {
		return []string{"three-index slice (not modelled)"}
	}
	lo, hi := zeroLin, L
	if s.lo != nil {
		lo = bnorm(s.lo)
	}
	if s.hi != nil {
		hi = bnorm(s.hi)
	}
	p := newBndProver(c, s.ins, 0)
	if s.lo != nil && !p.prove(zeroLin, lo) {
		missing = append(missing, "low>=0")
	}
	if !p.prove(lo, hi) {
		missing = append(missing, "low<=high")
	}
	if s.hi != nil && !p.prove(hi, L) {
		missing = append(missing, "high<=len")
	}
	return missing
}

// ---------------------------------------------------------------------------------------
// load canonicalisation: two loads of a location that cannot change between them are one value

var bndCtx *Ctx

type bndMem struct {
	mutableField map[string]bool // "pkg.T.i": some store to the field goes through a non-local object, or its address escapes
	wholeStored  map[string]bool // named struct types assigned as a whole through a pointer
	// the same two, counting only the functions under Eval: what an evaluation reads twice is
	// unchanged in between unless code of the evaluation itself writes it (the parser's writes to
	// the tree it builds do not count for the evaluator's reads of the finished tree)
	mutableFieldEval map[string]bool
	wholeStoredEval  map[string]bool
	mutableGlob      map[*ssa.Global]bool
	repsAll          map[*ssa.Function]map[string][]ssa.Value
	reps             map[*ssa.Function]map[string]ssa.Value
	local            map[ssa.Value]ssa.Value // re-reads of a mutable field with no write in between
}

func bndFieldKey(fa *ssa.FieldAddr) (string, string) {
	pt, ok := fa.X.Type().Underlying().(*types.Pointer)
	if !ok {
		return "", ""
	}
	tn := types.TypeString(pt.Elem(), nil)
	return tn, fmt.Sprintf("%s.%d", tn, fa.Field)
}

func globalRoot(v ssa.Value) *ssa.Global {
	for depth := 0; depth < 10; depth++ {
		switch x := v.(type) {
		case *ssa.Global:
			return x
		case *ssa.FieldAddr:
			v = x.X
		case *ssa.IndexAddr:
			v = x.X
		default:
			return nil
		}
	}
	return nil
}

func (c *Ctx) bndMemory() *bndMem {
	if c.bmem != nil {
		return c.bmem
	}
	m := &bndMem{mutableField: map[string]bool{}, wholeStored: map[string]bool{}, mutableFieldEval: map[string]bool{}, wholeStoredEval: map[string]bool{}, mutableGlob: map[*ssa.Global]bool{}, reps: map[*ssa.Function]map[string]ssa.Value{}, local: map[ssa.Value]ssa.Value{}}
	c.bmem = m
	for _, f := range c.G.Funcs {
		inEval := c.REval != nil && c.REval.Set[f]
		markField := func(k string) {
			m.mutableField[k] = true
			if inEval {
				m.mutableFieldEval[k] = true
			}
		}
		for _, ins := range instrsIn(f) {
			switch x := ins.(type) {
			case *ssa.FieldAddr:
				_, k := bndFieldKey(x)
				if refs := x.Referrers(); refs != nil {
					for _, r := range *refs {
						switch r := r.(type) {
						case *ssa.UnOp, *ssa.DebugRef:
						case *ssa.Store:
							if r.Addr != ssa.Value(x) {
								markField(k) // the address itself is stored
							} else if !alwaysFreshAlloc(x.X, 0) {
								// (a store into an object this function has just allocated, itself or
								// through a constructor, is part of building it)
								markField(k)
							}
						case *ssa.FieldAddr, *ssa.IndexAddr:
							// nested: handled at the nested instruction for struct fields; an
							// element address of an array field may be written
							if _, isIdx := r.(*ssa.IndexAddr); isIdx {
								markField(k)
							}
						default:
							markField(k)
						}
					}
				}
			case *ssa.Store:
				if st, ok := x.Val.Type().Underlying().(*types.Struct); ok && st != nil {
					if _, local := x.Addr.(*ssa.Alloc); !local {
						m.wholeStored[types.TypeString(x.Val.Type(), nil)] = true
						if inEval {
							m.wholeStoredEval[types.TypeString(x.Val.Type(), nil)] = true
						}
					}
				}
				if g := globalRoot(x.Addr); g != nil && !isInitFn(f) {
					m.mutableGlob[g] = true
				}
			case *ssa.Call:
				// a global whose address is handed to a call may be written by it
				for _, a := range x.Call.Args {
					if g := globalRoot(a); g != nil && !isInitFn(f) {
						if _, isPtr := a.Type().Underlying().(*types.Pointer); isPtr {
							m.mutableGlob[g] = true
						}
					}
				}
			}
		}
	}
	return m
}

// memKey: a key identifying the location a value was read from, when that location cannot
// change during an evaluation; "" otherwise.
func (c *Ctx) memKey(v ssa.Value, depth int) string {
	if depth > 6 {
		return ""
	}
	m := c.bndMemory()
	switch x := v.(type) {
	case *ssa.UnOp:
		if x.Op != token.MUL {
			return ""
		}
		switch a := x.X.(type) {
		case *ssa.FieldAddr:
			tn, k := bndFieldKey(a)
			if al, local := a.X.(*ssa.Alloc); local && k != "" {
				if spillOnly(al) {
					return fmt.Sprintf("A:%s@%p/%d", al.Name(), al, a.Field)
				}
				return ""
			}
			mutF, mutT := m.mutableField[k], m.wholeStored[tn]
			if pf := x.Parent(); pf != nil && c.REval != nil && c.REval.Set[pf] && !(c.RCompile != nil && c.RCompile.Set[pf]) && !(c.RReg != nil && c.RReg.Set[pf]) {
				mutF, mutT = m.mutableFieldEval[k], m.wholeStoredEval[tn]
			}
			if k == "" || mutF || mutT {
				return ""
			}
			if g := globalRoot(a.X); g != nil {
				if m.mutableGlob[g] {
					return ""
				}
				return "G:" + g.String() + "/" + k
			}
			if al, local := a.X.(*ssa.Alloc); local {
				if spillOnly(al) {
					return fmt.Sprintf("A:%s@%p/%d", al.Name(), al, a.Field)
				}
				return ""
			}
			base := c.baseKey(a.X, depth+1)
			if base == "" {
				return ""
			}
			return "F:" + base + "/" + k
		case *ssa.Alloc, *ssa.FreeVar:
			if stores, ok := cellStores(a); ok && len(stores) == 1 {
				return "C:" + a.Name() + "@" + a.Parent().String()
			}
		case *ssa.Global:
			if !m.mutableGlob[a] {
				return "G:" + a.String()
			}
		}
	case *ssa.Field:
		base := c.baseKey(x.X, depth+1)
		if base != "" {
			return fmt.Sprintf("V:%s/%d", base, x.Field)
		}
	}
	return ""
}

// baseKey: identity of a base object value (an SSA value, or a canonical load).
func (c *Ctx) baseKey(v ssa.Value, depth int) string {
	if k := c.memKey(v, depth); k != "" {
		return k
	}
	switch v.(type) {
	case *ssa.Parameter, *ssa.FreeVar, *ssa.Call, *ssa.Phi, *ssa.Extract, *ssa.TypeAssert, *ssa.Lookup, *ssa.UnOp, *ssa.MakeInterface, *ssa.Slice, *ssa.Next, *ssa.Field, *ssa.Index:
		return fmt.Sprintf("v:%s@%p", v.Name(), v)
	}
	return ""
}

// canon: the representative of v among the values of its function that are read from the same
// unchanging location.
func (c *Ctx) canon(v ssa.Value) ssa.Value {
	if v == nil || c == nil {
		return v
	}
	k := c.memKey(v, 0)
	if k == "" {
		return c.rereadCanon(v)
	}
	ins, ok := v.(ssa.Instruction)
	if !ok {
		return v
	}
	f := ins.Parent()
	m := c.bndMemory()
	all := m.repsAll[f]
	if all == nil {
		all = map[string][]ssa.Value{}
		if m.repsAll == nil {
			m.repsAll = map[*ssa.Function]map[string][]ssa.Value{}
		}
		m.repsAll[f] = all
		for _, b := range f.Blocks {
			for _, i := range b.Instrs {
				if val, ok := i.(ssa.Value); ok {
					if kk := c.memKey(val, 0); kk != "" {
						all[kk] = append(all[kk], val)
					}
				}
			}
		}
	}
	// the representative is a read of the same unchanging location that is executed before v on
	// every path (block order is not execution order: a loop header comes after the body), and
	// among those one that has no earlier read itself
	best := v
	for _, r := range all[k] {
		if r == v {
			continue
		}
		ri, ok := r.(ssa.Instruction)
		if !ok || !instrBefore(ri, ins) {
			continue
		}
		if best == v {
			best = r
			continue
		}
		if bi, ok := best.(ssa.Instruction); ok && instrBefore(ri, bi) {
			best = r
		}
	}
	return best
}

// rereadCanon: v loads a struct field that may change during an evaluation; its representative is
// the earliest load of the same field of the same object that is executed before v on every
// path with no instruction in between that could write the field (a store of a value of the
// field's type or of a whole struct/array, or a call that is not known to be read-only).
func (c *Ctx) rereadCanon(v ssa.Value) ssa.Value {
	ld, ok := v.(*ssa.UnOp)
	if !ok || ld.Op != token.MUL {
		return v
	}
	fa, ok := ld.X.(*ssa.FieldAddr)
	if !ok {
		return v
	}
	m := c.bndMemory()
	if r, ok := m.local[v]; ok {
		return r
	}
	m.local[v] = v // cut recursion
	rep := v
	base := c.canon(fa.X)
	for _, b := range ld.Parent().Blocks {
		if rep != v {
			break
		}
		for _, ins := range b.Instrs {
			l0, ok := ins.(*ssa.UnOp)
			if !ok || l0 == ld || l0.Op != token.MUL {
				continue
			}
			f0, ok := l0.X.(*ssa.FieldAddr)
			if !ok || f0.Field != fa.Field || !types.Identical(f0.X.Type(), fa.X.Type()) {
				continue
			}
			if f0.X != fa.X && c.canon(f0.X) != base {
				continue
			}
			if !instrBefore(l0, ld) || !noWriteBetween(l0, ld, ld.Type()) {
				continue
			}
			rep = c.rereadCanon(l0)
			break
		}
	}
	m.local[v] = rep
	return rep
}

// noWriteBetween: no instruction on any path from a to b (a executed before b on every path)
// can write a memory location of type t.
func noWriteBetween(a, b ssa.Instruction, t types.Type) bool {
	composite := false
	switch t.Underlying().(type) {
	case *types.Struct, *types.Array:
		composite = true // a store to one of its parts changes it
	}
	interferes := func(ins ssa.Instruction) bool {
		switch x := ins.(type) {
		case *ssa.Store:
			if composite {
				return true
			}
			vt := x.Val.Type()
			if types.Identical(vt, t) {
				return true
			}
			switch vt.Underlying().(type) {
			case *types.Struct, *types.Array:
				return true
			}
			return false
		case *ssa.Go, *ssa.Defer, *ssa.Select, *ssa.RunDefers:
			return true
		case *ssa.Call:
			if bi, isB := x.Call.Value.(*ssa.Builtin); isB {
				switch bi.Name() {
				case "len", "cap", "append":
					return false
				}
				return true
			}
			callee := x.Call.StaticCallee()
			if callee == nil {
				return true
			}
			if isReflectValue(recvType(callee)) {
				switch callee.Name() {
				case "Len", "Kind", "IsValid", "IsNil", "CanInterface", "Type", "NumField", "CanAddr":
					return false
				}
				return true
			}
			return !(len(callee.Blocks) > 0 && readOnlyFunc(callee, 0))
		}
		return false
	}
	ba, bb := a.Block(), b.Block()
	if ba == bb {
		on := false
		for _, ins := range ba.Instrs {
			if ins == b {
				return true
			}
			if on && interferes(ins) {
				return false
			}
			if ins == a {
				on = true
			}
		}
		return false
	}
	// blocks on a path from ba to bb that does not come back to ba
	fwd := map[*ssa.BasicBlock]bool{}
	var walk func(x *ssa.BasicBlock)
	walk = func(x *ssa.BasicBlock) {
		if x == ba || fwd[x] {
			return
		}
		fwd[x] = true
		if x == bb {
			// beyond bb only matters if bb can be reached again, which the walk below covers
		}
		for _, s := range x.Succs {
			walk(s)
		}
	}
	for _, s := range ba.Succs {
		walk(s)
	}
	bwd := map[*ssa.BasicBlock]bool{}
	var back func(x *ssa.BasicBlock)
	back = func(x *ssa.BasicBlock) {
		if x == ba || bwd[x] {
			return
		}
		bwd[x] = true
		for _, p := range x.Preds {
			back(p)
		}
	}
	back(bb)
	on := false
	for _, ins := range ba.Instrs {
		if on && interferes(ins) {
			return false
		}
		if ins == a {
			on = true
		}
	}
	// bb again after bb (a cycle that avoids ba): the whole of bb lies between
	bbAgain := false
	for _, s := range bb.Succs {
		if s != ba && bwd[s] && fwd[s] {
			bbAgain = true
		}
	}
	for _, ins := range bb.Instrs {
		if ins == b && !bbAgain {
			break
		}
		if interferes(ins) {
			return false
		}
	}
	for x := range fwd {
		if x == bb || !bwd[x] {
			continue
		}
		for _, ins := range x.Instrs {
			if interferes(ins) {
				return false
			}
		}
	}
	return true
}

// spillOnly: a local struct cell that is written once as a whole (the spill of a value
// parameter or of a call result) and afterwards only read, field by field or by methods that
// only read their receiver.
func spillOnly(al *ssa.Alloc) bool {
	refs := al.Referrers()
	if refs == nil {
		return false
	}
	stores := 0
	var theStore *ssa.Store
	roCall := func(r *ssa.Call) bool {
		callee := r.Call.StaticCallee()
		if callee == nil || !readOnlyFunc(callee, 0) {
			return false
		}
		res := callee.Signature.Results()
		for i := 0; i < res.Len(); i++ {
			if _, basic := res.At(i).Type().Underlying().(*types.Basic); !basic {
				return false
			}
		}
		return true
	}
	var readOnly func(v ssa.Value, depth int) bool
	readOnly = func(v ssa.Value, depth int) bool {
		rs := v.Referrers()
		if rs == nil || depth > 4 {
			return false
		}
		for _, r := range *rs {
			switch r := r.(type) {
			case *ssa.UnOp, *ssa.DebugRef:
			case *ssa.FieldAddr:
				if !readOnly(r, depth+1) {
					return false
				}
			case *ssa.Call:
				if !roCall(r) {
					return false
				}
			default:
				return false
			}
		}
		return true
	}
	for _, r := range *refs {
		switch r := r.(type) {
		case *ssa.Store:
			if r.Addr != ssa.Value(al) {
				return false
			}
			theStore = r
			stores++
		case *ssa.FieldAddr:
			if !readOnly(r, 0) {
				return false
			}
		case *ssa.UnOp, *ssa.DebugRef:
		case *ssa.Call:
			if !roCall(r) {
				return false
			}
		default:
			return false
		}
	}
	if stores != 1 {
		return false
	}
	// the store is executed before every read (the spill at function entry, or the assignment
	// of a loop variable at the top of the body)
	var reads func(v ssa.Value, depth int) bool
	reads = func(v ssa.Value, depth int) bool {
		if depth > 4 {
			return false
		}
		for _, r := range *v.Referrers() {
			switch r := r.(type) {
			case *ssa.Store, *ssa.DebugRef:
			case *ssa.FieldAddr:
				if !reads(r, depth+1) {
					return false
				}
			case ssa.Instruction:
				if !instrBefore(theStore, r) {
					return false
				}
			}
		}
		return true
	}
	return reads(al, 0)
}

// instrBefore: a is executed before b on every path to b (same function).
func instrBefore(a, b ssa.Instruction) bool {
	if a.Block() == b.Block() {
		for _, ins := range a.Block().Instrs {
			if ins == a {
				return true
			}
			if ins == b {
				return false
			}
		}
	}
	return a.Block().Dominates(b.Block())
}

// ---------------------------------------------------------------------------------------
// return summaries of module functions: relations between an integer result and the
// parameters (or the lengths of string/slice parameters) that hold at every return.

type bretFact struct {
	param int  // -1: constant
	ln    bool // relation to len(param)
	upper bool // result <= base + c ; otherwise base + c <= result
	c     int64
	field string // when set: relation to len(param.field) (field key of bndFieldKey)
}

type bretKey struct {
	f      *ssa.Function
	idx    int
	consts string // constant integer arguments the summary is specialised for
}

func (c *Ctx) retSummary(f *ssa.Function, idx int, depth int, consts map[int]int64) []bretFact {
	if c.bret == nil {
		c.bret = map[bretKey][]bretFact{}
		c.bretBusy = map[bretKey]bool{}
	}
	var cs []string
	for i := range f.Params {
		if v, ok := consts[i]; ok {
			cs = append(cs, fmt.Sprintf("%d=%d", i, v))
		}
	}
	k := bretKey{f, idx, strings.Join(cs, ",")}
	if s, ok := c.bret[k]; ok {
		return s
	}
	if c.bretBusy[k] || depth >= 2 || len(f.Blocks) == 0 {
		return nil
	}
	c.bretBusy[k] = true
	defer func() { c.bretBusy[k] = false }()
	type cand struct {
		param int
		ln    bool
		n     bnode
		field string
	}
	cands := []cand{{param: -1}}
	for i, pa := range f.Params {
		switch {
		case isSignedInt(pa.Type()):
			cands = append(cands, cand{i, false, bnode{v: pa}, ""})
		case isStringType(pa.Type()) || isSliceOrArray(pa.Type()):
			cands = append(cands, cand{i, true, bnode{v: pa, ln: true}, ""})
		}
	}
	// the length of a slice/string field read from a pointer parameter (a small read-only helper
	// such as `func (c *T) clamp(i int) int` relates its result to len(c.items))
	if readOnlyFunc(f, 0) {
		seenField := map[string]bool{}
		for _, ins := range instrsIn(f) {
			ld, ok := ins.(*ssa.UnOp)
			if !ok || ld.Op != token.MUL || !(isStringType(ld.Type()) || isSliceOrArray(ld.Type())) {
				continue
			}
			fa, ok := ld.X.(*ssa.FieldAddr)
			if !ok {
				continue
			}
			pa, ok := fa.X.(*ssa.Parameter)
			if !ok {
				continue
			}
			_, fk := bndFieldKey(fa)
			for i, q := range f.Params {
				if q == pa && fk != "" && !seenField[fmt.Sprintf("%d/%s", i, fk)] {
					seenField[fmt.Sprintf("%d/%s", i, fk)] = true
					cands = append(cands, cand{i, true, lenNode(ld).n, fk})
				}
			}
		}
	}
	type acc struct {
		ok bool
		c  int64
	}
	ups := make([]acc, len(cands))
	los := make([]acc, len(cands))
	first := true
	for _, b := range f.Blocks {
		ret, ok := b.Instrs[len(b.Instrs)-1].(*ssa.Return)
		if !ok {
			continue
		}
		if idx >= len(ret.Results) || !isSignedInt(ret.Results[idx].Type()) {
			c.bret[k] = nil
			return nil
		}
		q := newBndProver(c, ret, depth+1)
		for i, v := range consts {
			q.eq(blin{n: bnode{v: f.Params[i]}}, blin{c: v})
		}
		e := bnorm(ret.Results[idx])
		terms := []blin{e}
		for _, cd := range cands {
			terms = append(terms, blin{n: cd.n})
		}
		q.saturate(terms...)
		de := q.dist(e.n)
		for i, cd := range cands {
			// upper: e - cand <= k
			var up acc
			if e.n == cd.n {
				up = acc{true, e.c}
			} else if kk, has := de[cd.n]; has {
				up = acc{true, kk + e.c}
			}
			var lo acc
			if e.n == cd.n {
				lo = acc{true, e.c}
			} else if kk, has := q.dist(cd.n)[e.n]; has { // cand - e.n <= kk  => e >= cand - kk + e.c
				lo = acc{true, -kk + e.c}
			}
			if d := os.Getenv("BND_SUMMARY"); d != "" && strings.Contains(shortFn(f), d) {
				fmt.Printf("BND_SUMMARY   %s ret@%s cand(param=%d ln=%v field=%s): up=%v lo=%v\n", shortFn(f), c.W.Pos(ret.Pos()), cd.param, cd.ln, cd.field, up, lo)
			}
			if first {
				ups[i], los[i] = up, lo
			} else {
				if !up.ok {
					ups[i].ok = false
				} else if ups[i].ok && up.c > ups[i].c {
					ups[i].c = up.c
				}
				if !lo.ok {
					los[i].ok = false
				} else if los[i].ok && lo.c < los[i].c {
					los[i].c = lo.c
				}
			}
		}
		first = false
	}
	var out []bretFact
	if !first {
		for i, cd := range cands {
			if ups[i].ok {
				out = append(out, bretFact{cd.param, cd.ln, true, ups[i].c, cd.field})
			}
			if los[i].ok {
				out = append(out, bretFact{cd.param, cd.ln, false, los[i].c, cd.field})
			}
		}
	}
	c.bret[k] = out
	if d := os.Getenv("BND_SUMMARY"); d != "" && strings.Contains(shortFn(f), d) {
		fmt.Printf("BND_SUMMARY %s result#%d consts=%v: %+v\n", shortFn(f), idx, consts, out)
	}
	return out
}

func (p *bndProver) summaryFacts(call *ssa.Call, idx int, me blin) {
	callee := call.Call.StaticCallee()
	if callee == nil || len(callee.Blocks) == 0 || !p.c.G.InSc[callee] {
		return
	}
	args := call.Call.Args
	consts := map[int]int64{}
	for i, a := range args {
		if k, ok := intConstOf(a); ok && i < len(callee.Params) {
			consts[i] = k
		}
	}
	if p.depth == 0 {
		p.c.warmSummaries(callee, map[*ssa.Function]bool{})
	}
	sum := p.c.retSummary(callee, idx, p.depth, nil)
	if len(consts) > 0 {
		sum = append(append([]bretFact{}, sum...), p.c.retSummary(callee, idx, p.depth, consts)...)
	}
	for _, f := range sum {
		base := zeroLin
		if f.param >= 0 {
			if f.param >= len(args) {
				continue
			}
			if f.field != "" {
				// len(arg.field): a load of that field of the same object in the calling function,
				// in the block of the call with nothing in between that could write memory (the
				// callee itself is read-only)
				ld := fieldLoadNear(call, args[f.param], f.field)
				if ld == nil {
					continue
				}
				base = lenNode(ld)
			} else if f.ln {
				base = lenNode(args[f.param])
			} else {
				base = bnorm(args[f.param])
			}
		}
		if f.upper {
			p.le(me, blin{base.n, base.c + f.c})
		} else {
			p.le(blin{base.n, base.c + f.c}, me)
		}
	}
}

// defBefore: the definition of v strictly dominates block b (parameters, constants, globals
// and free variables always do).
func defBefore(v ssa.Value, b *ssa.BasicBlock) bool {
	if v == nil {
		return true
	}
	ins, ok := v.(ssa.Instruction)
	if !ok {
		return true
	}
	if ins.Block() == nil || ins.Parent() != b.Parent() {
		return false
	}
	return ins.Block() != b && ins.Block().Dominates(b)
}

// dominatedByCallTo: a static call to the named module function is executed before ins on
// every path.
func dominatedByCallTo(ins ssa.Instruction, name string) bool {
	if dominatedByCallTo1(ins, name) {
		return true
	}
	// the construct lives in a helper: every call of the helper comes after the call
	if bndCtx == nil {
		return false
	}
	f := ins.Parent()
	for depth := 0; depth < 3 && f != nil; depth++ {
		sites, static := bndCtx.staticCallers(f)
		if !static || len(sites) == 0 {
			return false
		}
		all := true
		var next *ssa.Function
		for _, s := range sites {
			if !dominatedByCallTo1(s, name) {
				all = false
				next = s.Parent()
			}
		}
		if all {
			return true
		}
		if len(sites) != 1 {
			return false
		}
		f = next
	}
	return false
}

// dominatedByCallTo1: a call of the function called name precedes ins in its function. The name
// may carry a trait, "name|calls:helper": when no function of that name exists any more (it was
// renamed), a method of the same receiver type that calls the helper itself (the constructor of
// the error by which the named function rejects) stands for it.
func dominatedByCallTo1(ins ssa.Instruction, name string) bool {
	name, trait, _ := strings.Cut(name, "|calls:")
	gone := trait != "" && bndCtx != nil && !bndCtx.fnKeys()[name]
	recv := ""
	if i := strings.Index(name, ")."); i > 0 {
		recv = name[:i+2]
	}
	hasTrait := func(g *ssa.Function) bool {
		if recv == "" || !strings.HasPrefix(shortFn(g), recv) {
			return false
		}
		for _, ci := range callsIn(g) {
			if h := ci.Common().StaticCallee(); h != nil && shortFn(h) == trait {
				return true
			}
		}
		return false
	}
	f := ins.Parent()
	for _, b := range f.Blocks {
		if b != ins.Block() && !b.Dominates(ins.Block()) {
			continue
		}
		for _, i := range b.Instrs {
			if i == ins {
				break
			}
			if call, ok := i.(*ssa.Call); ok {
				if callee := call.Call.StaticCallee(); callee != nil && (shortFn(callee) == name || gone && hasTrait(callee)) {
					return true
				}
			}
		}
	}
	return false
}

// runBNDFor runs BND over the library functions of a reach set.
func runBNDFor(c *Ctx, r *Result, rule string, reach *Reach, rootName string, minSites, minResidual int) {
	if c.bceErr == nil && c.bce == nil {
		c.bce, c.bceErr = bceResiduals(c.W.RepoDir, c.W.RepoDir, c.W.Arch, libPatterns)
	}
	if c.bceErr != nil {
		r.LoseAnchor("BND: %v", c.bceErr)
		return
	}
	if len(c.bce) == 0 {
		r.LoseAnchor("BND: the compiler listed no bounds checks at all; the listing is not working")
		return
	}
	var fns []*ssa.Function
	for _, f := range srcFuncsIn(reach) {
		if c.Lib[fnPkg(f)] && f.Synthetic == "" {
			fns = append(fns, f)
		}
	}
	res := runBND(c, r, rule, fns, reach, c.bce)
	r.Count("BND index/slice expressions under "+rootName, res.sites)
	r.Count("BND proved by the compiler's prove pass under "+rootName, res.proven)
	r.Count("BND left to the checker under "+rootName, res.residual)
	r.Count("BND proved by the checker under "+rootName, res.discharged)
	r.Count("BND reviewed exceptions under "+rootName, res.exceptions)
	r.RequireMin("BND index/slice expressions under "+rootName, res.sites, minSites)
	r.RequireMin("BND expressions the compiler leaves a bounds check on under "+rootName, res.residual, minResidual)
	if len(res.stale) > 0 {
		r.Note("BND: exception entries whose site is now fully proved (can be removed): %v", res.stale)
	}
	r.Assume("integer arithmetic on offsets and lengths does not overflow (they are bounded by the sizes of strings and slices in memory)")
	r.Assume("BND stage 1 trusts the Go compiler's bounds-check elimination: an index or slice expression it emits no check for cannot panic")
}

// fieldLoadNear: a load of the field (key of bndFieldKey) of object obj in the block of call, with
// no store, map update or call to anything but read-only functions between the two.
func fieldLoadNear(call *ssa.Call, obj ssa.Value, fieldKey string) *ssa.UnOp {
	b := call.Block()
	ci := -1
	for i, ins := range b.Instrs {
		if ins == ssa.Instruction(call) {
			ci = i
		}
	}
	if ci < 0 {
		return nil
	}
	quiet := func(ins ssa.Instruction) bool {
		switch x := ins.(type) {
		case *ssa.Store, *ssa.MapUpdate, *ssa.Send, *ssa.Go, *ssa.Defer:
			return false
		case *ssa.Call:
			if _, isB := x.Call.Value.(*ssa.Builtin); isB {
				n := x.Call.Value.(*ssa.Builtin).Name()
				return n == "len" || n == "cap"
			}
			callee := x.Call.StaticCallee()
			return callee != nil && len(callee.Blocks) > 0 && readOnlyFunc(callee, 0)
		}
		return true
	}
	match := func(ins ssa.Instruction) *ssa.UnOp {
		ld, ok := ins.(*ssa.UnOp)
		if !ok || ld.Op != token.MUL {
			return nil
		}
		fa, ok := ld.X.(*ssa.FieldAddr)
		if !ok {
			return nil
		}
		if _, fk := bndFieldKey(fa); fk != fieldKey {
			return nil
		}
		if fa.X != obj && (bndCtx == nil || bndCtx.canon(fa.X) != bndCtx.canon(obj)) {
			return nil
		}
		return ld
	}
	for i := ci - 1; i >= 0; i-- {
		if ld := match(b.Instrs[i]); ld != nil {
			return ld
		}
		if !quiet(b.Instrs[i]) {
			break
		}
	}
	for i := ci + 1; i < len(b.Instrs); i++ {
		if ld := match(b.Instrs[i]); ld != nil {
			return ld
		}
		if !quiet(b.Instrs[i]) {
			break
		}
	}
	return nil
}

// boolSummary: constant bounds on the parameters (ints, lengths, lengths of slice/string fields
// read from pointer parameters) of a read-only boolean module function that hold whenever it
// returns `truth` (`func (f *T) hasLast() bool { n := len(f.items); return n > 0 && ... }` returns
// true only if len(f.items) >= 1).
func (c *Ctx) boolSummary(f *ssa.Function, truth bool, depth int) []bretFact {
	if c.bret == nil {
		c.bret = map[bretKey][]bretFact{}
		c.bretBusy = map[bretKey]bool{}
	}
	k := bretKey{f, -1, fmt.Sprintf("bool=%v", truth)}
	if s, ok := c.bret[k]; ok {
		return s
	}
	if c.bretBusy[k] || depth >= 2 || len(f.Blocks) == 0 || !readOnlyFunc(f, 0) {
		return nil
	}
	res := f.Signature.Results()
	if res.Len() != 1 {
		return nil
	}
	if b, ok := res.At(0).Type().Underlying().(*types.Basic); !ok || b.Kind() != types.Bool {
		return nil
	}
	c.bretBusy[k] = true
	defer func() { c.bretBusy[k] = false }()
	type cand struct {
		param int
		ln    bool
		n     bnode
		field string
	}
	var cands []cand
	for i, pa := range f.Params {
		switch {
		case isSignedInt(pa.Type()):
			cands = append(cands, cand{i, false, bnode{v: pa}, ""})
		case isStringType(pa.Type()) || isSliceOrArray(pa.Type()):
			cands = append(cands, cand{i, true, bnode{v: pa, ln: true}, ""})
		}
	}
	seenField := map[string]bool{}
	for _, ins := range instrsIn(f) {
		ld, ok := ins.(*ssa.UnOp)
		if !ok || ld.Op != token.MUL || !(isStringType(ld.Type()) || isSliceOrArray(ld.Type())) {
			continue
		}
		fa, ok := ld.X.(*ssa.FieldAddr)
		if !ok {
			continue
		}
		pa, ok := fa.X.(*ssa.Parameter)
		if !ok {
			continue
		}
		_, fk := bndFieldKey(fa)
		for i, q := range f.Params {
			if q == pa && fk != "" && !seenField[fmt.Sprintf("%d/%s", i, fk)] {
				seenField[fmt.Sprintf("%d/%s", i, fk)] = true
				cands = append(cands, cand{i, true, lenNode(ld).n, fk})
			}
		}
	}
	if len(cands) == 0 {
		c.bret[k] = nil
		return nil
	}
	// the program points after which the function returns `truth`
	var points []ssa.Instruction
	isConstBool := func(v ssa.Value) (bool, bool) {
		kc, ok := v.(*ssa.Const)
		if !ok || kc.Value == nil || kc.Value.Kind() != constant.Bool {
			return false, false
		}
		return constant.BoolVal(kc.Value), true
	}
	for _, b := range f.Blocks {
		ret, ok := b.Instrs[len(b.Instrs)-1].(*ssa.Return)
		if !ok {
			continue
		}
		v := ret.Results[0]
		if bv, isK := isConstBool(v); isK {
			if bv == truth {
				points = append(points, ret)
			}
			continue
		}
		if phi, isPhi := v.(*ssa.Phi); isPhi && phi.Block() == b {
			for i, e := range phi.Edges {
				if bv, isK := isConstBool(e); isK && bv != truth {
					continue
				}
				pr := b.Preds[i]
				points = append(points, pr.Instrs[len(pr.Instrs)-1])
			}
			continue
		}
		points = append(points, ret)
	}
	type acc struct {
		ok bool
		c  int64
	}
	ups := make([]acc, len(cands))
	los := make([]acc, len(cands))
	zero := bnode{}
	for pi, at := range points {
		q := newBndProver(c, at, depth+1)
		var terms []blin
		for _, cd := range cands {
			terms = append(terms, blin{n: cd.n})
		}
		q.saturate(terms...)
		for i, cd := range cands {
			var up, lo acc
			if kk, has := q.dist(cd.n)[zero]; has {
				up = acc{true, kk}
			}
			if kk, has := q.dist(zero)[cd.n]; has {
				lo = acc{true, -kk}
			}
			if pi == 0 {
				ups[i], los[i] = up, lo
				continue
			}
			if !up.ok {
				ups[i].ok = false
			} else if ups[i].ok && up.c > ups[i].c {
				ups[i].c = up.c
			}
			if !lo.ok {
				los[i].ok = false
			} else if los[i].ok && lo.c < los[i].c {
				los[i].c = lo.c
			}
		}
	}
	var out []bretFact
	if len(points) > 0 {
		for i, cd := range cands {
			if ups[i].ok {
				out = append(out, bretFact{cd.param, cd.ln, true, ups[i].c, cd.field})
			}
			if los[i].ok && !(cd.ln && los[i].c <= 0) { // a length is never negative anyway
				out = append(out, bretFact{cd.param, cd.ln, false, los[i].c, cd.field})
			}
		}
	}
	c.bret[k] = out
	return out
}

// boolSummaryFacts: what a branch on a call to a read-only boolean module function shows.
func (p *bndProver) boolSummaryFacts(call *ssa.Call, truth bool) {
	callee := call.Call.StaticCallee()
	if callee == nil || len(callee.Blocks) == 0 || !p.c.G.InSc[callee] {
		return
	}
	args := call.Call.Args
	for _, f := range p.c.boolSummary(callee, truth, p.depth) {
		if f.param < 0 || f.param >= len(args) {
			continue
		}
		var node blin
		switch {
		case f.field != "":
			// any load of that field of the same object in this function whose value cannot
			// differ from what the callee read: an unchanging field, or a load next to the call
			var ld *ssa.UnOp
			for _, ins := range instrsIn(call.Parent()) {
				l0, ok := ins.(*ssa.UnOp)
				if !ok || l0.Op != token.MUL {
					continue
				}
				fa, ok := l0.X.(*ssa.FieldAddr)
				if !ok {
					continue
				}
				if _, fk := bndFieldKey(fa); fk != f.field {
					continue
				}
				if fa.X != args[f.param] && p.c.canon(fa.X) != p.c.canon(args[f.param]) {
					continue
				}
				if p.c.memKey(l0, 0) != "" {
					ld = l0
					break
				}
			}
			if ld == nil {
				ld = fieldLoadNear(call, args[f.param], f.field)
			}
			if ld == nil {
				continue
			}
			node = lenNode(ld)
		case f.ln:
			node = lenNode(args[f.param])
		default:
			node = bnorm(args[f.param])
		}
		if f.upper {
			p.le(node, blin{c: f.c})
		} else {
			p.le(blin{c: f.c}, node)
		}
	}
}

// warmSummaries computes the return summaries of the module functions f calls (callees first),
// so that the nested provers used while summarising f find them in the cache instead of running
// into the nesting limit.
func (c *Ctx) warmSummaries(f *ssa.Function, seen map[*ssa.Function]bool) {
	if seen[f] || len(seen) > 40 {
		return
	}
	seen[f] = true
	for _, ins := range instrsIn(f) {
		call, ok := ins.(*ssa.Call)
		if !ok {
			continue
		}
		g := call.Call.StaticCallee()
		if g == nil || g == f || len(g.Blocks) == 0 || !c.G.InSc[g] {
			continue
		}
		res := g.Signature.Results()
		hasInt := false
		for i := 0; i < res.Len(); i++ {
			if isSignedInt(res.At(i).Type()) {
				hasInt = true
			}
		}
		if !hasInt {
			continue
		}
		c.warmSummaries(g, seen)
		consts := map[int]int64{}
		for i, a := range call.Call.Args {
			if k, ok := intConstOf(a); ok && i < len(g.Params) {
				consts[i] = k
			}
		}
		for i := 0; i < res.Len(); i++ {
			if isSignedInt(res.At(i).Type()) {
				c.retSummary(g, i, 0, nil)
				if len(consts) > 0 {
					c.retSummary(g, i, 0, consts)
				}
			}
		}
	}
}

func bndPartClass(part string) string {
	switch part {
	case "index<len", "high<=len", "low<=high":
		return "upper"
	case "index>=0", "low>=0":
		return "lower"
	}
	return ""
}

// edgeGovernor: the branch that decides whether control goes from blk to `to`: blk's own If, or —
// when blk is straight-line code — the If that led into it. Returns the condition and whether
// the edge is its true side.
func edgeGovernor(blk, to *ssa.BasicBlock) (ssa.Value, bool, bool) {
	src, dst := blk, to
	for hops := 0; hops < 4; hops++ {
		if iff, isIf := src.Instrs[len(src.Instrs)-1].(*ssa.If); isIf {
			if src.Succs[0] == src.Succs[1] {
				return nil, false, false
			}
			return iff.Cond, src.Succs[0] == dst, true
		}
		if len(src.Preds) != 1 {
			return nil, false, false
		}
		src, dst = src.Preds[0], src
	}
	return nil, false, false
}

// edgeFacts adds what the branch at the end of block from says about the edge from -> to.
func (p *bndProver) edgeFacts(from, to *ssa.BasicBlock) {
	iff, ok := from.Instrs[len(from.Instrs)-1].(*ssa.If)
	if !ok || from.Succs[0] == from.Succs[1] {
		return
	}
	p.condFact(iff.Cond, from.Succs[0] == to, 0)
}

var sameBinOpCache = map[*ssa.Function]map[string]*ssa.BinOp{}

// sameBinOp: the first instruction of x's function that applies x's operator to x's operands
// (integer %, /, * and the bit operations with a constant or identical right operand).
func sameBinOp(x *ssa.BinOp) *ssa.BinOp {
	switch x.Op {
	case token.REM, token.QUO, token.MUL, token.AND, token.SHL, token.SHR:
	default:
		return nil
	}
	if !isSignedInt(x.Type()) || x.Parent() == nil {
		return nil
	}
	key := func(b *ssa.BinOp) string {
		y := ""
		if k, ok := intConstOf(b.Y); ok {
			y = fmt.Sprintf("k%d", k)
		} else {
			y = fmt.Sprintf("%p", b.Y)
		}
		return fmt.Sprintf("%d/%p/%s", b.Op, b.X, y)
	}
	f := x.Parent()
	m := sameBinOpCache[f]
	if m == nil {
		m = map[string]*ssa.BinOp{}
		for _, b := range f.Blocks {
			for _, ins := range b.Instrs {
				if bo, ok := ins.(*ssa.BinOp); ok && isSignedInt(bo.Type()) {
					switch bo.Op {
					case token.REM, token.QUO, token.MUL, token.AND, token.SHL, token.SHR:
						if _, has := m[key(bo)]; !has {
							m[key(bo)] = bo
						}
					}
				}
			}
		}
		sameBinOpCache[f] = m
	}
	return m[key(x)]
}
