package main

import (
	"golang.org/x/tools/go/ssa"
	"path/filepath"
)

// fixGraph builds (and caches) the module call graph of the library plus one fixture package.
var fixGraphs = map[string]*MCG{}

func (c *Ctx) fixGraph(key string) (*MCG, PkgSet) {
	scope := PkgSet{}
	for p := range c.Lib {
		scope[p] = true
	}
	fs := c.W.FixSet(key)
	for p := range fs {
		scope[p] = true
	}
	if g, ok := fixGraphs[key]; ok {
		return g, fs
	}
	g := BuildMCG(c.W, scope)
	fixGraphs[key] = g
	return g, fs
}

func fixFuncs(c *Ctx, g *MCG, fs PkgSet) []*ssa.Function {
	var out []*ssa.Function
	for _, f := range g.Funcs {
		if fs[fnPkg(f)] && f.Synthetic == "" && len(f.Blocks) > 0 {
			out = append(out, f)
		}
	}
	sortFns(out)
	return out
}

func init() {
	nf := func(c *Ctx, r *Result, key string) {
		g, fs := c.fixGraph(key)
		runNF(c, g, r, "NF", fixFuncs(c, g, fs), nil)
	}
	registerFixture(fixtureCheck{Group: "nf", Pkg: "nf/bad", Run: nf, Want: []string{"nf/bad.Count:Len#1", "nf/bad.helper:Len#1"}})
	registerFixture(fixtureCheck{Group: "nf", Pkg: "nf/good", Run: nf})

	seq := func(c *Ctx, r *Result, key string) {
		g, fs := c.fixGraph(key)
		var roots []*ssa.Function
		if f := c.W.FixSSA[key].Func("Eval"); f != nil {
			roots = append(roots, f)
		}
		runSEQ(c, g, r, "SEQ", c.W.FixSSA[key], fs, roots)
	}
	registerFixture(fixtureCheck{Group: "seq", Pkg: "seq/bad", Run: seq, Want: []string{"seq/bad.nest:seq-append#1", "eval:unwraps", "seq/bad.keep:store#1", "seq/bad.Eval:return"}})
	registerFixture(fixtureCheck{Group: "seq", Pkg: "seq/good", Run: seq})

	fin := func(c *Ctx, r *Result, key string) {
		g, fs := c.fixGraph(key)
		e := newFIN(c, g)
		only := map[string]bool{}
		for _, f := range fixFuncs(c, g, fs) {
			only[shortFn(f)] = true
		}
		runFINBoxed(c, e, r, "FIN", only)
		runFINBoxing(c, e, r, "FIN", fixFuncs(c, g, fs))
	}
	registerFixture(fixtureCheck{Group: "fin", Pkg: "fin/bad", Run: fin, Want: []string{"fin/bad.Sum:return#1", "fin/bad.HalfChecked:return#2", "fin/bad.Ratio:return#1", "fin/bad.box:box-float#1"}})
	registerFixture(fixtureCheck{Group: "fin", Pkg: "fin/good", Run: fin})

	guard := func(c *Ctx, r *Result, key string) {
		g, fs := c.fixGraph(key)
		runGUARD(c, r, "GUARD", fixFuncs(c, g, fs), nil)
	}
	registerFixture(fixtureCheck{Group: "guard", Pkg: "guard/bad", Run: guard, Want: []string{"guard/bad.Mod:intdiv#1", "guard/bad.Pad:repeat#1", "guard/bad.Base:radix#1", "guard/bad.Narrow:radix#1"}})
	registerFixture(fixtureCheck{Group: "guard", Pkg: "guard/good", Run: guard})

	hash := func(c *Ctx, r *Result, key string) {
		g, fs := c.fixGraph(key)
		runHASH(c, r, "HASH", fixFuncs(c, g, fs), nil)
	}
	registerFixture(fixtureCheck{Group: "hash", Pkg: "hash/bad", Run: hash, Want: []string{"hash/bad.Distinct:ifacekey#1", "hash/bad.Distinct:ifacekey#3"}})
	registerFixture(fixtureCheck{Group: "hash", Pkg: "hash/good", Run: hash})

	srt := func(c *Ctx, r *Result, key string) {
		g, fs := c.fixGraph(key)
		var roots []*ssa.Function
		for _, f := range fixFuncs(c, g, fs) {
			if f.Parent() == nil {
				roots = append(roots, f)
			}
		}
		runSORT(c, g, r, "SORT", g.Reach(roots...), fs, 0)
	}
	registerFixture(fixtureCheck{Group: "sort", Pkg: "sort/bad", Run: srt, Want: []string{"sort/bad.Unstable:sortcall#1", "sort/bad.NonStrict:sortcall#1:comparator", "sort/bad.Negated:sortcall#1:comparator", "sort/bad.InPlace:sortcall#1:fresh"}})
	registerFixture(fixtureCheck{Group: "sort", Pkg: "sort/good", Run: srt})

	tab := func(c *Ctx, r *Result, key string) {
		runEnumSwitches(c, r, "TAB", []string{key}, nil)
	}
	registerFixture(fixtureCheck{Group: "tab", Pkg: "tab/bad", Run: tab, Want: []string{"Apply:switch(Op)#1", "Op.String:switch(Op)#1"}})
	registerFixture(fixtureCheck{Group: "tab", Pkg: "tab/good", Run: tab})
}

func init() {
	loop := func(c *Ctx, r *Result, key string) {
		g, fs := c.fixGraph(key)
		runLOOP(c, r, "LOOP", fixFuncs(c, g, fs), nil)
	}
	registerFixture(fixtureCheck{Group: "loop", Pkg: "loop/bad", Run: loop, Want: []string{"loop/bad.Scale:", "loop/bad.Skip:", "loop/bad.Wander:"}})
	registerFixture(fixtureCheck{Group: "loop", Pkg: "loop/good", Run: loop})
}

func init() {
	w := func(c *Ctx, r *Result, key string) {
		g, _ := c.fixGraph(key)
		root := c.W.Fn(key + ".(*Expr).Eval")
		if root == nil {
			r.LoseAnchor("fixture %s has no (*Expr).Eval", key)
			return
		}
		runW(c, g, r, "W", &wRootCfg{Name: "fixture root", Roots: []*ssa.Function{root}, LocalTypes: false,
			RootParam: func(f *ssa.Function, i int) (wmask, bool) { return wNonFresh, true }})
	}
	registerFixture(fixtureCheck{Group: "w", Pkg: "w/bad", Run: w, Want: []string{"w/bad.eval:store#", "w/bad.eval:mapupdate#1", "w/bad.eval:mapupdate#2", "w/bad.helper:store#1", "w/bad.Node).label:store#1"}})
	registerFixture(fixtureCheck{Group: "w", Pkg: "w/good", Run: w})

	lock := func(c *Ctx, r *Result, key string) {
		g, fs := c.fixGraph(key)
		runLOCKIn(c, r, "LOCK", g, fs, nil, true)
	}
	bnd := func(c *Ctx, r *Result, key string) {
		g, fs := c.fixGraph(key)
		dir := filepath.Join(c.VerifDir, "checker")
		res, err := bceResiduals(dir, dir, c.W.Arch, []string{"./fixtures/" + key})
		if err != nil {
			r.LoseAnchor("BND fixture: %v", err)
			return
		}
		runBND(c, r, "BND", fixFuncs(c, g, fs), nil, res)
	}
	registerFixture(fixtureCheck{Group: "bnd", Pkg: "bnd/bad", Run: bnd, Want: []string{"bnd/bad.Digits:", "bnd/bad.From:", "bnd/bad.At:", "bnd/bad.Chain:"}})
	registerFixture(fixtureCheck{Group: "bnd", Pkg: "bnd/good", Run: bnd})
	ta := func(c *Ctx, r *Result, key string) {
		g, fs := c.fixGraph(key)
		runTA(c, r, "TA", fixFuncs(c, g, fs), nil)
	}
	registerFixture(fixtureCheck{Group: "ta", Pkg: "ta/bad", Run: ta, Want: []string{"ta/bad.Unchecked:*bad.T#1", "ta/bad.WrongVar:*bad.T#1", "ta/bad.OtherValue:*bad.T#1"}})
	registerFixture(fixtureCheck{Group: "ta", Pkg: "ta/good", Run: ta})
	ro := func(c *Ctx, r *Result, key string) {
		g, fs := c.fixGraph(key)
		runRO(c, r, "RO", fixFuncs(c, g, fs), nil)
		runNILTYPE(c, r, "NILTYPE", fixFuncs(c, g, fs), nil)
	}
	registerFixture(fixtureCheck{Group: "ro", Pkg: "ro/bad", Run: ro, Want: []string{"ro/bad.Walk:Field#1", "ro/bad.Get:FieldByName#1", "ro/bad.Kind:TypeOf#1"}})
	registerFixture(fixtureCheck{Group: "ro", Pkg: "ro/good", Run: ro})
	shape := func(c *Ctx, r *Result, key string) {
		g, fs := c.fixGraph(key)
		runSEPLEN(c, r, "SEPLEN", fixFuncs(c, g, fs))
		runMAPEQ(c, r, "MAPEQ", fixFuncs(c, g, fs))
		runNUMKINDS(c, r, "NUMKINDS", fixFuncs(c, g, fs))
		runPERITEM(c, r, "PERITEM", fixFuncs(c, g, fs))
		runDEDUP(c, r, "DEDUP", fixFuncs(c, g, fs))
		runERRDROP(c, r, "ERRDROP", fixFuncs(c, g, fs))
		runERRIS(c, r, "ERRIS", fixFuncs(c, g, fs))
		runHALFADD(c, r, "HALFADD", fixFuncs(c, g, fs))
		for _, f := range fixFuncs(c, g, fs) {
			if f.Name() == "Render" {
				runARGUSE(c, r, "ARGUSE", f)
			}
		}
	}
	registerFixture(fixtureCheck{Group: "shape", Pkg: "shape/bad", Run: shape, Want: []string{"shape/bad.Join:separator-by-length#1", "shape/bad.JoinConcat:separator-by-length#1", "shape/bad.SameMap:map-equality#1:size", "shape/bad.SameMapLen:map-equality#1:presence", "shape/bad.AsFloat:int,float64", "shape/bad.Terms:term.desc#1", "shape/bad.Render:param#2", "shape/bad.Uniq:test-and-set#1", "shape/bad.TidyAll:loop-error#1", "shape/bad.Swallow:Is#1", "shape/bad.Nearest:Ceil-half#1", "shape/bad.Nearest:Floor-half#2"}})
	registerFixture(fixtureCheck{Group: "shape", Pkg: "shape/good", Run: shape})
	kind := func(c *Ctx, r *Result, key string) {
		g, fs := c.fixGraph(key)
		runKINDIn(c, g, r, "KIND", fixFuncs(c, g, fs), nil)
	}
	registerFixture(fixtureCheck{Group: "kind", Pkg: "kind/bad", Run: kind, Want: []string{"kind/bad.Count:Len#1", "kind/bad.Num:Float#1", "kind/bad.Get:Interface#1", "kind/bad.keys:MapKeys#1", "kind/bad.Wrap:Set.arg#1", "kind/bad.Wrap:Append.arg#1"}})
	registerFixture(fixtureCheck{Group: "kind", Pkg: "kind/good", Run: kind})
	registerFixture(fixtureCheck{Group: "lock", Pkg: "lock/bad", Run: lock, Want: []string{"lock/bad.Register:registry-access#1", "lock/bad.Compile:registry-noescape#1", "lock/bad.Leak:mu-exit", "lock/bad.Put:table-access#1"}})
	registerFixture(fixtureCheck{Group: "lock", Pkg: "lock/good", Run: lock})
}
