package main

import (
	"fmt"
	"go/constant"
	"go/token"
	"go/types"
	"sort"
	"strings"

	"golang.org/x/tools/go/ssa"
)

// ---------------------------------------------------------------------------------------
// GROUP — one member per distinct key, no silent overwrite (C14).
//
// In groupItemsByKey every store into the key map must be preceded, on its path, by a comma-ok
// lookup of the same key in the same map, and lie either on the "absent" edge of that lookup or
// on the "present" edge after a test that the entry found belongs to the same key/value pair.
// The key must be a string by construction (a StringNode's Value, or the ok result of
// jtypes.AsString). Otherwise two pairs producing one key would overwrite each other instead of
// raising the duplicate-key error, or a non-string key would be accepted.

func runGROUP(c *Ctx, r *Result, rule string) int {
	f := c.W.Fn("jsonata.groupItemsByKey")
	if f == nil {
		r.LoseAnchor("GROUP: jsonata.groupItemsByKey not found")
		return 0
	}
	n := 0
	ord := 0
	// the stores into the key map: in the function itself and in the helpers of the package it
	// hands the map to (recognised by the map's type, the type of the function's result)
	var mapT types.Type
	if f.Signature.Results().Len() > 0 {
		if _, isMap := f.Signature.Results().At(0).Type().Underlying().(*types.Map); isMap {
			mapT = f.Signature.Results().At(0).Type()
		}
	}
	var stores []*ssa.MapUpdate
	for _, g := range withCallees(c, []*ssa.Function{f}, 2) {
		if g != f && mapT == nil {
			continue
		}
		for _, ins := range instrsIn(g) {
			if mu, ok := ins.(*ssa.MapUpdate); ok && (g == f || types.Identical(mu.Map.Type(), mapT)) {
				stores = append(stores, mu)
			}
		}
	}
	top := f
	for _, mu := range stores {
		f := mu.Parent()
		_ = top
		ord++
		n++
		o := Obligation{Rule: rule, Key: fmt.Sprintf("groupItemsByKey:store#%d", ord), Fn: shortFn(f), Pos: c.W.Pos(mu.Pos()), Nontrivial: true}
		bad := ""
		// the key is a string by construction
		switch k := mu.Key.(type) {
		case *ssa.UnOp:
			if !fieldLoadOf(k, nil, "Value") {
				bad = "the key is not the Value of a string literal node nor the result of jtypes.AsString"
			}
		case *ssa.Extract:
			call, isCall := k.Tuple.(*ssa.Call)
			if isCall && k.Index == 0 && call.Call.StaticCallee() != nil && call.Call.StaticCallee().Pkg == f.Pkg && stringKeyHelper(call.Call.StaticCallee(), 0) {
				// a helper of the package that returns (key, error): every return without an error
				// hands back a string by construction, and the caller uses the key only after
				// the error has been tested
				var errv ssa.Value
				for _, rf := range *call.Referrers() {
					if e, isEx := rf.(*ssa.Extract); isEx && isErrorType(e.Type()) {
						errv = e
					}
				}
				if errv == nil || !domGuard(mu.Block(), func(cond ssa.Value) (int, bool) { return nilEdge(cond, errv, true) }) {
					bad = "the key comes from " + shortFn(call.Call.StaticCallee()) + " and is used without testing the error returned with it"
				}
			} else if !isCall || call.Call.StaticCallee() == nil || shortFn(call.Call.StaticCallee()) != "jtypes.AsString" || k.Index != 0 {
				bad = "the key is not the result of jtypes.AsString"
			} else {
				var okv ssa.Value
				for _, rf := range *call.Referrers() {
					if e, isEx := rf.(*ssa.Extract); isEx && e.Index == 1 {
						okv = e
					}
				}
				if okv == nil || !domGuard(mu.Block(), func(cond ssa.Value) (int, bool) { return boolEdge(cond, okv, true) }) {
					bad = "the key is used without testing the ok result of jtypes.AsString (a non-string key must be an error)"
				}
			}
		default:
			bad = "the key is not a string by construction"
		}
		// a comma-ok lookup of the same key dominates the store
		if bad == "" {
			var look *ssa.Lookup
			for _, b := range f.Blocks {
				if b != mu.Block() && !b.Dominates(mu.Block()) {
					continue
				}
				for _, i2 := range b.Instrs {
					if i2 == ssa.Instruction(mu) {
						break
					}
					if lk, isLk := i2.(*ssa.Lookup); isLk && lk.CommaOk && lk.X == mu.Map && sameKeyValue(c, lk.Index, mu.Key) {
						look = lk
					}
				}
			}
			if look == nil {
				bad = "no comma-ok lookup of the same key in the same map precedes the store: an existing member would be overwritten silently"
			} else {
				var okv, val ssa.Value
				for _, rf := range *look.Referrers() {
					if e, isEx := rf.(*ssa.Extract); isEx {
						if e.Index == 1 {
							okv = e
						} else {
							val = e
						}
					}
				}
				absent := okv != nil && domGuard(mu.Block(), func(cond ssa.Value) (int, bool) { return boolEdge(cond, okv, false) })
				present := okv != nil && domGuard(mu.Block(), func(cond ssa.Value) (int, bool) { return boolEdge(cond, okv, true) })
				switch {
				case absent:
				case present:
					// the entry found must be shown to belong to the same pair
					samePair := domGuard(mu.Block(), func(cond ssa.Value) (int, bool) {
						bo, isBo := cond.(*ssa.BinOp)
						if !isBo || (bo.Op != token.NEQ && bo.Op != token.EQL) {
							return 0, false
						}
						if !(pairFieldOf(bo.X, val) || pairFieldOf(bo.Y, val)) {
							return 0, false
						}
						if bo.Op == token.NEQ {
							return 1, true
						}
						return 0, true
					})
					if !samePair {
						bad = "the member exists already and the store is not preceded by a test that it came from the same key/value pair: a duplicate key from another pair would be merged instead of reported"
					}
				default:
					bad = "the store is on neither edge of the lookup's ok test"
				}
			}
		}
		if bad == "" {
			o.Verdict, o.Reason = Discharged, "string key by construction; the store follows a comma-ok lookup of the same key, on its absent edge or after the same-pair test"
		} else {
			o.Verdict, o.Reason = Finding, bad
		}
		r.Add(o)
	}
	return n
}

// pairFieldOf: v is the field `pair` of the looked-up entry (through its spill).
func pairFieldOf(v ssa.Value, entry ssa.Value) bool {
	if entry == nil {
		return false
	}
	switch x := v.(type) {
	case *ssa.Field:
		return x.X == entry && isIntType(x.Type())
	case *ssa.UnOp:
		fa, ok := x.X.(*ssa.FieldAddr)
		// the integer member of the entry (which pair produced the key); the other one is the item list
		if !ok || !isIntType(x.Type()) {
			return false
		}
		if al, ok := fa.X.(*ssa.Alloc); ok {
			for _, rf := range *al.Referrers() {
				if st, ok := rf.(*ssa.Store); ok && st.Addr == ssa.Value(al) && st.Val == entry {
					return true
				}
			}
		}
	}
	return false
}

// ---------------------------------------------------------------------------------------
// KEYS — the match object written by the regex machinery and the one read back by the string
// functions have the same member names (C17).

func stringConstsIn(f *ssa.Function, pick func(ins ssa.Instruction) ssa.Value) []string {
	set := map[string]bool{}
	for _, ins := range instrsIn(f) {
		if v := pick(ins); v != nil {
			if k, ok := v.(*ssa.Const); ok && k.Value != nil && k.Value.Kind() == constant.String {
				set[constant.StringVal(k.Value)] = true
			}
		}
	}
	var out []string
	for s := range set {
		out = append(out, s)
	}
	sort.Strings(out)
	return out
}

func runKEYS(c *Ctx, r *Result, rule string) int {
	w := c.W.Fn("jsonata.(*matchCallable).Call")
	rd := c.W.Fn("jlib.callMatchFunc")
	if w == nil || rd == nil {
		r.LoseAnchor("KEYS: (*matchCallable).Call or jlib.callMatchFunc not found")
		return 0
	}
	written := stringConstsIn(w, func(ins ssa.Instruction) ssa.Value {
		if mu, ok := ins.(*ssa.MapUpdate); ok {
			return mu.Key
		}
		return nil
	})
	// the member names read: the constant keys of MapIndex calls in callMatchFunc and in the helpers
	// of the package it calls; a helper that takes the name as a parameter reads the names its
	// callers pass
	readSet := map[string]bool{}
	rdFns := withCallees(c, []*ssa.Function{rd}, 1)
	for _, g := range rdFns {
		for _, ins := range instrsIn(g) {
			call, ok := ins.(*ssa.Call)
			if !ok || staticName(call) != "reflect.Value.MapIndex" {
				continue
			}
			vo, ok := call.Call.Args[1].(*ssa.Call)
			if !ok || staticName(vo) != "reflect.ValueOf" {
				continue
			}
			mi, ok := vo.Call.Args[0].(*ssa.MakeInterface)
			if !ok {
				continue
			}
			switch x := mi.X.(type) {
			case *ssa.Const:
				if x.Value != nil && x.Value.Kind() == constant.String {
					readSet[constant.StringVal(x.Value)] = true
				}
			case *ssa.Parameter:
				idx := -1
				for i, p := range g.Params {
					if p == x {
						idx = i
					}
				}
				for _, h := range rdFns {
					for _, ci := range callsIn(h) {
						if ci.Common().StaticCallee() == g && idx >= 0 && idx < len(ci.Common().Args) {
							if k, isK := ci.Common().Args[idx].(*ssa.Const); isK && k.Value != nil && k.Value.Kind() == constant.String {
								readSet[constant.StringVal(k.Value)] = true
							}
						}
					}
				}
			}
		}
	}
	var read []string
	for s := range readSet {
		read = append(read, s)
	}
	sort.Strings(read)
	o := Obligation{Rule: rule, Key: "match-object:member-names", Fn: shortFn(rd), Pos: c.W.Pos(rd.Pos()), Nontrivial: true}
	if len(written) >= 3 && strings.Join(written, ",") == strings.Join(read, ",") {
		o.Verdict, o.Reason = Discharged, "the match object built by (*matchCallable).Call and the members callMatchFunc reads are the same set: "+strings.Join(written, ", ")
	} else {
		o.Verdict, o.Reason = Finding, "the match object is written with members ["+strings.Join(written, ", ")+"] but read with ["+strings.Join(read, ", ")+"]"
	}
	r.Add(o)
	n := 1
	// all matches, not a bounded number, are asked of the regexp engine
	fm := c.W.Fn("jsonata.(*regexCallable).findMatches")
	if fm == nil {
		r.LoseAnchor("KEYS: (*regexCallable).findMatches not found")
		return n
	}
	o2 := Obligation{Rule: rule, Key: "findMatches:all-submatch-indexes", Fn: shortFn(fm), Pos: c.W.Pos(fm.Pos()), Nontrivial: true}
	found := ""
	for _, ins := range instrsIn(fm) {
		call, ok := ins.(*ssa.Call)
		if !ok || call.Call.StaticCallee() == nil || calleePkgPath(call.Call.StaticCallee()) != "regexp" {
			continue
		}
		name := call.Call.StaticCallee().Name()
		if name == "FindAllStringSubmatchIndex" {
			if k, isK := intConstOf(call.Call.Args[len(call.Call.Args)-1]); isK && k < 0 {
				found = "ok"
			} else {
				found = "FindAllStringSubmatchIndex is given a match limit: not all matches are found"
			}
		} else if found == "" {
			found = "the regexp method used is " + name + ", which does not report all leftmost non-overlapping matches with their group offsets"
		}
	}
	n++
	if found == "ok" {
		o2.Verdict, o2.Reason = Discharged, "findMatches asks the engine for all matches with group offsets: FindAllStringSubmatchIndex(s, -1)"
	} else {
		if found == "" {
			found = "no regexp call found"
		}
		o2.Verdict, o2.Reason = Finding, found
	}
	r.Add(o2)
	// one source of matches: the string functions obtain matches only through the match
	// function they are given; no function of jlib applies a regexp method to a pattern that is
	// not one of the package's own fixed patterns
	n++
	o4 := Obligation{Rule: rule, Key: "jlib:no-direct-regexp-on-user-patterns", Fn: "jlib", Pos: c.W.Pos(rd.Pos()), Nontrivial: true}
	direct := ""
	calls := 0
	for _, f := range c.G.Funcs {
		if f.Pkg == nil || f.Pkg.Pkg.Name() != "jlib" {
			continue
		}
		for _, ins := range instrsIn(f) {
			call, ok := ins.(*ssa.Call)
			if !ok {
				continue
			}
			callee := call.Call.StaticCallee()
			if callee == nil || calleePkgPath(callee) != "regexp" || callee.Signature.Recv() == nil {
				continue
			}
			calls++
			recv := call.Call.Args[0]
			fixed := false
			if u, ok := recv.(*ssa.UnOp); ok && u.Op == token.MUL {
				if _, isGlobal := u.X.(*ssa.Global); isGlobal {
					fixed = true
				}
			}
			if !fixed {
				direct = shortFn(f) + " calls regexp." + callee.Name() + " on a pattern that is not a package-level constant (" + c.W.Pos(call.Pos()) + ")"
			}
		}
	}
	if direct == "" {
		o4.Verdict, o4.Reason = Discharged, fmt.Sprintf("the %d regexp method calls in jlib are all on the package's own fixed patterns; user patterns are matched only by (*regexCallable).findMatches, so $match, $contains, $split and $replace see one and the same match list", calls)
	} else {
		o4.Verdict, o4.Reason = Finding, direct+": the string functions would no longer agree with $match on what the matches are"
	}
	r.Add(o4)
	// the literal is compiled as written: regexp.Compile(token text), error tested
	pr := c.W.Fn("jparse.parseRegex")
	if pr == nil {
		r.LoseAnchor("KEYS: jparse.parseRegex not found")
		return n
	}
	n++
	o3 := Obligation{Rule: rule, Key: "parseRegex:compile-token-text", Fn: shortFn(pr), Pos: c.W.Pos(pr.Pos()), Nontrivial: true}
	bad := "no store of a compiled regexp into a RegexNode"
	for _, ins := range instrsIn(pr) {
		st, ok := ins.(*ssa.Store)
		if !ok {
			continue
		}
		fa, ok := st.Addr.(*ssa.FieldAddr)
		if !ok || namedElem(fa.X.Type()) != "RegexNode" || fieldName(fa.X.Type(), fa.Field) != "Value" {
			continue
		}
		ex, ok := st.Val.(*ssa.Extract)
		if !ok || ex.Index != 0 {
			bad = "RegexNode.Value is not the result of regexp.Compile"
			continue
		}
		call, ok := ex.Tuple.(*ssa.Call)
		if !ok || staticName(call) != "regexp.Compile" {
			bad = "RegexNode.Value is not the result of regexp.Compile"
			continue
		}
		if len(pr.Params) < 2 || !fieldLoadOf(call.Call.Args[0], pr.Params[1], "Value") {
			bad = "regexp.Compile is not applied to the text of the token"
			continue
		}
		if !errNilDominates(call, st.Block()) {
			bad = "the node is built without testing regexp.Compile's error (an invalid pattern must be a compile error)"
			continue
		}
		bad = ""
	}
	if bad == "" {
		o3.Verdict, o3.Reason = Discharged, "RegexNode.Value is regexp.Compile(token text), stored only after the error was tested nil"
	} else {
		o3.Verdict, o3.Reason = Finding, bad
	}
	r.Add(o3)
	return n
}

// ---------------------------------------------------------------------------------------
// LISTFLOW — successive predicates apply to the survivors of the previous one (C02).
//
// In evalPredicate the list a filter is applied to, and the value that is finally normalised
// and returned, must be the step's own value or the survivor list returned by the previous
// applyFilter — possibly through arrayify — and nothing else. In particular not an element
// picked out of such a list: arrayify would treat an array-valued element as the list itself
// (the literal-index fast path two independent authors wrote).

func runLISTFLOW(c *Ctx, r *Result, rule string) int {
	f := c.W.Fn("jsonata.evalPredicate")
	af := c.W.Fn("jsonata.applyFilter")
	if f == nil || af == nil {
		r.LoseAnchor("LISTFLOW: jsonata.evalPredicate or jsonata.applyFilter not found")
		return 0
	}
	node := f.Params[0]
	var listOrigin func(v ssa.Value, seen map[ssa.Value]bool, allowUndef bool) string
	listOrigin = func(v ssa.Value, seen map[ssa.Value]bool, allowUndef bool) string {
		if seen[v] {
			return ""
		}
		seen[v] = true
		switch x := v.(type) {
		case *ssa.Phi:
			for _, ed := range x.Edges {
				if why := listOrigin(ed, seen, allowUndef); why != "" {
					return why
				}
			}
			return ""
		case *ssa.Extract:
			if call, ok := x.Tuple.(*ssa.Call); ok && x.Index == 0 {
				callee := call.Call.StaticCallee()
				if callee == af {
					return ""
				}
				if callee != nil && shortFn(callee) == "jsonata.eval" && len(call.Call.Args) > 0 && fieldLoadOf(call.Call.Args[0], node, "Expr") {
					return ""
				}
			}
		case *ssa.Call:
			if callee := x.Call.StaticCallee(); callee != nil && (shortFn(callee) == "jsonata.arrayify") && len(x.Call.Args) == 1 {
				return listOrigin(x.Call.Args[0], seen, allowUndef)
			}
		case *ssa.UnOp:
			if allowUndef && isUndefinedLoad(x) {
				return ""
			}
		}
		return "it may be " + v.String() + ", which is neither the step's value nor the survivor list of the previous filter"
	}
	n := 0
	ord := 0
	for _, ins := range instrsIn(f) {
		call, ok := ins.(*ssa.Call)
		if !ok || call.Call.StaticCallee() != af {
			continue
		}
		ord++
		n++
		o := Obligation{Rule: rule, Key: fmt.Sprintf("evalPredicate:applyFilter-items#%d", ord), Fn: shortFn(f), Pos: c.W.Pos(call.Pos()), Nontrivial: true}
		if len(call.Call.Args) < 2 {
			o.Verdict, o.Reason = Finding, "unexpected applyFilter signature"
		} else if why := listOrigin(call.Call.Args[1], map[ssa.Value]bool{}, false); why != "" {
			o.Verdict, o.Reason = Finding, "the list handed to applyFilter is not the survivor list: "+why
		} else {
			o.Verdict, o.Reason = Discharged, "the filter is applied to arrayify of the step's value or of the previous filter's survivors"
		}
		r.Add(o)
	}
	rets := 0
	for _, b := range f.Blocks {
		ret, ok := b.Instrs[len(b.Instrs)-1].(*ssa.Return)
		if !ok || len(ret.Results) != 2 || !isSuccessReturn(ret) {
			continue
		}
		rets++
		n++
		o := Obligation{Rule: rule, Key: fmt.Sprintf("evalPredicate:result#%d", rets), Fn: shortFn(f), Pos: c.W.Pos(ret.Pos()), Nontrivial: true}
		v := ret.Results[0]
		if call, ok := v.(*ssa.Call); ok {
			if callee := call.Call.StaticCallee(); callee != nil && shortFn(callee) == "jsonata.normalizeArray" && len(call.Call.Args) == 1 {
				v = call.Call.Args[0]
			}
		}
		if why := listOrigin(v, map[ssa.Value]bool{}, true); why != "" {
			o.Verdict, o.Reason = Finding, "the value returned is not the (normalised) survivor list: "+why
		} else {
			o.Verdict, o.Reason = Discharged, "returns no value, or normalizeArray of the survivors"
		}
		r.Add(o)
	}
	return n
}

// boolEdge: the successor of `if cond` on which boolean v has the wanted truth value, when cond
// is v or !v.
func boolEdge(cond, v ssa.Value, want bool) (int, bool) {
	neg := false
	for depth := 0; depth < 3; depth++ {
		if cond == v {
			if want != neg {
				return 0, true
			}
			return 1, true
		}
		u, ok := cond.(*ssa.UnOp)
		if !ok || u.Op != token.NOT {
			return 0, false
		}
		cond, neg = u.X, !neg
	}
	return 0, false
}

// sameKeyValue: the two key expressions denote the same string: one SSA value, or two loads of
// the same field of the same object (s.Value read twice).
func sameKeyValue(c *Ctx, a, b ssa.Value) bool {
	if a == b {
		return true
	}
	if c != nil && c.canon(a) == c.canon(b) {
		return true
	}
	la, ok1 := a.(*ssa.UnOp)
	lb, ok2 := b.(*ssa.UnOp)
	if !ok1 || !ok2 || la.Op != token.MUL || lb.Op != token.MUL {
		return false
	}
	fa, ok1 := la.X.(*ssa.FieldAddr)
	fb, ok2 := lb.X.(*ssa.FieldAddr)
	return ok1 && ok2 && fa.X == fb.X && fa.Field == fb.Field
}

// nilEdge: cond is v == nil (want: the edge on which v is nil) or v != nil.
func nilEdge(cond, v ssa.Value, wantNil bool) (int, bool) {
	bo, ok := cond.(*ssa.BinOp)
	if !ok || (bo.Op != token.EQL && bo.Op != token.NEQ) {
		return 0, false
	}
	if !((bo.X == v && isNilConst(bo.Y)) || (bo.Y == v && isNilConst(bo.X))) {
		return 0, false
	}
	if (bo.Op == token.EQL) == wantNil {
		return 0, true
	}
	return 1, true
}

// stringKeyHelper: g returns (string, error); on every return that is not provably an error the
// string is a string by construction: the Value of a string literal node, the first result of
// jtypes.AsString behind its ok test, or the result of another such helper behind its error test.
func stringKeyHelper(g *ssa.Function, depth int) bool {
	if depth > 2 || len(g.Blocks) == 0 {
		return false
	}
	res := g.Signature.Results()
	if res.Len() != 2 || !isErrorType(res.At(1).Type()) {
		return false
	}
	if b, ok := res.At(0).Type().Underlying().(*types.Basic); !ok || b.Kind() != types.String {
		return false
	}
	n := 0
	for _, b := range g.Blocks {
		ret, ok := b.Instrs[len(b.Instrs)-1].(*ssa.Return)
		if !ok || !isSuccessReturn(ret) {
			continue
		}
		n++
		if !stringByConstruction(ret.Results[0], b, depth) {
			return false
		}
	}
	return n > 0
}

func stringByConstruction(v ssa.Value, at *ssa.BasicBlock, depth int) bool {
	switch k := v.(type) {
	case *ssa.UnOp:
		return fieldLoadOf(k, nil, "Value")
	case *ssa.Phi:
		for _, e := range k.Edges {
			if !stringByConstruction(e, at, depth+1) {
				return false
			}
		}
		return depth < 4 && len(k.Edges) > 0
	case *ssa.Extract:
		call, ok := k.Tuple.(*ssa.Call)
		if !ok || k.Index != 0 || call.Call.StaticCallee() == nil {
			return false
		}
		callee := call.Call.StaticCallee()
		var second ssa.Value
		for _, rf := range *call.Referrers() {
			if e, isEx := rf.(*ssa.Extract); isEx && e.Index == 1 {
				second = e
			}
		}
		if second == nil {
			return false
		}
		if shortFn(callee) == "jtypes.AsString" {
			return domGuard(at, func(cond ssa.Value) (int, bool) { return boolEdge(cond, second, true) })
		}
		if callee.Pkg == at.Parent().Pkg && stringKeyHelper(callee, depth+1) {
			return domGuard(at, func(cond ssa.Value) (int, bool) { return nilEdge(cond, second, true) })
		}
	}
	return false
}
