package main

import (
	"fmt"
	"go/ast"
	"go/constant"
	"go/token"
	"go/types"
	"sort"
	"strings"

	"golang.org/x/tools/go/packages"
	"golang.org/x/tools/go/ssa"
)

// PRATT — parser parameter extraction (DESIGN.md §3 PRATT).
//
// A Pratt parser's output is a function of: the lexeme->token map, the token->binding-power
// map, the loop test, each led's recursive right-binding power, and the nud/led tables. All
// of them are literals or three-line patterns in jparse; they are extracted from the current
// source and compared with the precedence relation stated in property C04.

// prattSpec: rows from tightest to loosest, by lexeme, transcribed from the property text.
var prattSpec = [][]string{
	{"(", "["},
	{"."},
	{"{"},
	{"*", "/", "%"},
	{"+", "-", "&"},
	{"=", "!=", "<", "<=", ">", ">=", "in", "^", "~>"},
	{"and"},
	{"or"},
	{"?"},
	{":="},
}

// associativity / operand form per infix lexeme: "left" (bp), "right" (bp-1), "delim" (0 inside a
// delimiter pair the led consumes itself), "cond" (then and else both parsed at 0: else greedy).
var prattAssoc = map[string]string{
	"(": "delim", "[": "delim", "{": "delim", "^": "delim",
	".": "left", "*": "left", "/": "left", "%": "left", "+": "left", "-": "left", "&": "left",
	"=": "left", "!=": "left", "<": "left", "<=": "left", ">": "left", ">=": "left", "in": "left", "~>": "left",
	"and": "left", "or": "left",
	"?":  "cond",
	":=": "right",
}

type prattTables struct {
	pkg      *packages.Package
	tokName  map[string]string // token const value -> name
	lexTok   map[string]string // lexeme -> token const value
	tokLex   map[string]string
	rowOf    map[string]int // token value -> row index (0 = tightest)
	nRows    int
	leds     map[string][]types.Object
	nuds     map[string][]types.Object
	funcDecl map[types.Object]*ast.FuncDecl
	bpNames  map[string]bool // parser fields/methods that yield the binding power of a token type
	ssaProg  *ssa.Program
}

func runPRATT(c *Ctx, r *Result, rule string) {
	pkg := c.W.Lib["jparse"]
	pt := &prattTables{pkg: pkg, tokName: map[string]string{}, lexTok: map[string]string{}, tokLex: map[string]string{}, rowOf: map[string]int{}, funcDecl: map[types.Object]*ast.FuncDecl{}, bpNames: map[string]bool{}, ssaProg: c.W.Prog}
	for nt, e := range enumTypes(pkg) {
		if nt.Obj().Name() == "tokenType" {
			for _, k := range e.Consts {
				if _, dup := pt.tokName[k.Val().ExactString()]; !dup || !strings.HasPrefix(k.Name(), "typeSig") && k.Name() != "typePlaceholder" {
					pt.tokName[k.Val().ExactString()] = k.Name()
				}
			}
		}
	}
	if len(pt.tokName) < 30 {
		r.LoseAnchor("PRATT: tokenType constants not found")
		return
	}
	for _, file := range pkg.Syntax {
		for _, d := range file.Decls {
			if fd, ok := d.(*ast.FuncDecl); ok {
				if o := pkg.TypesInfo.Defs[fd.Name]; o != nil {
					pt.funcDecl[o] = fd
				}
			}
		}
	}
	// --- 1. lexeme -> token ---------------------------------------------------------------
	if !pt.extractSymbols(c, r) {
		return
	}
	// --- 2. binding power rows --------------------------------------------------------------
	if !pt.extractRows(c, r) {
		return
	}
	pt.checkInitBindingPowers(c, r, rule)
	// --- 5. tables ---------------------------------------------------------------------------
	var ok1, ok2 bool
	pt.leds, ok1 = indexedFuncTable(pkg, "leds")
	pt.nuds, ok2 = indexedFuncTable(pkg, "nuds")
	if !ok1 || !ok2 {
		r.LoseAnchor("PRATT: leds/nuds are not indexed array literals of functions")
		return
	}

	// precedence class of every infix lexeme
	specRow := map[string]int{}
	for i, row := range prattSpec {
		for _, lx := range row {
			specRow[lx] = i
		}
	}
	nInfix := 0
	for lx, want := range specRow {
		nInfix++
		o := Obligation{Rule: rule, Key: "precedence:" + lx, Fn: "jparse.bps", Pos: "jparse/jparse.go", Nontrivial: true}
		tok, hasTok := pt.lexTok[lx]
		got, hasRow := pt.rowOf[tok]
		switch {
		case !hasTok:
			o.Verdict, o.Reason = Finding, "the lexer has no token for the operator "+lx
		case !hasRow:
			o.Verdict, o.Reason = Finding, fmt.Sprintf("operator %s (%s) has no binding power", lx, pt.tokName[tok])
		case got != want || pt.nRows != len(prattSpec):
			o.Verdict, o.Reason = Finding, fmt.Sprintf("operator %s (%s) is in precedence row %d of %d; JSONata puts it in row %d of %d (rows counted from the tightest)", lx, pt.tokName[tok], got+1, pt.nRows, want+1, len(prattSpec))
		case len(pt.leds[tok]) != 1:
			o.Verdict, o.Reason = Finding, fmt.Sprintf("operator %s (%s) has a binding power but no led function (or several)", lx, pt.tokName[tok])
		default:
			o.Verdict, o.Reason = Discharged, fmt.Sprintf("%s lexes as %s, row %d of %d, led %s", lx, pt.tokName[tok], got+1, pt.nRows, pt.leds[tok][0].Name())
		}
		r.Add(o)
	}
	// nothing else has a binding power or a led
	for tok := range pt.rowOf {
		if lx, ok := pt.tokLex[tok]; !ok || specRow[lx] == 0 && lx != "(" && lx != "[" {
			if _, known := specRow[pt.tokLex[tok]]; !known {
				r.Add(Obligation{Rule: rule, Key: "precedence:extra:" + pt.tokName[tok], Fn: "jparse.bps", Pos: "jparse/jparse.go", Nontrivial: true, Verdict: Finding,
					Reason: fmt.Sprintf("token %s has a binding power but is not an infix operator of the language", pt.tokName[tok])})
			}
		}
	}
	for tok := range pt.leds {
		if _, has := pt.rowOf[tok]; !has {
			r.Add(Obligation{Rule: rule, Key: "led-without-bp:" + pt.tokName[tok], Fn: "jparse.leds", Pos: "jparse/jparse.go", Nontrivial: true, Verdict: Finding,
				Reason: fmt.Sprintf("token %s has a led function but no binding power (it can never be used as an infix operator)", pt.tokName[tok])})
		}
	}
	r.RequireMin(rule+" infix lexemes", nInfix, 23)

	// words usable as names in prefix position
	parseNameObj := pkg.Types.Scope().Lookup("parseName")
	for _, w := range []string{"and", "or", "in"} {
		o := Obligation{Rule: rule, Key: "keyword-as-name:" + w, Fn: "jparse.nuds", Pos: "jparse/jparse.go", Nontrivial: true}
		fs := pt.nuds[pt.lexTok[w]]
		if len(fs) == 1 && fs[0] == parseNameObj {
			o.Verdict, o.Reason = Discharged, "in prefix position the word "+w+" is parsed as a field name"
		} else {
			o.Verdict, o.Reason = Finding, "the word "+w+" is not a field name where an operand is expected"
		}
		r.Add(o)
	}

	// --- 3. the loop test -------------------------------------------------------------------
	pt.checkLoop(c, r, rule)
	// --- 4. right binding powers of every led -------------------------------------------------
	pt.checkLeds(c, r, rule)
	// --- 6. lexeme -> token -> operator constant -> String() ------------------------------------
	pt.checkOperatorConstants(c, r, rule)
	// --- 7. regex/division flag --------------------------------------------------------------
	pt.checkRegexFlag(c, r, rule)
}

func (pt *prattTables) constVal(e ast.Expr) (string, bool) {
	tv := pt.pkg.TypesInfo.Types[e]
	if tv.Value == nil {
		return "", false
	}
	return tv.Value.ExactString(), true
}

func findVarLit(pkg *packages.Package, name string) (*ast.CompositeLit, ast.Expr) {
	for _, file := range pkg.Syntax {
		for _, d := range file.Decls {
			gd, ok := d.(*ast.GenDecl)
			if !ok {
				continue
			}
			for _, sp := range gd.Specs {
				vs, ok := sp.(*ast.ValueSpec)
				if !ok || len(vs.Names) != 1 || vs.Names[0].Name != name || len(vs.Values) != 1 {
					continue
				}
				if lit, ok := vs.Values[0].(*ast.CompositeLit); ok {
					return lit, vs.Values[0]
				}
				return nil, vs.Values[0]
			}
		}
	}
	return nil, nil
}

func (pt *prattTables) extractSymbols(c *Ctx, r *Result) bool {
	lit, _ := findVarLit(pt.pkg, "symbols1")
	if lit == nil {
		r.LoseAnchor("PRATT: symbols1 literal not found")
		return false
	}
	put := func(lex, tok string) {
		pt.lexTok[lex] = tok
		pt.tokLex[tok] = lex
	}
	for _, el := range lit.Elts {
		kv, ok := el.(*ast.KeyValueExpr)
		if !ok {
			r.LoseAnchor("PRATT: symbols1 is not a keyed literal")
			return false
		}
		k, ok1 := pt.pkg.TypesInfo.Types[kv.Key], true
		v, ok2 := pt.constVal(kv.Value)
		if k.Value == nil || !ok1 || !ok2 {
			r.LoseAnchor("PRATT: symbols1 has a non-constant entry")
			return false
		}
		rn, _ := constant.Int64Val(k.Value)
		put(string(rune(rn)), v)
	}
	lit2, _ := findVarLit(pt.pkg, "symbols2")
	if lit2 == nil {
		r.LoseAnchor("PRATT: symbols2 literal not found")
		return false
	}
	for _, el := range lit2.Elts {
		kv, ok := el.(*ast.KeyValueExpr)
		if !ok {
			r.LoseAnchor("PRATT: symbols2 is not a keyed literal")
			return false
		}
		k := pt.pkg.TypesInfo.Types[kv.Key]
		inner, ok := kv.Value.(*ast.CompositeLit)
		if k.Value == nil || !ok {
			r.LoseAnchor("PRATT: symbols2 has an unexpected entry")
			return false
		}
		r1, _ := constant.Int64Val(k.Value)
		pairs := inner.Elts
		// an entry may be the list of pairs for this first rune, or (when no two symbols share
		// their first rune) the pair itself
		if it := pt.pkg.TypesInfo.TypeOf(inner); it != nil {
			if _, isStruct := it.Underlying().(*types.Struct); isStruct {
				pairs = []ast.Expr{inner}
			}
		}
		for _, pe := range pairs {
			pl, ok := pe.(*ast.CompositeLit)
			if !ok || len(pl.Elts) != 2 {
				r.LoseAnchor("PRATT: symbols2 has an unexpected pair")
				return false
			}
			var re, te ast.Expr = pl.Elts[0], pl.Elts[1]
			if kv0, isKV := re.(*ast.KeyValueExpr); isKV {
				// keyed fields {r: '=', tt: typeX}
				for _, fe := range pl.Elts {
					fkv := fe.(*ast.KeyValueExpr)
					if id, ok := fkv.Key.(*ast.Ident); ok {
						switch id.Name {
						case "r":
							re = fkv.Value
						case "tt":
							te = fkv.Value
						}
					}
				}
				_ = kv0
			}
			rv := pt.pkg.TypesInfo.Types[re]
			tv, ok2 := pt.constVal(te)
			if rv.Value == nil || !ok2 {
				r.LoseAnchor("PRATT: symbols2 has a non-constant pair")
				return false
			}
			r2, _ := constant.Int64Val(rv.Value)
			put(string(rune(r1))+string(rune(r2)), tv)
		}
	}
	// keywords
	for w, tv := range stringCaseTable(c.W.Fn("jparse.lookupKeyword")) {
		if w == "and" || w == "or" || w == "in" {
			put(w, tv)
		}
	}
	r.Count("PRATT lexemes", len(pt.lexTok))
	return true
}

func (pt *prattTables) extractRows(c *Ctx, r *Result) bool {
	_, val := findVarLit(pt.pkg, "bps")
	call, ok := val.(*ast.CallExpr)
	if !ok || len(call.Args) != 1 {
		r.LoseAnchor("PRATT: bps is not initBindingPowers(<literal>)")
		return false
	}
	if id, ok := call.Fun.(*ast.Ident); !ok || id.Name != "initBindingPowers" {
		r.LoseAnchor("PRATT: bps is not computed by initBindingPowers")
		return false
	}
	lit, ok := call.Args[0].(*ast.CompositeLit)
	if !ok {
		r.LoseAnchor("PRATT: initBindingPowers is not given a literal")
		return false
	}
	for i, rowE := range lit.Elts {
		row, ok := rowE.(*ast.CompositeLit)
		if !ok {
			r.LoseAnchor("PRATT: binding-power row %d is not a literal", i)
			return false
		}
		for _, te := range row.Elts {
			tv, ok := pt.constVal(te)
			if !ok {
				r.LoseAnchor("PRATT: binding-power row %d has a non-constant entry", i)
				return false
			}
			if _, dup := pt.rowOf[tv]; dup {
				r.LoseAnchor("PRATT: token %s appears in two rows", pt.tokName[tv])
			}
			pt.rowOf[tv] = i
		}
	}
	pt.nRows = len(lit.Elts)
	return true
}

// checkInitBindingPowers: bps[tt] = (len(rows) - rowIndex) * K with constant K >= 2; lookupBp
// returns bps[tt] (or 0 out of range); the parser's lookupBp field is only ever lookupBp.
func (pt *prattTables) checkInitBindingPowers(c *Ctx, r *Result, rule string) {
	f := c.mustFn(r, "jparse.initBindingPowers")
	if f == nil {
		return
	}
	o := Obligation{Rule: rule, Key: "initBindingPowers:monotone", Fn: "jparse.initBindingPowers", Pos: c.W.Pos(f.Pos()), Nontrivial: true}
	o.Verdict, o.Reason = Undecided, "the store of the computed binding power was not recognised"
	nStores := 0
	for _, ins := range instrsIn(f) {
		st, ok := ins.(*ssa.Store)
		if !ok {
			continue
		}
		ia, ok := st.Addr.(*ssa.IndexAddr)
		if !ok {
			continue
		}
		if _, isAlloc := ia.X.(*ssa.Alloc); !isAlloc || !isIntType(st.Val.Type()) {
			continue
		}
		nStores++
		mul, ok := st.Val.(*ssa.BinOp)
		if !ok || mul.Op != token.MUL {
			o.Verdict, o.Reason = Undecided, "binding power is not computed as (rows - row) * K"
			continue
		}
		k, kOK := constInt(mul.Y)
		sub, sOK := mul.X.(*ssa.BinOp)
		if !kOK {
			k, kOK = constInt(mul.X)
			sub, sOK = mul.Y.(*ssa.BinOp)
		}
		if !kOK || !sOK || sub.Op != token.SUB || k < 2 {
			o.Verdict, o.Reason = Finding, "binding powers are not (rows - row) * K with K >= 2: right-associative operators subtract 1 and would collide with the next row"
			continue
		}
		lenCall, isLen := sub.X.(*ssa.Call)
		okLen := false
		if isLen {
			if b, isB := lenCall.Call.Value.(*ssa.Builtin); isB && b.Name() == "len" && lenCall.Call.Args[0] == ssa.Value(f.Params[0]) {
				okLen = true
			}
		}
		// the subtracted value is the outer range index, which also selects the row the token came from
		rowIdx := sub.Y
		okRow := false
		if ld, isLd := ia.Index.(*ssa.UnOp); isLd {
			if inner, isIA := ld.X.(*ssa.IndexAddr); isIA {
				if rowLd, isLd2 := inner.X.(*ssa.UnOp); isLd2 {
					if outer, isIA2 := rowLd.X.(*ssa.IndexAddr); isIA2 && outer.X == ssa.Value(f.Params[0]) && outer.Index == rowIdx {
						okRow = true
					}
				}
			}
		}
		if okLen && okRow {
			o.Verdict, o.Reason = Discharged, fmt.Sprintf("bps[tt] = (len(rows) - row(tt)) * %d: strictly decreasing with the row, gaps of %d", k, k)
		} else {
			o.Verdict, o.Reason = Finding, "the binding power stored for a token is not derived from the row the token is listed in"
		}
	}
	if nStores != 1 && o.Verdict == Discharged {
		o.Verdict, o.Reason = Undecided, fmt.Sprintf("%d stores into the binding power array (expected 1)", nStores)
	}
	r.Add(o)

	// lookupBp
	lb := c.mustFn(r, "jparse.lookupBp")
	if lb != nil {
		o2 := Obligation{Rule: rule, Key: "lookupBp:reads-bps", Fn: "jparse.lookupBp", Pos: c.W.Pos(lb.Pos()), Nontrivial: true}
		ok := true
		nret := 0
		for _, ins := range instrsIn(lb) {
			ret, isRet := ins.(*ssa.Return)
			if !isRet {
				continue
			}
			nret++
			if k, isK := constInt(ret.Results[0]); isK && k == 0 {
				continue
			}
			ld, isLd := ret.Results[0].(*ssa.UnOp)
			if !isLd {
				ok = false
				continue
			}
			ia, isIA := ld.X.(*ssa.IndexAddr)
			if !isIA {
				ok = false
				continue
			}
			g, isG := ia.X.(*ssa.Global)
			if !isG || g.Name() != "bps" || ia.Index != ssa.Value(lb.Params[0]) {
				ok = false
			}
		}
		if ok && nret >= 1 {
			o2.Verdict, o2.Reason = Discharged, "lookupBp(tt) returns bps[tt], or 0 for token types beyond the table"
		} else {
			o2.Verdict, o2.Reason = Finding, "lookupBp does not return the table entry of its argument"
		}
		r.Add(o2)
	}
	// the parser's lookup fields are only ever set to the package-level lookup functions: each
	// func-typed field of the parser is stored once, with a package-level function that reads
	// one of the three tables, and each table is served by exactly one field
	roleOfFn := func(fv *ssa.Function) string {
		role := ""
		for _, ins := range instrsIn(fv) {
			if ia, ok := ins.(*ssa.IndexAddr); ok {
				if g, ok := ia.X.(*ssa.Global); ok {
					switch g.Name() {
					case "bps", "nuds", "leds":
						role = g.Name()
					}
				}
			}
		}
		return role
	}
	stores := map[string][]string{} // field name -> what is stored
	for _, fn := range c.W.FuncsOf(PkgSet{pt.pkg.Types: true}) {
		for _, ins := range instrsIn(fn) {
			st, ok := ins.(*ssa.Store)
			if !ok {
				continue
			}
			fa, ok := st.Addr.(*ssa.FieldAddr)
			if !ok || !isNamed(fa.X.Type(), "jparse", "parser") {
				continue
			}
			stt := fa.X.Type().Underlying().(*types.Pointer).Elem().Underlying().(*types.Struct)
			if _, isFunc := stt.Field(fa.Field).Type().Underlying().(*types.Signature); !isFunc {
				continue
			}
			name := stt.Field(fa.Field).Name()
			if fv, isF := st.Val.(*ssa.Function); isF {
				stores[name] = append(stores[name], roleOfFn(fv))
			} else {
				stores[name] = append(stores[name], "<dynamic>")
			}
		}
	}
	served := map[string][]string{}
	for name, vals := range stores {
		for _, v := range vals {
			served[v] = append(served[v], name)
		}
	}
	for _, tbl := range []string{"bps", "leds", "nuds"} {
		fldKey := map[string]string{"bps": "lookupBp", "leds": "lookupLed", "nuds": "lookupNud"}[tbl]
		o3 := Obligation{Rule: rule, Key: "parser." + fldKey + ":single-binding", Fn: "jparse.newParser", Pos: "jparse/jparse.go", Nontrivial: true}
		flds := served[tbl]
		switch {
		case len(flds) == 1 && len(stores[flds[0]]) == 1 && len(served["<dynamic>"]) == 0 && len(served[""]) == 0:
			o3.Verdict, o3.Reason = Discharged, "parser."+flds[0]+" is assigned once, a package-level function that reads the "+tbl+" table; no lookup field is assigned anything else"
			if tbl == "bps" {
				pt.bpNames[flds[0]] = true
			}
		default:
			o3.Verdict, o3.Reason = Finding, fmt.Sprintf("the parser's lookup of the %s table goes through %v (stores: %v): the tables the parser consults are not the ones extracted here", tbl, flds, stores)
		}
		r.Add(o3)
	}
	// methods of the parser that only forward to the binding-power field (p.bp)
	for _, fn := range c.W.FuncsOf(PkgSet{pt.pkg.Types: true}) {
		if fn.Signature.Recv() == nil || !isNamed(fn.Signature.Recv().Type(), "jparse", "parser") || len(fn.Blocks) != 1 {
			continue
		}
		for _, ins := range instrsIn(fn) {
			ret, ok := ins.(*ssa.Return)
			if !ok || len(ret.Results) != 1 {
				continue
			}
			call, ok := ret.Results[0].(*ssa.Call)
			if !ok {
				continue
			}
			if ld, ok := call.Call.Value.(*ssa.UnOp); ok {
				if fa, ok := ld.X.(*ssa.FieldAddr); ok && isNamed(fa.X.Type(), "jparse", "parser") {
					stt := fa.X.Type().Underlying().(*types.Pointer).Elem().Underlying().(*types.Struct)
					if pt.bpNames[stt.Field(fa.Field).Name()] {
						pt.bpNames[fn.Name()] = true
					}
				}
			}
		}
	}
}

// isBpCall: expr is p.bp(X) / p.lookupBp(X); returns X.
func (pt *prattTables) isBpCall(e ast.Expr) (ast.Expr, bool) {
	call, ok := e.(*ast.CallExpr)
	if !ok || len(call.Args) != 1 {
		return nil, false
	}
	sel, ok := call.Fun.(*ast.SelectorExpr)
	if !ok || !pt.bpNames[sel.Sel.Name] {
		return nil, false
	}
	return call.Args[0], true
}

func (pt *prattTables) checkLoop(c *Ctx, r *Result, rule string) {
	var fd *ast.FuncDecl
	for o, d := range pt.funcDecl {
		if o.Name() == "parseExpression" {
			fd = d
		}
	}
	if fd == nil {
		r.LoseAnchor("PRATT: parseExpression not found")
		return
	}
	rbpObj := pt.pkg.TypesInfo.Defs[fd.Type.Params.List[0].Names[0]]
	o := Obligation{Rule: rule, Key: "parseExpression:loop-test", Fn: "jparse.parseExpression", Pos: c.W.Pos(fd.Pos()), Nontrivial: true}
	o.Verdict, o.Reason = Undecided, "the Pratt loop `for rbp < bp(current token)` was not found"
	nLoops := 0
	ast.Inspect(fd.Body, func(n ast.Node) bool {
		fs, ok := n.(*ast.ForStmt)
		if !ok {
			return true
		}
		nLoops++
		be, ok := fs.Cond.(*ast.BinaryExpr)
		if !ok {
			return true
		}
		lhs, isID := be.X.(*ast.Ident)
		arg, isBp := pt.isBpCall(be.Y)
		if !isID || pt.pkg.TypesInfo.Uses[lhs] != rbpObj || !isBp {
			o.Verdict, o.Reason = Finding, "the loop condition is not `rbp OP bp(token)`"
			return true
		}
		if types.ExprString(arg) != "p.token.Type" {
			o.Verdict, o.Reason = Finding, "the loop compares rbp with the binding power of "+types.ExprString(arg)+", not of the current token"
			return true
		}
		if be.Op == token.LSS {
			o.Verdict, o.Reason = Discharged, "the loop continues while rbp < bp(current token): strict, so equal precedence groups to the left"
		} else {
			o.Verdict, o.Reason = Finding, "the loop test uses "+be.Op.String()+" instead of <: operators of equal precedence would group to the right"
		}
		// the advance inside the loop allows a regex (an operand follows an infix token)
		adv := Obligation{Rule: rule, Key: "parseExpression:advance-after-infix", Fn: "jparse.parseExpression", Pos: c.W.Pos(fs.Pos()), Nontrivial: true}
		adv.Verdict, adv.Reason = Undecided, "no p.advance(...) in the loop body"
		var scan func(body ast.Node, depth int)
		scan = func(body ast.Node, depth int) {
			ast.Inspect(body, func(m ast.Node) bool {
				call, ok := m.(*ast.CallExpr)
				if !ok {
					return true
				}
				sel, ok := call.Fun.(*ast.SelectorExpr)
				if !ok {
					return true
				}
				if sel.Sel.Name == "advance" && len(call.Args) == 1 {
					if id, ok := call.Args[0].(*ast.Ident); ok && id.Name == "true" {
						adv.Verdict, adv.Reason = Discharged, "after an infix token the lexer is asked for an operand (regex allowed)"
					} else {
						adv.Verdict, adv.Reason = Finding, "after an infix token the lexer is not allowed to read a regex: `a ~> /re/` would lex / as division"
					}
					return true
				}
				// the infix half of the loop body may live in a method of the parser
				if depth < 1 {
					if o := pt.pkg.TypesInfo.Uses[sel.Sel]; o != nil {
						if d := pt.funcDecl[o]; d != nil && d != fd && d.Recv != nil && d.Body != nil {
							scan(d.Body, depth+1)
						}
					}
				}
				return true
			})
		}
		scan(fs.Body, 0)
		r.Add(adv)
		return true
	})
	if nLoops != 1 && o.Verdict == Discharged {
		o.Verdict, o.Reason = Undecided, fmt.Sprintf("parseExpression has %d loops (expected 1)", nLoops)
	}
	r.Add(o)
}

// parseExprCalls lists p.parseExpression(arg) calls in a function body with the classified arg.
func (pt *prattTables) parseExprCalls(fd *ast.FuncDecl, tokParam types.Object) []string {
	var out []string
	ast.Inspect(fd.Body, func(n ast.Node) bool {
		call, ok := n.(*ast.CallExpr)
		if !ok || len(call.Args) != 1 {
			return true
		}
		sel, ok := call.Fun.(*ast.SelectorExpr)
		if !ok || sel.Sel.Name != "parseExpression" {
			return true
		}
		arg := call.Args[0]
		// a binding power hoisted into a local (`rbp := p.bp(t.Type) - 1`)
		if id, ok := arg.(*ast.Ident); ok {
			if obj := pt.pkg.TypesInfo.Uses[id]; obj != nil {
				var defs []ast.Expr
				ast.Inspect(fd.Body, func(m ast.Node) bool {
					if as, ok := m.(*ast.AssignStmt); ok && len(as.Lhs) == len(as.Rhs) {
						for i, l := range as.Lhs {
							if li, ok := l.(*ast.Ident); ok && (pt.pkg.TypesInfo.Defs[li] == obj || pt.pkg.TypesInfo.Uses[li] == obj) {
								defs = append(defs, as.Rhs[i])
							}
						}
					}
					return true
				})
				if len(defs) == 1 {
					arg = defs[0]
				}
			}
		}
		out = append(out, pt.classifyRbp(arg, tokParam))
		return true
	})
	return out
}

func (pt *prattTables) classifyRbp(e ast.Expr, tokParam types.Object) string {
	if bl, ok := e.(*ast.BasicLit); ok && bl.Value == "0" {
		return "0"
	}
	isTokType := func(x ast.Expr) bool {
		sel, ok := x.(*ast.SelectorExpr)
		if !ok || sel.Sel.Name != "Type" {
			return false
		}
		id, ok := sel.X.(*ast.Ident)
		return ok && tokParam != nil && pt.pkg.TypesInfo.Uses[id] == tokParam
	}
	if arg, ok := pt.isBpCall(e); ok && isTokType(arg) {
		return "bp"
	}
	if be, ok := e.(*ast.BinaryExpr); ok && be.Op == token.SUB {
		if arg, ok := pt.isBpCall(be.X); ok && isTokType(arg) {
			if bl, ok := be.Y.(*ast.BasicLit); ok && bl.Value == "1" {
				return "bp-1"
			}
		}
	}
	if be, ok := e.(*ast.BinaryExpr); ok && be.Op == token.ADD {
		return "bp+?"
	}
	return "other:" + types.ExprString(e)
}

func (pt *prattTables) checkLeds(c *Ctx, r *Result, rule string) {
	n := 0
	var lexes []string
	for lx := range prattAssoc {
		lexes = append(lexes, lx)
	}
	sort.Strings(lexes)
	for _, lx := range lexes {
		want := prattAssoc[lx]
		tok := pt.lexTok[lx]
		fs := pt.leds[tok]
		if len(fs) != 1 {
			continue // reported by the precedence obligation
		}
		fd := pt.funcDecl[fs[0]]
		if fd == nil || fd.Type.Params.NumFields() < 2 {
			r.LoseAnchor("PRATT: led %s has no declaration", fs[0].Name())
			continue
		}
		// the token parameter is the second parameter
		var tokParam types.Object
		idx := 0
		for _, fl := range fd.Type.Params.List {
			for _, nm := range fl.Names {
				if idx == 1 {
					tokParam = pt.pkg.TypesInfo.Defs[nm]
				}
				idx++
			}
		}
		calls := pt.parseExprCalls(fd, tokParam)
		// helper nuds called by the led (parseGroup -> parseObject): their calls count as delimited
		n++
		o := Obligation{Rule: rule, Key: "assoc:" + lx, Fn: "jparse." + fs[0].Name(), Pos: c.W.Pos(fd.Pos()), Nontrivial: true}
		all := func(s string) bool {
			for _, x := range calls {
				if x != s {
					return false
				}
			}
			return true
		}
		switch want {
		case "left":
			if len(calls) == 1 && calls[0] == "bp" {
				o.Verdict, o.Reason = Discharged, "right operand parsed with rbp = bp("+lx+"): groups to the left"
			} else {
				o.Verdict, o.Reason = Finding, fmt.Sprintf("right operand of %s is parsed with %v, expected exactly one parseExpression(bp(t.Type)) (left-associative)", lx, calls)
			}
		case "right":
			if len(calls) == 1 && calls[0] == "bp-1" {
				o.Verdict, o.Reason = Discharged, "right operand parsed with rbp = bp("+lx+") - 1: groups to the right"
			} else {
				o.Verdict, o.Reason = Finding, fmt.Sprintf("right operand of %s is parsed with %v, expected parseExpression(bp(t.Type) - 1) (right-associative)", lx, calls)
			}
		case "cond":
			if len(calls) == 2 && all("0") {
				o.Verdict, o.Reason = Discharged, "then- and else-branch are parsed with rbp 0: the else-branch extends as far as possible (groups to the right)"
			} else {
				o.Verdict, o.Reason = Finding, fmt.Sprintf("branches of ?: are parsed with %v, expected two parseExpression(0)", calls)
			}
		case "delim":
			if all("0") && pt.consumesCloser(fd) {
				o.Verdict, o.Reason = Discharged, fmt.Sprintf("%d inner expression(s) parsed with rbp 0 inside a delimiter pair the led consumes itself", len(calls))
			} else {
				o.Verdict, o.Reason = Finding, fmt.Sprintf("%s parses inner expressions with %v or does not consume its closing delimiter", lx, calls)
			}
		}
		r.Add(o)
	}
	r.RequireMin(rule+" led associativity obligations", n, 23)
}

// consumesCloser: the function (or a nud it delegates to) calls p.consume(typeXClose, ...).
func (pt *prattTables) consumesCloser(fd *ast.FuncDecl) bool {
	found := false
	ast.Inspect(fd.Body, func(n ast.Node) bool {
		call, ok := n.(*ast.CallExpr)
		if !ok {
			return true
		}
		if sel, ok := call.Fun.(*ast.SelectorExpr); ok && sel.Sel.Name == "consume" && len(call.Args) == 2 {
			if id, ok := call.Args[0].(*ast.Ident); ok && strings.HasSuffix(id.Name, "Close") {
				found = true
			}
		}
		if id, ok := call.Fun.(*ast.Ident); ok {
			if o := pt.pkg.TypesInfo.Uses[id]; o != nil {
				if d := pt.funcDecl[o]; d != nil && d != fd && strings.HasPrefix(o.Name(), "parse") {
					if pt.consumesCloser(d) {
						found = true
					}
				}
			}
		}
		return true
	})
	return found
}

// checkOperatorConstants: lexeme -> token -> operator constant -> String() is the identity.
func (pt *prattTables) checkOperatorConstants(c *Ctx, r *Result, rule string) {
	n := 0
	for _, fnName := range []string{"parseNumericOperator", "parseComparisonOperator", "parseBooleanOperator"} {
		var fd *ast.FuncDecl
		for o, d := range pt.funcDecl {
			if o.Name() == fnName {
				fd = d
			}
		}
		if fd == nil {
			r.LoseAnchor("PRATT: %s not found", fnName)
			continue
		}
		// token value -> operator constant
		tokOp := map[string]*types.Const{}
		ast.Inspect(fd.Body, func(nd ast.Node) bool {
			sw, ok := nd.(*ast.SwitchStmt)
			if !ok {
				return true
			}
			for _, st := range sw.Body.List {
				cc := st.(*ast.CaseClause)
				var opc *types.Const
				for _, s := range cc.Body {
					if as, ok := s.(*ast.AssignStmt); ok && len(as.Rhs) == 1 {
						if id, ok := as.Rhs[0].(*ast.Ident); ok {
							opc, _ = pt.pkg.TypesInfo.Uses[id].(*types.Const)
						}
					}
				}
				for _, e := range cc.List {
					if tv, ok := pt.constVal(e); ok && opc != nil {
						tokOp[tv] = opc
					}
				}
			}
			return false
		})
		// the same table from the compiled form of the function and of the helpers it calls: a
		// helper that returns the constant, or an if chain, gives the tests a switch would
		if sf := c.W.Fn("jparse." + fnName); sf != nil {
			fns := []*ssa.Function{sf}
			for _, ci := range callsIn(sf) {
				if callee := ci.Common().StaticCallee(); callee != nil && fnPkg(callee) == pt.pkg.Types && len(callee.Blocks) > 0 && callee.Signature.Recv() == nil {
					fns = append(fns, callee)
				}
			}
			for _, g := range fns {
				for _, cse := range constCaseMap(g) {
					tv := cse.Lit.Value.ExactString()
					if lt, ok := cse.Lit.Type().(*types.Named); !ok || lt.Obj().Name() != "tokenType" || tokOp[tv] != nil {
						continue
					}
					for _, k := range cse.Sel {
						if nt, ok := k.Type().(*types.Named); ok && nt.Obj().Pkg() == pt.pkg.Types && k.Value.Kind() == constant.Int {
							if opc := namedConstOf(nt, k.Value); opc != nil {
								tokOp[tv] = opc
							}
						}
					}
				}
			}
		}
		// operator constant value -> String() result
		for tok, opc := range tokOp {
			n++
			lx := pt.tokLex[tok]
			o := Obligation{Rule: rule, Key: "operator-constant:" + lx, Fn: "jparse." + fnName, Pos: c.W.Pos(fd.Pos()), Nontrivial: true}
			str, ok := pt.enumString(opc)
			switch {
			case !ok:
				o.Verdict, o.Reason = Undecided, "String() of "+opc.Name()+" not found"
			case str == lx:
				o.Verdict, o.Reason = Discharged, fmt.Sprintf("%s -> %s -> %s -> %q", lx, pt.tokName[tok], opc.Name(), str)
			default:
				o.Verdict, o.Reason = Finding, fmt.Sprintf("the operator written %s is parsed as %s, which prints (and evaluates) as %q", lx, opc.Name(), str)
			}
			r.Add(o)
		}
	}
	r.RequireMin(rule+" operator-constant obligations", n, 14)
}

// enumString finds `func (op T) String()` and the string returned for the constant's value.
func (pt *prattTables) enumString(k *types.Const) (string, bool) {
	nt, ok := k.Type().(*types.Named)
	if !ok {
		return "", false
	}
	for _, si := range collectSwitches(pt.pkg) {
		if si.Fn != nt.Obj().Name()+".String" {
			continue
		}
		for _, st := range si.Stmt.Body.List {
			cc := st.(*ast.CaseClause)
			match := false
			for _, e := range cc.List {
				if v, ok := pt.constVal(e); ok && v == k.Val().ExactString() {
					match = true
				}
			}
			if !match {
				continue
			}
			for _, s := range cc.Body {
				if rs, ok := s.(*ast.ReturnStmt); ok && len(rs.Results) == 1 {
					if tv := pt.pkg.TypesInfo.Types[rs.Results[0]]; tv.Value != nil && tv.Value.Kind() == constant.String {
						return constant.StringVal(tv.Value), true
					}
				}
			}
		}
	}
	// the compiled String method: `op == K` leading to the return of a string constant
	if sel := pt.ssaProg.MethodSets.MethodSet(nt).Lookup(pt.pkg.Types, "String"); sel != nil {
		for _, cse := range constCaseMap(pt.ssaProg.MethodValue(sel)) {
			if !types.Identical(cse.Lit.Type(), nt) || cse.Lit.Value.ExactString() != k.Val().ExactString() {
				continue
			}
			for _, rk := range cse.Sel {
				if rk.Value.Kind() == constant.String {
					return constant.StringVal(rk.Value), true
				}
			}
		}
	}
	return "", false
}

// namedConstOf: the declared constant of type nt with the given value.
func namedConstOf(nt *types.Named, v constant.Value) *types.Const {
	sc := nt.Obj().Pkg().Scope()
	for _, nm := range sc.Names() {
		if cst, ok := sc.Lookup(nm).(*types.Const); ok && types.Identical(cst.Type(), nt) && constant.Compare(cst.Val(), token.EQL, v) {
			return cst
		}
	}
	return nil
}

// checkRegexFlag: a token consumption that is followed (on every path) by a return to the Pratt
// loop ends an operand, so `/` after it is division: allowRegex must be false. A consumption
// followed on every path by parseExpression precedes an operand: allowRegex must be true.
func (pt *prattTables) checkRegexFlag(c *Ctx, r *Result, rule string) {
	sp := c.W.LibSSA["jparse"]
	advance := c.W.Fn("jparse.(*parser).advance")
	consume := c.W.Fn("jparse.(*parser).consume")
	parseExpr := c.W.Fn("jparse.(*parser).parseExpression")
	if advance == nil || consume == nil || parseExpr == nil {
		r.LoseAnchor("PRATT: parser.advance/consume/parseExpression not found")
		return
	}
	// Pratt-returning functions: registered nuds/leds and helpers whose result they return directly
	prattFns := map[*ssa.Function]bool{}
	for _, tbl := range []map[string][]types.Object{pt.nuds, pt.leds} {
		for _, objs := range tbl {
			for _, o := range objs {
				if f := sp.Func(o.Name()); f != nil {
					prattFns[f] = true
				}
			}
		}
	}
	isEventCall := func(ci ssa.CallInstruction) (string, bool) {
		callee := ci.Common().StaticCallee()
		switch callee {
		case advance, consume:
			return "C", true
		case parseExpr:
			return "P", true
		}
		if callee != nil && fnPkg(callee) == pt.pkg.Types && len(callee.Blocks) > 0 && callee.Signature.Recv() == nil {
			// a helper that itself drives the parser
			for _, cc := range callsIn(callee) {
				switch cc.Common().StaticCallee() {
				case advance, consume, parseExpr:
					return "H", true
				}
			}
		}
		if callee == nil && !ci.Common().IsInvoke() {
			if _, isB := ci.Common().Value.(*ssa.Builtin); !isB {
				// a call through the parser's binding-power field only reads the table
				if ld, isLd := ci.Common().Value.(*ssa.UnOp); isLd && ld.Op == token.MUL {
					if fa, isFA := ld.X.(*ssa.FieldAddr); isFA {
						if st, isSt := deref(fa.X.Type()).Underlying().(*types.Struct); isSt && pt.bpNames[st.Field(fa.Field).Name()] {
							return "", false
						}
					}
				}
				return "H", true // nud/led dispatch
			}
		}
		return "", false
	}
	// helpers tail-called by Pratt functions: `return helper(...)`
	changed := true
	for changed {
		changed = false
		for f := range prattFns {
			for _, ci := range callsIn(f) {
				callee := ci.Common().StaticCallee()
				if callee == nil || prattFns[callee] || fnPkg(callee) != pt.pkg.Types || len(callee.Blocks) == 0 {
					continue
				}
				if ev, _ := isEventCall(ci); ev != "H" {
					continue
				}
				call, ok := ci.(*ssa.Call)
				if !ok {
					continue
				}
				// every path from the call reaches a return without another parser event
				if next := pt.nextEvents(call, isEventCall); len(next) == 1 && next["R"] {
					prattFns[callee] = true
					changed = true
				}
			}
		}
	}
	var fns []*ssa.Function
	for f := range prattFns {
		fns = append(fns, f)
	}
	sortFns(fns)
	n := 0
	for _, f := range fns {
		ord := 0
		for _, ci := range callsIn(f) {
			callee := ci.Common().StaticCallee()
			if callee != advance && callee != consume {
				continue
			}
			call, ok := ci.(*ssa.Call)
			if !ok {
				continue
			}
			flag := call.Call.Args[len(call.Call.Args)-1]
			k, isK := flag.(*ssa.Const)
			if !isK {
				continue
			}
			allow := constant.BoolVal(k.Value)
			next := pt.nextEvents(call, isEventCall)
			ord++
			what := "advance"
			if callee == consume {
				what = "consume(" + pt.tokName[constExact(call.Call.Args[1])] + ")"
			}
			key := fmt.Sprintf("%s:%s#%d", shortFn(f), what, ord)
			switch {
			case len(next) == 1 && next["R"]:
				n++
				o := Obligation{Rule: rule, Key: "regexflag:" + key, Fn: shortFn(f), Pos: c.W.Pos(call.Pos()), Nontrivial: true}
				if !allow {
					o.Verdict, o.Reason = Discharged, "the token ends the operand this function returns; the next token is in infix position and `/` is lexed as division"
				} else {
					o.Verdict, o.Reason = Finding, "this token ends an operand (the function returns to the Pratt loop next) but the lexer is told a regex may follow: `/` after it is lexed as a regex, so division after this construct does not parse"
				}
				r.Add(o)
			case len(next) == 1 && next["P"]:
				n++
				o := Obligation{Rule: rule, Key: "regexflag:" + key, Fn: shortFn(f), Pos: c.W.Pos(call.Pos()), Nontrivial: true}
				if allow {
					o.Verdict, o.Reason = Discharged, "an operand follows this token (parseExpression is next on every path): a regex may start here"
				} else {
					o.Verdict, o.Reason = Finding, "an operand follows this token but the lexer may not read a regex: a regex literal in this position is lexed as division"
				}
				r.Add(o)
			}
		}
	}
	// the advance after a prefix token in parseExpression: its flag must be true exactly for the
	// prefix tokens whose nud goes on to parse an operand (or its own closing delimiter) and false
	// for those whose nud returns at once (the operand is complete, an infix token follows)
	// the prefix part of parseExpression may live in a helper method of the parser
	prefixFns := []*ssa.Function{parseExpr}
	for _, ci := range callsIn(parseExpr) {
		cal := ci.Common().StaticCallee()
		if cal == nil || cal == advance || cal == parseExpr || len(cal.Blocks) == 0 || cal.Signature.Recv() == nil || recvTypeName(cal) != recvTypeName(parseExpr) {
			continue
		}
		callsAdvance := false
		for _, c2 := range callsIn(cal) {
			if c2.Common().StaticCallee() == advance {
				callsAdvance = true
			}
		}
		if callsAdvance {
			prefixFns = append(prefixFns, cal)
		}
	}
	var advCalls []ssa.CallInstruction
	for _, pf := range prefixFns {
		advCalls = append(advCalls, callsIn(pf)...)
	}
	for _, ci := range advCalls {
		if ci.Common().StaticCallee() != advance {
			continue
		}
		call, ok := ci.(*ssa.Call)
		if !ok {
			continue
		}
		flag := call.Call.Args[len(call.Call.Args)-1]
		if _, isK := flag.(*ssa.Const); isK {
			if nx := pt.nextEvents(call, isEventCall); len(nx) == 1 && nx["H"] {
				k := flag.(*ssa.Const)
				if constant.BoolVal(k.Value) {
					continue // the advance inside the loop (after an infix token): judged by the loop rule
				}
				// a constant false after every prefix token: wrong for the tokens that start an operand
				for tok, objs := range pt.nuds {
					f := sp.Func(objs[0].Name())
					if f == nil {
						continue
					}
					first := pt.firstEvents(f, isEventCall)
					if (first["P"] || first["C"]) && !first["R"] {
						n++
						r.Add(Obligation{Rule: rule, Key: "regexflag:after-prefix:" + pt.tokName[tok], Fn: shortFn(parseExpr), Pos: c.W.Pos(call.Pos()), Nontrivial: true, Verdict: Finding,
							Reason: fmt.Sprintf("after the prefix token %s an operand follows (%s parses one next), but the lexer is not allowed to read a regex there: `%s/re/...` lexes / as division", pt.tokName[tok], objs[0].Name(), pt.tokLex[tok])})
					}
				}
			}
			continue
		}
		pc, ok := flag.(*ssa.Call)
		var pred *ssa.Function
		if ok {
			pred = pc.Call.StaticCallee()
		}
		if pred == nil || len(pred.Params) != 1 {
			r.Add(Obligation{Rule: rule, Key: "regexflag:after-prefix:flag", Fn: shortFn(parseExpr), Pos: c.W.Pos(call.Pos()), Nontrivial: true, Verdict: Undecided,
				Reason: "the allowRegex flag after a prefix token is neither a constant nor a predicate of the token type"})
			continue
		}
		var toks []string
		for tok := range pt.nuds {
			toks = append(toks, tok)
		}
		sort.Strings(toks)
		for _, tok := range toks {
			objs := pt.nuds[tok]
			f := sp.Func(objs[0].Name())
			if f == nil {
				continue
			}
			var tv int64
			fmt.Sscan(tok, &tv)
			got, okEval := evalPredicateOnConst(pred, tv, nil)
			first := pt.firstEvents(f, isEventCall)
			n++
			o := Obligation{Rule: rule, Key: "regexflag:after-prefix:" + pt.tokName[tok], Fn: shortFn(parseExpr), Pos: c.W.Pos(call.Pos()), Nontrivial: true}
			wantTrue := (first["P"] || first["C"]) && !first["R"]
			wantFalse := first["R"] && !first["P"] && !first["C"] && !first["H"]
			switch {
			case !okEval:
				o.Verdict, o.Reason = Undecided, "cannot evaluate "+pred.Name()+" on "+pt.tokName[tok]
			case wantTrue && got:
				o.Verdict, o.Reason = Discharged, fmt.Sprintf("%s starts an operand (%s parses an expression or its closing delimiter next) and a regex may follow it", pt.tokName[tok], objs[0].Name())
			case wantFalse && !got:
				o.Verdict, o.Reason = Discharged, fmt.Sprintf("%s is a complete operand (%s returns without consuming more) and `/` after it is division", pt.tokName[tok], objs[0].Name())
			case wantTrue && !got:
				o.Verdict, o.Reason = Finding, fmt.Sprintf("an operand follows the prefix token %s but a regex may not start there", pt.tokName[tok])
			case wantFalse && got:
				o.Verdict, o.Reason = Finding, fmt.Sprintf("%s is a complete operand, yet `/` after it would be lexed as a regex instead of division", pt.tokName[tok])
			default:
				o.Verdict, o.Reason = Undecided, fmt.Sprintf("cannot classify what follows the prefix token %s (%v)", pt.tokName[tok], first)
			}
			r.Add(o)
		}
	}
	r.RequireMin(rule+" regex-flag obligations", n, 30)
	// lexer.next starts by skipping whitespace
	next := c.W.Fn("jparse.(*lexer).next")
	skip := c.W.Fn("jparse.(*lexer).skipWhitespace")
	if next != nil && skip != nil {
		o := Obligation{Rule: rule, Key: "lexer.next:skips-whitespace-first", Fn: "jparse.(*lexer).next", Pos: c.W.Pos(next.Pos()), Nontrivial: true}
		var cs []ssa.CallInstruction
		for _, ins := range next.Blocks[0].Instrs {
			if ci, ok := ins.(ssa.CallInstruction); ok {
				cs = append(cs, ci)
			}
		}
		if len(cs) > 0 && cs[0].Common().StaticCallee() == skip {
			o.Verdict, o.Reason = Discharged, "the first action of lexer.next on every path is skipWhitespace: optional whitespace between tokens cannot change the token stream"
		} else {
			o.Verdict, o.Reason = Finding, "lexer.next does not begin with skipWhitespace"
		}
		r.Add(o)
	} else {
		r.LoseAnchor("PRATT: lexer.next / skipWhitespace not found")
	}
}

func constExact(v ssa.Value) string {
	if k, ok := v.(*ssa.Const); ok && k.Value != nil {
		return k.Value.ExactString()
	}
	return "?"
}

// nextEvents walks the CFG forward from the instruction after `from` and collects the kinds of
// the first parser event on each path: P (parseExpression), C (advance/consume), H (helper that
// drives the parser / nud-led dispatch), R (return), X (panic).
func (pt *prattTables) nextEvents(from *ssa.Call, isEvent func(ssa.CallInstruction) (string, bool)) map[string]bool {
	out := map[string]bool{}
	seen := map[*ssa.BasicBlock]bool{}
	var walk func(b *ssa.BasicBlock, start int)
	walk = func(b *ssa.BasicBlock, start int) {
		for i := start; i < len(b.Instrs); i++ {
			switch ins := b.Instrs[i].(type) {
			case ssa.CallInstruction:
				if ev, ok := isEvent(ins); ok {
					out[ev] = true
					return
				}
			case *ssa.Return:
				out["R"] = true
				return
			case *ssa.Panic:
				return
			}
		}
		for _, s := range b.Succs {
			if !seen[s] {
				seen[s] = true
				walk(s, 0)
			}
		}
	}
	b := from.Block()
	for i, ins := range b.Instrs {
		if ins == ssa.Instruction(from) {
			walk(b, i+1)
		}
	}
	return out
}

// firstEvents: the kinds of the first parser event on each path from the entry of f.
func (pt *prattTables) firstEvents(f *ssa.Function, isEvent func(ssa.CallInstruction) (string, bool)) map[string]bool {
	out := map[string]bool{}
	seen := map[*ssa.BasicBlock]bool{}
	var walk func(b *ssa.BasicBlock)
	walk = func(b *ssa.BasicBlock) {
		if seen[b] {
			return
		}
		seen[b] = true
		for _, ins := range b.Instrs {
			switch x := ins.(type) {
			case ssa.CallInstruction:
				if ev, ok := isEvent(x); ok {
					out[ev] = true
					return
				}
			case *ssa.Return:
				out["R"] = true
				return
			case *ssa.Panic:
				return
			}
		}
		for _, s := range b.Succs {
			walk(s)
		}
	}
	if len(f.Blocks) > 0 {
		walk(f.Blocks[0])
	}
	return out
}
