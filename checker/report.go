package main

import (
	"encoding/json"
	"fmt"
	"os"
	"path/filepath"
	"sort"
	"strings"
	"time"
)

// Verdicts of an obligation.
const (
	Discharged = "discharged"
	Finding    = "finding"
	Undecided  = "undecided" // an idiom the rule does not recognise: fails the check
	Exception  = "exception" // one named symbol with a reason (table in the rule)
)

type Obligation struct {
	Rule       string `json:"rule"`
	Key        string `json:"key"` // rule-specific, line-free identity of the construct
	Pos        string `json:"pos"`
	Fn         string `json:"fn"`
	Verdict    string `json:"verdict"`
	Reason     string `json:"reason"`
	Path       string `json:"path,omitempty"` // call-graph path from a root
	Nontrivial bool   `json:"nontrivial"`
}

func (o Obligation) ID() string { return o.Rule + ":" + o.Key }

// Result accumulates what one property check examined.
type Result struct {
	Prop        string
	Obls        []Obligation
	Notes       []string
	Assumptions []string
	Counts      map[string]int // instance counts per rule / reach sizes
	Lost        []string       // lost anchors and fatal rule problems
	Fixtures    []string       // fixture outcomes "rule/bad: fired on X"
	FixtureFail []string
	Mutants     []MutantOutcome
	start       time.Time
}

type MutantOutcome struct {
	Name     string   `json:"name"`
	Status   string   `json:"status"` // killed | survived | skipped | builderror
	Findings []string `json:"findings,omitempty"`
	Note     string   `json:"note,omitempty"`
}

func NewResult(prop string) *Result {
	return &Result{Prop: prop, Counts: map[string]int{}, start: time.Now()}
}

func (r *Result) Add(o Obligation) { r.Obls = append(r.Obls, o) }

func (r *Result) Count(k string, n int) { r.Counts[k] = n }

func (r *Result) LoseAnchor(format string, a ...interface{}) {
	r.Lost = append(r.Lost, fmt.Sprintf(format, a...))
}

// RequireMin asserts a hand-confirmed minimum number of instances so that no rule passes vacuously.
func (r *Result) RequireMin(what string, got, min int) {
	r.Counts[what] = got
	// min is the count confirmed by hand on the tree the rule was written for. Ordinary
	// refactoring merges, splits and removes constructs, so the alarm is raised only when the
	// count falls well below it (a rule that matches next to nothing passes vacuously).
	floor := (min*6 + 9) / 10
	if floor < 1 {
		floor = 1
	}
	if got < floor {
		r.LoseAnchor("instance count for %s fell to %d (< %d, 60%% of the %d confirmed by hand): anchor lost", what, got, floor, min)
	}
}

func (r *Result) Note(format string, a ...interface{}) {
	r.Notes = append(r.Notes, fmt.Sprintf(format, a...))
}

func (r *Result) Assume(s string) {
	for _, x := range r.Assumptions {
		if x == s {
			return
		}
	}
	r.Assumptions = append(r.Assumptions, s)
}

// Merge folds another result (e.g. a sub-engine run) into r.
func (r *Result) Merge(o *Result) {
	r.Obls = append(r.Obls, o.Obls...)
	r.Notes = append(r.Notes, o.Notes...)
	for _, a := range o.Assumptions {
		r.Assume(a)
	}
	for k, v := range o.Counts {
		r.Counts[k] = v
	}
	r.Lost = append(r.Lost, o.Lost...)
}

// Known findings ---------------------------------------------------------------------

type KnownFile struct {
	Known []KnownEntry `json:"known"`
	Fixed []FixedEntry `json:"fixed"`
}
type KnownEntry struct {
	Property string `json:"property"`
	Rule     string `json:"rule"`
	Key      string `json:"key"`
	What     string `json:"what"`
	Demo     string `json:"demo"`
}
type FixedEntry struct {
	Property string `json:"property"`
	Commit   string `json:"commit"`
	What     string `json:"what"`
}

func loadKnown(path string) (*KnownFile, error) {
	kf := &KnownFile{}
	b, err := os.ReadFile(path)
	if err != nil {
		if os.IsNotExist(err) {
			return kf, nil
		}
		return nil, err
	}
	if err := json.Unmarshal(b, kf); err != nil {
		return nil, err
	}
	return kf, nil
}

// knownProgFns: the functions of the analysed program (set by main): a known finding whose
// function is gone may have been renamed.
var knownProgFns map[string]bool
var knownUsed = map[*KnownEntry]bool{}

func splitFindingKey(key string) (recv, fn, site string) {
	i := strings.LastIndex(key, ":")
	if i < 0 {
		return "", key, ""
	}
	fn, site = key[:i], key[i+1:]
	if strings.HasPrefix(fn, "(") {
		if j := strings.Index(fn, ")"); j > 0 {
			recv = fn[:j+1]
		}
	}
	return
}

func (kf *KnownFile) match(prop string, o Obligation) *KnownEntry {
	for i := range kf.Known {
		k := &kf.Known[i]
		if k.Property == prop && k.Rule == o.Rule && k.Key == o.Key {
			knownUsed[k] = true
			return k
		}
	}
	// the function of a listed finding was renamed: same rule, same receiver type, same kind
	// and ordinal of the site, and the listed function no longer exists in the program. Each
	// entry covers at most one site, so a second violation of the same kind is still reported.
	if knownProgFns == nil {
		return nil
	}
	recv, _, site := splitFindingKey(o.Key)
	if recv == "" {
		return nil
	}
	for i := range kf.Known {
		k := &kf.Known[i]
		if k.Property != prop || k.Rule != o.Rule || knownUsed[k] {
			continue
		}
		krecv, kfn, ksite := splitFindingKey(k.Key)
		if krecv == recv && ksite == site && !knownProgFns[kfn] {
			knownUsed[k] = true
			return k
		}
	}
	return nil
}

// Evidence -----------------------------------------------------------------------------

type evidenceFile struct {
	PropertyID  string                 `json:"property_id"`
	Tier        string                 `json:"tier"`
	Seed        int                    `json:"seed"`
	Level       string                 `json:"level"`
	Coverage    map[string]interface{} `json:"coverage"`
	Assumptions []string               `json:"assumptions"`
	WallS       float64                `json:"wall_s"`
	Violations  int                    `json:"violations"`
}

// Finish prints the verdict, writes evidence and findings files and returns the exit code.
func (r *Result) Finish(verifDir, tier string, seed int, explanation, rule string) int {
	kf, err := loadKnown(filepath.Join(verifDir, "known_findings.json"))
	if err != nil {
		fmt.Printf("cannot read known_findings.json: %v\n", err)
		return 2
	}
	sort.SliceStable(r.Obls, func(i, j int) bool { return r.Obls[i].ID() < r.Obls[j].ID() })
	// de-duplicate identical IDs (the same construct examined through two engines)
	seen := map[string]int{}
	var obls []Obligation
	for _, o := range r.Obls {
		if i, ok := seen[o.ID()]; ok {
			// keep the worse verdict
			if o.Verdict != Discharged && obls[i].Verdict == Discharged {
				obls[i] = o
			}
			continue
		}
		seen[o.ID()] = len(obls)
		obls = append(obls, o)
	}
	r.Obls = obls

	if os.Getenv("VERIF_LIST") != "" {
		for _, o := range r.Obls {
			fmt.Printf("OBL %-10s %-12s %s @%s :: %s\n", o.Rule, o.Verdict, o.Key, o.Pos, o.Reason)
		}
	}
	var violations, known []Obligation
	discharged, nontrivial, exceptions := 0, 0, 0
	perRule := map[string][2]int{}
	for _, o := range r.Obls {
		c := perRule[o.Rule]
		c[0]++
		switch o.Verdict {
		case Discharged:
			discharged++
			c[1]++
		case Exception:
			discharged++
			exceptions++
			c[1]++
		default:
			if k := kf.match(r.Prop, o); k != nil && o.Verdict == Finding {
				known = append(known, o)
				fmt.Printf("KNOWN-FINDING: property=%s rule=%s key=%s at %s: %s (demo: %s)\n", r.Prop, o.Rule, o.Key, o.Pos, k.What, k.Demo)
			} else {
				violations = append(violations, o)
			}
		}
		perRule[o.Rule] = c
		if o.Nontrivial {
			nontrivial++
		}
	}
	findingsPath := filepath.Join(verifDir, "evidence", r.Prop+".findings.json")
	os.MkdirAll(filepath.Join(verifDir, "evidence"), 0o755)
	type findingsFile struct {
		Property   string       `json:"property"`
		Violations []Obligation `json:"violations"`
		Known      []Obligation `json:"known_findings"`
		Lost       []string     `json:"lost_anchors"`
		Fixtures   []string     `json:"fixture_failures"`
	}
	ff := findingsFile{r.Prop, violations, known, r.Lost, r.FixtureFail}
	if ff.Violations == nil {
		ff.Violations = []Obligation{}
	}
	if ff.Known == nil {
		ff.Known = []Obligation{}
	}
	if ff.Lost == nil {
		ff.Lost = []string{}
	}
	if ff.Fixtures == nil {
		ff.Fixtures = []string{}
	}
	writeJSON(findingsPath, ff)

	for _, o := range violations {
		fmt.Printf("  %s [%s] %s in %s at %s: %s\n", strings.ToUpper(o.Verdict), o.Rule, o.Key, o.Fn, o.Pos, o.Reason)
		if o.Path != "" {
			fmt.Printf("      path: %s\n", o.Path)
		}
	}
	for _, l := range r.Lost {
		fmt.Printf("  ANCHOR/RULE FAILURE: %s\n", l)
	}
	for _, l := range r.FixtureFail {
		fmt.Printf("  FIXTURE FAILURE: %s\n", l)
	}
	mutSurvived := 0
	for _, m := range r.Mutants {
		if m.Status == "survived" || m.Status == "builderror" {
			mutSurvived++
			fmt.Printf("  MUTANT %s: %s %s\n", strings.ToUpper(m.Status), m.Name, m.Note)
		}
	}

	// samples: a few of each verdict, prefer non-trivial
	var samples []interface{}
	addSamples := func(pred func(Obligation) bool, max int) {
		n := 0
		for _, o := range r.Obls {
			if n >= max {
				break
			}
			if pred(o) {
				samples = append(samples, o)
				n++
			}
		}
	}
	addSamples(func(o Obligation) bool { return o.Verdict != Discharged && o.Verdict != Exception }, 20)
	addSamples(func(o Obligation) bool { return o.Verdict == Exception }, 10)
	perRuleSampled := map[string]int{}
	addSamples(func(o Obligation) bool {
		if o.Verdict != Discharged || !o.Nontrivial || perRuleSampled[o.Rule] >= 6 {
			return false
		}
		perRuleSampled[o.Rule]++
		return true
	}, 60)
	addSamples(func(o Obligation) bool {
		if o.Verdict != Discharged || o.Nontrivial || perRuleSampled[o.Rule] >= 3 {
			return false
		}
		perRuleSampled[o.Rule]++
		return true
	}, 20)
	if len(samples) == 0 {
		samples = append(samples, "no obligations were generated")
	}
	prm := map[string]interface{}{}
	for k, v := range perRule {
		prm[k] = map[string]int{"obligations": v[0], "discharged": v[1]}
	}
	cov := map[string]interface{}{
		"explanation":         explanation,
		"rule":                rule,
		"obligations":         len(r.Obls),
		"discharged":          discharged,
		"evaluations":         len(r.Obls),
		"distinct_nontrivial": nontrivial,
		"exceptions":          exceptions,
		"per_rule":            prm,
		"instance_counts":     r.Counts,
		"samples":             samples,
		"notes":               r.Notes,
		"fixtures":            r.Fixtures,
		"known_findings":      len(known),
		"checker_cmd":         strings.Join(os.Args, " "),
	}
	if len(r.Mutants) > 0 {
		killed := 0
		for _, m := range r.Mutants {
			if m.Status == "killed" {
				killed++
			}
		}
		cov["mutants"] = r.Mutants
		cov["mutants_run"] = len(r.Mutants)
		cov["mutants_killed"] = killed
	}
	nviol := len(violations) + len(r.Lost) + len(r.FixtureFail) + mutSurvived
	ev := evidenceFile{
		PropertyID: r.Prop, Tier: tier, Seed: seed, Level: "other", Coverage: cov,
		Assumptions: r.Assumptions, WallS: time.Since(r.start).Seconds(), Violations: nviol,
	}
	if ev.Assumptions == nil {
		ev.Assumptions = []string{}
	}
	writeJSON(filepath.Join(verifDir, "evidence", r.Prop+".json"), ev)

	fmt.Printf("%s [%s]: %d obligations, %d discharged (%d by named exception), %d known findings, %d violations, %d lost anchors, %d fixture failures; %.1fs\n",
		r.Prop, tier, len(r.Obls), discharged, exceptions, len(known), len(violations), len(r.Lost), len(r.FixtureFail), time.Since(r.start).Seconds())
	keys := make([]string, 0, len(perRule))
	for k := range perRule {
		keys = append(keys, k)
	}
	sort.Strings(keys)
	for _, k := range keys {
		fmt.Printf("  rule %-10s %4d obligations %4d discharged\n", k, perRule[k][0], perRule[k][1])
	}
	if nviol > 0 {
		fmt.Printf("VIOLATION property=%s replay=%s\n", r.Prop, findingsPath)
		return 1
	}
	return 0
}

func writeJSON(path string, v interface{}) {
	b, err := json.MarshalIndent(v, "", " ")
	if err != nil {
		panic(err)
	}
	if err := os.WriteFile(path, append(b, '\n'), 0o644); err != nil {
		panic(err)
	}
}
