package main

import (
	"fmt"
	"go/constant"
	"go/token"
	"go/types"
	"os"
	"sort"
	"strings"

	"golang.org/x/tools/go/ssa"
)

// LEX — lexer cursor typestate and progress (DESIGN.md §3 LEX).
//
// The lexer methods are interpreted abstractly (no code of /repo runs) over a finite domain:
//   cursor position  pos ∈ {0, 1, 2+}   runes consumed since the call of next
//   width typestate  ts  ∈ {Z, R, C}    Z: width == 0; R: width is the width of the rune just
//                                       before current; C: stale (anything else)
// The input is modelled as one known first rune ρ (one representative per cell of the partition
// of the rune space induced by every constant and table the lexer compares runes with, plus eof)
// followed by unknown runes. Rune predicates are evaluated on ρ and forked on unknown runes. The
// effects on current/width/start/err are read off the stores in the method bodies themselves
// (so a renamed or inlined helper is still understood):
//   width := 0                         -> Z        width := w (w from DecodeRune), current += w -> R, pos+1
//   current -= width                   -> rewind: R -> C and pos-1; Z -> no-op; C -> DOUBLE BACKUP
//   current, width := saved pair       -> restore the saved state
// Obligations: (typestate) no rewind in state C; (progress) every token returned by next, other
// than through eof() or error(), has pos >= 1 — for every ρ, both values of allowRegex and every
// entry state of next.

const (
	tsZ = iota
	tsR
	tsC
	tsP // width := decoded width stored, current not yet advanced
)

var tsName = [...]string{"Z", "R", "C", "P"}

type lexState struct {
	pos int // 0,1,2 (2 = two or more)
	ts  int
	err bool
}

func (s lexState) String() string { return fmt.Sprintf("pos=%d,%s,err=%v", s.pos, tsName[s.ts], s.err) }

const (
	avUnknown = iota
	avInt     // known integer / rune / token type
	avBool
	avCur  // loaded l.current (snapshot)
	avWid  // loaded l.width (snapshot)
	avDecW // width returned by DecodeRuneInString
	avLen  // l.length
	avCurPlusW
	avCurMinusWid
	avFunc
	avRow // []runeTokenType from the symbols2 table
	avRowElem
	avTuple
	avRowFieldPtr // address of a field of a local copy of a table entry
	avRecv        // the *lexer receiver
	avFieldPtr    // &l.field
	avCell        // pointer to a local variable
	avStrAt       // l.input[current:]
	avTok         // a token value
	avOpaque
	avTablePtr // &symbolsN[index]
	avErrNil
)

type rowEnt struct{ r, tt int64 }

type av struct {
	kind  int
	k     int64
	snap  lexState
	snap2 lexState
	fn    *ssa.Function
	binds []av
	row   []rowEnt
	known bool
	sub   []av
	cell  *ssa.Alloc
	field string
	eof   bool // token produced by eof()
	table string
}

func (a av) sig() string {
	switch a.kind {
	case avInt:
		return fmt.Sprintf("i%d", a.k)
	case avBool:
		return fmt.Sprintf("b%d", a.k)
	case avCur, avWid:
		return fmt.Sprintf("s%d(%s)", a.kind, a.snap)
	case avCurPlusW, avCurMinusWid:
		return fmt.Sprintf("a%d(%s|%s)", a.kind, a.snap, a.snap2)
	case avFunc:
		s := "f" + a.fn.Name()
		for _, b := range a.binds {
			s += "," + b.sig()
		}
		return s
	case avRow:
		return fmt.Sprintf("row%v%v", a.known, a.row)
	case avRowElem:
		return fmt.Sprintf("re%v", a.row)
	case avTuple:
		s := "t("
		for _, x := range a.sub {
			s += x.sig() + ";"
		}
		return s + ")"
	case avTok:
		return fmt.Sprintf("tok%v", a.eof)
	case avFieldPtr:
		return "fp" + a.field
	case avCell:
		return "c" + a.cell.Name()
	case avTablePtr:
		return fmt.Sprintf("tp%s[%d,%v]", a.table, a.k, a.known)
	}
	return fmt.Sprintf("k%d", a.kind)
}

type lexFinding struct {
	fn   *ssa.Function
	ins  ssa.Instruction
	kind string
	desc string
}

type lexEngine struct {
	c         *Ctx
	jp        *ssa.Package
	lexerT    *types.Named
	fields    []string // field names of lexer by index
	sym1      map[int64]int64
	sym2      map[int64][]rowEnt
	atom      int64 // the known first rune (or -1 for eof)
	memo      map[string][]lexOutcome
	busy      map[string]bool
	findings  map[string]lexFinding
	undecided map[string]string
	steps     int
	eofFn     *ssa.Function
	stack     []string
}

type lexOutcome struct {
	st  lexState
	ret av
}

func newLexEngine(c *Ctx, r *Result) *lexEngine {
	e := &lexEngine{c: c, jp: c.W.LibSSA["jparse"], sym1: map[int64]int64{}, sym2: map[int64][]rowEnt{}, findings: map[string]lexFinding{}, undecided: map[string]string{}}
	tn, _ := e.jp.Pkg.Scope().Lookup("lexer").(*types.TypeName)
	if tn == nil {
		r.LoseAnchor("LEX: type lexer not found")
		return nil
	}
	e.lexerT = tn.Type().(*types.Named)
	st := e.lexerT.Underlying().(*types.Struct)
	for i := 0; i < st.NumFields(); i++ {
		e.fields = append(e.fields, st.Field(i).Name())
	}
	// the fields are known by the role they play, not by their names: e.fields[i] is the role of
	// field i (input, length, start, current, width, err) wherever it can be inferred
	e.inferFieldRoles(c, st)
	need := map[string]bool{"current": false, "width": false, "start": false, "err": false, "length": false, "input": false}
	for _, f := range e.fields {
		if _, ok := need[f]; ok {
			need[f] = true
		}
	}
	for f, ok := range need {
		if !ok {
			r.LoseAnchor("LEX: lexer has no field %s", f)
			return nil
		}
	}
	pt := &prattTables{pkg: c.W.Lib["jparse"], tokName: map[string]string{}, lexTok: map[string]string{}, tokLex: map[string]string{}}
	sub := NewResult("x")
	if !pt.extractSymbols(c, sub) || len(sub.Lost) > 0 {
		r.LoseAnchor("LEX: symbol tables could not be extracted")
		return nil
	}
	for lx, tok := range pt.lexTok {
		rs := []rune(lx)
		var tv int64
		fmt.Sscan(tok, &tv)
		if lx == "and" || lx == "or" || lx == "in" {
			continue
		}
		switch len(rs) {
		case 1:
			e.sym1[int64(rs[0])] = tv
		case 2:
			e.sym2[int64(rs[0])] = append(e.sym2[int64(rs[0])], rowEnt{int64(rs[1]), tv})
		}
	}
	e.eofFn = c.W.Fn("jparse.(*lexer).eof")
	return e
}

// inferFieldRoles names the lexer's fields by what is done to them: the string is the input; the
// *Error is err; the int that receives the width result of utf8.DecodeRune* is width; the int
// that is advanced or rewound by that width is current; the int set to len(input) is length; the
// remaining int, which receives copies of current, is start.
func (e *lexEngine) inferFieldRoles(c *Ctx, st *types.Struct) {
	role := map[int]string{}
	var ints []int
	for i := 0; i < st.NumFields(); i++ {
		t := st.Field(i).Type()
		switch {
		case isStringType(t):
			role[i] = "input"
		case isSignedInt(t):
			ints = append(ints, i)
		default:
			if p, ok := t.(*types.Pointer); ok && isNamed(p.Elem(), "jparse", "Error") {
				role[i] = "err"
			}
		}
	}
	isLexerField := func(v ssa.Value) (int, bool) {
		fa, ok := v.(*ssa.FieldAddr)
		if !ok {
			return 0, false
		}
		pt, ok := fa.X.Type().Underlying().(*types.Pointer)
		if !ok || !types.Identical(pt.Elem(), e.lexerT) {
			return 0, false
		}
		return fa.Field, true
	}
	isDecodeWidth := func(v ssa.Value) bool {
		ex, ok := v.(*ssa.Extract)
		if !ok || ex.Index != 1 {
			return false
		}
		call, ok := ex.Tuple.(*ssa.Call)
		return ok && strings.HasPrefix(staticName(call), "unicode/utf8.Decode")
	}
	widthField := -1
	for _, f := range c.G.Funcs {
		if f.Pkg == nil || f.Pkg.Pkg.Name() != "jparse" {
			continue
		}
		for _, ins := range instrsIn(f) {
			stt, ok := ins.(*ssa.Store)
			if !ok {
				continue
			}
			fi, ok := isLexerField(stt.Addr)
			if !ok {
				continue
			}
			if isDecodeWidth(stt.Val) {
				widthField = fi
			}
			if call, isCall := stt.Val.(*ssa.Call); isCall {
				if bi, isB := call.Call.Value.(*ssa.Builtin); isB && bi.Name() == "len" {
					role[fi] = "length"
				}
			}
		}
	}
	if widthField >= 0 {
		role[widthField] = "width"
	}
	// current: stored with (load of itself) +/- (decode width or load of the width field)
	for _, f := range c.G.Funcs {
		if f.Pkg == nil || f.Pkg.Pkg.Name() != "jparse" {
			continue
		}
		for _, ins := range instrsIn(f) {
			stt, ok := ins.(*ssa.Store)
			if !ok {
				continue
			}
			fi, ok := isLexerField(stt.Addr)
			if !ok || role[fi] != "" {
				continue
			}
			bo, ok := stt.Val.(*ssa.BinOp)
			if !ok || (bo.Op != token.ADD && bo.Op != token.SUB) {
				continue
			}
			ld, ok := bo.X.(*ssa.UnOp)
			if !ok || ld.Op != token.MUL {
				continue
			}
			if f2, ok := isLexerField(ld.X); !ok || f2 != fi {
				continue
			}
			w := bo.Y
			okW := isDecodeWidth(w)
			if ld2, isLd := w.(*ssa.UnOp); isLd && ld2.Op == token.MUL {
				if f3, ok := isLexerField(ld2.X); ok && f3 == widthField {
					okW = true
				}
			}
			if okW {
				role[fi] = "current"
			}
		}
	}
	// length may also be set in a composite literal of the lexer value (newLexer returns one)
	for _, i := range ints {
		if role[i] == "" {
			continue
		}
	}
	var rest []int
	for _, i := range ints {
		if role[i] == "" {
			rest = append(rest, i)
		}
	}
	// of the remaining ints, the one never stored outside a constructor literal with len() is length
	if len(rest) == 2 {
		// length is only ever read in methods; start is stored in methods
		stored := map[int]bool{}
		for _, f := range c.G.Funcs {
			if f.Pkg == nil || f.Pkg.Pkg.Name() != "jparse" || f.Signature.Recv() == nil {
				continue
			}
			for _, ins := range instrsIn(f) {
				if stt, ok := ins.(*ssa.Store); ok {
					if fi, ok := isLexerField(stt.Addr); ok {
						stored[fi] = true
					}
				}
			}
		}
		for _, i := range rest {
			if stored[i] {
				role[i] = "start"
			} else {
				role[i] = "length"
			}
		}
	} else if len(rest) == 1 {
		role[rest[0]] = "start"
	}
	for i, r := range role {
		if r != "" {
			e.fields[i] = r
		}
	}
	if os.Getenv("LEX_ROLES") != "" {
		for i := 0; i < st.NumFields(); i++ {
			fmt.Printf("LEX_ROLES: field %s -> %q\n", st.Field(i).Name(), role[i])
		}
	}
}

// atoms: one representative rune per cell of the partition induced by all rune constants.
func (e *lexEngine) atoms() []int64 {
	consts := map[int64]bool{}
	for k := range e.sym1 {
		consts[k] = true
	}
	for k, row := range e.sym2 {
		consts[k] = true
		for _, x := range row {
			consts[x.r] = true
		}
	}
	for _, m := range e.jp.Members {
		f, ok := m.(*ssa.Function)
		if !ok {
			continue
		}
		fs := append([]*ssa.Function{f}, f.AnonFuncs...)
		for _, g := range fs {
			for _, b := range g.Blocks {
				for _, ins := range b.Instrs {
					for _, op := range ins.Operands(nil) {
						if k, ok := (*op).(*ssa.Const); ok && k.Value != nil && k.Value.Kind() == constant.Int {
							if bt, ok := k.Type().Underlying().(*types.Basic); ok && bt.Kind() == types.Int32 {
								v, _ := constant.Int64Val(k.Value)
								consts[v] = true
							}
						}
					}
				}
			}
		}
	}
	// methods of lexer
	ms := e.c.W.Prog.MethodSets.MethodSet(types.NewPointer(e.lexerT))
	for i := 0; i < ms.Len(); i++ {
		if g := e.c.W.Prog.MethodValue(ms.At(i)); g != nil {
			fs := append([]*ssa.Function{g}, g.AnonFuncs...)
			for _, h := range fs {
				for _, b := range h.Blocks {
					for _, ins := range b.Instrs {
						for _, op := range ins.Operands(nil) {
							if k, ok := (*op).(*ssa.Const); ok && k.Value != nil && k.Value.Kind() == constant.Int {
								if bt, ok := k.Type().Underlying().(*types.Basic); ok && bt.Kind() == types.Int32 {
									v, _ := constant.Int64Val(k.Value)
									consts[v] = true
								}
							}
						}
					}
				}
			}
		}
	}
	var cs []int64
	for k := range consts {
		if k >= 0 && k <= 0x10FFFF {
			cs = append(cs, k)
		}
	}
	sort.Slice(cs, func(i, j int) bool { return cs[i] < cs[j] })
	out := []int64{-1}
	prev := int64(-1)
	for _, k := range cs {
		if k-prev > 1 {
			out = append(out, prev+1) // a rune strictly between two constants
		}
		out = append(out, k)
		prev = k
	}
	out = append(out, prev+1, 0x4E00, 0x1F600) // above every constant: a BMP and an astral rune
	return out
}

func known(k int64) av { return av{kind: avInt, k: k} }
func boolAV(b bool) av {
	if b {
		return av{kind: avBool, k: 1}
	}
	return av{kind: avBool, k: 0}
}

type lexCfg struct {
	dead      bool
	blk, prev *ssa.BasicBlock
	st        lexState
	env       map[ssa.Value]av
	cells     map[*ssa.Alloc]av
}

func cloneEnv(m map[ssa.Value]av) map[ssa.Value]av {
	n := make(map[ssa.Value]av, len(m)+8)
	for k, v := range m {
		n[k] = v
	}
	return n
}
func cloneCells(m map[*ssa.Alloc]av) map[*ssa.Alloc]av {
	n := make(map[*ssa.Alloc]av, len(m)+2)
	for k, v := range m {
		n[k] = v
	}
	return n
}

func envSig(cfg *lexCfg) string {
	var parts []string
	for k, v := range cfg.env {
		if v.kind == avUnknown || v.kind == avOpaque {
			continue
		}
		parts = append(parts, k.Name()+"="+v.sig())
	}
	for k, v := range cfg.cells {
		parts = append(parts, "c"+k.Name()+"="+v.sig())
	}
	sort.Strings(parts)
	return strings.Join(parts, ",")
}

func (e *lexEngine) note(f *ssa.Function, ins ssa.Instruction, kind, desc string) {
	key := kind + "@" + shortFn(f) + "@" + e.c.W.Pos(ins.Pos())
	if _, ok := e.findings[key]; !ok {
		desc += fmt.Sprintf(" [first reached with next rune %s via %s]", atomName(e.atom), strings.Join(e.stack, " -> "))
		e.findings[key] = lexFinding{f, ins, kind, desc}
	}
}

// run interprets fn from the given state; returns the possible outcomes.
func (e *lexEngine) run(fn *ssa.Function, st lexState, args []av, binds []av) []lexOutcome {
	key := shortFn(fn) + "|" + st.String()
	for _, a := range args {
		key += "|" + a.sig()
	}
	for _, b := range binds {
		key += "|fv" + b.sig()
	}
	if out, ok := e.memo[key]; ok {
		return out
	}
	if e.busy[key] {
		return nil // recursion: none expected in the lexer
	}
	e.busy[key] = true
	defer delete(e.busy, key)
	e.stack = append(e.stack, fn.Name())
	defer func() { e.stack = e.stack[:len(e.stack)-1] }()
	var outs []lexOutcome
	seenOut := map[string]bool{}
	env0 := map[ssa.Value]av{}
	for i, p := range fn.Params {
		if i < len(args) {
			env0[p] = args[i]
		}
	}
	for i, fv := range fn.FreeVars {
		if i < len(binds) {
			env0[fv] = binds[i]
		}
	}
	work := []*lexCfg{{blk: fn.Blocks[0], st: st, env: env0, cells: map[*ssa.Alloc]av{}}}
	visited := map[string]bool{}
	for len(work) > 0 {
		cfg := work[len(work)-1]
		work = work[:len(work)-1]
		prevIdx := -1
		if cfg.prev != nil {
			prevIdx = cfg.prev.Index
		}
		vk := fmt.Sprintf("%d<%d|%s|%s", cfg.blk.Index, prevIdx, cfg.st, envSig(cfg))
		if visited[vk] {
			continue
		}
		visited[vk] = true
		e.steps++
		if lexProfile != nil {
			lexProfile[shortFn(fn)]++
		}
		if e.steps > 2000000 {
			e.undecided["budget"] = "abstract interpretation of the lexer exceeded its step budget"
			break
		}
		// execute the block; calls may fork the configuration
		cur := []*lexCfg{cfg}
		for idx, ins := range cfg.blk.Instrs {
			_ = idx
			var next []*lexCfg
			for _, c0 := range cur {
				next = append(next, e.step(fn, c0, ins, &outs, seenOut)...)
			}
			cur = next
			if len(cur) == 0 {
				break
			}
		}
		for _, c0 := range cur {
			work = append(work, c0)
		}
	}
	e.memo[key] = outs
	if t := os.Getenv("LEX_TRACE"); t != "" && t == atomName(e.atom) {
		var os_ []string
		for _, o := range outs {
			os_ = append(os_, o.st.String()+"/"+o.ret.sig())
		}
		fmt.Printf("LEX_TRACE %s%s -> %v\n", strings.Repeat("  ", len(e.stack)), key, os_)
	}
	return outs
}

func (e *lexEngine) val(cfg *lexCfg, v ssa.Value) av {
	switch x := v.(type) {
	case *ssa.Const:
		if x.Value == nil {
			if isErrorType(x.Type()) {
				return av{kind: avErrNil}
			}
			if sl, ok := x.Type().Underlying().(*types.Slice); ok && isNamed(sl.Elem(), "jparse", "runeTokenType") {
				return av{kind: avRow, known: true}
			}
			return av{kind: avOpaque}
		}
		switch x.Value.Kind() {
		case constant.Int:
			k, _ := constant.Int64Val(x.Value)
			return known(k)
		case constant.Bool:
			return boolAV(constant.BoolVal(x.Value))
		}
		return av{kind: avOpaque}
	case *ssa.Function:
		return av{kind: avFunc, fn: x}
	case *ssa.Global:
		return av{kind: avTablePtr, table: x.Name(), known: false, k: -2}
	}
	if a, ok := cfg.env[v]; ok {
		return a
	}
	return av{kind: avUnknown}
}

// step executes one instruction; returns the continuing configurations (same block), or for a
// terminator the successor configurations are appended through the returned slice with blk changed.
func (e *lexEngine) step(fn *ssa.Function, cfg *lexCfg, ins ssa.Instruction, outs *[]lexOutcome, seenOut map[string]bool) []*lexCfg {
	set := func(v ssa.Value, a av) { cfg.env[v] = a }
	switch x := ins.(type) {
	case *ssa.DebugRef:
		return []*lexCfg{cfg}
	case *ssa.Phi:
		for i, p := range cfg.blk.Preds {
			if p == cfg.prev {
				a := e.val(cfg, x.Edges[i])
				if a.kind == avInt && isIntType(x.Type()) && !isRuneType(x.Type()) && (a.k > 3 || a.k < -3) {
					a = av{kind: avUnknown} // widening of loop counters
				}
				set(x, a)
			}
		}
		return []*lexCfg{cfg}
	case *ssa.Alloc:
		set(x, av{kind: avCell, cell: x})
		return []*lexCfg{cfg}
	case *ssa.FieldAddr:
		base := e.val(cfg, x.X)
		switch base.kind {
		case avRecv:
			set(x, av{kind: avFieldPtr, field: e.fields[x.Field]})
		case avFieldPtr:
			// &l.lexer.x through an embedded struct: not used by the lexer
			set(x, av{kind: avOpaque})
		case avTablePtr:
			// &row[i].r
			set(x, av{kind: avOpaque})
		case avCell:
			// a field of a local copy of a table entry (rt := symbols2[r]; rt.tt)
			if cv, ok := cfg.cells[base.cell]; ok && cv.kind == avRowElem {
				if st, ok := x.X.Type().Underlying().(*types.Pointer).Elem().Underlying().(*types.Struct); ok {
					set(x, av{kind: avRowFieldPtr, row: cv.row, known: cv.known, table: st.Field(x.Field).Name()})
					return []*lexCfg{cfg}
				}
			}
			set(x, av{kind: avOpaque})
		default:
			set(x, av{kind: avOpaque})
		}
		return []*lexCfg{cfg}
	case *ssa.IndexAddr:
		base := e.val(cfg, x.X)
		idx := e.val(cfg, x.Index)
		switch {
		case base.kind == avTablePtr && base.k == -2:
			if idx.kind == avInt {
				set(x, av{kind: avTablePtr, table: base.table, k: idx.k, known: true})
			} else {
				set(x, av{kind: avTablePtr, table: base.table, known: false, k: -1})
			}
		case base.kind == avRow:
			if base.known && idx.kind == avInt && idx.k >= 0 && int(idx.k) < len(base.row) {
				set(x, av{kind: avRowElem, row: []rowEnt{base.row[idx.k]}, known: true})
			} else {
				set(x, av{kind: avRowElem, known: false})
			}
		default:
			set(x, av{kind: avOpaque})
		}
		return []*lexCfg{cfg}
	case *ssa.Field:
		base := e.val(cfg, x.X)
		if base.kind == avRowElem {
			st := x.X.Type().Underlying().(*types.Struct)
			name := st.Field(x.Field).Name()
			if base.known {
				if name == "r" {
					set(x, known(base.row[0].r))
				} else {
					set(x, known(base.row[0].tt))
				}
			} else {
				set(x, av{kind: avUnknown})
			}
			return []*lexCfg{cfg}
		}
		set(x, av{kind: avOpaque})
		return []*lexCfg{cfg}
	case *ssa.UnOp:
		switch x.Op {
		case token.MUL:
			p := e.val(cfg, x.X)
			if _, isFV := x.X.(*ssa.FreeVar); isFV {
				// captured variable: the binding already holds the variable's value
				set(x, p)
				return []*lexCfg{cfg}
			}
			switch p.kind {
			case avFieldPtr:
				switch p.field {
				case "current":
					set(x, av{kind: avCur, snap: cfg.st})
				case "width":
					set(x, av{kind: avWid, snap: cfg.st})
				case "length":
					set(x, av{kind: avLen})
				case "err":
					if cfg.st.err {
						set(x, av{kind: avOpaque, k: 1})
					} else {
						set(x, av{kind: avErrNil})
					}
				default:
					set(x, av{kind: avOpaque})
				}
			case avCell:
				if a, ok := cfg.cells[p.cell]; ok {
					set(x, a)
				} else {
					set(x, av{kind: avUnknown})
				}
			case avTablePtr:
				switch p.table {
				case "symbols1":
					if p.known {
						set(x, known(e.sym1[p.k]))
					} else {
						set(x, av{kind: avUnknown})
					}
				case "symbols2":
					if _, isStruct := x.Type().Underlying().(*types.Struct); isStruct {
						// the table holds one (second rune, token) pair per first rune, the zero
						// pair where there is none
						switch {
						case !p.known:
							set(x, av{kind: avRowElem, known: false})
						case len(e.sym2[p.k]) == 0:
							set(x, av{kind: avRowElem, row: []rowEnt{{0, 0}}, known: true})
						default:
							set(x, av{kind: avRowElem, row: e.sym2[p.k][:1], known: true})
						}
						break
					}
					if p.known {
						set(x, av{kind: avRow, row: e.sym2[p.k], known: true})
					} else {
						set(x, av{kind: avRow, known: false})
					}
				default:
					set(x, av{kind: avOpaque})
				}
			case avRowElem:
				set(x, p)
			case avRowFieldPtr:
				switch {
				case !p.known || len(p.row) == 0:
					set(x, av{kind: avUnknown})
				case p.table == "r":
					set(x, known(p.row[0].r))
				default:
					set(x, known(p.row[0].tt))
				}
			default:
				set(x, av{kind: avUnknown})
			}
		case token.NOT:
			a := e.val(cfg, x.X)
			if a.kind == avBool {
				set(x, boolAV(a.k == 0))
			} else {
				set(x, av{kind: avUnknown})
			}
		case token.SUB:
			a := e.val(cfg, x.X)
			if a.kind == avInt {
				set(x, known(-a.k))
			} else {
				set(x, av{kind: avUnknown})
			}
		default:
			set(x, av{kind: avUnknown})
		}
		return []*lexCfg{cfg}
	case *ssa.BinOp:
		set(x, e.binop(cfg, x))
		return []*lexCfg{cfg}
	case *ssa.Slice:
		base := e.val(cfg, x.X)
		if x.Low != nil {
			lo := e.val(cfg, x.Low)
			if lo.kind == avCur {
				set(x, av{kind: avStrAt, snap: lo.snap})
				return []*lexCfg{cfg}
			}
		}
		if base.kind == avRow {
			set(x, base)
		} else {
			set(x, av{kind: avOpaque})
		}
		return []*lexCfg{cfg}
	case *ssa.Extract:
		t := e.val(cfg, x.Tuple)
		if t.kind == avTuple && x.Index < len(t.sub) {
			set(x, t.sub[x.Index])
		} else {
			set(x, av{kind: avUnknown})
		}
		return []*lexCfg{cfg}
	case *ssa.MakeClosure:
		f := x.Fn.(*ssa.Function)
		a := av{kind: avFunc, fn: f}
		for _, b := range x.Bindings {
			bv := e.val(cfg, b)
			if bv.kind == avCell {
				if cv, ok := cfg.cells[bv.cell]; ok {
					a.binds = append(a.binds, cv)
				} else {
					a.binds = append(a.binds, av{kind: avUnknown})
				}
			} else {
				a.binds = append(a.binds, bv)
			}
		}
		set(x, a)
		return []*lexCfg{cfg}
	case *ssa.Convert, *ssa.ChangeType, *ssa.MakeInterface, *ssa.ChangeInterface, *ssa.TypeAssert, *ssa.Lookup, *ssa.Range, *ssa.Next, *ssa.MakeSlice, *ssa.MakeMap, *ssa.Index:
		if v, ok := ins.(ssa.Value); ok {
			if cv, isC := ins.(*ssa.Convert); isC {
				a := e.val(cfg, cv.X)
				if a.kind == avInt {
					set(v, a)
					return []*lexCfg{cfg}
				}
			}
			if ct, isC := ins.(*ssa.ChangeType); isC {
				set(v, e.val(cfg, ct.X))
				return []*lexCfg{cfg}
			}
			set(v, av{kind: avOpaque})
		}
		return []*lexCfg{cfg}
	case *ssa.Store:
		e.store(fn, cfg, x)
		if cfg.dead {
			return nil
		}
		return []*lexCfg{cfg}
	case *ssa.MapUpdate:
		return []*lexCfg{cfg}
	case *ssa.Call:
		return e.call(fn, cfg, x)
	case *ssa.Jump:
		n := &lexCfg{blk: cfg.blk.Succs[0], prev: cfg.blk, st: cfg.st, env: cfg.env, cells: cfg.cells}
		return e.enter(n)
	case *ssa.If:
		c := e.val(cfg, x.Cond)
		var out []*lexCfg
		if c.kind != avBool || c.k == 1 {
			out = append(out, e.enter(&lexCfg{blk: cfg.blk.Succs[0], prev: cfg.blk, st: cfg.st, env: cloneEnv(cfg.env), cells: cloneCells(cfg.cells)})...)
		}
		if c.kind != avBool || c.k == 0 {
			out = append(out, e.enter(&lexCfg{blk: cfg.blk.Succs[1], prev: cfg.blk, st: cfg.st, env: cloneEnv(cfg.env), cells: cloneCells(cfg.cells)})...)
		}
		return out
	case *ssa.Return:
		st := cfg.st
		if st.ts == tsP {
			st.ts = tsC
		}
		var ret av
		switch len(x.Results) {
		case 0:
			ret = av{kind: avOpaque}
		case 1:
			ret = e.val(cfg, x.Results[0])
		default:
			ret = av{kind: avTuple}
			for _, rv := range x.Results {
				ret.sub = append(ret.sub, e.val(cfg, rv))
			}
		}
		k := st.String() + "|" + ret.sig()
		if !seenOut[k] {
			seenOut[k] = true
			*outs = append(*outs, lexOutcome{st, ret})
		}
		return nil
	case *ssa.Panic:
		return nil
	}
	if v, ok := ins.(ssa.Value); ok {
		set(v, av{kind: avUnknown})
	}
	return []*lexCfg{cfg}
}

// enter marks the transition into a new block: the configuration is returned with a marker so
// that the driver re-queues it (the block of the configuration differs from the executing one).
func (e *lexEngine) enter(n *lexCfg) []*lexCfg { return []*lexCfg{n} }

func (e *lexEngine) binop(cfg *lexCfg, x *ssa.BinOp) av {
	a, b := e.val(cfg, x.X), e.val(cfg, x.Y)
	if a.kind == avInt && b.kind == avInt {
		switch x.Op {
		case token.EQL:
			return boolAV(a.k == b.k)
		case token.NEQ:
			return boolAV(a.k != b.k)
		case token.LSS:
			return boolAV(a.k < b.k)
		case token.LEQ:
			return boolAV(a.k <= b.k)
		case token.GTR:
			return boolAV(a.k > b.k)
		case token.GEQ:
			return boolAV(a.k >= b.k)
		case token.ADD:
			return known(a.k + b.k)
		case token.SUB:
			return known(a.k - b.k)
		}
		return av{kind: avUnknown}
	}
	if a.kind == avBool && b.kind == avBool {
		switch x.Op {
		case token.EQL:
			return boolAV(a.k == b.k)
		case token.NEQ:
			return boolAV(a.k != b.k)
		}
	}
	// nil comparisons
	if x.Op == token.NEQ || x.Op == token.EQL {
		isNil := func(v av, sv ssa.Value) (bool, bool) {
			if k, ok := sv.(*ssa.Const); ok && k.IsNil() {
				return true, true
			}
			switch v.kind {
			case avErrNil:
				return true, true
			case avRow:
				if v.known {
					return len(v.row) == 0, true
				}
			case avOpaque:
				if v.k == 1 {
					return false, true
				}
			}
			return false, false
		}
		an, aok := isNil(a, x.X)
		bn, bok := isNil(b, x.Y)
		if aok && bok {
			return boolAV((an == bn) == (x.Op == token.EQL))
		}
	}
	switch {
	case a.kind == avCur && b.kind == avLen && x.Op == token.GEQ:
		// current >= length: at pos 0 this is "the first rune is eof"
		if a.snap.pos == 0 {
			return boolAV(e.atom == -1)
		}
		return av{kind: avUnknown}
	case a.kind == avCur && b.kind == avDecW && x.Op == token.ADD:
		return av{kind: avCurPlusW, snap: a.snap}
	case a.kind == avCur && b.kind == avWid && x.Op == token.SUB:
		return av{kind: avCurMinusWid, snap: a.snap, snap2: b.snap}
	}
	return av{kind: avUnknown}
}

func (e *lexEngine) store(fn *ssa.Function, cfg *lexCfg, x *ssa.Store) {
	p := e.val(cfg, x.Addr)
	v := e.val(cfg, x.Val)
	switch p.kind {
	case avCell:
		cfg.cells[p.cell] = v
	case avFieldPtr:
		switch p.field {
		case "width":
			switch {
			case v.kind == avInt && v.k == 0:
				cfg.st.ts = tsZ
			case v.kind == avDecW:
				cfg.st.ts = tsP
			case v.kind == avWid:
				// restoring a saved width: valid only together with the saved position
				if v.snap.pos == cfg.st.pos {
					cfg.st.ts = v.snap.ts
				} else {
					cfg.st.ts = tsC
				}
			default:
				e.undecided["store-width@"+shortFn(fn)] = "unrecognised assignment to lexer.width in " + shortFn(fn)
				cfg.st.ts = tsC
			}
		case "current":
			switch v.kind {
			case avCurPlusW:
				if cfg.st.pos < 2 {
					cfg.st.pos++
				}
				if cfg.st.ts == tsP {
					cfg.st.ts = tsR
				} else if cfg.st.ts == tsR {
					cfg.st.ts = tsC
				}
			case avCurMinusWid:
				// rewind
				switch cfg.st.ts {
				case tsR:
					if cfg.st.pos == 2 {
						// could be exactly 2 or more: both 1 and 2 are possible; keep the smaller (worst case for progress)
						cfg.st.pos = 1
					} else if cfg.st.pos > 0 {
						cfg.st.pos--
					} else {
						e.note(fn, x, "double-backup", "the cursor is moved back although nothing has been read since the start of the token: it lands before the token")
						cfg.dead = true
					}
					cfg.st.ts = tsC
				case tsZ:
					// current -= 0
				default:
					e.note(fn, x, "double-backup", "the cursor is moved back by lexer.width although width no longer holds the width of the rune before the cursor (a second backup after a failed look-ahead): the cursor lands inside or before the previous rune")
					cfg.dead = true // the cursor is corrupted from here on: this path is reported, not followed
				}
			case avCur:
				// restore a saved position
				// after a read, width belongs to the rune just read; moving the cursor back without
				// restoring width leaves it stale. At the saturated position (2 = "two or more")
				// equal abstract positions do not imply equal cursors, so the move is assumed.
				if (cfg.st.pos != v.snap.pos || cfg.st.pos == 2) && cfg.st.ts == tsR {
					cfg.st.ts = tsC
				}
				cfg.st.pos = v.snap.pos
			default:
				e.undecided["store-current@"+shortFn(fn)] = "unrecognised assignment to lexer.current in " + shortFn(fn)
			}
		case "err":
			cfg.st.err = true
		case "start":
			// MARK
		}
	}
}

func (e *lexEngine) isLexerMethod(f *ssa.Function) bool {
	if f == nil || f.Signature.Recv() == nil {
		return false
	}
	t := f.Signature.Recv().Type()
	if p, ok := t.(*types.Pointer); ok {
		t = p.Elem()
	}
	return types.Identical(t, e.lexerT)
}

func (e *lexEngine) call(fn *ssa.Function, cfg *lexCfg, x *ssa.Call) []*lexCfg {
	cc := x.Common()
	set := func(c *lexCfg, a av) { c.env[x] = a }
	if b, ok := cc.Value.(*ssa.Builtin); ok {
		if b.Name() == "len" {
			a := e.val(cfg, cc.Args[0])
			if a.kind == avRow && a.known {
				set(cfg, known(int64(len(a.row))))
				return []*lexCfg{cfg}
			}
		}
		set(cfg, av{kind: avUnknown})
		return []*lexCfg{cfg}
	}
	var callee *ssa.Function
	var binds []av
	if sc := cc.StaticCallee(); sc != nil {
		callee = sc
	} else if !cc.IsInvoke() {
		fv := e.val(cfg, cc.Value)
		if fv.kind == avFunc {
			callee = fv.fn
			binds = fv.binds
		}
	}
	if callee == nil {
		set(cfg, av{kind: avUnknown})
		return []*lexCfg{cfg}
	}
	if mc, ok := cc.Value.(*ssa.MakeClosure); ok {
		fv := e.val(cfg, mc)
		binds = fv.binds
	}
	if calleePkgPath(callee) == "unicode/utf8" && strings.HasPrefix(callee.Name(), "DecodeRune") {
		s := e.val(cfg, cc.Args[0])
		r := av{kind: avUnknown}
		if s.kind == avStrAt && s.snap.pos == 0 && e.atom >= 0 {
			r = known(e.atom)
		}
		set(cfg, av{kind: avTuple, sub: []av{r, {kind: avDecW}}})
		return []*lexCfg{cfg}
	}
	if fnPkg(callee) != e.jp.Pkg || len(callee.Blocks) == 0 {
		set(cfg, av{kind: avOpaque})
		return []*lexCfg{cfg}
	}
	var args []av
	for _, a := range cc.Args {
		args = append(args, e.val(cfg, a))
	}
	touches := e.isLexerMethod(callee)
	if !touches {
		// a pure helper (rune predicates, table lookups, error constructors): interpret it only if
		// it can influence control flow, i.e. returns bool / tokenType / a table row
		res := callee.Signature.Results()
		interesting := false
		for i := 0; i < res.Len(); i++ {
			switch t := res.At(i).Type().Underlying().(type) {
			case *types.Basic:
				if t.Info()&(types.IsBoolean|types.IsInteger) != 0 {
					interesting = true
				}
			case *types.Slice:
				if isNamed(t.Elem(), "jparse", "runeTokenType") {
					interesting = true
				}
			case *types.Struct:
				if isNamed(res.At(i).Type(), "jparse", "runeTokenType") {
					interesting = true
				}
			}
		}
		if !interesting {
			set(cfg, av{kind: avOpaque})
			return []*lexCfg{cfg}
		}
	}
	st := cfg.st
	if !touches {
		st = lexState{} // pure helpers do not depend on the cursor
	}
	outs := e.run(callee, st, args, binds)
	if len(outs) == 0 {
		// no return (panic on every path) or recursion cut: drop this path
		return nil
	}
	var next []*lexCfg
	for i, o := range outs {
		c2 := cfg
		if i < len(outs)-1 {
			c2 = &lexCfg{blk: cfg.blk, prev: cfg.prev, st: cfg.st, env: cloneEnv(cfg.env), cells: cloneCells(cfg.cells)}
		}
		if touches {
			c2.st = o.st
		}
		ret := o.ret
		if callee == e.eofFn {
			ret = av{kind: avTok, eof: true}
		} else if ret.kind != avTok && isNamed(x.Type(), "jparse", "token") {
			ret = av{kind: avTok}
		}
		c2.env[x] = ret
		next = append(next, c2)
	}
	return next
}

// analyse next for one atom / allowRegex / entry typestate; returns exit states.
var lexProfile map[string]int

type lexRun struct {
	atom       int64
	allowRegex bool
	entry      int
}

func atomName(a int64) string {
	if a == -1 {
		return "eof"
	}
	if a >= 33 && a < 127 {
		return fmt.Sprintf("%q", rune(a))
	}
	return fmt.Sprintf("U+%04X", a)
}

func runLEX(c *Ctx, r *Result, rule string) {
	e := newLexEngine(c, r)
	if e == nil {
		return
	}
	next := c.mustFn(r, "jparse.(*lexer).next")
	if next == nil {
		return
	}
	atoms := e.atoms()
	if os.Getenv("LEX_PROFILE") != "" {
		lexProfile = map[string]int{}
	}
	entrySet := map[int]bool{tsZ: true}
	type stuck struct {
		atom  int64
		allow bool
		st    lexState
	}
	var stucks []stuck
	runs := 0
	for iter := 0; iter < 5; iter++ {
		grew := false
		var entries []int
		for ts := range entrySet {
			entries = append(entries, ts)
		}
		sort.Ints(entries)
		for _, ts := range entries {
			for _, a := range atoms {
				for _, allow := range []bool{false, true} {
					e.atom = a
					e.memo = map[string][]lexOutcome{}
					e.busy = map[string]bool{}
					outs := e.run(next, lexState{pos: 0, ts: ts}, []av{{kind: avRecv}, boolAV(allow)}, nil)
					runs++
					for _, o := range outs {
						if !entrySet[o.st.ts] && !o.st.err {
							entrySet[o.st.ts] = true
							grew = true
						}
						if iter > 0 {
							continue
						}
						if o.st.err || (o.ret.kind == avTok && o.ret.eof) || a == -1 {
							// at the end of the input nothing can be consumed: the token returned
							// there is the end-of-input token (or an error), however it is built
							continue
						}
						if o.st.pos == 0 {
							stucks = append(stucks, stuck{a, allow, o.st})
						}
					}
					if len(outs) == 0 {
						e.undecided["no-outcome"] = fmt.Sprintf("lexer.next has no outcome for first rune %s", atomName(a))
					}
				}
			}
		}
		if !grew {
			break
		}
	}
	if os.Getenv("LEX_PROFILE") != "" {
		for k, v := range lexProfile {
			fmt.Printf("LEXPROF %8d %s\n", v, k)
		}
	}
	r.Count(rule+" first-rune classes", len(atoms))
	r.Count(rule+" abstract runs of lexer.next", runs)
	r.Count(rule+" abstract interpretation steps", e.steps)
	var es []string
	for ts := range entrySet {
		es = append(es, tsName[ts])
	}
	sort.Strings(es)
	r.Note("%s: entry width-typestates of lexer.next (fixpoint): %v", rule, es)

	// typestate obligations: every rewind site
	rewinds := 0
	ms := c.W.Prog.MethodSets.MethodSet(types.NewPointer(e.lexerT))
	for i := 0; i < ms.Len(); i++ {
		g := c.W.Prog.MethodValue(ms.At(i))
		if g == nil || g.Synthetic != "" {
			continue
		}
		ord := 0
		for _, ins := range instrsIn(g) {
			st, ok := ins.(*ssa.Store)
			if !ok {
				continue
			}
			fa, ok := st.Addr.(*ssa.FieldAddr)
			if !ok || e.fields[fa.Field] != "current" {
				continue
			}
			bo, ok := st.Val.(*ssa.BinOp)
			if !ok || bo.Op != token.SUB {
				continue
			}
			ord++
			rewinds++
			o := Obligation{Rule: rule, Key: fmt.Sprintf("%s:rewind#%d", shortFn(g), ord), Fn: shortFn(g), Pos: c.W.Pos(st.Pos()), Nontrivial: true}
			key := "double-backup@" + shortFn(g) + "@" + c.W.Pos(st.Pos())
			if f, bad := e.findings[key]; bad {
				o.Verdict, o.Reason = Finding, f.desc
			} else {
				o.Verdict, o.Reason = Discharged, fmt.Sprintf("in all %d abstract runs of next (every first-rune class x allowRegex x entry state, unknown runes afterwards) this rewind executes only in state R (width of the rune before the cursor) or Z (width 0)", runs)
			}
			r.Add(o)
		}
	}
	r.RequireMin(rule+" rewind sites (current -= width)", rewinds, 1)
	// progress obligations: one per first-rune class
	byAtom := map[int64][]stuck{}
	for _, s := range stucks {
		byAtom[s.atom] = append(byAtom[s.atom], s)
	}
	for _, a := range atoms {
		o := Obligation{Rule: rule, Key: "lexer.next:progress[" + atomName(a) + "]", Fn: "jparse.(*lexer).next", Pos: c.W.Pos(next.Pos()), Nontrivial: true}
		if ss := byAtom[a]; len(ss) > 0 {
			o.Verdict = Finding
			o.Reason = fmt.Sprintf("when the next rune is %s, next can return a token (not through eof() or error()) without having consumed a rune (allowRegex=%v, exit %s): the parser never reaches the end of input", atomName(a), ss[0].allow, ss[0].st)
		} else {
			o.Verdict = Discharged
			o.Reason = "first rune " + atomName(a) + ": every non-EOF, non-error token returned by next has consumed at least one rune"
		}
		r.Add(o)
	}
	var uk []string
	for k := range e.undecided {
		uk = append(uk, k)
	}
	sort.Strings(uk)
	for _, k := range uk {
		r.Add(Obligation{Rule: rule, Key: "undecided:" + k, Fn: "jparse.lexer", Pos: "jparse/lexer.go", Verdict: Undecided, Reason: e.undecided[k], Nontrivial: true})
	}
}

func isRuneType(t types.Type) bool {
	b, ok := t.Underlying().(*types.Basic)
	return ok && b.Kind() == types.Int32
}
