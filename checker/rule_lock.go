package main

import (
	"fmt"
	"go/token"
	"go/types"
	"sort"
	"strings"

	"golang.org/x/tools/go/ssa"
)

// ---------------------------------------------------------------------------------------
// LOCK — mutex discipline on run-time-mutable package variables (C06, C20)

const (
	lkNone = 0
	lkR    = 1
	lkW    = 2
)

func isInitFn(f *ssa.Function) bool {
	for f.Parent() != nil {
		f = f.Parent()
	}
	return f.Name() == "init" || strings.HasPrefix(f.Name(), "init#") || strings.HasPrefix(f.Synthetic, "package init")
}

// mutableGlobals: package variables of the library written outside package initialisers
// (directly, or through a map/pointer loaded straight from them).
func mutableGlobals(c *Ctx, g0 *MCG, scope PkgSet) map[*ssa.Global][]ssa.Instruction {
	out := map[*ssa.Global][]ssa.Instruction{}
	for _, f := range g0.Funcs {
		if !scope[fnPkg(f)] {
			continue
		}
		if isInitFn(f) || len(f.Blocks) == 0 {
			continue
		}
		for _, b := range f.Blocks {
			for _, ins := range b.Instrs {
				switch ins := ins.(type) {
				case *ssa.Store:
					if g, ok := ins.Addr.(*ssa.Global); ok && scope[g.Pkg.Pkg] {
						out[g] = append(out[g], ins)
					}
					if g := globalBase(ins.Addr); g != nil && scope[g.Pkg.Pkg] {
						out[g] = append(out[g], ins)
					}
				case *ssa.MapUpdate:
					if g := globalBase(ins.Map); g != nil && scope[g.Pkg.Pkg] {
						out[g] = append(out[g], ins)
					}
				case ssa.CallInstruction:
					// the address of the variable handed to a library function: the callee may write through it
					for _, g := range globalsHandedOut(ins, scope) {
						out[g] = append(out[g], ins)
					}
				}
			}
		}
	}
	return out
}

// globalsHandedOut: package variables (other than mutexes) whose address is an argument of a
// call to a function of the library. The call counts as a write of the variable.
func globalsHandedOut(ci ssa.CallInstruction, scope PkgSet) []*ssa.Global {
	callee := ci.Common().StaticCallee()
	if callee != nil && (callee.Pkg == nil || !scope[callee.Pkg.Pkg]) {
		return nil
	}
	var out []*ssa.Global
	for _, a := range ci.Common().Args {
		g, ok := a.(*ssa.Global)
		if !ok || g.Pkg == nil || !scope[g.Pkg.Pkg] {
			continue
		}
		if isMutexType(g.Type().Underlying().(*types.Pointer).Elem()) {
			continue
		}
		out = append(out, g)
	}
	return out
}

// paramGlobal: v is (a load of) a pointer parameter p, and every call site of p's function among
// the functions accepted by inReach passes the address of one and the same package variable.
func paramGlobal(c *Ctx, v ssa.Value, inReach func(*ssa.Function) bool) *ssa.Global {
	if u, ok := v.(*ssa.UnOp); ok {
		v = u.X
	}
	p, ok := v.(*ssa.Parameter)
	if !ok {
		return nil
	}
	f := p.Parent()
	idx := -1
	for i, q := range f.Params {
		if q == p {
			idx = i
		}
	}
	sites, static := c.staticCallers(f)
	if idx < 0 || !static {
		return nil
	}
	var g *ssa.Global
	for _, s := range sites {
		if !inReach(s.Parent()) {
			continue
		}
		args := s.Common().Args
		if idx >= len(args) {
			return nil
		}
		ag, ok := args[idx].(*ssa.Global)
		if !ok || (g != nil && ag != g) {
			return nil
		}
		g = ag
	}
	return g
}

// globalBase: the value is (a field/element address inside) something loaded directly from a global.
func globalBase(v ssa.Value) *ssa.Global {
	for depth := 0; depth < 6; depth++ {
		switch x := v.(type) {
		case *ssa.UnOp:
			if g, ok := x.X.(*ssa.Global); ok {
				return g
			}
			return nil
		case *ssa.FieldAddr:
			if g, ok := x.X.(*ssa.Global); ok {
				return g
			}
			v = x.X
		case *ssa.IndexAddr:
			if g, ok := x.X.(*ssa.Global); ok {
				return g
			}
			v = x.X
		default:
			return nil
		}
	}
	return nil
}

func isMutexType(t types.Type) bool {
	return isNamed(t, "sync", "RWMutex") || isNamed(t, "sync", "Mutex")
}

// lockStates: per instruction, the must-held state of mutex mu (forward, meet = min).
func lockStates(f *ssa.Function, mu *ssa.Global) (map[ssa.Instruction]int, bool) {
	in := map[*ssa.BasicBlock]int{}
	for _, b := range f.Blocks {
		in[b] = -1 // unvisited (top)
	}
	in[f.Blocks[0]] = lkNone
	states := map[ssa.Instruction]int{}
	deferredUnlock := false
	effect := func(ins ssa.Instruction, st int) int {
		ci, ok := ins.(ssa.CallInstruction)
		if !ok {
			return st
		}
		callee := ci.Common().StaticCallee()
		if callee == nil || len(ci.Common().Args) == 0 || ci.Common().Args[0] != ssa.Value(mu) || !isMutexType(recvType(callee)) {
			return st
		}
		_, isDefer := ins.(*ssa.Defer)
		switch callee.Name() {
		case "Lock":
			return lkW
		case "RLock":
			return lkR
		case "Unlock", "RUnlock":
			if isDefer {
				deferredUnlock = true
				return st
			}
			return lkNone
		}
		return st
	}
	changed := true
	for iter := 0; changed && iter < 100; iter++ {
		changed = false
		for _, b := range f.Blocks {
			st := in[b]
			if st < 0 {
				continue
			}
			for _, ins := range b.Instrs {
				states[ins] = st
				st = effect(ins, st)
			}
			for _, s := range b.Succs {
				n := st
				if in[s] >= 0 && in[s] < n {
					n = in[s]
				}
				if in[s] != n {
					in[s] = n
					changed = true
				}
			}
		}
	}
	return states, deferredUnlock
}

func runLOCK(c *Ctx, r *Result, rule string) {
	runLOCKIn(c, r, rule, c.G, c.Lib, srcFuncsIn(c.REval), true)
}

func runLOCKIn(c *Ctx, r *Result, rule string, g0 *MCG, scope PkgSet, evalFns []*ssa.Function, requireSome bool) {
	muts := mutableGlobals(c, g0, scope)
	var gs []*ssa.Global
	for g := range muts {
		gs = append(gs, g)
	}
	sort.Slice(gs, func(i, j int) bool { return gs[i].String() < gs[j].String() })
	// count package-level variables for the evidence
	nvars := 0
	for p := range scope {
		if sp := c.W.Prog.Package(p); sp != nil {
			for _, m := range sp.Members {
				if _, ok := m.(*ssa.Global); ok {
					nvars++
				}
			}
		}
	}
	r.Count(rule+" package-level variables in the library", nvars)
	r.Count(rule+" run-time-mutable package variables", len(gs))
	if len(gs) == 0 {
		if requireSome {
			r.LoseAnchor("LOCK: no run-time-mutable package variable found (globalRegistry expected)")
		}
		return
	}
	for _, g := range gs {
		// find the mutex that guards g: a package-level mutex locked in every function that writes g
		var mu *ssa.Global
		for _, m := range g.Pkg.Members {
			if mg, ok := m.(*ssa.Global); ok && isMutexType(mg.Type().Underlying().(*types.Pointer).Elem()) {
				mu = mg
			}
		}
		gname := g.Pkg.Pkg.Name() + "." + g.Name()
		if mu == nil {
			for i, w := range muts[g] {
				r.Add(Obligation{Rule: rule, Key: fmt.Sprintf("%s:unguarded-write#%d", gname, i+1), Fn: shortFn(w.Parent()), Pos: c.W.Pos(w.Pos()), Verdict: Finding, Nontrivial: true,
					Reason: "package variable " + gname + " is written at run time and its package has no mutex: concurrent Compile/Eval/Register calls race on it"})
			}
			continue
		}
		accesses, sections := 0, 0
		for _, f := range g0.Funcs {
			if !scope[fnPkg(f)] || isInitFn(f) || len(f.Blocks) == 0 || f.Synthetic != "" {
				continue
			}
			uses := false
			for _, b := range f.Blocks {
				for _, ins := range b.Instrs {
					for _, op := range ins.Operands(nil) {
						if *op == ssa.Value(g) {
							uses = true
						}
					}
				}
			}
			if !uses {
				continue
			}
			sections++
			states, deferred := lockStates(f, mu)
			ord := 0
			for _, ins := range instrsIn(f) {
				need := 0
				what := ""
				switch x := ins.(type) {
				case *ssa.UnOp:
					if x.X == ssa.Value(g) {
						need, what = lkR, "read of "+gname
					}
				case *ssa.Store:
					if x.Addr == ssa.Value(g) || globalBase(x.Addr) == g {
						need, what = lkW, "write of "+gname
					}
				case *ssa.MapUpdate:
					if globalBase(x.Map) == g {
						need, what = lkW, "update of the map in "+gname
					}
				case ssa.CallInstruction:
					for _, hg := range globalsHandedOut(x, scope) {
						if hg == g {
							need, what = lkW, "call that receives the address of "+gname
						}
					}
				}
				if need == 0 {
					continue
				}
				ord++
				accesses++
				o := Obligation{Rule: rule, Key: fmt.Sprintf("%s:%s-access#%d", shortFn(f), g.Name(), ord), Fn: shortFn(f), Pos: c.W.Pos(ins.Pos()), Nontrivial: true}
				if states[ins] >= need {
					o.Verdict, o.Reason = Discharged, fmt.Sprintf("%s with %s held on every path (%s)", what, mu.Name(), [...]string{"", "read lock", "write lock"}[states[ins]])
				} else {
					o.Verdict, o.Reason = Finding, fmt.Sprintf("%s without %s held in the required mode on some path: a data race with concurrent Compile/Register calls", what, mu.Name())
				}
				r.Add(o)
				// no escape: a value loaded from the guarded variable stays inside the critical section
				if ld, ok := ins.(*ssa.UnOp); ok {
					oe := Obligation{Rule: rule, Key: fmt.Sprintf("%s:%s-noescape#%d", shortFn(f), g.Name(), ord), Fn: shortFn(f), Pos: c.W.Pos(ins.Pos()), Nontrivial: true}
					if why := escapes(c, ld, states, 0); why != "" {
						oe.Verdict, oe.Reason = Finding, "the map loaded from "+gname+" "+why+": it would be used outside the critical section (and an Expr would see later registrations)"
					} else {
						oe.Verdict, oe.Reason = Discharged, "the loaded map is only indexed, ranged over, compared or handed to read-only callees while the lock is held"
					}
					r.Add(oe)
				}
			}
			// every exit is unlocked
			for _, b := range f.Blocks {
				if len(b.Instrs) == 0 {
					continue
				}
				if ret, ok := b.Instrs[len(b.Instrs)-1].(*ssa.Return); ok {
					ox := Obligation{Rule: rule, Key: fmt.Sprintf("%s:%s-exit@block%d", shortFn(f), mu.Name(), exitOrdinal(f, b)), Fn: shortFn(f), Pos: c.W.Pos(ret.Pos()), Nontrivial: true}
					if states[ret] == lkNone || deferred {
						ox.Verdict, ox.Reason = Discharged, "the mutex is released on this exit"
					} else {
						ox.Verdict, ox.Reason = Finding, "the function can return with "+mu.Name()+" still held"
					}
					r.Add(ox)
				}
			}
		}
		r.Count(rule+" functions touching "+gname, sections)
		r.Count(rule+" guarded accesses of "+gname, accesses)
		// not referenced under Eval
		oe := Obligation{Rule: rule, Key: gname + ":not-under-Eval", Fn: gname, Pos: c.W.Pos(g.Pos()), Nontrivial: true}
		oe.Verdict, oe.Reason = Discharged, "no function reachable from Eval references "+gname
		for _, f := range evalFns {
			for _, b := range f.Blocks {
				for _, ins := range b.Instrs {
					for _, op := range ins.Operands(nil) {
						if *op == ssa.Value(g) {
							oe.Verdict, oe.Reason = Finding, shortFn(f)+" (reachable from Eval) references "+gname+": an evaluation would depend on later registrations and race with them"
						}
					}
				}
			}
		}
		r.Add(oe)
	}
}

func exitOrdinal(f *ssa.Function, b *ssa.BasicBlock) int {
	n := 0
	for _, x := range f.Blocks {
		if len(x.Instrs) > 0 {
			if _, ok := x.Instrs[len(x.Instrs)-1].(*ssa.Return); ok {
				n++
				if x == b {
					return n
				}
			}
		}
	}
	return 0
}

// escapes: a value loaded under the lock is stored, returned, captured, or passed to a callee
// that keeps it. Returns a description or "".
func escapes(c *Ctx, v ssa.Value, states map[ssa.Instruction]int, depth int) string {
	if depth > 3 || v.Referrers() == nil {
		return ""
	}
	for _, ref := range *v.Referrers() {
		switch u := ref.(type) {
		case *ssa.Store:
			if u.Val == v {
				return "is stored into memory"
			}
		case *ssa.MapUpdate:
			if u.Value == v {
				return "is stored into a map"
			}
		case *ssa.Return:
			return "is returned"
		case *ssa.MakeClosure:
			return "is captured by a closure"
		case *ssa.MakeInterface:
			return "is boxed into an interface"
		case *ssa.Phi:
			if why := escapes(c, u, states, depth+1); why != "" {
				return why
			}
		case ssa.CallInstruction:
			if states != nil && states[u] == lkNone {
				return "is passed to a call made after the lock was released"
			}
			callee := u.Common().StaticCallee()
			if callee == nil {
				if _, isB := u.Common().Value.(*ssa.Builtin); isB {
					continue
				}
				return "is passed to a dynamic call"
			}
			if len(callee.Blocks) == 0 {
				continue
			}
			for i, a := range u.Common().Args {
				if a == v && i < len(callee.Params) {
					if why := escapes(c, callee.Params[i], nil, depth+1); why != "" {
						return "is passed to " + shortFn(callee) + ", where it " + why
					}
				}
			}
		}
	}
	return ""
}

// NOGO: no goroutines, unsafe, sync/atomic or cgo in the library (assumptions of W).
func runNOGO(c *Ctx, r *Result, rule string) {
	n := 0
	for _, f := range c.G.Funcs {
		for _, b := range f.Blocks {
			for _, ins := range b.Instrs {
				n++
				if g, ok := ins.(*ssa.Go); ok {
					r.Add(Obligation{Rule: rule, Key: shortFn(f) + ":go", Fn: shortFn(f), Pos: c.W.Pos(g.Pos()), Verdict: Finding, Nontrivial: true,
						Reason: "the library starts a goroutine: the effect analysis assumes evaluation is single-threaded per call"})
				}
			}
		}
	}
	bad := []string{}
	for short, p := range c.W.Lib {
		for path := range p.Imports {
			if path == "unsafe" || path == "sync/atomic" || path == "C" {
				bad = append(bad, short+" imports "+path)
			}
		}
	}
	sort.Strings(bad)
	o := Obligation{Rule: rule, Key: "library:no-go-unsafe-atomic-cgo", Fn: "library", Pos: "-", Nontrivial: true}
	if len(bad) == 0 {
		o.Verdict, o.Reason = Discharged, fmt.Sprintf("scanned %d instructions and the import sets of the 5 library packages: no go statement, unsafe, sync/atomic or cgo", n)
	} else {
		o.Verdict, o.Reason = Finding, strings.Join(bad, "; ")
	}
	r.Add(o)
}

// ---------------------------------------------------------------------------------------
// REG — registration validates before it stores; environment assembly order (C20)

func runREG(c *Ctx, r *Result, rule string) {
	for _, spec := range []struct {
		fn       string
		validate []string // callees that must dominate the store: bool validators (true edge) / error returners (nil edge)
	}{
		{"jsonata.processExts", []string{"validName", "newGoCallable"}},
		{"jsonata.processVars", []string{"validName", "validVar"}},
	} {
		f := c.mustFn(r, spec.fn)
		if f == nil {
			continue
		}
		stores := 0
		for _, ins := range instrsIn(f) {
			mu, ok := ins.(*ssa.MapUpdate)
			if !ok {
				continue
			}
			stores++
			for _, vn := range spec.validate {
				o := Obligation{Rule: rule, Key: fmt.Sprintf("%s:store#%d:after-%s", shortFn(f), stores, vn), Fn: shortFn(f), Pos: c.W.Pos(mu.Pos()), Nontrivial: true}
				if validatedBefore(f, mu, vn) {
					o.Verdict, o.Reason = Discharged, "the store into the registry map is dominated by the success edge of "+vn+" applied to this entry"
				} else {
					o.Verdict, o.Reason = Finding, "an entry is stored into the registry map on a path that did not pass "+vn+": invalid names / function shapes would be accepted at registration time"
				}
				r.Add(o)
			}
		}
		if stores == 0 {
			r.LoseAnchor("REG: no map store in %s", spec.fn)
		}
	}
	// newEnv: child of baseEnv; binds "$", then the time callables, then the registry
	f := c.mustFn(r, "jsonata.(*Expr).newEnv")
	if f == nil {
		return
	}
	newEnvironment := c.fn("jsonata.newEnvironment")
	bind := c.fn("jsonata.(*environment).bind")
	bindAll := c.fn("jsonata.(*environment).bindAll")
	timeCallables := c.fn("jsonata.timeCallables")
	var seq []string
	var envVal ssa.Value
	baseOK := false
	isBaseEnvLoad := func(v ssa.Value) bool {
		ld, ok := v.(*ssa.UnOp)
		if !ok {
			return false
		}
		g, ok := ld.X.(*ssa.Global)
		return ok && g.Name() == "baseEnv"
	}
	isEnvPtr := func(t types.Type) bool {
		p, ok := t.Underlying().(*types.Pointer)
		return ok && strings.HasSuffix(p.Elem().String(), ".environment")
	}
	bindAllSource := func(a ssa.Value) string {
		switch a := a.(type) {
		case *ssa.Call:
			if a.Call.StaticCallee() == timeCallables {
				return "time"
			}
		case *ssa.UnOp:
			// the expression's own registry: the map-typed field of the receiver
			if fa, ok := a.X.(*ssa.FieldAddr); ok && len(f.Params) > 0 && fa.X == f.Params[0] {
				if _, isMap := a.Type().Underlying().(*types.Map); isMap {
					return "registry"
				}
			}
		}
		return "?"
	}
	for _, b := range f.Blocks {
		for _, ins := range b.Instrs {
			switch x := ins.(type) {
			case *ssa.Alloc:
				// a frame built in place: &environment{parent: baseEnv, ...}
				if x.Heap && isEnvPtr(x.Type()) {
					envVal = x
					seq = append(seq, "new")
				}
			case *ssa.Store:
				if fa, ok := x.Addr.(*ssa.FieldAddr); ok && fa.X == envVal && envVal != nil && isEnvPtr(x.Val.Type()) {
					if isBaseEnvLoad(x.Val) {
						baseOK = true
					}
				}
			case *ssa.MapUpdate:
				// env.symbols["$"] = input
				if ld, ok := x.Map.(*ssa.UnOp); ok {
					if fa, ok := ld.X.(*ssa.FieldAddr); ok && fa.X == envVal && envVal != nil {
						if k, ok := x.Key.(*ssa.Const); ok && k.Value != nil && k.Value.ExactString() == `"$"` {
							seq = append(seq, "bind$")
						} else {
							seq = append(seq, "bind?")
						}
					}
				}
			case *ssa.Call:
				switch x.Call.StaticCallee() {
				case newEnvironment:
					envVal = x
					if isBaseEnvLoad(x.Call.Args[0]) {
						baseOK = true
					}
					seq = append(seq, "new")
				case bind:
					if x.Call.Args[0] == envVal {
						if k, ok := x.Call.Args[1].(*ssa.Const); ok && k.Value != nil && k.Value.ExactString() == `"$"` {
							seq = append(seq, "bind$")
						} else {
							seq = append(seq, "bind?")
						}
					}
				case bindAll:
					if x.Call.Args[0] != envVal {
						continue
					}
					seq = append(seq, "bindAll:"+bindAllSource(x.Call.Args[1]))
				}
			}
		}
	}
	o := Obligation{Rule: rule, Key: "(*jsonata.Expr).newEnv:assembly-order", Fn: shortFn(f), Pos: c.W.Pos(f.Pos()), Nontrivial: true}
	got := strings.Join(seq, ",")
	if len(f.Blocks) == 1 && baseOK && got == "new,bind$,bindAll:time,bindAll:registry" {
		o.Verdict, o.Reason = Discharged, "newEnv creates a child of baseEnv and binds $, then $now/$millis, then the expression's registry (later bindings shadow earlier ones; built-ins stay in the parent)"
	} else {
		o.Verdict, o.Reason = Finding, "unexpected environment assembly: "+got+fmt.Sprintf(" (child of baseEnv: %v)", baseOK)
	}
	r.Add(o)
	// updateRegistry copies entry by entry (the Expr never aliases the map it is given)
	if ur := c.mustFn(r, "jsonata.(*Expr).updateRegistry"); ur != nil {
		o2 := Obligation{Rule: rule, Key: "(*jsonata.Expr).updateRegistry:copies", Fn: shortFn(ur), Pos: c.W.Pos(ur.Pos()), Nontrivial: true}
		if why := escapes(c, ur.Params[1], nil, 0); why != "" {
			o2.Verdict, o2.Reason = Finding, "the map given to updateRegistry "+why+": the expression would share a registry map with the package or another expression"
		} else {
			o2.Verdict, o2.Reason = Discharged, "the map given to updateRegistry is only ranged over; entries are copied into the expression's own map"
		}
		r.Add(o2)
	}
}

// validatedBefore: the MapUpdate is dominated by the success edge of a call to the named validator
// (or of a wrapper that returns a nil error only after the validator succeeded).
func validatedBefore(f *ssa.Function, mu *ssa.MapUpdate, validator string) bool {
	return blockValidated(f, mu.Block(), validator, 0)
}

// isValidatorCall: the call is to the validator itself, or to a module function with a single
// error result whose every nil return lies behind the validator's success edge.
func isValidatorCall(call *ssa.Call, validator string, depth int) (direct bool, wrapper bool) {
	cal := call.Call.StaticCallee()
	if cal == nil {
		return false, false
	}
	if cal.Name() == validator {
		return true, false
	}
	nres := cal.Signature.Results().Len()
	if depth >= 2 || len(cal.Blocks) == 0 || nres == 0 || !isErrorType(cal.Signature.Results().At(nres-1).Type()) {
		return false, false
	}
	nilRets := 0
	for _, b := range cal.Blocks {
		ret, ok := b.Instrs[len(b.Instrs)-1].(*ssa.Return)
		if !ok {
			continue
		}
		if k, isK := ret.Results[nres-1].(*ssa.Const); isK && k.IsNil() {
			nilRets++
			if !blockValidated(cal, b, validator, depth+1) {
				return false, false
			}
		} else if !definitelyNonNil(ret.Results[nres-1], b) {
			return false, false
		}
	}
	return false, nilRets > 0
}

func blockValidated(f *ssa.Function, target *ssa.BasicBlock, validator string, depth int) bool {
	for _, b := range f.Blocks {
		if len(b.Instrs) == 0 {
			continue
		}
		iff, ok := b.Instrs[len(b.Instrs)-1].(*ssa.If)
		if !ok {
			continue
		}
		succ := -1
		switch cond := iff.Cond.(type) {
		case *ssa.Call:
			if direct, _ := isValidatorCall(cond, validator, depth); direct {
				succ = 0
			}
		case *ssa.UnOp:
			if call, ok := cond.X.(*ssa.Call); ok {
				if direct, _ := isValidatorCall(call, validator, depth); direct {
					succ = 1
				}
			}
		case *ssa.BinOp:
			// err != nil / err == nil with err from the validator (or a wrapper of it)
			var call *ssa.Call
			switch x := cond.X.(type) {
			case *ssa.Extract:
				call, _ = x.Tuple.(*ssa.Call)
			case *ssa.Call:
				call = x
			}
			if call != nil {
				direct, wrapper := isValidatorCall(call, validator, depth)
				ex, isExtract := cond.X.(*ssa.Extract)
				if isExtract && ex.Index != call.Call.Signature().Results().Len()-1 {
					direct, wrapper = false, false // not the error result
				}
				if (direct && isExtract) || wrapper {
					if k, isK := cond.Y.(*ssa.Const); isK && k.IsNil() {
						if cond.Op.String() == "!=" {
							succ = 1
						} else if cond.Op.String() == "==" {
							succ = 0
						}
					}
				}
			}
		}
		if succ < 0 {
			continue
		}
		t := b.Succs[succ]
		if len(t.Preds) == 1 && t.Dominates(target) {
			return true
		}
	}
	return false
}

// ---------------------------------------------------------------------------------------
// SCOPE — lexical scoping structure (C12)

func runSCOPE(c *Ctx, r *Result, rule string) {
	ev := c.mustFn(r, "jsonata.eval")
	newEnvironment := c.mustFn(r, "jsonata.newEnvironment")
	if ev == nil || newEnvironment == nil {
		return
	}
	// 1. evalBlock and lambdaCallable.Call evaluate in a fresh child frame
	for _, spec := range []struct{ fn, parent string }{
		{"jsonata.evalBlock", "param:env"},
		{"jsonata.(*lambdaCallable).Call", "field:env"},
	} {
		f := c.mustFn(r, spec.fn)
		if f == nil {
			continue
		}
		n := 0
		for _, ci := range callsIn(f) {
			if ci.Common().StaticCallee() != ev {
				continue
			}
			n++
			o := Obligation{Rule: rule, Key: fmt.Sprintf("%s:eval-env#%d", shortFn(f), n), Fn: shortFn(f), Pos: c.W.Pos(ci.Pos()), Nontrivial: true}
			envArg := ci.Common().Args[2]
			call, ok := envArg.(*ssa.Call)
			switch {
			case !ok || call.Call.StaticCallee() != newEnvironment:
				o.Verdict, o.Reason = Finding, "the body is evaluated in an environment that is not a fresh frame created here (bindings would leak into, or come from, the wrong scope)"
			case !parentIs(f, call.Call.Args[0], spec.parent):
				o.Verdict, o.Reason = Finding, "the new frame's parent is not the "+strings.TrimPrefix(strings.TrimPrefix(spec.parent, "param:"), "field:")+" of the definition site (dynamic instead of lexical scoping)"
			default:
				o.Verdict, o.Reason = Discharged, "evaluated in newEnvironment(parent, ...) with parent = "+spec.parent
			}
			r.Add(o)
		}
		if n == 0 {
			r.LoseAnchor("SCOPE: no eval call in %s", spec.fn)
		}
		// parameters are bound into the new frame only
		if strings.HasSuffix(spec.fn, ".Call") {
			bind := c.fn("jsonata.(*environment).bind")
			k := 0
			for _, ci := range callsIn(f) {
				if ci.Common().StaticCallee() != bind {
					continue
				}
				k++
				o := Obligation{Rule: rule, Key: fmt.Sprintf("%s:bind-target#%d", shortFn(f), k), Fn: shortFn(f), Pos: c.W.Pos(ci.Pos()), Nontrivial: true}
				if call, ok := ci.Common().Args[0].(*ssa.Call); ok && call.Call.StaticCallee() == newEnvironment {
					o.Verdict, o.Reason = Discharged, "arguments are bound in the frame created for this call"
				} else {
					o.Verdict, o.Reason = Finding, "arguments are bound in a frame that was not created for this call (the closure's own frame would be overwritten)"
				}
				r.Add(o)
			}
		}
	}
	// 2. closures capture the definition-site environment and context
	for _, fn := range []string{"jsonata.evalLambda", "jsonata.evalTypedLambda", "jsonata.evalPartial", "jsonata.evalObjectTransformation"} {
		f := c.mustFn(r, fn)
		if f == nil {
			continue
		}
		for _, ins := range instrsIn(f) {
			st, ok := ins.(*ssa.Store)
			if !ok {
				continue
			}
			fa, ok := st.Addr.(*ssa.FieldAddr)
			if !ok {
				continue
			}
			name := fa.X.Type().Underlying().(*types.Pointer).Elem().Underlying().(*types.Struct).Field(fa.Field).Name()
			want := ""
			switch name {
			case "env":
				want = "env"
			case "context":
				want = "data"
			default:
				continue
			}
			o := Obligation{Rule: rule, Key: fmt.Sprintf("%s:captures-%s", shortFn(f), name), Fn: shortFn(f), Pos: c.W.Pos(st.Pos()), Nontrivial: true}
			if p, ok := st.Val.(*ssa.Parameter); ok && p.Name() == want {
				o.Verdict, o.Reason = Discharged, "the function value captures the "+want+" of its definition site"
			} else {
				o.Verdict, o.Reason = Finding, "the function value's "+name+" is not the definition site's "+want
			}
			r.Add(o)
		}
	}
	// 3. bind writes only its own frame; the parent link is only followed by lookup
	envT := c.W.Lib["jsonata"].Types.Scope().Lookup("environment")
	if envT == nil {
		r.LoseAnchor("SCOPE: type environment not found")
		return
	}
	// the parent link is written only while a frame is being built (the frame is an object the
	// function has just allocated) and read only by functions that write nothing (lookup walks
	// the chain; a function that walks it and also binds could bind into an outer frame)
	okUsers := true
	var us []string
	nWrites, nReads := 0, 0
	for _, f := range c.W.FuncsOf(c.Lib) {
		writesSomething := false
		for _, ins := range instrsIn(f) {
			switch x := ins.(type) {
			case *ssa.MapUpdate:
				writesSomething = true
			case *ssa.Store:
				if _, isAlloc := x.Addr.(*ssa.Alloc); !isAlloc {
					if fa, ok := x.Addr.(*ssa.FieldAddr); ok {
						if _, fresh := fa.X.(*ssa.Alloc); fresh {
							continue // initialising an object of its own
						}
					}
					writesSomething = true
				}
			}
		}
		for _, ins := range instrsIn(f) {
			fa, ok := ins.(*ssa.FieldAddr)
			if !ok || !isNamed(fa.X.Type(), "jsonata-go", "environment") && !strings.HasSuffix(fa.X.Type().String(), ".environment") {
				continue
			}
			st, isStruct := fa.X.Type().Underlying().(*types.Pointer).Elem().Underlying().(*types.Struct)
			if !isStruct {
				continue
			}
			// the parent link: the field whose type is a pointer to environment itself
			if pt, isPtr := st.Field(fa.Field).Type().(*types.Pointer); !isPtr || !types.Identical(pt.Elem(), fa.X.Type().Underlying().(*types.Pointer).Elem()) {
				continue
			}
			kind := "read"
			if fa.Referrers() != nil {
				for _, ref := range *fa.Referrers() {
					if stv, ok := ref.(*ssa.Store); ok && stv.Addr == ssa.Value(fa) {
						kind = "write"
						// the frame is linked to the environment it is created in, not to one
						// found by walking that environment's own chain (skipping frames that are
						// empty now but bind names later cuts closures off from those names)
						isLink := func(a *ssa.FieldAddr) bool {
							pp, ok := a.X.Type().Underlying().(*types.Pointer)
							if !ok {
								return false
							}
							st2, ok := pp.Elem().Underlying().(*types.Struct)
							if !ok {
								return false
							}
							pt2, ok := st2.Field(a.Field).Type().(*types.Pointer)
							return ok && types.Identical(pt2.Elem(), pp.Elem())
						}
						seen := map[ssa.Value]bool{}
						var walked func(v ssa.Value) bool
						walked = func(v ssa.Value) bool {
							if seen[v] {
								return false
							}
							seen[v] = true
							switch x := v.(type) {
							case *ssa.Phi:
								for _, e := range x.Edges {
									if walked(e) {
										return true
									}
								}
							case *ssa.UnOp:
								if a, isFA := x.X.(*ssa.FieldAddr); isFA && x.Op == token.MUL && isLink(a) {
									return true
								}
							}
							return false
						}
						if walked(stv.Val) {
							okUsers = false
							us = append(us, shortFn(f)+"(links the new frame to an ancestor found by walking the chain)")
						}
					}
				}
			}
			us = append(us, shortFn(f)+"("+kind+")")
			switch kind {
			case "write":
				nWrites++
				if _, fresh := fa.X.(*ssa.Alloc); !fresh {
					okUsers = false
				}
			case "read":
				nReads++
				if writesSomething {
					okUsers = false
				}
			}
		}
	}
	o := Obligation{Rule: rule, Key: "environment.parent:users", Fn: "jsonata.environment", Pos: c.W.Pos(envT.Pos()), Nontrivial: true}
	sort.Strings(us)
	if okUsers && nWrites >= 1 && nReads >= 1 {
		o.Verdict, o.Reason = Discharged, "the parent link is set only in frames under construction and followed only by functions that write nothing: "+strings.Join(us, ", ")
	} else {
		o.Verdict, o.Reason = Finding, "the scope chain is written in an existing frame, or followed by a function that also writes: "+strings.Join(us, ", ")+" (bind must not walk to a parent frame)"
	}
	r.Add(o)
	// lookup is write-free
	if lk := c.mustFn(r, "jsonata.(*environment).lookup"); lk != nil {
		o2 := Obligation{Rule: rule, Key: "(*jsonata.environment).lookup:write-free", Fn: shortFn(lk), Pos: c.W.Pos(lk.Pos()), Nontrivial: true}
		o2.Verdict, o2.Reason = Discharged, "lookup contains no store, map update or mutating call"
		for _, ins := range instrsIn(lk) {
			switch x := ins.(type) {
			case *ssa.Store:
				if _, isAlloc := x.Addr.(*ssa.Alloc); !isAlloc {
					o2.Verdict, o2.Reason = Finding, "lookup writes memory"
				}
			case *ssa.MapUpdate:
				o2.Verdict, o2.Reason = Finding, "lookup updates a map"
			}
		}
		r.Add(o2)
	}
}

func parentIs(f *ssa.Function, v ssa.Value, spec string) bool {
	switch {
	case strings.HasPrefix(spec, "param:"):
		p, ok := v.(*ssa.Parameter)
		return ok && p.Name() == strings.TrimPrefix(spec, "param:")
	case strings.HasPrefix(spec, "field:"):
		ld, ok := v.(*ssa.UnOp)
		if !ok {
			return false
		}
		fa, ok := ld.X.(*ssa.FieldAddr)
		if !ok {
			return false
		}
		if _, isRecv := fa.X.(*ssa.Parameter); !isRecv {
			return false
		}
		st := fa.X.Type().Underlying().(*types.Pointer).Elem().Underlying().(*types.Struct)
		return st.Field(fa.Field).Name() == strings.TrimPrefix(spec, "field:")
	}
	return false
}
