package main

import (
	"fmt"
	"go/token"
	"go/types"
	"io"
	"os"
	"path/filepath"
	"sort"
	"strings"

	"golang.org/x/tools/go/packages"
	"golang.org/x/tools/go/ssa"
	"golang.org/x/tools/go/ssa/ssautil"
)

const repoModule = "github.com/blues/jsonata-go"

// libPkgs are the library packages of the module the rules apply to (M in DESIGN.md).
var libPkgs = map[string]string{
	repoModule:                  "jsonata",
	repoModule + "/jparse":      "jparse",
	repoModule + "/jlib":        "jlib",
	repoModule + "/jlib/jxpath": "jxpath",
	repoModule + "/jtypes":      "jtypes",
}

// World is the loaded, type-checked and SSA-lowered program.
type World struct {
	RepoDir string
	Fset    *token.FileSet
	All     []*packages.Package // every package of the load (incl. deps)
	Roots   []*packages.Package // packages matched by the patterns
	Prog    *ssa.Program
	Lib     map[string]*packages.Package // short name -> package (jsonata, jparse, jlib, jxpath, jtypes)
	LibSSA  map[string]*ssa.Package
	Fix     map[string]*packages.Package // "nf/bad" -> fixture package
	FixSSA  map[string]*ssa.Package
	NPkgs   int
	Arch    string
}

func copyTree(src, dst string) error {
	return filepath.Walk(src, func(p string, info os.FileInfo, err error) error {
		if err != nil {
			return err
		}
		rel, _ := filepath.Rel(src, p)
		out := filepath.Join(dst, rel)
		if info.IsDir() {
			return os.MkdirAll(out, 0o755)
		}
		in, err := os.Open(p)
		if err != nil {
			return err
		}
		defer in.Close()
		o, err := os.Create(out)
		if err != nil {
			return err
		}
		defer o.Close()
		_, err = io.Copy(o, in)
		return err
	})
}

// Load type-checks repoDir/... (as the module github.com/blues/jsonata-go) together with
// the checker's fixture packages and builds SSA for everything. Any load or type error is
// fatal: no verdict can be given on a tree that does not build.
func Load(repoDir, fixturesDir, goarch string) (*World, error) {
	repoDir, _ = filepath.Abs(repoDir)
	tmp, err := os.MkdirTemp("", "verifload")
	if err != nil {
		return nil, err
	}
	defer os.RemoveAll(tmp)
	gomod := fmt.Sprintf("module verifload\n\ngo 1.23\n\nrequire %s v0.0.0\n\nreplace %s => %s\n", repoModule, repoModule, repoDir)
	if err := os.WriteFile(filepath.Join(tmp, "go.mod"), []byte(gomod), 0o644); err != nil {
		return nil, err
	}
	patterns := []string{repoModule + "/..."}
	if fixturesDir != "" {
		if err := copyTree(fixturesDir, filepath.Join(tmp, "fixtures")); err != nil {
			return nil, err
		}
		patterns = append(patterns, "verifload/fixtures/...")
	}
	env := []string{}
	for _, e := range os.Environ() {
		if strings.HasPrefix(e, "GOWORK=") || strings.HasPrefix(e, "GOFLAGS=") || strings.HasPrefix(e, "GOARCH=") {
			continue
		}
		env = append(env, e)
	}
	env = append(env, "GOWORK=off", "GOFLAGS=-mod=mod", "GOPROXY=off", "GOSUMDB=off", "GOTOOLCHAIN=local", "CGO_ENABLED=0")
	if goarch != "" {
		env = append(env, "GOARCH="+goarch)
	}
	fset := token.NewFileSet()
	cfg := &packages.Config{
		Mode:  packages.LoadAllSyntax,
		Dir:   tmp,
		Fset:  fset,
		Env:   env,
		Tests: false,
	}
	roots, err := packages.Load(cfg, patterns...)
	if err != nil {
		return nil, fmt.Errorf("packages.Load: %v", err)
	}
	var errs []string
	var all []*packages.Package
	packages.Visit(roots, nil, func(p *packages.Package) {
		all = append(all, p)
		for _, e := range p.Errors {
			errs = append(errs, e.Error())
		}
	})
	if len(errs) > 0 {
		sort.Strings(errs)
		if len(errs) > 10 {
			errs = errs[:10]
		}
		return nil, fmt.Errorf("load/type errors:\n  %s", strings.Join(errs, "\n  "))
	}
	w := &World{RepoDir: repoDir, Fset: fset, All: all, Roots: roots,
		Lib: map[string]*packages.Package{}, LibSSA: map[string]*ssa.Package{},
		Fix: map[string]*packages.Package{}, FixSSA: map[string]*ssa.Package{}, Arch: goarch}
	prog, _ := ssautil.AllPackages(roots, ssa.InstantiateGenerics)
	prog.Build()
	w.Prog = prog
	for _, p := range roots {
		if strings.HasPrefix(p.PkgPath, repoModule) {
			w.NPkgs++
		}
		if short, ok := libPkgs[p.PkgPath]; ok {
			w.Lib[short] = p
			w.LibSSA[short] = prog.Package(p.Types)
		}
		if strings.HasPrefix(p.PkgPath, "verifload/fixtures/") {
			k := strings.TrimPrefix(p.PkgPath, "verifload/fixtures/")
			w.Fix[k] = p
			w.FixSSA[k] = prog.Package(p.Types)
		}
	}
	if w.NPkgs == 0 {
		return nil, fmt.Errorf("no packages of %s were loaded from %s", repoModule, repoDir)
	}
	for path, short := range libPkgs {
		if w.Lib[short] == nil || w.LibSSA[short] == nil {
			return nil, fmt.Errorf("library package %s not loaded", path)
		}
	}
	return w, nil
}

// Pos renders a position relative to the repository (or fixture) root.
func (w *World) Pos(p token.Pos) string {
	if !p.IsValid() {
		return "-"
	}
	pp := w.Fset.Position(p)
	f := pp.Filename
	if rel, err := filepath.Rel(w.RepoDir, f); err == nil && !strings.HasPrefix(rel, "..") {
		f = rel
	} else if i := strings.Index(f, "/fixtures/"); i >= 0 {
		f = "fixtures/" + f[i+len("/fixtures/"):]
	}
	return fmt.Sprintf("%s:%d", f, pp.Line)
}

// InPkgs reports whether fn belongs to one of the given packages.
func fnPkg(fn *ssa.Function) *types.Package {
	if fn == nil {
		return nil
	}
	if fn.Pkg != nil {
		return fn.Pkg.Pkg
	}
	if fn.Object() != nil {
		return fn.Object().Pkg()
	}
	if p := fn.Parent(); p != nil {
		return fnPkg(p)
	}
	if o := fn.Origin(); o != nil && o != fn {
		return fnPkg(o)
	}
	return nil
}

// PkgSet is a set of type-checker packages (the scope a rule applies to).
type PkgSet map[*types.Package]bool

func (w *World) LibSet() PkgSet {
	s := PkgSet{}
	for _, p := range w.Lib {
		s[p.Types] = true
	}
	return s
}

func (w *World) FixSet(key string) PkgSet {
	s := PkgSet{}
	if p := w.Fix[key]; p != nil {
		s[p.Types] = true
	}
	return s
}

// FuncsOf returns every SSA function (incl. methods, closures, wrappers excluded) whose package is in s, sorted by name.
func (w *World) FuncsOf(s PkgSet) []*ssa.Function {
	var out []*ssa.Function
	for fn := range ssautil.AllFunctions(w.Prog) {
		if fn.Synthetic != "" && !strings.HasPrefix(fn.Synthetic, "package initializer") {
			continue
		}
		if p := fnPkg(fn); p != nil && s[p] {
			out = append(out, fn)
		}
	}
	sort.Slice(out, func(i, j int) bool {
		if out[i].String() != out[j].String() {
			return out[i].String() < out[j].String()
		}
		return out[i].Pos() < out[j].Pos()
	})
	return out
}

// shortFn gives a compact, stable name for a function: pkg.Func, (pkg.T).M, pkg.F$1.
func shortFn(fn *ssa.Function) string {
	if fn == nil {
		return "?"
	}
	s := fn.String()
	s = strings.ReplaceAll(s, repoModule+"/jlib/jxpath", "jxpath")
	s = strings.ReplaceAll(s, repoModule+"/", "")
	s = strings.ReplaceAll(s, repoModule, "jsonata")
	s = strings.ReplaceAll(s, "verifload/fixtures/", "fix/")
	return s
}
