package main

import "golang.org/x/tools/go/ssa"

// srcFuncsIn returns the source-level functions (no synthetic wrappers) of a reach set.
func srcFuncsIn(r *Reach) []*ssa.Function {
	var out []*ssa.Function
	for _, f := range r.Sorted() {
		if f.Synthetic == "" && len(f.Blocks) > 0 {
			out = append(out, f)
		}
	}
	return out
}

func init() {
	register(&propDef{
		ID:          "C09",
		Explanation: "wip",
		Rule:        "wip",
		Run: func(c *Ctx, r *Result) {
			n := runNF(c, c.G, r, "NF", srcFuncsIn(c.REval), c.REval)
			r.RequireMin("NF accessor sites under Eval", n, 130)
		},
	})
}

func init() {
	register(&propDef{
		ID: "FINTEST", Explanation: "wip", Rule: "wip",
		Run: func(c *Ctx, r *Result) {
			e := newFIN(c, c.G)
			n := runFINBoxed(c, e, r, "FIN", nil)
			m := runFINBoxing(c, e, r, "FIN", srcFuncsIn(c.REval))
			r.Note("boxed returns %d boxing sites %d", n, m)
		},
	})
}

func init() {
	register(&propDef{
		ID: "SEQTEST", Explanation: "wip", Rule: "wip",
		Run: func(c *Ctx, r *Result) {
			runSEQ(c, c.G, r, "SEQ", c.W.LibSSA["jsonata"], c.Lib, c.REval.Roots)
		},
	})
}

func init() {
	register(&propDef{
		ID: "SMALLTEST", Explanation: "wip", Rule: "wip",
		Run: func(c *Ctx, r *Result) {
			runSORT(c, r, "SORT", c.REval, c.Lib)
			runMERGE(c, r, "MERGE")
			runHASH(c, r, "HASH", srcFuncsIn(c.REval), c.REval)
			runCODEC(c, r, "CODEC")
			runUNIT(c, r, "UNIT")
			runGUARD(c, r, "GUARD", srcFuncsIn(c.REval), c.REval)
			runRangeGuard(c, r, "GUARD", 10000000)
			runCondLazy(c, r, "LAZY")
			runCLOCK(c, r, "CLOCK")
			runUnixNano(c, r, "GUARD-API")
			runMARSHAL(c, r, "MARSHAL")
		},
	})
}

func init() {
	register(&propDef{
		ID: "TABTEST", Explanation: "wip", Rule: "wip",
		Run: func(c *Ctx, r *Result) {
			n := runEnumSwitches(c, r, "TAB", []string{"jsonata", "jparse", "jlib", "jxpath", "jtypes"}, nil)
			r.Note("enum switches %d", n)
			runRegistrationSwitch(c, r, "TAB")
			runErrMsgs(c, r, "TAB", "jparse", 27)
			runErrMsgs(c, r, "TAB", "jsonata", 20)
			runDateTables(c, r, "TAB")
			runEvalDispatch(c, r, "TAB")
			runJSONLiterals(c, r, "TAB")
		},
	})
}

func init() {
	register(&propDef{
		ID: "PRATTTEST", Explanation: "wip", Rule: "wip",
		Run: func(c *Ctx, r *Result) {
			runPRATT(c, r, "PRATT")
		},
	})
}
