package main

import (
	"fmt"
	"go/constant"
	"go/token"
	"go/types"
	"path/filepath"
	"sort"
	"strings"

	"golang.org/x/tools/go/ssa"
)

// exceptionRoot: the outermost enclosing function of a closure.
func exceptionRoot(f *ssa.Function) *ssa.Function {
	for f.Parent() != nil {
		f = f.Parent()
	}
	return f
}

// runPureFamily: the built-ins of a family are functions of their arguments — every write in the
// library functions reachable from the named roots without leaving the given packages (so not
// through a Callable back into the evaluator) targets memory of the same activation, and no
// pre-existing memory is handed to unreviewed library code (no process-wide cache, pool or
// counter). Reports through W under the Eval root configuration.
func runPureFamily(c *Ctx, r *Result, roots []string, pkgs map[string]bool, min int) {
	var rs []*ssa.Function
	for _, n := range roots {
		if f := c.mustFn(r, n); f != nil {
			rs = append(rs, f)
		}
	}
	fam := map[*ssa.Function]bool{}
	var walk func(f *ssa.Function)
	walk = func(f *ssa.Function) {
		if fam[f] || f.Pkg == nil || !pkgs[f.Pkg.Pkg.Name()] {
			return
		}
		fam[f] = true
		for _, e := range c.G.Out[f] {
			walk(e.Callee)
		}
		for _, an := range f.AnonFuncs {
			walk(an)
		}
	}
	for _, f := range rs {
		walk(f)
	}
	before := len(r.Obls)
	runWFiltered(c, c.G, r, "W", evalRootCfg(c), func(s wSite) bool { return fam[s.f] })
	r.RequireMin("W write sites in the function family", len(r.Obls)-before, min)
	r.Count("W function family size", len(fam))
}

// machinery: the functions that implement a construct — everything of the given packages
// reachable from the root functions through calls, without passing through the stop functions
// (the evaluator's dispatcher) — found on the current tree, so that an extracted helper belongs
// to it and an inlined one is simply gone. Roots that do not exist are an anchor loss only when
// they are marked required (prefix "!").
func (c *Ctx) machinery(r *Result, roots []string, pkgs map[string]bool, stop []string) map[*ssa.Function]bool {
	stopSet := map[*ssa.Function]bool{}
	for _, n := range stop {
		if f := c.W.Fn(n); f != nil {
			stopSet[f] = true
		}
	}
	fam := map[*ssa.Function]bool{}
	var walk func(f *ssa.Function, root bool)
	walk = func(f *ssa.Function, root bool) {
		if fam[f] || f.Pkg == nil || !pkgs[f.Pkg.Pkg.Name()] || (stopSet[f] && !root) {
			return
		}
		fam[f] = true
		for _, e := range c.G.Out[f] {
			if e.Kind == "static" || e.Kind == "dynamic" {
				walk(e.Callee, false)
			}
		}
		for _, an := range f.AnonFuncs {
			walk(an, false)
		}
	}
	for _, n := range roots {
		req := strings.HasPrefix(n, "!")
		n = strings.TrimPrefix(n, "!")
		f := c.W.Fn(n)
		if f == nil {
			if req {
				r.LoseAnchor("function %s not found", n)
			}
			continue
		}
		walk(f, true)
	}
	return fam
}

func fnsOf(set map[*ssa.Function]bool) []*ssa.Function {
	var out []*ssa.Function
	for f := range set {
		if len(f.Blocks) > 0 && f.Synthetic == "" {
			out = append(out, f)
		}
	}
	sortFns(out)
	return out
}

// runPureSet: W (Eval root) restricted to a set of functions.
func runPureSet(c *Ctx, r *Result, set map[*ssa.Function]bool, min int) {
	before := len(r.Obls)
	runWFiltered(c, c.G, r, "W", evalRootCfg(c), func(s wSite) bool { return set[s.f] || set[exceptionRoot(s.f)] })
	r.RequireMin("W write sites in the machinery", len(r.Obls)-before, min)
}

// runPureNamed: W (Eval root) restricted to the named functions, their closures, and the methods
// of the named receiver types: they keep no state between calls and write no pre-existing memory.
func runPureNamed(c *Ctx, r *Result, names []string, recvTypes []string, min int) {
	set := map[string]bool{}
	found := 0
	for _, n := range names {
		set[n] = true
		if c.W.Fn(n) != nil {
			found++
		}
	}
	if found*2 < len(names) {
		r.LoseAnchor("fewer than half of the functions %v exist", names)
	}
	before := len(r.Obls)
	runWFiltered(c, c.G, r, "W", evalRootCfg(c), func(s wSite) bool {
		k := exceptionKey(s.f)
		if set[k] {
			return true
		}
		for _, t := range recvTypes {
			if strings.HasPrefix(k, "(*"+t+").") || strings.HasPrefix(k, "("+t+").") {
				return true
			}
		}
		return false
	})
	r.RequireMin("W write sites in the named machinery", len(r.Obls)-before, min)
}

// libFuncsIn: the source-level library functions of a reach set.
func libFuncsIn(c *Ctx, r *Reach) []*ssa.Function {
	var out []*ssa.Function
	for _, f := range srcFuncsIn(r) {
		if c.Lib[fnPkg(f)] {
			out = append(out, f)
		}
	}
	return out
}

// srcFuncsIn returns the source-level functions (no synthetic wrappers) of a reach set.
func srcFuncsIn(r *Reach) []*ssa.Function {
	var out []*ssa.Function
	for _, f := range r.Sorted() {
		if f.Synthetic == "" && len(f.Blocks) > 0 {
			out = append(out, f)
		}
	}
	return out
}

// fnsNamed resolves a list of short names, losing an anchor for each missing one; closures of
// the named functions are included.
func (c *Ctx) fnsNamed(r *Result, names ...string) []*ssa.Function {
	var out []*ssa.Function
	for _, n := range names {
		f := c.mustFn(r, n)
		if f == nil {
			continue
		}
		out = append(out, f)
		out = append(out, f.AnonFuncs...)
	}
	return out
}

const commonRule = "obligations are enumerated from the type-checked, SSA-lowered current source of /repo (every function, call site, store, loop or table entry the rule applies to); one is non-trivial when its discharge needed more than 'the operand is a constant or a fresh local allocation' (a dataflow fact, a dominating guard, a summary of a callee, a table comparison); distinct = distinct obligation keys (rule + function + construct + ordinal, never a line number)"

var pathMachinery = []string{
	"jsonata.eval", "jsonata.evalPath", "jsonata.evalPathStep", "jsonata.evalOverArray", "jsonata.evalOverSequence",
	"jsonata.evalName", "jsonata.evalNameArray", "jsonata.evalWildcard", "jsonata.appendWildcard", "jsonata.flattenArray",
	"jsonata.evalDescendent", "jsonata.recurseDescendents", "jsonata.walkObjectValues", "jsonata.normalizeArray", "jsonata.lookup",
	"jsonata.arrayify", "jsonata.makeArray", "jsonata.asSequence",
}

var predicateMachinery = []string{
	"jsonata.evalPredicate", "jsonata.applyFilter", "jsonata.arrayify", "jsonata.normalizeArray", "jsonata.evalPath", "jsonata.evalPathStep", "jsonata.evalOverArray",
}

func init() {
	register(&propDef{
		ID:          "C01",
		Explanation: "Decides two structural necessary conditions of the path law over ALL programs and inputs: (SEQ) no evaluator-internal *sequence is ever stored inside a value, handed to a callable/reflect mutator, or returned by eval/Eval/a built-in — a symbolic may-wrap-a-sequence dataflow over every reflect.Value/interface SSA value of the module with the asSequence refinement; (NF) every kind-specific reflect accessor (Len/Index/MapKeys/MapIndex/Field...) in the path machinery is applied to a provably resolved value (jtypes.Resolve / arrayify / MakeSlice results, interprocedural). Breaking either makes a path over arrays nested in arrays return an internal object or panic. (W) the path machinery (eval, evalPath, evalPathStep, evalOverArray/Sequence, evalName*, wildcard/descendant walkers, the sequence type) writes no memory that existed before the evaluation and keeps no cache: a path's value depends on the expression and the input only. NOT decided: order, one-level flattening, singleton collapse, keep-array marker as values. (LASTSTEP) a per-item result leaves evalPathStep unwrapped only under the last-step flag, which evalPath sets for the last index of the step list; (PARENS) inside jparse the contents of a parenthesised block are read only by BlockNode's own methods, so no optimisation splices a parenthesised sub-path into the enclosing path. (FLAT1) the functions reached from evalPath/evalPathStep without passing the dispatcher eval contain no call cycle, so a step result cannot be flattened recursively.",
		Rule:        commonRule,
		Fixtures:    []string{"seq", "nf", "w"},
		Run: func(c *Ctx, r *Result) {
			nf1 := runFLAT1(c, r, "FLAT1")
			r.RequireMin("FLAT1 functions under a path step outside eval", nf1, 8)
			runSEQ(c, c.G, r, "SEQ", c.W.LibSSA["jsonata"], c.Lib, c.REval.Roots)
			r.RequireMin("SEQ producers (boxing of *sequence)", r.Counts["SEQ producers (boxing of *sequence)"], 5)
			r.RequireMin("SEQ consumers (asSequence call sites)", r.Counts["SEQ consumers (asSequence call sites)"], 4)
			pm := c.machinery(r, []string{"!jsonata.eval", "!jsonata.evalPath", "jsonata.evalName", "jsonata.evalWildcard", "jsonata.evalDescendent", "jsonata.evalVariable", "jsonata.evalArray", "jsonata.newSequence", "jsonata.asSequence", "jsonata.lookup"}, map[string]bool{"jsonata": true}, []string{"jsonata.eval"})
			n := runNF(c, c.G, r, "NF", fnsOf(pm), c.REval)
			r.RequireMin("NF accessor sites in the path machinery", n, 14)
			// a path's value depends on the expression and the input only: no step keeps state
			for _, f := range c.G.Funcs {
				if f.Signature.Recv() != nil && strings.Contains(shortFn(f), "jsonata.sequence)") {
					pm[f] = true
				}
			}
			runPureSet(c, r, pm, 12)
			runPARENS(c, r, "PARENS")
			ls := runLASTSTEP(c, r, "LASTSTEP")
			r.RequireMin("LASTSTEP obligations (returns of evalPathStep, flag passed by evalPath)", ls, 3)
			r.Assume("values registered with RegisterVars and inputs passed to Eval do not contain *jsonata.sequence (unexported type: impossible from outside the package)")
		},
	})
	register(&propDef{
		ID:          "C02",
		Explanation: "Decides the NF discipline in the predicate machinery (evalPredicate, applyFilter, arrayify, normalizeArray and the evalPath->evalPathStep->evalOverArray chain a filter path enters with an array item): every reflect accessor receiver is provably resolved on every path, interprocedurally. This is the clause behind the two panics the property names (x[$$.idx], arr[o] on [[1]]). (W) evalPredicate, applyFilter and their helpers write no pre-existing memory and keep no state between calls. (LISTFLOW) in evalPredicate every filter is applied to arrayify of the step's own value or of the survivor list the previous applyFilter returned, and the result is no value or normalizeArray of those survivors — never an element picked out of the list, which arrayify would mistake for the list when it is itself an array. NOT decided: floor/negative index arithmetic, boolean casting, number-array detection, step-local vs whole-path attachment (value-level). (F2I) the numeric predicate is floored (math.Floor) before it becomes an integer position: no float-to-integer conversion in the predicate machinery truncates. (FILTERALL) the loop of applyFilter over the items is left from inside its body only by error returns: every item is judged. (ACCFRESH) every reflect.Append in applyFilter appends to a value rooted in reflect.MakeSlice (through appends, phis and parameters judged at every call). FILTERALL also requires that every eval of the filter node gets an element of the item list as its context.",
		Rule:        commonRule,
		Fixtures:    []string{"nf", "w"},
		Run: func(c *Ctx, r *Result) {
			qm := c.machinery(r, []string{"!jsonata.evalPredicate", "jsonata.evalPath", "jlib.Boolean"}, map[string]bool{"jsonata": true, "jlib": true}, []string{"jsonata.eval"})
			n := runNF(c, c.G, r, "NF", fnsOf(qm), c.REval)
			r.RequireMin("NF accessor sites in the predicate machinery", n, 7)
			runPureSet(c, r, qm, 5)
			af := runACCFRESH(c, r, "ACCFRESH")
			r.RequireMin("ACCFRESH appends to the survivor list in applyFilter", af, 1)
			fa := runFILTERALL(c, r, "FILTERALL")
			r.RequireMin("FILTERALL loops over the items in applyFilter", fa, 1)
			lf := runLISTFLOW(c, r, "LISTFLOW")
			r.RequireMin("LISTFLOW obligations in evalPredicate", lf, 2)
			// a numeric predicate is floored, not truncated
			fi := runF2I(c, r, "F2I", fnsOf(qm))
			r.RequireMin("F2I float-to-integer conversions in the predicate machinery", fi, 1)
		},
	})
	register(&propDef{
		ID:          "C03",
		Explanation: "Decides four structural clauses of the operator table: (FIN) every float produced by evalNumericOperator/evalNegation/evalRange passes two-sided math.IsInf and math.IsNaN tests whose true edges leave by an error return before it is boxed into a value (bit-set dataflow {Inf,NaN} with dominance-based guards); (GUARD) evalRange's size test 0<=size<=10,000,000 dominates the allocation and the constant is the property's; (LAZY) in evalConditional Then/Else are evaluated only on the true/false edge of jlib.Boolean(cond) and no path runs both; (TAB) every switch over NumericOperator/ComparisonOperator/BooleanOperator in the evaluator covers all declared constants, and each parser led is registered for exactly the tokens its switch handles, so no 'unrecognised operator' panic is reachable; (OPTAB) the value each operator's case computes, read from the SSA of the three operator evaluators: + - * / are the float operation on (left, right) in that order, % is math.Mod(left, right), = != < <= > >= in go through eq/lt/lte/in with the documented negations and operand order, and/or are the short-circuit of jlib.Boolean(left), jlib.Boolean(right), & boxes conv(left) + conv(right) on every success path with conv = \"\" for a missing value and jlib.String otherwise, lt compares strictly left with right, and evalNumericOperator contains no arithmetic outside those five cases (no fast path). NOT decided: operand kind checking and the error chosen for each kind combination; eq's deep comparison. (MAPEQ) a hand-written comparison of two maps compares sizes and presence; (F2I) the range size is the difference of two bounds tested to be integers; (NEGFOLD) the optimiser turns a negation only into a NegationNode or a folded number literal, so the operand check of unary minus is never optimised away. (RANGECAP) every integer converted from a JSONata number, and what is derived from it by adding constants or by passing it on, is shown by the interval prover to be at most ten million wherever it is a slice length or capacity, the initial value of a loop counter or a loop bound.",
		Rule:        commonRule,
		Fixtures:    []string{"fin", "guard", "tab", "w", "shape"},
		Run: func(c *Ctx, r *Result) {
			e := newFIN(c, c.G)
			n := runFINBoxing(c, e, r, "FIN", c.fnsNamed(r, "jsonata.evalNumericOperator", "jsonata.evalNegation", "jsonata.evalRange"))
			r.RequireMin("FIN float boxing sites in the arithmetic evaluators", n, 3)
			runRangeGuard(c, r, "GUARD", 10000000)
			runCondLazy(c, r, "LAZY")
			m := runEnumSwitches(c, r, "TAB", []string{"jsonata"}, map[string]bool{"NumericOperator": true, "ComparisonOperator": true, "BooleanOperator": true})
			// the same dispatch written as an if-chain, or moved into a helper, has no switch
			// statement with a default; its "unrecognised operator" panic is then judged on SSA
			// (reached only when the operator differs from every declared constant)
			m += runEnumPanics(c, r, "TAB", libFuncsIn(c, c.REval), map[string]bool{"jparse.NumericOperator": true, "jparse.ComparisonOperator": true, "jparse.BooleanOperator": true})
			r.RequireMin("TAB operator dispatches in the evaluator (switch statements and exhaustive comparison chains)", m, 3)
			k, _ := runRegistrationSwitch(c, r, "TAB")
			r.RequireMin("TAB led/nud registration-vs-switch checks", k, 4)
			ot := runOPTAB(c, r, "OPTAB")
			r.RequireMin("OPTAB operator-table obligations", ot, 17)
			runPureSet(c, r, c.machinery(r, []string{"!jsonata.evalNumericOperator", "!jsonata.evalComparisonOperator", "!jsonata.evalBooleanOperator", "jsonata.evalStringConcatenation", "jsonata.evalRange", "jsonata.evalConditional", "jsonata.evalNegation"}, map[string]bool{"jsonata": true}, []string{"jsonata.eval"}), 3)
			// = / != / in on objects: a hand-written map comparison compares sizes and presence
			var ef []*ssa.Function
			for _, f := range libFuncsIn(c, c.REval) {
				if f.Pkg != nil && f.Pkg.Pkg.Name() == "jsonata" {
					ef = append(ef, f)
				}
			}
			runMAPEQ(c, r, "MAPEQ", ef)
			r.Count("MAPEQ functions scanned", len(ef))
			runF2I(c, r, "F2I", c.fnsNamed(r, "jsonata.evalRange"))
			rc := runRANGECAP(c, r, "RANGECAP", ef)
			r.RequireMin("RANGECAP sizes converted from numbers and used to size a slice or a loop", rc, 1)
			ng := runNEGFOLD(c, r, "NEGFOLD")
			r.RequireMin("NEGFOLD success returns of NegationNode.optimize", ng, 1)
			r.Assume("numbers entering evaluation (decoded JSON, number literals) are finite; FIN shows finiteness is preserved")
		},
	})
	register(&propDef{
		ID:          "C04",
		Explanation: "Extracts the complete parameter set of the Pratt parser from the current source — lexeme->token tables (symbols1, symbols2, lookupKeyword), the binding-power rows and the formula initBindingPowers applies to them, lookupBp, the single binding of the parser's lookup fields, the loop test of parseExpression, each led's recursive right-binding power, the nud/led tables, the lexeme->token->operator-constant->String() chain, and the allowRegex flag of every token consumption that is followed by an operand or by a return to the Pratt loop — and compares it with the precedence relation written in the property (10 rows, all left-associative except := and the greedy else branch). For the token set of the language these parameters determine the parse of every operator chain, so a one-row move, a flipped associativity, a <= in the loop, a swapped operator constant or a wrong regex flag is caught for all ordered pairs, not the sampled ones. (W) nothing under Compile/Parse writes memory that existed before the call: the parse is a function of the text (no cache of parsed sub-expressions or parser state shared between calls). NOT decided: the path/predicate/group re-association done by optimize. (PARENS) parentheses are opaque to the tree builder: BlockNode contents are read only by BlockNode's own methods. (WSDEF) every set of whitespace characters the lexer tests for is the same set. (BLOCKKEEP) every successful return of (*BlockNode).optimize is a *BlockNode: optimisation never removes parentheses. (LEDLOOP) outside parseExpression every call of parseExpression inside a loop has the constant 0 as its binding power.",
		Rule:        commonRule,
		Fixtures:    []string{"tab"},
		Run: func(c *Ctx, r *Result) {
			runPRATT(c, r, "PRATT")
			runPARENS(c, r, "PARENS")
			ll := runLEDLOOP(c, r, "LEDLOOP")
			r.RequireMin("LEDLOOP parseExpression calls inside loops of nud/led functions", ll, 4)
			bk := runBLOCKKEEP(c, r, "BLOCKKEEP")
			r.RequireMin("BLOCKKEEP successful returns of (*BlockNode).optimize", bk, 1)
			ws := runWSDEF(c, r, "WSDEF")
			r.RequireMin("WSDEF definitions of whitespace in the lexer", ws, 1)
			runRegistrationSwitch(c, r, "TAB")
			// the parse is a function of the text: nothing under Compile/Parse writes memory that
			// existed before the call (no cache of parsed sub-expressions, no global parser state)
			runW(c, c.G, r, "W-compile", compileRootCfg(c))
		},
	})
	register(&propDef{
		ID:          "C10",
		Explanation: "Decides: (SEQ) no *sequence escapes (see C01); (FIN) every float result of every function bound in the base environment (and their callees) and every float boxed into a value under Eval is finite or guarded by two-sided IsInf/IsNaN tests; (MARSHAL) every type implementing jtypes.Callable marshals as the constant \"\" through callableMarshaler, every built-in's first result type is JSON-closed, jsonata.ErrUndefined is referenced only by Expr.Eval and returned exactly on the !IsValid edge, and EvalBytes is json.Unmarshal(error checked) -> Eval(on the decoded value, error checked) -> json.Marshal(of Eval's result). (BOXVAL) no reflect.Value handle is boxed into an interface{} that is returned or stored as data (a missing .Interface() would put an internal type, which marshals as {}, into the result). NOT decided: that every nested value of every result is JSON-representable. Every callable struct type has MarshalJSON in its value method set (jtypes.Resolve dereferences callables). (NUMGATE) strconv.ParseFloat in $number sits behind the package-level pattern whose language is the JSON number grammar, so the strings inf/infinity/nan that ParseFloat would turn into non-finite values never reach it.",
		Rule:        commonRule,
		Fixtures:    []string{"seq", "fin", "marshal"},
		Run: func(c *Ctx, r *Result) {
			runSEQ(c, c.G, r, "SEQ", c.W.LibSSA["jsonata"], c.Lib, c.REval.Roots)
			e := newFIN(c, c.G)
			n := runFINBoxed(c, e, r, "FIN", nil)
			r.RequireMin("FIN float-returning built-ins (success returns)", n, 12)
			m := runFINBoxing(c, e, r, "FIN", srcFuncsIn(c.REval))
			r.RequireMin("FIN float boxing sites under Eval", m, 3)
			runMARSHAL(c, r, "MARSHAL")
			// $number: ParseFloat also accepts "inf", "infinity" and "nan" in any case, with a sign;
			// the finiteness of $number's result rests on the syntax gate in front of it
			ng10 := runNUMGATE(c, r, "NUMGATE")
			r.RequireMin("NUMGATE ParseFloat calls in $number", ng10, 1)
			bv := runBOXVAL(c, r, "BOXVAL", libFuncsIn(c, c.REval), c.REval)
			r.Count("BOXVAL reflect.Value boxed into interface{} under Eval", bv)
			r.Assume("numbers entering evaluation (decoded JSON, number literals) are finite")
		},
	})
	register(&propDef{
		ID:          "C11",
		Explanation: "Thin but genuine necessary conditions, decided by table comparison: jparse.jsonEscapes equals RFC 8259 section 7's two-character escape table exactly (no missing, changed or extra letter); true/false/null are lexed as boolean/boolean/null and parseBoolean maps each word to its own value; evalArray has an *ArrayNode case that appends a nested array literal as a unit without iterating over it; (LIT) literal values flow unchanged from token to result: the number nud stores the first result of strconv.ParseFloat(token text, 64) — the nearest double — only after testing its error, the string nud stores unescape(token text) only after testing its ok result, NegationNode.optimize folds a negated literal into the arithmetic negation of the operand's value (so -0 keeps its sign), and the functions eval dispatches number, string and boolean nodes to return reflect.ValueOf(node.Value) on every path (no cache or table in between). (W) nothing under Compile writes pre-existing memory and the literal evaluators (evalNumber/String/Boolean/Null/Array/Object) write only memory of the evaluation. NOT decided: \\u decoding, surrogate pairing, number scanning. (ESCSKIP) in scanString the rune after a backslash is consumed before the scan continues, so an escaped quote or backslash is not taken for the end of the literal. (WSDEF) every set of whitespace characters the lexer tests for, including character sets handed to strings.IndexAny, is the same set.",
		Rule:        commonRule,
		Fixtures:    []string{"tab"},
		Run: func(c *Ctx, r *Result) {
			runJSONLiterals(c, r, "TAB")
			r.RequireMin("TAB JSON-literal obligations", len(r.Obls), 14)
			runESCSKIP(c, r, "ESCSKIP")
			wsd := runWSDEF(c, r, "WSDEF")
			r.RequireMin("WSDEF definitions of whitespace in the lexer", wsd, 1)
			k := runLIT(c, r, "LIT")
			r.RequireMin("LIT literal-flow obligations", k, 6)
			runW(c, c.G, r, "W-compile", compileRootCfg(c))
			runPureSet(c, r, c.machinery(r, []string{"jsonata.evalNumber", "jsonata.evalString", "jsonata.evalBoolean", "jsonata.evalNull", "!jsonata.evalArray", "!jsonata.evalObject"}, map[string]bool{"jsonata": true}, []string{"jsonata.eval"}), 3)
		},
	})
	register(&propDef{
		ID:          "C14",
		Explanation: "Thin: decides structural necessary conditions of the object model. (GROUP) in groupItemsByKey every store into the key map uses a key that is a string by construction (a string literal's Value, or jtypes.AsString with its ok result tested) and follows a comma-ok lookup of the same key, lying on its absent edge or after the test that the entry found came from the same key/value pair — so a second pair producing an existing key reaches the duplicate-key error instead of overwriting or merging, and a non-string key the illegal-key error; (COVER) the object functions' loops over a struct's fields and over a key list run from the first to the last entry, step one, bounded by that container's own length ($keys, $each, $sift, $spread, $merge visit every member once); (W) evalObject, groupItemsByKey and the object built-ins write only memory of the evaluation and keep no state. NOT decided: the partition law itself (which items belong to which key), the value evaluation over a group, $merge precedence, $lookup = field selection — value-level. (DEDUP) test-and-set pairing on set-like maps: a name appended because it was absent from the set is stored into it.",
		Rule:        commonRule,
		Fixtures:    []string{"w", "shape"},
		Run: func(c *Ctx, r *Result) {
			g := runGROUP(c, r, "GROUP")
			r.RequireMin("GROUP stores into the key map", g, 3)
			var cf []*ssa.Function
			for _, f := range libFuncsIn(c, c.REval) {
				if f.Pkg != nil && f.Pkg.Pkg.Name() == "jlib" && filepath.Base(c.W.Fset.Position(exceptionRoot(f).Pos()).Filename) == "object.go" {
					cf = append(cf, f)
				}
			}
			for _, n := range []string{"jsonata.groupItemsByKey", "jsonata.evalObject"} {
				if f := c.mustFn(r, n); f != nil {
					cf = append(cf, f)
				}
			}
			cv := runCOVER(c, r, "COVER", cf, nil)
			r.RequireMin("COVER traversal loops in the object machinery", cv, 8)
			dd := runDEDUP(c, r, "DEDUP", libFuncsIn(c, c.REval))
			r.Count("DEDUP test-and-set sites under Eval", dd)
			runPureSet(c, r, c.machinery(r, []string{"!jsonata.evalObject", "jsonata.evalGroup", "jsonata.lookup"}, map[string]bool{"jsonata": true}, []string{"jsonata.eval"}), 3)
			runPureFamily(c, r, []string{"jlib.Keys", "jlib.Each", "jlib.Sift", "jlib.Spread", "jlib.Merge"}, map[string]bool{"jlib": true}, 15)
		},
	})
	register(&propDef{
		ID:          "C17",
		Explanation: "Thin: decides structural necessary conditions of the regex functions. (KEYS) the match object built by (*matchCallable).Call and the members jlib.callMatchFunc reads back are the same set of names (writer/reader agreement: match, start, end, groups, next); findMatches asks the engine for all matches with group offsets (FindAllStringSubmatchIndex(s, -1)); a regex literal is regexp.Compile(token text) with the error tested, so an invalid pattern is a compile error; no jlib function applies a regexp method to anything but the package's own fixed patterns, so $match, $contains, $split and $replace all work from the one match list findMatches produces; (BND needs) $split and $replace slice the subject only after checkMatchRanges; (W) the regex callables and $match/$contains/$split/$replace write only memory of the evaluation (no cache of compiled patterns or matches). NOT decided: agreement of offsets, groups and $N expansion with RE2 as values; flags; the limit argument. (ESCSKIP) in scanRegex the rune after a backslash is consumed before scanning continues; the previous-rune form must carry a constant over after an escaped rune.",
		Rule:        commonRule,
		Fixtures:    []string{"w"},
		Run: func(c *Ctx, r *Result) {
			es := runESCSKIPOn(c, r, "ESCSKIP", "jparse.(*lexer).scanRegex", "scanRegex")
			r.RequireMin("ESCSKIP escape handling in scanRegex", es, 1)
			k := runKEYS(c, r, "KEYS")
			r.RequireMin("KEYS obligations", k, 4)
			// $split and $replace cut the subject at the offsets of the match objects they were
			// handed (jlib.match.indexes): every such slice, wherever it lives in jlib, comes
			// after checkMatchRanges
			{
				needs := "jlib.checkMatchRanges"
				c.mustFn(r, needs)
				bndCtx = c
				fromIndexes := func(v ssa.Value) bool {
					seen := map[ssa.Value]bool{}
					var walk func(v ssa.Value, d int) bool
					walk = func(v ssa.Value, d int) bool {
						if v == nil || seen[v] || d > 8 {
							return false
						}
						seen[v] = true
						switch x := v.(type) {
						case *ssa.UnOp:
							return walk(x.X, d+1)
						case *ssa.IndexAddr:
							return walk(x.X, d+1)
						case *ssa.Index:
							return walk(x.X, d+1)
						case *ssa.FieldAddr:
							if st, ok := deref(x.X.Type()).Underlying().(*types.Struct); ok && st.Field(x.Field).Name() == "indexes" {
								return true
							}
							return walk(x.X, d+1)
						case *ssa.Field:
							if st, ok := x.X.Type().Underlying().(*types.Struct); ok && st.Field(x.Field).Name() == "indexes" {
								return true
							}
							return walk(x.X, d+1)
						case *ssa.BinOp:
							return walk(x.X, d+1) || walk(x.Y, d+1)
						case *ssa.Phi:
							for _, e := range x.Edges {
								if walk(e, d+1) {
									return true
								}
							}
						}
						return false
					}
					return walk(v, 0)
				}
				nn := 0
				for _, f := range libFuncsIn(c, c.REval) {
					if f.Pkg == nil || f.Pkg.Pkg.Name() != "jlib" || shortFn(f) == needs {
						continue
					}
					ord := 0
					for _, bs := range bndSitesIn(c, f) {
						if bs.kind != "slice" || !isStringType(bs.x.Type()) || !(fromIndexes(bs.lo) || fromIndexes(bs.hi)) {
							continue
						}
						ord++
						nn++
						o := Obligation{Rule: "NEEDS", Key: fmt.Sprintf("%s:match-slice#%d", shortFn(f), ord), Fn: shortFn(f), Pos: c.W.Pos(bs.ins.Pos()), Nontrivial: true}
						if dominatedByCallTo(bs.ins, needs) {
							o.Verdict, o.Reason = Discharged, "the subject is cut at match offsets only after "+needs
						} else {
							o.Verdict, o.Reason = Finding, shortFn(f)+" slices the subject string at match positions without a dominating call to "+needs
						}
						r.Add(o)
					}
				}
				r.RequireMin("NEEDS string slices at match offsets in jlib", nn, 3)
			}
			runPureNamed(c, r, []string{"jsonata.newMatchCallable", "jsonata.newRegexCallable", "jsonata.evalRegex"}, []string{"jsonata.regexCallable", "jsonata.matchCallable"}, 3)
			runPureFamily(c, r, []string{"jlib.Match", "jlib.Contains", "jlib.Split", "jlib.Replace"}, map[string]bool{"jlib": true}, 10)
		},
	})
	register(&propDef{
		ID:          "C13",
		Explanation: "Decides: the functions implementing order-by and $sort write only memory of the same evaluation and hand none to unreviewed library code (W restricted to the sort machinery: no pooled or cached sort records); every sort call reachable from Eval is a stable variant (sort.SliceStable/sort.Stable); every comparator handed to them returns only constants, strict < / > tests, or calls that return only those (no <=, >=, ==, negation, lte) — a non-strict less function breaks stability for ties; the slice sorted in place is allocated by the same evaluation; jlib.merge calls the user comparator as swap(left head, right head) and takes the left head on a false result, so the hand-written merge sort is stable. Go's unstable sort is an insertion sort below 12 items, so none of this is visible to the suite. NOT decided: permutation/order/error clauses as values, key typing, direction per term. (MISSLAST) the order-by comparator answers false when the first item's key is absent and true when the second item's is: items without the key go last; (SORTTYPES) mixed number/string keys of one term are detected whatever lies between them. (PERITEM) what parseSort records for a sort term is computed in that term's own round of the loop. (SORTVALID) order-by returns a value only behind the err == nil edge of the key validator. (SORTGATE) the collectors that skip members of another type are called only on the true edge of jtypes.IsArrayOf on the same array.",
		Rule:        commonRule,
		Fixtures:    []string{"sort", "shape"},
		Run: func(c *Ctx, r *Result) {
			runSORT(c, c.G, r, "SORT", c.REval, c.Lib, 3)
			runMERGE(c, r, "MERGE")
			ml := runMISSLAST(c, r, "MISSLAST")
			r.RequireMin("MISSLAST absent-key answers of the order-by comparator", ml, 2)
			// the parser functions that build sort terms: those that store into a SortTerm
			var sortParsers []*ssa.Function
			for _, f := range c.W.FuncsOf(PkgSet{c.W.Lib["jparse"].Types: true}) {
				if !c.RCompile.Set[f] {
					continue
				}
				for _, ins := range instrsIn(f) {
					if fa, ok := ins.(*ssa.FieldAddr); ok {
						if nt, ok := deref(fa.X.Type()).(*types.Named); ok && nt.Obj().Name() == "SortTerm" {
							sortParsers = append(sortParsers, f)
							break
						}
					}
				}
			}
			pi := runPERITEM(c, r, "PERITEM", sortParsers)
			r.RequireMin("PERITEM fields of sort terms recorded in parser loops", pi, 2)
			sg := runSORTGATE(c, r, "SORTGATE")
			r.RequireMin("SORTGATE calls of type-filtering collectors", sg, 2)
			sv := runSORTVALID(c, r, "SORTVALID")
			r.RequireMin("SORTVALID value returns of the callers of the sort-key validator", sv, 1)
			st := runSORTTYPES(c, r, "SORTTYPES")
			r.RequireMin("SORTTYPES obligations in buildSortInfo", st, 3)
			// the sort machinery works only on state of the same evaluation: every write (and every
			// hand-over of memory to an unreviewed library function, e.g. an object pool) inside the
			// functions that implement order-by and $sort targets fresh memory
			// (the machinery: order-by's evaluator and $sort, with everything of the module they call
			// short of the node dispatcher eval, whatever the helpers are called)
			sortFam := c.machinery(r, []string{"!jsonata.evalSort", "!jlib.Sort"}, map[string]bool{"jsonata": true, "jlib": true}, []string{"jsonata.eval"})
			sortFns := map[string]bool{}
			for f := range sortFam {
				if shortFn(f) != "jsonata.eval" {
					sortFns[exceptionKey(f)] = true
				}
			}
			if len(sortFns) < 7 {
				r.LoseAnchor("C13: the sort machinery has only %d functions (>= 7 expected)", len(sortFns))
			}
			runWFiltered(c, c.G, r, "W", evalRootCfg(c), func(s wSite) bool { return sortFns[exceptionKey(s.f)] })
			r.RequireMin("W write sites examined (root Eval/EvalBytes/String)", r.Counts["W write sites examined (root Eval/EvalBytes/String)"], 15)
		},
	})
	register(&propDef{
		ID:          "C15",
		Explanation: "Decides: (W) the array, higher-order and aggregate built-ins of jlib/array.go, hof.go and aggregate.go write only memory they allocated themselves — no append into the spare capacity of an argument, no in-place reversal or sort — so a result never shares storage with an argument or with another result; (HASH) no function under $distinct (and nothing else under Eval) uses a map with interface keys indexed by a dynamically typed value (panics on arrays/objects/functions) or an fmt.Sprint rendering as the identity of a value (conflates {\"a\":1} and {\"a\":\"1\"}); and FIN for the aggregate functions $sum/$max/$min/$average (no unguarded overflow). NOT decided: every other definitional clause (visit order, fold direction, permutation), which are value-level. (MAPEQ) a hand-written map equality under $distinct compares sizes and presence. (NUMKINDS) a type switch that tests some numeric kinds tests all twelve. (HOFARGS) the callback's whole-array argument is the array its value argument was read from.",
		Rule:        commonRule,
		Fixtures:    []string{"hash", "fin", "w", "shape"},
		Run: func(c *Ctx, r *Result) {
			d := c.mustFn(r, "jlib.Distinct")
			if d != nil {
				reach := c.G.Reach(d)
				n := runHASH(c, r, "HASH", srcFuncsIn(c.REval), c.REval)
				maps := 0
				for _, f := range srcFuncsIn(reach) {
					for _, ins := range instrsIn(f) {
						switch ins.(type) {
						case *ssa.MapUpdate, *ssa.Lookup, *ssa.MakeMap:
							maps++
						}
					}
				}
				r.Add(Obligation{Rule: "HASH", Key: "jlib.Distinct:identity-scan", Fn: "jlib.Distinct", Pos: c.W.Pos(d.Pos()), Verdict: Discharged, Nontrivial: true,
					Reason: "scanned the functions reachable from jlib.Distinct (" + itoa(len(reach.Set)) + ") and all of reach(Eval): " + itoa(n) + " interface-keyed map accesses, " + itoa(maps) + " map operations under Distinct; membership is decided by value comparison"})
			}
			e := newFIN(c, c.G)
			k := runFINBoxed(c, e, r, "FIN", map[string]bool{"jlib.Sum": true, "jlib.Max": true, "jlib.Min": true, "jlib.Average": true})
			r.RequireMin("FIN aggregate success returns", k, 8)
			// the array, higher-order and aggregate built-ins are functions of their arguments: they
			// build their results in memory of their own and never write into (the spare capacity
			// of) an argument — otherwise two results derived from one array share storage and a
			// later call rewrites an earlier result
			files := map[string]bool{"array.go": true, "hof.go": true, "aggregate.go": true}
			for _, name := range []string{"jlib.Map", "jlib.Filter", "jlib.Reduce", "jlib.Single", "jlib.Append", "jlib.Reverse", "jlib.Zip", "jlib.Distinct", "jlib.Shuffle", "jlib.Sum", "jlib.Max", "jlib.Min", "jlib.Average"} {
				c.mustFn(r, name)
			}
			runWFiltered(c, c.G, r, "W", evalRootCfg(c), func(s wSite) bool {
				if s.f.Pkg == nil || s.f.Pkg.Pkg.Name() != "jlib" {
					return false
				}
				return files[filepath.Base(c.W.Fset.Position(s.ins.Pos()).Filename)] || files[filepath.Base(c.W.Fset.Position(exceptionRoot(s.f).Pos()).Filename)]
			})
			r.RequireMin("W write sites examined (root Eval/EvalBytes/String)", r.Counts["W write sites examined (root Eval/EvalBytes/String)"], 20)
			// $distinct and friends: a hand-written map comparison compares sizes and presence
			var mf []*ssa.Function
			for _, f := range libFuncsIn(c, c.REval) {
				if f.Pkg != nil && f.Pkg.Pkg.Name() == "jlib" {
					mf = append(mf, f)
				}
			}
			runMAPEQ(c, r, "MAPEQ", mf)
			r.Count("MAPEQ functions scanned", len(mf))
			nk := runNUMKINDS(c, r, "NUMKINDS", libFuncsIn(c, c.REval))
			r.Count("NUMKINDS type switches over numeric types", nk)
			r.Count("NUMKINDS functions scanned", len(libFuncsIn(c, c.REval)))
			// every member visited once, in order
			var cf []*ssa.Function
			for _, f := range libFuncsIn(c, c.REval) {
				if f.Pkg != nil && f.Pkg.Pkg.Name() == "jlib" && files[filepath.Base(c.W.Fset.Position(exceptionRoot(f).Pos()).Filename)] {
					cf = append(cf, f)
				}
			}
			ha := runHOFARGS(c, r, "HOFARGS", cf)
			r.RequireMin("HOFARGS callback argument lists (value, index, array)", ha, 2)
			cv := runCOVER(c, r, "COVER", cf, map[string]bool{"jlib.Reverse": true})
			r.RequireMin("COVER traversal loops in the array/hof/aggregate built-ins", cv, 12)
		},
	})
	register(&propDef{
		ID:          "C16",
		Explanation: "Decides: (UNIT) in Substring, Pad, positionOfNthRune and abs every integer addition, comparison, string-slice bound and positionOfNthRune argument keeps code-point counts (utf8.RuneCountInString, the built-ins' integer parameters) apart from byte offsets (len(string), strings.Index*, range keys, decode widths) — a len(s) where a rune count is meant passes every ASCII sample; (CODEC) $base64encode/$base64decode reference the same base64 encoding variable, $encodeUrlComponent/$decodeUrlComponent use a matching escape/unescape pair of net/url, and $length is bound to utf8.RuneCountInString; (W) the string built-ins are functions of their arguments: no write to pre-existing memory and no process-wide cache in $substring*, $pad, $trim, $contains, $split, $join, $match, $replace and the encode/decode functions or their jlib callees. NOT decided: the laws as string equalities; $split/$join/$replace/$trim. (SEPLEN) no loop of the string functions decides whether to write a separator by testing the accumulated output for emptiness while it also writes elements that may be empty.",
		Rule:        commonRule,
		Fixtures:    []string{"unit", "w", "shape"},
		Run: func(c *Ctx, r *Result) {
			runUNIT(c, r, "UNIT")
			runCODEC(c, r, "CODEC")
			runPureFamily(c, r, []string{"jlib.Substring", "jlib.SubstringBefore", "jlib.SubstringAfter", "jlib.Pad", "jlib.Trim", "jlib.Contains", "jlib.Split", "jlib.Join", "jlib.Match", "jlib.Replace",
				"jlib.Base64Encode", "jlib.Base64Decode", "jlib.EncodeURL", "jlib.EncodeURLComponent", "jlib.DecodeURL"}, map[string]bool{"jlib": true}, 20)
			// separators decided by position, never by "the output is not empty yet"
			var sfns []*ssa.Function
			for _, f := range c.G.Funcs {
				if pk := fnPkg(f); pk != nil && c.REval.Set[f] && (pk.Name() == "jlib" || pk.Name() == "jxpath") {
					sfns = append(sfns, f)
				}
			}
			sortFns(sfns)
			runSEPLEN(c, r, "SEPLEN", sfns)
			r.Count("SEPLEN functions scanned", len(sfns))
			if len(sfns) < 100 {
				r.LoseAnchor("SEPLEN: only %d jlib/jxpath functions under Eval (>= 100 expected)", len(sfns))
			}
		},
	})
	register(&propDef{
		ID:          "C19",
		Explanation: "Decides: (TAB) expandDateComponent's switch and defaultDateFormats cover all 17 declared date components; (CLOCK) the only clock read under Eval is time.Now in Expr.newEnv, called once per Eval outside loops, and $now and $millis embed conversions of one and the same SSA value; (GUARD-API) no nanoseconds-since-epoch API (UnixNano: defined only 1678..2262) is reachable from $toMillis; (GUARD) every integer division/modulo under $fromMillis has a dominating non-zero test of its divisor; (W) $fromMillis/$toMillis and the picture machinery beneath them are functions of their arguments (no write to pre-existing memory, no process-wide cache). NOT decided: calendar field values (the 12-hour clock showing 0 for the midnight hour is real and value-level), the inverse law. (RANGE12) interval proof over SSA with difference constraints: every integer that the formatter dispatched for the 12-hour component hands to formatIntegerComponent lies in 1..12, from time.Time.Hour in 0..23, x % 12 in 0..11 for non-negative x and the dominating zero test; the constant flag passed by the dispatching function is assumed inside the shared helper. (ARGUSE) every argument of FromMillis is read on every path to a successful return. (AMPM) interval proof at both arms of the am/pm choice in the formatter of [P]: where the pm names are chosen time.Time.Hour is at least 12, where the am names are chosen it is at most 11.",
		Rule:        commonRule,
		Fixtures:    []string{"guard", "tab", "w", "shape"},
		Run: func(c *Ctx, r *Result) {
			runDateTables(c, r, "TAB")
			runEnumSwitches(c, r, "TAB", []string{"jxpath"}, map[string]bool{"dateComponent": true})
			runCLOCK(c, r, "CLOCK")
			ap := runAMPM(c, r, "AMPM")
			r.RequireMin("AMPM arms of the am/pm choice", ap, 2)
			r12 := runRANGE12(c, r, "RANGE12")
			r.RequireMin("RANGE12 integers formatted for the 12-hour component", r12, 1)
			runUnixNano(c, r, "GUARD-API")
			fm := c.mustFn(r, "jlib.FromMillis")
			au := runARGUSE(c, r, "ARGUSE", fm)
			r.RequireMin("ARGUSE arguments of $fromMillis", au, 3)
			if fm != nil {
				reach := c.G.Reach(fm)
				n := runGUARD(c, r, "GUARD", srcFuncsIn(reach), reach)
				r.RequireMin("GUARD partial operations under FromMillis", n, 3)
			}
			runPureFamily(c, r, []string{"jlib.FromMillis", "jlib.ToMillis"}, map[string]bool{"jlib": true, "jxpath": true}, 30)
		},
	})
}

// panicSites: explicit panics under a root set; each must be an unreachable switch default
// (proved by TAB) or a reviewed exception.
var panicExceptions = map[string]string{
	"jparse.Parse$1":      "Parse's deferred closure re-panics a recovered value that is not a *Error: it only forwards a panic that some other rule would have to exclude (ERR shows every value thrown by the parser itself is a *Error)",
	"jsonata.MustCompile": "the documented panic of MustCompile; that it happens exactly when Compile returned an error is decided by the MustCompile shape rule (ERR)",
	"jsonata.lt":          "lt panics for operands that are not both numbers or both strings; its callers (evalComparisonOperator after the type gate, makeLessFunc after buildSortInfo's type bookkeeping, lte) establish that by value reasoning the analysis does not model: listed, not decided",
}

// exhaustiveEnumDefault: the instruction is reached only over the false edges of `tag == K` for
// every declared constant K of tag's named integer type (the default of an exhaustive switch,
// wherever the switch lives). Returns the type name, or "".
func exhaustiveEnumDefault(c *Ctx, ins ssa.Instruction) string {
	seen := map[string]map[int64]bool{} // type -> constants excluded
	tagOf := map[string]ssa.Value{}
	for d := ins.Block(); d != nil; d = d.Idom() {
		if len(d.Preds) != 1 {
			continue
		}
		pr := d.Preds[0]
		iff, ok := pr.Instrs[len(pr.Instrs)-1].(*ssa.If)
		if !ok || pr.Succs[1] != d || pr.Succs[0] == d {
			continue
		}
		bo, ok := iff.Cond.(*ssa.BinOp)
		if !ok || bo.Op != token.EQL {
			continue
		}
		k, ok := bo.Y.(*ssa.Const)
		if !ok || k.Value == nil || k.Value.Kind() != constant.Int {
			continue
		}
		nt, ok := bo.X.Type().(*types.Named)
		if !ok || nt.Obj().Pkg() == nil || !c.Lib[nt.Obj().Pkg()] {
			continue
		}
		name := nt.Obj().Pkg().Name() + "." + nt.Obj().Name()
		if prev, has := tagOf[name]; has && prev != bo.X {
			if bndCtx == nil || bndCtx.canon(prev) != bndCtx.canon(bo.X) {
				continue
			}
		}
		tagOf[name] = bo.X
		if seen[name] == nil {
			seen[name] = map[int64]bool{}
		}
		v, _ := constant.Int64Val(k.Value)
		seen[name][v] = true
	}
	for name, ks := range seen {
		nt := tagOf[name].Type().(*types.Named)
		all, n := true, 0
		scope := nt.Obj().Pkg().Scope()
		for _, nm := range scope.Names() {
			if cst, ok := scope.Lookup(nm).(*types.Const); ok && types.Identical(cst.Type(), nt) {
				n++
				v, _ := constant.Int64Val(cst.Val())
				if !ks[v] {
					all = false
				}
			}
		}
		if all && n > 0 {
			return name
		}
	}
	return ""
}

// runEnumPanics: explicit panics that are the "no constant matched" exit of a dispatch over a
// named integer type — whether the dispatch is a switch with a default, a switch followed by the
// panic, or a chain of ifs. Each is an obligation: every declared constant of the type must
// have been compared with on the way (exhaustiveEnumDefault); a panic behind only some of the
// constants is reachable for the others.
func runEnumPanics(c *Ctx, r *Result, rule string, fns []*ssa.Function, only map[string]bool) int {
	bndCtx = c
	n := 0
	for _, f := range fns {
		if f.Name() == "panicf" {
			continue
		}
		ord := 0
		for _, ins := range instrsIn(f) {
			isPanic := false
			switch x := ins.(type) {
			case *ssa.Panic:
				isPanic = true
			case ssa.CallInstruction:
				if callee := x.Common().StaticCallee(); callee != nil && callee.Name() == "panicf" {
					isPanic = true
				}
			}
			if !isPanic {
				continue
			}
			tname, partial := enumDefaultOf(c, ins)
			if tname == "" || (only != nil && !only[tname]) {
				continue
			}
			ord++
			n++
			o := Obligation{Rule: rule, Key: fmt.Sprintf("%s:dispatch(%s)#%d", shortFn(f), tname, ord), Fn: shortFn(f), Pos: c.W.Pos(ins.Pos()), Nontrivial: true}
			if len(partial) == 0 {
				o.Verdict, o.Reason = Discharged, "the panic is reached only when the value differs from every declared constant of "+tname
			} else {
				o.Verdict, o.Reason = Finding, fmt.Sprintf("the dispatch over %s does not handle %v before it panics: a value the parser can produce reaches the panic", tname, partial)
			}
			r.Add(o)
		}
	}
	return n
}

// enumDefaultOf: when ins is reached only over false edges of `tag == K` comparisons on a value
// of a named integer type of the module, the type and the declared constants NOT compared with.
func enumDefaultOf(c *Ctx, ins ssa.Instruction) (string, []string) {
	seen := map[string]map[int64]bool{}
	tagOf := map[string]ssa.Value{}
	for d := ins.Block(); d != nil; d = d.Idom() {
		if len(d.Preds) != 1 {
			continue
		}
		pr := d.Preds[0]
		iff, ok := pr.Instrs[len(pr.Instrs)-1].(*ssa.If)
		if !ok || pr.Succs[1] != d || pr.Succs[0] == d {
			continue
		}
		bo, ok := iff.Cond.(*ssa.BinOp)
		if !ok || bo.Op != token.EQL {
			continue
		}
		k, ok := bo.Y.(*ssa.Const)
		if !ok || k.Value == nil || k.Value.Kind() != constant.Int {
			continue
		}
		nt, ok := bo.X.Type().(*types.Named)
		if !ok || nt.Obj().Pkg() == nil || !c.Lib[nt.Obj().Pkg()] {
			continue
		}
		name := nt.Obj().Pkg().Name() + "." + nt.Obj().Name()
		if prev, has := tagOf[name]; has && prev != bo.X {
			if bndCtx == nil || bndCtx.canon(prev) != bndCtx.canon(bo.X) {
				continue
			}
		}
		tagOf[name] = bo.X
		if seen[name] == nil {
			seen[name] = map[int64]bool{}
		}
		v, _ := constant.Int64Val(k.Value)
		seen[name][v] = true
	}
	best, bestN := "", 0
	for name, ks := range seen {
		if len(ks) > bestN {
			best, bestN = name, len(ks)
		}
	}
	if best == "" {
		return "", nil
	}
	nt := tagOf[best].Type().(*types.Named)
	var missing []string
	scope := nt.Obj().Pkg().Scope()
	byVal := map[int64]string{}
	for _, nm := range scope.Names() {
		if cst, ok := scope.Lookup(nm).(*types.Const); ok && types.Identical(cst.Type(), nt) {
			v, _ := constant.Int64Val(cst.Val())
			if _, dup := byVal[v]; !dup {
				byVal[v] = nm
			}
		}
	}
	for v, nm := range byVal {
		if !seen[best][v] {
			missing = append(missing, nm)
		}
	}
	sort.Strings(missing)
	return best, missing
}

func runPanics(c *Ctx, r *Result, rule string, reach *Reach, tabProved map[string]bool) int {
	bndCtx = c
	n := 0
	for _, f := range srcFuncsIn(reach) {
		if f.Name() == "panicf" {
			continue
		}
		ord := 0
		for _, ins := range instrsIn(f) {
			isPanic := false
			switch ins := ins.(type) {
			case *ssa.Panic:
				isPanic = true
				// panics that throw an error value are obligations of the ERR rule
				v := ins.X
				if mi, ok := v.(*ssa.MakeInterface); ok {
					v = mi.X
				}
				if ci, ok := v.(*ssa.ChangeInterface); ok {
					v = ci.X
				}
				if isErrorType(v.Type()) || isNamed(v.Type(), "jparse", "Error") {
					isPanic = false
				}
			case ssa.CallInstruction:
				if callee := ins.Common().StaticCallee(); callee != nil && callee.Name() == "panicf" {
					isPanic = true
				}
			}
			if !isPanic {
				continue
			}
			ord++
			n++
			o := Obligation{Rule: rule, Key: fmt.Sprintf("%s:panic#%d", shortFn(f), ord), Fn: shortFn(f), Pos: c.W.Pos(ins.Pos()), Nontrivial: true}
			switch {
			case tabProved[shortFn(f)]:
				o.Verdict, o.Reason = Discharged, "the panic is the default of a dispatch switch that TAB shows exhaustive over everything the parser can produce"
			case exhaustiveEnumDefault(c, ins) != "":
				o.Verdict, o.Reason = Discharged, "the panic is reached only when a value of type "+exhaustiveEnumDefault(c, ins)+" differs from every declared constant of that type"
			case panicExceptions[shortFn(f)] != "":
				o.Verdict, o.Reason = Exception, panicExceptions[shortFn(f)]
			default:
				o.Verdict, o.Reason = Finding, "an explicit panic is reachable from the root and is not covered by an exhaustiveness argument"
				o.Path = reach.Path(f)
			}
			r.Add(o)
		}
	}
	return n
}

func init() {
	register(&propDef{
		ID:          "C09",
		Explanation: "Decides the crash/hang classes that are visible in the shape of the code, over everything reachable from Eval in the module call graph: (NF) every kind-specific reflect accessor gets a provably resolved receiver (138 sites, interprocedural); (TAB) eval's type switch covers every node type the parser can emit and every operator-enum switch is exhaustive, so the 'unexpected node'/'unrecognised operator' panics are unreachable; (PANIC) every explicit panic under Eval is one of those or a listed exception; (LOOP) every loop under Eval has a recognised variant (range, counted towards an invariant bound, shrinking-suffix consumer, positive multiplicative scaling, or a reviewed entry) and every recursive SCC a reviewed structural descent; (GUARD) integer / and % have a dominating non-zero test, strconv.FormatInt bases are confined to [2,36], strings.Repeat counts are non-negative; (HASH) no interface-keyed map is indexed with a dynamically typed value; (IDX) every reflect.Value.Index gets an index proved within 0..Len-1; (BND) every native index and slice expression under Eval is in range: either the Go compiler's own prove pass removes its bounds check (asked with -d=ssa/check_bce on the current tree), or a difference-constraint proof over dominating comparisons, definitions and library post-conditions gives 0 <= low <= high <= len, or the unproved part is covered by a reviewed one-site invariant. (TA) every single-result type assertion is dominated by a reflect type test of the same value against a type variable whose initialiser denotes the asserted type, or asserts the success result of a function that only returns that type, or is a reviewed exception; (RO) the value of a struct field (Value.Field/FieldByName/FieldByIndex — possibly unexported, hence read-only for reflect) is only inspected until a CanInterface test, or the PkgPath test of the same field, has shown it usable, so function values and Go structs used as data cannot make reflect panic; (NILTYPE) no method is called on reflect.TypeOf(x) unless x is shown non-nil; (ZERO) a zero value is synthesised for a missing argument (reflect.Zero) only for optional parameter types, interface{} and reflect.Value, never for a named interface such as jtypes.Callable, whose nil value the built-ins would call; (ACYC) every store made through reflection into a data container (Value.Set/SetMapIndex) goes into a container allocated by the same activation or stores a scalar/zero Value, so Eval cannot make a value contain itself — the recursive walkers' descent arguments need finite depth. The transform's update store fails this and is a known finding. (KIND) every reflect.Value method with a kind or validity precondition (Len, Index, MapKeys, MapIndex, NumField, Field*, Float, Int, Bool, IsNil, Elem, Call, Type, Interface, CanInterface, Convert, Set, ...) gets a receiver whose possible kinds — computed interprocedurally over the module call graph in an own/resolved two-view lattice and refined by the dominating IsValid, == undefined, Kind() and jtypes-predicate tests — are all accepted by the method (interface/pointer kinds at the NF accessors being NF's obligation), or is a reviewed exception. NOT decided: nil interfaces used as values, reflect.Set on zero Values, stack depth, lt's own panic. (KIND, argument clause) the values handed to Value.Set, reflect.Append and reflect.AppendSlice are never the zero Value; (TA P3) an element of a local slice is asserted to type T only when every store into that slice boxes a T; (SORTTYPES) the mixed-type error of a sort term is decided from a per-term record kept over all items and only ever set, so lt never sees a number and a string. (OKUSE) the value of a comma-ok helper of the module whose failure path returns (nil, false) — jtypes.AsCallable and its like — is used only behind a test of its own ok result; a test of the sibling Is… predicate does not count, the two need not agree.",
		Rule:        commonRule,
		Fixtures:    []string{"nf", "guard", "hash", "tab", "loop", "bnd", "ta", "ro", "kind", "shape"},
		Run: func(c *Ctx, r *Result) {
			n := runNF(c, c.G, r, "NF", srcFuncsIn(c.REval), c.REval)
			r.RequireMin("NF accessor sites under Eval", n, 130)
			runEvalDispatch(c, r, "TAB")
			m := runEnumSwitches(c, r, "TAB", []string{"jsonata", "jlib", "jxpath", "jtypes"}, nil)
			m += runEnumPanics(c, r, "TAB", libFuncsIn(c, c.REval), nil)
			r.RequireMin("TAB enum dispatches with a panicking/erroring default (switch statements and exhaustive comparison chains)", m, 4)
			tabProved := map[string]bool{"jsonata.eval": true, "jsonata.evalNumericOperator": true, "jsonata.evalComparisonOperator": true, "jsonata.evalBooleanOperator": true}
			if df := evalDispatchFn(c); df != nil {
				tabProved[shortFn(df)] = true
			}
			p := runPanics(c, r, "PANIC", c.REval, tabProved)
			r.RequireMin("PANIC explicit panic sites under Eval", p, 5)
			counts := runLOOP(c, r, "LOOP", srcFuncsIn(c.REval), c.REval)
			total := 0
			for _, v := range counts {
				total += v
			}
			r.RequireMin("LOOP loops under Eval", total, 90)
			r.Note("LOOP classes under Eval: %v", counts)
			k := runRecursion(c, r, "REC", c.REval)
			r.RequireMin("REC recursive SCCs under Eval", k, 8)
			g := runGUARD(c, r, "GUARD", srcFuncsIn(c.REval), c.REval)
			r.RequireMin("GUARD partial operations under Eval", g, 9)
			ix := runIDX(c, r, "IDX", srcFuncsIn(c.REval), c.REval)
			r.RequireMin("IDX reflect.Value.Index sites under Eval", ix, 40)
			h := runHASH(c, r, "HASH", srcFuncsIn(c.REval), c.REval)
			r.Count("HASH interface-keyed map accesses under Eval", h)
			runBNDFor(c, r, "BND", c.REval, "Eval", 180, 50)
			ed := runERRDROP(c, r, "ERRDROP", libFuncsIn(c, c.REval))
			r.RequireMin("ERRDROP errors produced inside loops under Eval", ed, 20)
			rt := runREFLTYPE(c, r, "REFLTYPE", libFuncsIn(c, c.REval))
			r.RequireMin("REFLTYPE reflect.AppendSlice calls under Eval", rt, 1)
			ou := runOKUSE(c, r, "OKUSE", libFuncsIn(c, c.REval))
			r.RequireMin("OKUSE calls of comma-ok helpers with a nilable value", ou, 4)
			ta := runTA(c, r, "TA", libFuncsIn(c, c.REval), c.REval)
			r.RequireMin("TA single-result type assertions under Eval", ta, 10)
			ro := runRO(c, r, "RO", libFuncsIn(c, c.REval), c.REval)
			r.RequireMin("RO struct-field reads under Eval", ro, 5)
			kd := runKIND(c, r, "KIND", libFuncsIn(c, c.REval), c.REval)
			r.RequireMin("KIND reflect.Value method calls with a kind or validity precondition under Eval", kd, 250)
			ac := runACYC(c, r, "ACYC", libFuncsIn(c, c.REval), c.REval)
			r.RequireMin("ACYC reflective stores into data containers under Eval", ac, 7)
			zr := runZERO(c, r, "ZERO", libFuncsIn(c, c.REval), c.REval)
			r.RequireMin("ZERO synthesised zero values under Eval", zr, 1)
			// lt panics on a number and a string: the sort-term type record keeps them apart
			runSORTTYPES(c, r, "SORTTYPES")
			nt := runNILTYPE(c, r, "NILTYPE", libFuncsIn(c, c.REval), c.REval)
			r.RequireMin("NILTYPE method calls on reflect.TypeOf results under Eval", nt, 1)
			r.Assume("user-defined JSONata functions are not unboundedly recursive (excluded by the property)")
			r.Assume("Go values handed to Eval are acyclic (JSON-decoded data); jtypes.Resolve follows pointer chains")
			r.Assume("runes in a DecimalFormat are valid (utf8.RuneLen >= 1), as updateDecimalFormat enforces for user-supplied options")
		},
	})
	register(&propDef{
		ID:          "C18",
		Explanation: "Decides: (LOOP) every loop reachable from $formatNumber/$formatBase/$round/$number/$string has a recognised variant — in particular FormatNumber's mantissa scaling loop multiplies a value that is provably positive on entry (math.Abs of a value tested non-zero), the clause whose absence made $formatNumber(0, \"0.0e0\") hang; (FIN) $power, $sqrt and $round cannot return ±Inf or NaN (two-sided IsInf/IsNaN guards dominate the returns; Sqrt's argument is tested non-negative); (GUARD) FormatBase's radix test admits exactly [2,36], strconv.FormatInt's domain, and dominates the call; strings.Repeat counts in the picture renderer are non-negative; (W) the number functions are functions of their arguments: nothing under $formatNumber/$formatBase/$round/$number/$power/$sqrt writes pre-existing memory or keeps a process-wide cache (e.g. of analysed pictures). NOT decided: rounding, shortest form, picture rendering as values. (VALIDALL) every success return of the picture processor lies behind the validation or the emptiness test of each sub-picture; (NUMGATE) strconv.ParseFloat in $number is gated by a package-level regular expression whose language, checked on a battery written from the property's grammar, is the number grammar; (F2I) $formatBase converts rounded values only. (HALFADD) no math.Floor(v + 0.5) / math.Ceil(v - 0.5) / math.Trunc(v ± 0.5) under the number functions: adding one half first is not rounding to nearest (0.49999999999999994 + 0.5 is exactly 1).",
		Rule:        commonRule,
		Fixtures:    []string{"fin", "guard", "loop", "w", "shape"},
		Run: func(c *Ctx, r *Result) {
			var roots []*ssa.Function
			for _, n := range []string{"jlib.FormatNumber", "jlib.FormatBase", "jlib.Round", "jlib.Number", "jlib.String", "jlib.Power", "jlib.Sqrt", "jsonata.round"} {
				if f := c.mustFn(r, n); f != nil {
					roots = append(roots, f)
				}
			}
			reach := c.G.Reach(roots...)
			counts := runLOOP(c, r, "LOOP", srcFuncsIn(reach), reach)
			r.Note("LOOP classes under the number functions: %v", counts)
			if counts["M"] < 1 {
				r.LoseAnchor("LOOP: the multiplicative scaling loop of FormatNumber was not found (class M count %d)", counts["M"])
			}
			total := 0
			for _, v := range counts {
				total += v
			}
			r.RequireMin("LOOP loops under the number functions", total, 18)
			runRecursion(c, r, "REC", reach)
			// every sub-picture is validated, whichever one renders the number
			va := runVALIDALL(c, r, "VALIDALL")
			r.RequireMin("VALIDALL success returns of the picture processor", va, 1)
			ngt := runNUMGATE(c, r, "NUMGATE")
			r.RequireMin("NUMGATE ParseFloat calls in $number", ngt, 1)
			var nf []*ssa.Function
			for _, f := range libFuncsIn(c, c.REval) {
				if f.Pkg != nil && (f.Pkg.Pkg.Name() == "jlib" || f.Pkg.Pkg.Name() == "jxpath") {
					nf = append(nf, f)
				}
			}
			runHALFADD(c, r, "HALFADD", nf)
			fb := runF2I(c, r, "F2I", withCallees(c, c.fnsNamed(r, "jlib.FormatBase"), 2))
			r.RequireMin("F2I float-to-integer conversions in $formatBase", fb, 2)
			e := newFIN(c, c.G)
			// the functions bound to the number built-ins, whatever they are called
			only := map[string]bool{}
			want := map[string]bool{"power": true, "sqrt": true, "round": true, "number": true, "abs": true, "floor": true, "ceil": true}
			for _, b := range baseEnvBindings(c, r) {
				if !want[b.Name] {
					continue
				}
				delete(want, b.Name)
				if fo, ok := b.Func.(*types.Func); ok {
					if sf := c.W.Prog.FuncValue(fo); sf != nil && c.G.InSc[sf] {
						only[shortFn(sf)] = true
					} else if _, reviewed := extBoxedFinite[objName(b.Func)]; !reviewed {
						r.Add(Obligation{Rule: "FIN", Key: "boxed-ext:$" + b.Name, Fn: objName(b.Func), Pos: c.W.Pos(b.Pos), Verdict: Finding, Nontrivial: true,
							Reason: "$" + b.Name + " is bound to the library function " + objName(b.Func) + ", which is not in the reviewed finiteness table"})
					} else {
						r.Add(Obligation{Rule: "FIN", Key: "boxed-ext:$" + b.Name, Fn: objName(b.Func), Pos: c.W.Pos(b.Pos), Verdict: Discharged, Nontrivial: false,
							Reason: "$" + b.Name + " is bound to " + objName(b.Func) + ": " + extBoxedFinite[objName(b.Func)]})
					}
				}
			}
			for name := range want {
				r.LoseAnchor("FIN: built-in $%s is not bound in baseEnv", name)
			}
			k := runFINBoxed(c, e, r, "FIN", only)
			r.RequireMin("FIN success returns of the number built-ins", k, 6)
			g := runGUARD(c, r, "GUARD", srcFuncsIn(reach), reach)
			r.RequireMin("GUARD partial operations under the number functions", g, 5)
			runPureFamily(c, r, []string{"jlib.FormatNumber", "jlib.FormatBase", "jlib.Round", "jlib.Number", "jlib.Power", "jlib.Sqrt", "jsonata.round"}, map[string]bool{"jlib": true, "jxpath": true, "jsonata": true}, 30)
			r.Assume("runes in a DecimalFormat are valid (utf8.RuneLen >= 1), as updateDecimalFormat enforces for user-supplied options")
		},
	})
}

func evalRootCfg(c *Ctx) *wRootCfg {
	return &wRootCfg{
		Name:       "root Eval/EvalBytes/String",
		Roots:      append(append([]*ssa.Function{}, c.REval.Roots...), c.RStr.Roots...),
		LocalTypes: true,
		RootParam: func(f *ssa.Function, i int) (wmask, bool) {
			return wNonFresh, true // the Expr receiver and the caller's input document
		},
	}
}

func compileRootCfg(c *Ctx) *wRootCfg {
	return &wRootCfg{
		Name:  "root Compile/MustCompile/Parse",
		Roots: c.RCompile.Roots,
		RootParam: func(f *ssa.Function, i int) (wmask, bool) {
			return wNonFresh, true
		},
	}
}

// pkgRegisterRootCfg: package-level RegisterExts/RegisterVars. Their only sanctioned write to
// pre-existing memory is the global registry, inside the critical section (decided by LOCK).
func pkgRegisterRootCfg(c *Ctx) *wRootCfg {
	var roots []*ssa.Function
	for _, n := range []string{"jsonata.RegisterExts", "jsonata.RegisterVars"} {
		if f := c.W.Fn(n); f != nil {
			roots = append(roots, f)
		}
	}
	var pkgReach *Reach
	return &wRootCfg{
		Name:  "root package-level RegisterExts/RegisterVars",
		Roots: roots,
		RootParam: func(f *ssa.Function, i int) (wmask, bool) {
			return wNonFresh, true
		},
		AllowWrite: func(f *ssa.Function, ins ssa.Instruction) string {
			if shortFn(f) != "jsonata.updateGlobalRegistry" {
				// a helper that is handed &globalRegistry by every caller under these roots (the call itself
				// is a write access for LOCK)
				if pkgReach == nil {
					pkgReach = c.G.Reach(roots...)
				}
				in := func(fn *ssa.Function) bool { return pkgReach.Set[fn] }
				switch x := ins.(type) {
				case *ssa.Store:
					if g := paramGlobal(c, x.Addr, in); g != nil && g.Name() == "globalRegistry" {
						if _, isParam := x.Addr.(*ssa.Parameter); isParam {
							return "the target is the global registry, whose address every caller passes with globalRegistryMutex held (decided by LOCK at the call)"
						}
					}
				case *ssa.MapUpdate:
					if g := paramGlobal(c, x.Map, in); g != nil && g.Name() == "globalRegistry" {
						return "the map is the global registry, whose address every caller passes with globalRegistryMutex held (decided by LOCK at the call)"
					}
				}
				return ""
			}
			switch x := ins.(type) {
			case *ssa.Store:
				if g, ok := x.Addr.(*ssa.Global); ok && g.Name() == "globalRegistry" {
					return "the global registry is the one piece of shared state registration is meant to write; the write happens under globalRegistryMutex (decided by LOCK)"
				}
			case *ssa.MapUpdate:
				if g := globalBase(x.Map); g != nil && g.Name() == "globalRegistry" {
					return "the global registry is the one piece of shared state registration is meant to write; the update happens under globalRegistryMutex (decided by LOCK)"
				}
			}
			return ""
		},
	}
}

// exprRegisterRootCfg: (*Expr).RegisterExts/RegisterVars may write their receiver's own registry.
func exprRegisterRootCfg(c *Ctx) *wRootCfg {
	var roots []*ssa.Function
	for _, n := range []string{"jsonata.(*Expr).RegisterExts", "jsonata.(*Expr).RegisterVars"} {
		if f := c.W.Fn(n); f != nil {
			roots = append(roots, f)
		}
	}
	return &wRootCfg{
		Name:  "root (*Expr).RegisterExts/RegisterVars",
		Roots: roots,
		RootParam: func(f *ssa.Function, i int) (wmask, bool) {
			if i == 0 {
				return wmask{0, wND}, true // the receiver is the object the method is meant to modify
			}
			return wNonFresh, true
		},
	}
}

// transformClone: obligation (a) of C07 — the pattern of a transform is evaluated against a deep copy.
func runTransformClone(c *Ctx, r *Result, e *wEngine, rule string) {
	ev := c.mustFn(r, "jsonata.eval")
	if ev == nil {
		return
	}
	n := 0
	for _, f := range e.fns {
		if f.Synthetic != "" {
			continue
		}
		ord := 0
		for _, ci := range callsIn(f) {
			if ci.Common().StaticCallee() != ev {
				continue
			}
			// eval(<transform>.pattern, ctx, env): the node argument is a load of the pattern field
			ld, ok := ci.Common().Args[0].(*ssa.UnOp)
			if !ok {
				continue
			}
			fa, ok := ld.X.(*ssa.FieldAddr)
			if !ok || fieldKey(fa.X.Type(), fa.Field) != repoModule+".transformationCallable.pattern" {
				continue
			}
			n++
			ord++
			m := e.concrete(f, e.mask(ci.Common().Args[1]))
			o := Obligation{Rule: rule, Key: fmt.Sprintf("%s:pattern-context#%d", shortFn(f), ord), Fn: shortFn(f), Pos: c.W.Pos(ci.Pos()), Nontrivial: true}
			if m.obj == 0 && m.ref == 0 {
				o.Verdict, o.Reason = Discharged, "the pattern is evaluated against a value decoded from JSON in this call (deep-fresh) at every call site: the caller's object is not reachable from it"
			} else {
				o.Verdict, o.Reason = Finding, "the transform's pattern is evaluated against a value that is not (on every path and at every call site) a deep copy made for this application: matched objects can be the caller's own or another transform's result that shares structure with it"
				o.Path = e.reach.Path(f)
			}
			r.Add(o)
		}
	}
	if n == 0 {
		r.LoseAnchor("W: no evaluation of a transform's pattern (eval(f.pattern, ...)) found")
	}
}

const wAssume1 = "library functions outside the module neither retain nor modify their arguments except the reviewed mutators (reflect.Value.Set*/SetMapIndex/Append*, reflect.Copy, sort.*, json.Unmarshal/Decode, strconv.Append*)"
const wAssume2 = "values registered with RegisterVars are data, not callables or sequences returned by an earlier Eval; user extension functions are outside the analysis"

func init() {
	register(&propDef{
		ID:          "C05",
		Explanation: "Decides the frame condition behind repeatability for ALL programs, inputs and histories: no instruction reachable from Eval/EvalBytes/String writes memory that existed before the call — the compiled expression (AST nodes and their slices), package variables, the Expr, the shared built-in callables, or the input document. Every Store, MapUpdate, append/copy/delete and mutating library call (reflect Set*/SetMapIndex/Append*, sort.*, json decode) under the module call graph is an obligation; its target's provenance is computed interprocedurally (fresh allocations, polyvariant return summaries, call-site joins with per-dynamic-type filtering of interface receivers, field- and element-type-based load facts, evaluation-local types). With no such write, every memory cell that survives an Eval and is readable by a later one is unchanged, so an outcome is a function of (expression, input, bindings, clock, random source). CLOCK confines clock/random sources to the sanctioned ones. NOT decided: Go map iteration order effects (sanctioned by the property). The transform's pattern is evaluated against a deep copy made for this application (a partial copy would let updates reach the caller's document and change the next evaluation of the same input).",
		Rule:        commonRule,
		Fixtures:    []string{"w"},
		Run: func(c *Ctx, r *Result) {
			e := runW(c, c.G, r, "W", evalRootCfg(c))
			r.RequireMin("W write sites examined (root Eval/EvalBytes/String)", r.Counts["W write sites examined (root Eval/EvalBytes/String)"], 300)
			if len(e.localStr) < 8 {
				r.LoseAnchor("W: only %d evaluation-local types found (>= 8 expected: sequence and the callable types)", len(e.localStr))
			}
			if ng := c.fn("jsonata.newGoCallable"); ng != nil && e.inR[ng] {
				r.LoseAnchor("W: newGoCallable is reachable from Eval (goCallables would no longer all be shared)")
			}
			// the transform works on a deep copy: a shallow or partial copy lets its updates reach
			// the caller's document, so the next Eval of the same input sees another value
			runTransformClone(c, r, e, "W")
			runCLOCK(c, r, "CLOCK")
			runNOGO(c, r, "NOGO")
			r.Assume(wAssume1)
			r.Assume(wAssume2)
		},
	})
	register(&propDef{
		ID:          "C06",
		Explanation: "A data race needs a write to a location another goroutine can reach. Decides, for all schedules: (W) under each of the roots Eval/EvalBytes/String, Compile/MustCompile/Parse and package-level RegisterExts/RegisterVars, every write targets memory allocated by the same call — except the global registry, which (LOCK) is written only with globalRegistryMutex held for writing, read only with it held, never leaves the critical section (Compile copies it entry by entry) and is not referenced under Eval; every run-time-mutable package variable has such a guard; (NOGO) the library starts no goroutine and uses no unsafe/atomics/cgo; math/rand is used only through its internally locked package-level functions. Hence concurrent calls share only read-only memory. NOT decided: races inside user extensions; (*Expr).RegisterExts concurrent with Eval on the same Expr (not promised by the property). The transform's pattern is evaluated against a deep copy (a partial copy is shared memory written without a lock).",
		Rule:        commonRule,
		Fixtures:    []string{"w", "lock"},
		Run: func(c *Ctx, r *Result) {
			ev := runW(c, c.G, r, "W", evalRootCfg(c))
			runTransformClone(c, r, ev, "W")
			runW(c, c.G, r, "W-compile", compileRootCfg(c))
			runW(c, c.G, r, "W-register", pkgRegisterRootCfg(c))
			runLOCK(c, r, "LOCK")
			runNOGO(c, r, "NOGO")
			runCLOCK(c, r, "CLOCK")
			r.Assume(wAssume1)
			r.Assume(wAssume2)
		},
	})
	register(&propDef{
		ID:          "C07",
		Explanation: "Decides input immutability as a frame condition for all programs and inputs: every in-place mutation reachable from Eval (reflect.Value.Set*/SetMapIndex, element and field stores, append into spare capacity, sort.*, copy, delete, json decode destinations) targets memory allocated during the same evaluation. The transform operator has two obligations: (a) its pattern is evaluated against a deep copy made in the call (decided: the context handed to eval is deep-fresh), and (b) the SetMapIndex targets lie inside that copy — (b) does not hold: a pattern result is an arbitrary evaluation result ($$ or a variable selects the caller's own document), which is the known finding. NOT decided: that the transform's result equals the specified modified copy. (CLAUSECTX) eval(f.updates, D) and eval(f.deletes, D) are called with D an element of the list eval(f.pattern) returned.",
		Rule:        commonRule,
		Fixtures:    []string{"w"},
		Run: func(c *Ctx, r *Result) {
			e := runW(c, c.G, r, "W", evalRootCfg(c))
			runTransformClone(c, r, e, "W")
			cc := runCLAUSECTX(c, r, "CLAUSECTX")
			r.RequireMin("CLAUSECTX evaluations of a transform's update/delete clause", cc, 2)
			r.Assume(wAssume1)
			r.Assume(wAssume2)
		},
	})
	register(&propDef{
		ID:          "C12",
		Explanation: "Decides the scope structure for all programs: (SCOPE) evalBlock and lambdaCallable.Call evaluate in a frame freshly created by newEnvironment whose parent is the current environment / the closure's captured environment; parameters are bound in that new frame; evalLambda, evalTypedLambda, evalPartial and evalObjectTransformation capture the env and context of their definition site; the parent link is written only by newEnvironment and followed only by the write-free lookup (bind cannot reach an outer frame). (W) Callable.Call has no environment parameter, so dynamic scoping or per-call state in a shared callable would need a write to pre-existing memory, which W excludes for every write in callable.go, env.go and the evaluator functions that build or apply function values (evalFunctionApplication/Call, evalPartial, evalLambda, evalBlock, ...) — a function value bound to a variable is never altered by composing, partially applying or calling it — in particular the context item and name of a built-in call live in a per-call copy (the defect behind a.$substringBefore($$.b.c.$substringBefore(\"z\"))). NOT decided: signature matching, placeholder order, chain/compose semantics. (CLOSURE) no store into a field of a lambda, partial or transform callable except into one the storing function has just allocated (directly or through a constructor). The parent link of a new frame is never a value read from another frame's parent link (no skipping of ancestors).",
		Rule:        commonRule,
		Fixtures:    []string{"w"},
		Run: func(c *Ctx, r *Result) {
			runSCOPE(c, r, "SCOPE")
			ncl := runCLOSURE(c, r, "CLOSURE")
			r.RequireMin("CLOSURE stores into closure-typed function values", ncl, 8)
			// the W obligations that concern function values and scopes: writes to fields of
			// callable types, of callableName, and of environments
			e := runWFiltered(c, c.G, r, "W", evalRootCfg(c), func(s wSite) bool {
				if strings.Contains(shortFn(s.f), "environment") {
					return true
				}
				// everything in the files that implement function values and scopes, and the
				// evaluator functions that build or apply function values
				if strings.HasPrefix(s.kind, "reflect.") {
					return false // a write through a reflect.Value into the data being transformed: C07's subject, not scope or function state
				}
				switch filepath.Base(c.W.Fset.Position(exceptionRoot(s.f).Pos()).Filename) {
				case "callable.go", "env.go":
					return true
				}
				switch exceptionKey(s.f) {
				case "jsonata.evalFunctionApplication", "jsonata.evalFunctionCall", "jsonata.evalPartial", "jsonata.evalLambda", "jsonata.evalTypedLambda",
					"jsonata.evalObjectTransformation", "jsonata.evalBlock", "jsonata.evalAssignment", "jsonata.evalVariable":
					return true
				}
				return strings.Contains(s.what, "Callable.") || strings.Contains(s.what, "callableName.") || strings.Contains(s.what, ".environment.")
			})
			r.RequireMin("W write sites examined (root Eval/EvalBytes/String)", r.Counts["W write sites examined (root Eval/EvalBytes/String)"], 40)
			for _, name := range []string{"jsonata.evalFunctionApplication", "jsonata.evalFunctionCall", "jsonata.evalPartial", "jsonata.evalLambda", "jsonata.evalBlock"} {
				c.mustFn(r, name)
			}
			_ = e
			r.Assume(wAssume1)
			r.Assume(wAssume2)
		},
	})
	register(&propDef{
		ID:          "C20",
		Explanation: "Decides the registry-visibility and registration-time clauses: (REG) in processExts/processVars every store into the registry map is dominated by the success edges of validName and newGoCallable/validVar applied to that entry; newEnv builds a child of baseEnv and binds $, then $now/$millis, then the expression's registry; updateRegistry only ranges over the map it is given. (LOCK) the global registry is accessed under its mutex and never escapes the critical section, so an Expr holds a per-key copy taken at Compile time and later package-level registrations cannot reach it; it is not referenced under Eval. (W) (*Expr).RegisterExts/RegisterVars write only their receiver's own registry and fresh memory; package-level registration writes only the locked global. NOT decided: the argument-conversion relation and the naming of errors (value-level). (HORDER) the EvalContextHandler hook is consulted before the UndefinedHandler hook sees the arguments; (CALLSEQ) the Go function is only invoked with validateArgTypes(validateArgCount(argv)), each error tested; (ZERO) a missing argument becomes a zero value only for Optional types, interface{} and reflect.Value; (ARGPOS) an ArgTypeError reports the index in the argument list plus one. (ERRIS) no errors.Is/errors.As against an ErrUndefined sentinel under Eval.",
		Rule:        commonRule,
		Fixtures:    []string{"w", "lock", "shape"},
		Run: func(c *Ctx, r *Result) {
			ei := runERRIS(c, r, "ERRIS", libFuncsIn(c, c.REval))
			r.Count("ERRIS errors.Is/As calls under Eval", ei)
			runREG(c, r, "REG")
			runLOCK(c, r, "LOCK")
			runW(c, c.G, r, "W-register", pkgRegisterRootCfg(c))
			runW(c, c.G, r, "W-exprregister", exprRegisterRootCfg(c))
			// the call protocol of an extension
			ho := runHORDER(c, r, "HORDER")
			r.RequireMin("HORDER handler-order obligations", ho, 1)
			cs := runCALLSEQ(c, r, "CALLSEQ")
			r.RequireMin("CALLSEQ invocations of the Go function", cs, 1)
			zr := runZERO(c, r, "ZERO", libFuncsIn(c, c.REval), c.REval)
			r.RequireMin("ZERO reflect.Zero sites under Eval", zr, 1)
			ap := runARGPOS(c, r, "ARGPOS")
			r.RequireMin("ARGPOS argument-type errors in the validateArgTypes methods", ap, 2)
			r.Assume(wAssume1)
		},
	})
}

func init() {
	register(&propDef{
		ID:          "C08",
		Explanation: "Decides the panic/hang classes of Compile that are visible in the shape of the code, for every input string: (ERR) every error value that is returned, thrown to Parse's recover, or stored in jparse is nil, a *jparse.Error, lexer.err, or the result of another jparse function (inductively the same), every Error literal carries a declared non-zero ErrType (all of which have messages, TAB), Parse's deferred closure turns exactly the *Error panics into (nil, err), Compile hands Parse's error on with a nil expression and MustCompile panics exactly on err != nil; (LEX) abstract interpretation of the lexer over a finite domain (cursor position, width typestate, one known first rune per cell of the partition induced by the lexer's own constants and tables, unknown runes afterwards): no rewind by a stale width (the double backup behind Compile(\"!é\") and Compile(\"[1.䑁]\")), and every token returned by next other than EOF/error has consumed a rune, for every first rune (the empty-token hang behind function($x)<!>{$x}); (LOOP/REC) every loop under Compile has a recognised variant — parser loops consume a token or panic per cycle, lexer loops read a rune and leave at eof, accept predicates reject eof — and every recursive SCC a reviewed descent; (TAB/PANIC) each led is registered for exactly the tokens its switch handles, so every explicit 'unexpected ...' panic under Compile is unreachable. (BND) every native index and slice expression under Compile is in range: its bounds check is removed by the Go compiler's prove pass, or a difference-constraint proof gives 0 <= low <= high <= len, or the unproved part is covered by a reviewed one-site invariant (the lexer's cursor invariant being the one LEX maintains) — the class of Compile(\"function($x)<(>{$x}\"), which sliced with -1. NOT decided, and said so: stack depth on deeply nested input. (OPTALL) in every optimize method a child taken from the receiver as it was parsed is never stored into a node, appended to a node list or returned without having gone through optimize(): only optimised nodes are in the tree Compile returns, which is what keeps the interim node types away from eval. (ERRDROP) an error produced by a call inside a loop under Compile is used in the round that produced it. (PAIR) every return of a (node, error) function of jparse has a nil error, a nil node, or forwards the pair returned by another such function.",
		Rule:        commonRule,
		Fixtures:    []string{"loop", "tab", "bnd", "ta", "shape"},
		Run: func(c *Ctx, r *Result) {
			runERR(c, r, "ERR")
			// Compile's outcome is a function of its input string: nothing under Compile writes
			// memory that existed before the call (no process-wide caches or counters)
			runW(c, c.G, r, "W-compile", compileRootCfg(c))
			runErrMsgs(c, r, "TAB", "jparse", 27)
			runLEX(c, r, "LEX")
			counts := runLOOP(c, r, "LOOP", srcFuncsIn(c.RCompile), c.RCompile)
			r.Note("LOOP classes under Compile: %v", counts)
			if counts["P"] < 8 || counts["L"] < 5 {
				r.LoseAnchor("LOOP: expected >= 8 parser loops and >= 5 lexer loops under Compile, found P=%d L=%d", counts["P"], counts["L"])
			}
			n := runAcceptPredicates(c, r, "LOOP")
			r.RequireMin("LOOP accept predicates and acceptRune arguments", n, 10)
			k := runRecursion(c, r, "REC", c.RCompile)
			r.RequireMin("REC recursive SCCs under Compile", k, 4)
			m, dispatchFns := runRegistrationSwitch(c, r, "TAB")
			r.RequireMin("TAB led/nud registration-vs-switch checks", m, 4)
			tabProved := map[string]bool{"jparse.parseBoolean": true, "jparse.parseNumericOperator": true, "jparse.parseComparisonOperator": true, "jparse.parseBooleanOperator": true}
			for fn := range dispatchFns {
				tabProved[fn] = true
			}
			p := runPanics(c, r, "PANIC", c.RCompile, tabProved)
			r.RequireMin("PANIC string panics under Compile", p, 4)
			var pf []*ssa.Function
			for _, f := range srcFuncsIn(c.RCompile) {
				if f.Pkg != nil && f.Pkg.Pkg.Name() == "jparse" {
					pf = append(pf, f)
				}
			}
			pr := runPAIR(c, r, "PAIR", pf)
			r.RequireMin("PAIR returns of (node, error) functions in jparse", pr, 100)
			ed := runERRDROP(c, r, "ERRDROP", srcFuncsIn(c.RCompile))
			r.RequireMin("ERRDROP errors produced inside loops under Compile", ed, 8)
			oa := runOPTALL(c, r, "OPTALL")
			r.RequireMin("OPTALL stores and returns of node values in the optimize methods", oa, 40)
			runBNDFor(c, r, "BND", c.RCompile, "Compile", 40, 15)
			ta := runTA(c, r, "TA", libFuncsIn(c, c.RCompile), c.RCompile)
			r.RequireMin("TA single-result type assertions under Compile", ta, 3)
			r.Assume("the input string is finite; regexp.Compile, strconv.ParseFloat and utf8/utf16 functions terminate and do not panic")
		},
	})
}

// withCallees: the functions plus the module functions of the same package they call
// statically, to the given depth (a conversion or check that moved into a small helper).
func withCallees(c *Ctx, fns []*ssa.Function, depth int) []*ssa.Function {
	seen := map[*ssa.Function]bool{}
	var out []*ssa.Function
	var walk func(f *ssa.Function, d int)
	walk = func(f *ssa.Function, d int) {
		if f == nil || seen[f] || len(f.Blocks) == 0 {
			return
		}
		seen[f] = true
		out = append(out, f)
		if d == 0 {
			return
		}
		for _, ci := range callsIn(f) {
			if g := ci.Common().StaticCallee(); g != nil && c.G.InSc[g] && g.Pkg == f.Pkg {
				walk(g, d-1)
			}
		}
	}
	for _, f := range fns {
		walk(f, depth)
	}
	sortFns(out)
	return out
}
