package main

import (
	"fmt"
	"go/ast"
	"go/constant"
	"go/token"
	"go/types"
	"sort"
	"strings"

	"golang.org/x/tools/go/ssa"
)

// ---------------------------------------------------------------------------------------
// helpers shared by the small rules

// callsIn lists the call instructions of f in source order.
func callsIn(f *ssa.Function) []ssa.CallInstruction {
	var out []ssa.CallInstruction
	for _, b := range f.Blocks {
		for _, ins := range b.Instrs {
			if ci, ok := ins.(ssa.CallInstruction); ok {
				out = append(out, ci)
			}
		}
	}
	sort.SliceStable(out, func(i, j int) bool { return out[i].Pos() < out[j].Pos() })
	return out
}

func instrsIn(f *ssa.Function) []ssa.Instruction {
	var out []ssa.Instruction
	for _, b := range f.Blocks {
		out = append(out, b.Instrs...)
	}
	sort.SliceStable(out, func(i, j int) bool { return out[i].Pos() < out[j].Pos() })
	return out
}

func calleePkgPath(f *ssa.Function) string {
	if p := fnPkg(f); p != nil {
		return p.Path()
	}
	return ""
}

func topFn(f *ssa.Function) *ssa.Function {
	for f.Parent() != nil {
		f = f.Parent()
	}
	return f
}

// baseEnvBindings extracts name -> function object from the composite literal passed to
// initBaseEnv in `var baseEnv = initBaseEnv(map[string]Extension{...})` (AST + type info).
type envBinding struct {
	Name string
	Func types.Object // *types.Func
	Pos  token.Pos
}

func baseEnvBindings(c *Ctx, r *Result) []envBinding {
	pkg := c.W.Lib["jsonata"]
	var out []envBinding
	for _, file := range pkg.Syntax {
		ast.Inspect(file, func(n ast.Node) bool {
			vs, ok := n.(*ast.ValueSpec)
			if !ok || len(vs.Names) != 1 || vs.Names[0].Name != "baseEnv" || len(vs.Values) != 1 {
				return true
			}
			call, ok := vs.Values[0].(*ast.CallExpr)
			if !ok || len(call.Args) != 1 {
				return true
			}
			lit, ok := call.Args[0].(*ast.CompositeLit)
			if !ok {
				return true
			}
			for _, el := range lit.Elts {
				kv, ok := el.(*ast.KeyValueExpr)
				if !ok {
					continue
				}
				tv := pkg.TypesInfo.Types[kv.Key]
				if tv.Value == nil {
					continue
				}
				name := constant.StringVal(tv.Value)
				ext, ok := kv.Value.(*ast.CompositeLit)
				if !ok {
					continue
				}
				for _, fe := range ext.Elts {
					fkv, ok := fe.(*ast.KeyValueExpr)
					if !ok {
						continue
					}
					if id, ok := fkv.Key.(*ast.Ident); ok && id.Name == "Func" {
						var obj types.Object
						switch x := fkv.Value.(type) {
						case *ast.Ident:
							obj = pkg.TypesInfo.Uses[x]
						case *ast.SelectorExpr:
							obj = pkg.TypesInfo.Uses[x.Sel]
						}
						out = append(out, envBinding{name, obj, kv.Pos()})
					}
				}
			}
			return false
		})
	}
	if len(out) == 0 {
		r.LoseAnchor("baseEnv literal (var baseEnv = initBaseEnv(map[string]Extension{...})) not found")
	}
	sort.Slice(out, func(i, j int) bool { return out[i].Name < out[j].Name })
	return out
}

func objName(o types.Object) string {
	if o == nil {
		return "<nil>"
	}
	if o.Pkg() != nil {
		return o.Pkg().Name() + "." + o.Name()
	}
	return o.Name()
}

// domGuard reports whether block b is dominated by the successor `succ` (0 true / 1 false) of an
// If whose condition satisfies pred, that successor having the If block as its only predecessor.
func domGuard(b *ssa.BasicBlock, pred func(cond ssa.Value) (succ int, ok bool)) bool {
	for _, hb := range b.Parent().Blocks {
		if len(hb.Instrs) == 0 {
			continue
		}
		iff, ok := hb.Instrs[len(hb.Instrs)-1].(*ssa.If)
		if !ok {
			continue
		}
		s, ok := pred(iff.Cond)
		if !ok {
			// `case !x:` of a tagless switch keeps the negation as a value: judge x and swap the edges
			core, flip := iff.Cond, false
			for {
				u, isNot := core.(*ssa.UnOp)
				if !isNot || u.Op != token.NOT {
					break
				}
				core, flip = u.X, !flip
			}
			if core == iff.Cond {
				continue
			}
			s, ok = pred(core)
			if !ok {
				continue
			}
			if flip {
				s = 1 - s
			}
		}
		t := hb.Succs[s]
		if len(t.Preds) == 1 && t.Dominates(b) {
			return true
		}
	}
	return false
}

// ---------------------------------------------------------------------------------------
// SORT (C13)

func strictResult(c *Ctx, v ssa.Value, seen map[ssa.Value]bool) (bool, string) {
	if seen[v] {
		return true, ""
	}
	seen[v] = true
	switch v := v.(type) {
	case *ssa.Const:
		return true, ""
	case *ssa.BinOp:
		switch v.Op {
		case token.LSS, token.GTR:
			return true, ""
		}
		return false, "comparison " + v.Op.String() + " is not strict"
	case *ssa.UnOp:
		if v.Op == token.NOT {
			return false, "negated comparison (!x) turns a strict test into a non-strict one"
		}
		return false, "unrecognised comparator result"
	case *ssa.Phi:
		for _, e := range v.Edges {
			if ok, why := strictResult(c, e, seen); !ok {
				return false, why
			}
		}
		return true, ""
	case *ssa.Call:
		callee := v.Call.StaticCallee()
		if callee == nil || len(callee.Blocks) == 0 {
			return false, "comparator result comes from an unresolved call"
		}
		if ok, why := strictFunc(c, callee, seen); !ok {
			return false, "call to " + shortFn(callee) + ": " + why
		}
		return true, ""
	}
	return false, fmt.Sprintf("unrecognised comparator result (%T)", v)
}

// strictFunc: every bool result returned by f is a strict test.
func strictFunc(c *Ctx, f *ssa.Function, seen map[ssa.Value]bool) (bool, string) {
	for _, b := range f.Blocks {
		for _, ins := range b.Instrs {
			if ret, ok := ins.(*ssa.Return); ok {
				for _, res := range ret.Results {
					if bt, isB := res.Type().Underlying().(*types.Basic); isB && bt.Kind() == types.Bool {
						if ok, why := strictResult(c, res, seen); !ok {
							return false, why
						}
					}
				}
			}
		}
	}
	return true, ""
}

// freshSlice: the slice value was allocated by the enclosing evaluation (make / MakeSlice /
// append onto fresh / call to a function returning fresh).
var freshSeen = map[ssa.Value]bool{}

func freshSlice(c *Ctx, v ssa.Value, depth int) bool {
	if depth == 0 {
		freshSeen = map[ssa.Value]bool{}
	}
	if depth > 30 {
		return false
	}
	if freshSeen[v] {
		return true // coinductive: a cycle through phi/append/cell adds no new origin
	}
	freshSeen[v] = true
	switch v := v.(type) {
	case *ssa.MakeSlice:
		return true
	case *ssa.MakeInterface:
		return freshSlice(c, v.X, depth+1)
	case *ssa.Slice:
		return freshSlice(c, v.X, depth+1)
	case *ssa.Alloc:
		return true
	case *ssa.Phi:
		for _, e := range v.Edges {
			if k, ok := e.(*ssa.Const); ok && k.IsNil() {
				continue
			}
			if e == ssa.Value(v) {
				continue
			}
			if !freshSlice(c, e, depth+1) {
				return false
			}
		}
		return true
	case *ssa.UnOp:
		if v.Op == token.MUL {
			if stores, ok := cellStores(v.X); ok && len(stores) > 0 {
				for _, s := range stores {
					if k, isC := s.Val.(*ssa.Const); isC && k.IsNil() {
						continue
					}
					if !freshSlice(c, s.Val, depth+1) {
						return false
					}
				}
				return true
			}
		}
	case *ssa.Call:
		if b, ok := v.Call.Value.(*ssa.Builtin); ok && b.Name() == "append" {
			a0 := v.Call.Args[0]
			if k, ok := a0.(*ssa.Const); ok && k.IsNil() {
				return true
			}
			return freshSlice(c, a0, depth+1)
		}
		if callee := v.Call.StaticCallee(); callee != nil && len(callee.Blocks) > 0 {
			return returnsFresh(c, callee, 0, depth+1)
		}
	case *ssa.Extract:
		if call, ok := v.Tuple.(*ssa.Call); ok {
			if callee := call.Call.StaticCallee(); callee != nil && len(callee.Blocks) > 0 {
				return returnsFresh(c, callee, v.Index, depth+1)
			}
		}
	}
	return false
}

func returnsFresh(c *Ctx, f *ssa.Function, idx, depth int) bool {
	found := false
	for _, b := range f.Blocks {
		for _, ins := range b.Instrs {
			if ret, ok := ins.(*ssa.Return); ok && isSuccessReturn(ret) {
				if k, isC := ret.Results[idx].(*ssa.Const); isC && k.IsNil() {
					continue
				}
				found = true
				if !freshSlice(c, ret.Results[idx], depth) {
					return false
				}
			}
		}
	}
	return found
}

func runSORT(c *Ctx, g *MCG, r *Result, rule string, reach *Reach, scope PkgSet, minStable int) {
	stable := 0
	for _, f := range reach.Sorted() {
		if f.Synthetic != "" || !scope[fnPkg(f)] {
			continue
		}
		ord := 0
		for _, ci := range callsIn(f) {
			callee := ci.Common().StaticCallee()
			pp := calleePkgPath(callee)
			if pp != "sort" && pp != "slices" {
				continue
			}
			if callee.Signature.Recv() != nil {
				continue
			}
			name := callee.Name()
			if !strings.Contains(name, "Sort") && !strings.Contains(name, "Slice") && !strings.Contains(name, "Stable") &&
				name != "Strings" && name != "Ints" && name != "Float64s" {
				continue // Search etc.
			}
			ord++
			key := fmt.Sprintf("%s:sortcall#%d", shortFn(f), ord)
			o := Obligation{Rule: rule, Key: key, Fn: shortFn(f), Pos: c.W.Pos(ci.Pos()), Nontrivial: true}
			switch pp + "." + name {
			case "sort.SliceStable", "sort.Stable", "slices.SortStableFunc":
				o.Verdict, o.Reason = Discharged, pp+"."+name+" is a stable sort"
				stable++
			default:
				o.Verdict, o.Reason = Finding, pp+"."+name+" is not a stable sort (ties may be reordered once the input has 12 or more items)"
				o.Path = reach.Path(f)
			}
			r.Add(o)
			if o.Verdict != Discharged || name != "SliceStable" {
				continue
			}
			// comparator strictness
			args := ci.Common().Args
			oc := Obligation{Rule: rule, Key: key + ":comparator", Fn: shortFn(f), Pos: c.W.Pos(ci.Pos()), Nontrivial: true}
			fs := g.funcValues(args[1], nil)
			if len(fs) == 0 {
				oc.Verdict, oc.Reason = Undecided, "comparator of sort.SliceStable cannot be resolved"
			} else {
				oc.Verdict, oc.Reason = Discharged, "every result of the comparator is a constant, a strict <, > test, or a call that returns only those"
				for _, cf := range fs {
					if ok, why := strictFunc(c, cf, map[ssa.Value]bool{}); !ok {
						oc.Verdict, oc.Reason = Finding, "comparator "+shortFn(cf)+" is not a strict order: "+why+" (a non-strict less function breaks stability for ties)"
					}
				}
			}
			r.Add(oc)
			// freshness of the sorted slice
			of := Obligation{Rule: rule, Key: key + ":fresh", Fn: shortFn(f), Pos: c.W.Pos(ci.Pos()), Nontrivial: true}
			if freshSlice(c, args[0], 0) {
				of.Verdict, of.Reason = Discharged, "the slice sorted in place was allocated by this evaluation (make/append/returned fresh)"
			} else {
				of.Verdict, of.Reason = Finding, "the slice sorted in place is not provably allocated by this evaluation (input could be reordered)"
			}
			r.Add(of)
		}
	}
	r.RequireMin(rule+" stable sort calls under Eval", stable, minStable)
}

// MERGE: jlib.merge takes from the left run unless the comparator says "left goes after right".
func runMERGE(c *Ctx, r *Result, rule string) {
	// the merge step of the hand-written merge sort: the jlib function that takes two slices of
	// the same type and a comparator (a func-typed parameter) and calls the comparator — found by
	// that shape, under whatever name
	var f *ssa.Function
	if lib := c.W.Lib["jlib"]; lib != nil {
		for _, g := range c.W.FuncsOf(PkgSet{lib.Types: true}) {
			if !c.REval.Set[g] || len(g.Params) < 3 || g.Signature.Recv() != nil {
				continue
			}
			_, s0 := g.Params[0].Type().Underlying().(*types.Slice)
			_, s1 := g.Params[1].Type().Underlying().(*types.Slice)
			_, fn2 := g.Params[2].Type().Underlying().(*types.Signature)
			if !s0 || !s1 || !fn2 || !types.Identical(g.Params[0].Type(), g.Params[1].Type()) {
				continue
			}
			calls := false
			for _, ci := range callsIn(g) {
				if ci.Common().Value == ssa.Value(g.Params[2]) {
					calls = true
				}
			}
			if calls && (f == nil || shortFn(g) == "jlib.merge") {
				f = g
			}
		}
	}
	if f == nil {
		r.LoseAnchor("MERGE: no jlib function merges two slices under a comparator parameter (jlib.merge)")
		return
	}
	if len(f.Params) < 3 {
		r.LoseAnchor("jlib.merge: unexpected signature")
		return
	}
	lhs, rhs, swapFn := f.Params[0], f.Params[1], f.Params[2]
	// derivedFrom: value is an element load of slice p (or of a phi/slice of p)
	var derived func(v ssa.Value, p *ssa.Parameter, d int) bool
	dseen := map[ssa.Value]bool{}
	derived = func(v ssa.Value, p *ssa.Parameter, d int) bool {
		if d == 0 {
			dseen = map[ssa.Value]bool{}
		}
		if d > 30 {
			return false
		}
		if _, isPhi := v.(*ssa.Phi); isPhi {
			if dseen[v] {
				return true
			}
			dseen[v] = true
		}
		switch v := v.(type) {
		case *ssa.Parameter:
			return v == p
		case *ssa.UnOp:
			return derived(v.X, p, d+1)
		case *ssa.IndexAddr:
			return derived(v.X, p, d+1)
		case *ssa.Slice:
			return derived(v.X, p, d+1)
		case *ssa.Phi:
			any := false
			for _, e := range v.Edges {
				if e == ssa.Value(v) {
					continue
				}
				if !derived(e, p, d+1) {
					return false
				}
				any = true
			}
			return any
		}
		return false
	}
	found := false
	for _, ci := range callsIn(f) {
		cc := ci.Common()
		if cc.Value != ssa.Value(swapFn) {
			continue
		}
		found = true
		o := Obligation{Rule: rule, Key: "jlib.merge:comparator-args", Fn: "jlib.merge", Pos: c.W.Pos(ci.Pos()), Nontrivial: true}
		if len(cc.Args) == 2 && derived(cc.Args[0], lhs, 0) && derived(cc.Args[1], rhs, 0) {
			o.Verdict, o.Reason = Discharged, "comparator is called as swap(left head, right head)"
		} else {
			o.Verdict, o.Reason = Finding, "comparator is not called as swap(left head, right head): argument order decides which of two tied items comes first"
		}
		r.Add(o)
		// the branch on the result: true => take from rhs, false => take from lhs
		call, _ := ci.(*ssa.Call)
		o2 := Obligation{Rule: rule, Key: "jlib.merge:tie-takes-left", Fn: "jlib.merge", Pos: c.W.Pos(ci.Pos()), Nontrivial: true}
		o2.Verdict, o2.Reason = Undecided, "the branch on the comparator result was not found"
		if call != nil && call.Referrers() != nil {
			for _, ref := range *call.Referrers() {
				ex, ok := ref.(*ssa.Extract)
				if !ok || ex.Index != 0 || ex.Referrers() == nil {
					continue
				}
				for _, rr := range *ex.Referrers() {
					iff, ok := rr.(*ssa.If)
					if !ok {
						continue
					}
					takes := func(b *ssa.BasicBlock) *ssa.Parameter {
						for _, ins := range b.Instrs {
							if st, ok := ins.(*ssa.Store); ok {
								if _, isIA := st.Addr.(*ssa.IndexAddr); isIA {
									if derived(st.Val, rhs, 0) {
										return rhs
									}
									if derived(st.Val, lhs, 0) {
										return lhs
									}
								}
							}
						}
						return nil
					}
					t, e := takes(iff.Block().Succs[0]), takes(iff.Block().Succs[1])
					if t == rhs && e == lhs {
						o2.Verdict, o2.Reason = Discharged, "swap==true takes the right head, otherwise (incl. ties) the left head is taken: the merge is stable"
					} else {
						o2.Verdict, o2.Reason = Finding, "on a false comparator result (ties included) the merge does not take the left head: stability is lost"
					}
				}
			}
		}
		r.Add(o2)
	}
	if !found {
		r.LoseAnchor("jlib.merge: call of the comparator parameter not found")
	}
}

// ---------------------------------------------------------------------------------------
// HASH (C15, C09)

func hashableStatic(t types.Type) bool {
	switch u := t.Underlying().(type) {
	case *types.Basic:
		return true
	case *types.Pointer:
		return true
	case *types.Struct:
		for i := 0; i < u.NumFields(); i++ {
			if !hashableStatic(u.Field(i).Type()) {
				return false
			}
		}
		return true
	case *types.Array:
		return hashableStatic(u.Elem())
	}
	return false
}

func derivedFromSprint(v ssa.Value, d int) bool {
	if d > 6 {
		return false
	}
	switch v := v.(type) {
	case *ssa.MakeInterface:
		return derivedFromSprint(v.X, d+1)
	case *ssa.Call:
		callee := v.Call.StaticCallee()
		if calleePkgPath(callee) == "fmt" && strings.HasPrefix(callee.Name(), "Sprint") {
			return true
		}
	case *ssa.Phi:
		for _, e := range v.Edges {
			if derivedFromSprint(e, d+1) {
				return true
			}
		}
	case *ssa.BinOp:
		return derivedFromSprint(v.X, d+1) || derivedFromSprint(v.Y, d+1)
	}
	return false
}

func runHASH(c *Ctx, r *Result, rule string, fns []*ssa.Function, reach *Reach) int {
	n := 0
	for _, f := range fns {
		if f.Synthetic != "" {
			continue
		}
		ord := 0
		for _, ins := range instrsIn(f) {
			var m, key ssa.Value
			switch ins := ins.(type) {
			case *ssa.MapUpdate:
				m, key = ins.Map, ins.Key
			case *ssa.Lookup:
				m, key = ins.X, ins.Index
			default:
				continue
			}
			mt, ok := m.Type().Underlying().(*types.Map)
			if !ok {
				continue
			}
			if _, isIface := mt.Key().Underlying().(*types.Interface); !isIface {
				continue
			}
			ord++
			n++
			o := Obligation{Rule: rule, Key: fmt.Sprintf("%s:ifacekey#%d", shortFn(f), ord), Fn: shortFn(f), Pos: c.W.Pos(ins.Pos()), Nontrivial: true}
			mi, isMI := key.(*ssa.MakeInterface)
			switch {
			case derivedFromSprint(key, 0):
				o.Verdict, o.Reason = Finding, "an fmt.Sprint rendering is used as the identity of a value (distinct values such as {\"a\":1} and {\"a\":\"1\"} print alike)"
			case isMI && hashableStatic(mi.X.Type()):
				o.Verdict, o.Reason = Discharged, "key is boxed from the statically hashable type "+mi.X.Type().String()
			default:
				o.Verdict, o.Reason = Finding, "a map with interface keys is indexed with a dynamically typed value: slices, maps and functions are unhashable and panic at run time"
			}
			if o.Verdict == Finding && reach != nil {
				o.Path = reach.Path(f)
			}
			r.Add(o)
		}
	}
	return n
}

// ---------------------------------------------------------------------------------------
// CODEC (C16)

var codecPairs = map[string]string{
	"net/url.QueryEscape": "net/url.QueryUnescape",
	"net/url.PathEscape":  "net/url.PathUnescape",
}

func runCODEC(c *Ctx, r *Result, rule string) {
	binds := baseEnvBindings(c, r)
	byName := map[string]types.Object{}
	for _, b := range binds {
		byName[b.Name] = b.Func
	}
	ssaOf := func(name string) *ssa.Function {
		o, _ := byName[name].(*types.Func)
		if o == nil {
			r.LoseAnchor("CODEC: built-in $%s is not bound to a function", name)
			return nil
		}
		return c.W.Prog.FuncValue(o)
	}
	// base64: both sides use the same *base64.Encoding variable
	enc, dec := ssaOf("base64encode"), ssaOf("base64decode")
	encodings := func(f *ssa.Function) []string {
		set := map[string]bool{}
		if f == nil {
			return nil
		}
		for _, ins := range instrsIn(f) {
			for _, op := range ins.Operands(nil) {
				if g, ok := (*op).(*ssa.Global); ok && g.Pkg.Pkg.Path() == "encoding/base64" {
					set[g.Name()] = true
				}
			}
		}
		var out []string
		for k := range set {
			out = append(out, k)
		}
		sort.Strings(out)
		return out
	}
	if enc != nil && dec != nil {
		e1, e2 := encodings(enc), encodings(dec)
		o := Obligation{Rule: rule, Key: "base64:same-encoding", Fn: shortFn(enc) + "/" + shortFn(dec), Pos: c.W.Pos(enc.Pos()), Nontrivial: true}
		if len(e1) == 1 && len(e2) == 1 && e1[0] == e2[0] {
			o.Verdict, o.Reason = Discharged, "$base64encode and $base64decode both use base64."+e1[0]
		} else {
			o.Verdict, o.Reason = Finding, fmt.Sprintf("$base64encode uses %v but $base64decode uses %v: the round trip fails for inputs whose encoding contains '+', '/', or padding", e1, e2)
		}
		r.Add(o)
	}
	// url component: matching escape/unescape pair
	ue, ud := ssaOf("encodeUrlComponent"), ssaOf("decodeUrlComponent")
	urlCalls := func(f *ssa.Function) []string {
		var out []string
		if f == nil {
			return nil
		}
		for _, ci := range callsIn(f) {
			if callee := ci.Common().StaticCallee(); callee != nil && calleePkgPath(callee) == "net/url" {
				n := "net/url." + callee.Name()
				if callee.Signature.Recv() != nil {
					n = "net/url.(method)." + callee.Name()
				}
				out = append(out, n)
			}
		}
		return out
	}
	if ue != nil && ud != nil {
		ce, cd := urlCalls(ue), urlCalls(ud)
		o := Obligation{Rule: rule, Key: "urlcomponent:matching-pair", Fn: shortFn(ue) + "/" + shortFn(ud), Pos: c.W.Pos(ue.Pos()), Nontrivial: true}
		if len(ce) == 1 && len(cd) == 1 && codecPairs[ce[0]] == cd[0] {
			o.Verdict, o.Reason = Discharged, "$encodeUrlComponent uses "+ce[0]+" and $decodeUrlComponent its inverse "+cd[0]
		} else {
			o.Verdict, o.Reason = Finding, fmt.Sprintf("$encodeUrlComponent uses %v and $decodeUrlComponent %v, which are not an escape/unescape pair", ce, cd)
		}
		r.Add(o)
	}
	// $length is the code-point count
	if o := byName["length"]; o != nil {
		ob := Obligation{Rule: rule, Key: "length:binding", Fn: "baseEnv", Pos: "env.go", Nontrivial: false}
		if objName(o) == "utf8.RuneCountInString" {
			ob.Verdict, ob.Reason = Discharged, "$length is bound to utf8.RuneCountInString"
		} else {
			ob.Verdict, ob.Reason = Finding, "$length is bound to "+objName(o)+", not to a code-point count"
		}
		r.Add(ob)
	} else {
		r.LoseAnchor("CODEC: built-in $length not bound")
	}
}

// ---------------------------------------------------------------------------------------
// UNIT (C16): rune counts and byte offsets never mix

type unit int

const (
	uNone unit = iota // constants, unknown
	uRune
	uByte
	uMix
)

func (u unit) String() string {
	return [...]string{"unitless", "rune-count", "byte-offset", "mixed"}[u]
}

func joinUnit(a, b unit) unit {
	switch {
	case a == uNone:
		return b
	case b == uNone:
		return a
	case a == b:
		return a
	}
	return uMix
}

type unitEngine struct {
	c            *Ctx
	posNth       *ssa.Function
	absFn        *ssa.Function
	memo         map[ssa.Value]unit
	busy         map[ssa.Value]bool
	runeParamFns map[*ssa.Function]bool
}

func isIntType(t types.Type) bool {
	b, ok := t.Underlying().(*types.Basic)
	return ok && b.Info()&types.IsInteger != 0
}

func (e *unitEngine) unitOf(v ssa.Value) unit {
	if u, ok := e.memo[v]; ok {
		return u
	}
	if e.busy[v] {
		return uNone
	}
	e.busy[v] = true
	u := e.compute(v)
	delete(e.busy, v)
	e.memo[v] = u
	return u
}

func (e *unitEngine) compute(v ssa.Value) unit {
	switch v := v.(type) {
	case *ssa.Const:
		return uNone
	case *ssa.Parameter:
		if !isIntType(v.Type()) {
			return uNone
		}
		f := v.Parent()
		if e.runeParamFns[f] {
			return uRune
		}
		if e.absFn != nil && f == e.absFn {
			return uNone // polymorphic; resolved at the call
		}
		return uNone
	case *ssa.Call:
		if b, ok := v.Call.Value.(*ssa.Builtin); ok {
			if b.Name() == "len" {
				if bt, ok := v.Call.Args[0].Type().Underlying().(*types.Basic); ok && bt.Info()&types.IsString != 0 {
					return uByte
				}
			}
			return uNone
		}
		callee := v.Call.StaticCallee()
		if callee == nil {
			return uNone
		}
		switch calleePkgPath(callee) + "." + callee.Name() {
		case "unicode/utf8.RuneCountInString", "unicode/utf8.RuneCount":
			return uRune
		case "strings.Index", "strings.IndexRune", "strings.IndexByte", "strings.IndexAny", "strings.LastIndex", "strings.IndexFunc", "unicode/utf8.RuneLen":
			return uByte
		}
		if callee == e.posNth {
			return uByte
		}
		if e.absFn != nil && callee == e.absFn {
			return e.unitOf(v.Call.Args[0])
		}
		return uNone
	case *ssa.Extract:
		if call, ok := v.Tuple.(*ssa.Call); ok {
			if callee := call.Call.StaticCallee(); callee != nil && calleePkgPath(callee) == "unicode/utf8" && strings.HasPrefix(callee.Name(), "DecodeRune") && v.Index == 1 {
				return uByte
			}
		}
		if nx, ok := v.Tuple.(*ssa.Next); ok && nx.IsString && v.Index == 1 {
			return uByte
		}
		return uNone
	case *ssa.BinOp:
		if !isIntType(v.Type()) {
			return uNone
		}
		switch v.Op {
		case token.ADD, token.SUB:
			return joinUnit(e.unitOf(v.X), e.unitOf(v.Y))
		}
		return uNone
	case *ssa.UnOp:
		if v.Op == token.SUB {
			return e.unitOf(v.X)
		}
		if v.Op == token.MUL {
			// load of a field of a parameter struct (OptionalInt.Int) of a rune-parameter function
			if fa, ok := v.X.(*ssa.FieldAddr); ok && isIntType(v.Type()) {
				if al, ok := fa.X.(*ssa.Alloc); ok && al.Referrers() != nil {
					for _, ref := range *al.Referrers() {
						if s, isS := ref.(*ssa.Store); isS && s.Addr == ssa.Value(al) {
							if p, isP := s.Val.(*ssa.Parameter); isP && e.runeParamFns[p.Parent()] {
								return uRune
							}
						}
					}
				}
			}
		}
		return uNone
	case *ssa.Field:
		if p, ok := v.X.(*ssa.Parameter); ok && isIntType(v.Type()) && e.runeParamFns[p.Parent()] {
			return uRune
		}
		return uNone
	case *ssa.Phi:
		u := uNone
		for _, ed := range v.Edges {
			u = joinUnit(u, e.unitOf(ed))
		}
		return u
	case *ssa.Convert:
		return e.unitOf(v.X)
	}
	return uNone
}

func runUNIT(c *Ctx, r *Result, rule string) {
	e := &unitEngine{c: c, memo: map[ssa.Value]unit{}, busy: map[ssa.Value]bool{}, runeParamFns: map[*ssa.Function]bool{}}
	e.posNth = c.mustFn(r, "jlib.positionOfNthRune")
	e.absFn = c.fn("jlib.abs") // a helper of Pad; it may have been inlined
	sub, pad := c.mustFn(r, "jlib.Substring"), c.mustFn(r, "jlib.Pad")
	if e.posNth == nil || sub == nil || pad == nil {
		return
	}
	e.runeParamFns[sub] = true
	e.runeParamFns[pad] = true
	e.runeParamFns[e.posNth] = true // its n parameter counts runes (obligation at every call site)
	n := 0
	for _, f := range []*ssa.Function{sub, pad, e.posNth, e.absFn} {
		if f == nil {
			continue
		}
		ord := map[string]int{}
		for _, ins := range instrsIn(f) {
			switch ins := ins.(type) {
			case *ssa.BinOp:
				if !isIntType(ins.X.Type()) {
					continue
				}
				ux, uy := e.unitOf(ins.X), e.unitOf(ins.Y)
				if ux == uNone && uy == uNone {
					continue
				}
				kind := "arith"
				switch ins.Op {
				case token.LSS, token.LEQ, token.GTR, token.GEQ, token.EQL, token.NEQ:
					kind = "compare"
				case token.ADD, token.SUB:
				default:
					continue
				}
				ord[kind]++
				n++
				o := Obligation{Rule: rule, Key: fmt.Sprintf("%s:%s#%d", shortFn(f), kind, ord[kind]), Fn: shortFn(f), Pos: c.W.Pos(ins.Pos()), Nontrivial: ux != uNone && uy != uNone}
				if joinUnit(ux, uy) == uMix || ux == uMix || uy == uMix {
					o.Verdict, o.Reason = Finding, fmt.Sprintf("%s %s %s mixes code-point counts with byte offsets (wrong for every non-ASCII string)", ux, ins.Op, uy)
				} else {
					o.Verdict, o.Reason = Discharged, fmt.Sprintf("%s %s %s", ux, ins.Op, uy)
				}
				r.Add(o)
			case *ssa.Slice:
				if bt, ok := ins.X.Type().Underlying().(*types.Basic); !ok || bt.Info()&types.IsString == 0 {
					continue
				}
				for _, bnd := range []ssa.Value{ins.Low, ins.High} {
					if bnd == nil {
						continue
					}
					ord["slice"]++
					n++
					u := e.unitOf(bnd)
					o := Obligation{Rule: rule, Key: fmt.Sprintf("%s:slicebound#%d", shortFn(f), ord["slice"]), Fn: shortFn(f), Pos: c.W.Pos(ins.Pos()), Nontrivial: true}
					if u == uByte || (u == uNone && isConstVal(bnd)) {
						o.Verdict, o.Reason = Discharged, "string slice bound is a "+u.String()
					} else {
						o.Verdict, o.Reason = Finding, "string is sliced with a "+u.String()+" (slice bounds are byte offsets)"
					}
					r.Add(o)
				}
			case ssa.CallInstruction:
				if ins.Common().StaticCallee() == e.posNth {
					ord["nth"]++
					n++
					u := e.unitOf(ins.Common().Args[1])
					o := Obligation{Rule: rule, Key: fmt.Sprintf("%s:positionOfNthRune-arg#%d", shortFn(f), ord["nth"]), Fn: shortFn(f), Pos: c.W.Pos(ins.Pos()), Nontrivial: true}
					if u == uRune {
						o.Verdict, o.Reason = Discharged, "positionOfNthRune is given a rune-count"
					} else {
						o.Verdict, o.Reason = Finding, "positionOfNthRune is given a "+u.String()+", not a rune-count"
					}
					r.Add(o)
				}
			}
		}
	}
	// positionOfNthRune returns the range key (a byte offset) or -1
	for _, b := range e.posNth.Blocks {
		for _, ins := range b.Instrs {
			if ret, ok := ins.(*ssa.Return); ok {
				n++
				u := e.unitOf(ret.Results[0])
				o := Obligation{Rule: rule, Key: fmt.Sprintf("jlib.positionOfNthRune:return@%v", isConstVal(ret.Results[0])), Fn: "jlib.positionOfNthRune", Pos: c.W.Pos(ret.Pos()), Nontrivial: !isConstVal(ret.Results[0])}
				if u == uByte || isConstVal(ret.Results[0]) {
					o.Verdict, o.Reason = Discharged, "returns the byte offset of the range iteration (or a constant)"
				} else {
					o.Verdict, o.Reason = Finding, "returns a "+u.String()+" where callers slice with the result"
				}
				r.Add(o)
			}
		}
	}
	r.RequireMin(rule+" unit obligations", n, 12)
}

func isConstVal(v ssa.Value) bool { _, ok := v.(*ssa.Const); return ok }
