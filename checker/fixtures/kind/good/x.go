// Package good: the same calls behind the tests that make them defined.
package good

import (
	"reflect"

	"github.com/blues/jsonata-go/jtypes"
)

func Count(v reflect.Value) int {
	v = jtypes.Resolve(v)
	if !jtypes.IsArray(v) && !jtypes.IsMap(v) {
		return 0
	}
	return v.Len()
}

func Num(v reflect.Value) float64 {
	v = jtypes.Resolve(v)
	switch v.Kind() {
	case reflect.Float32, reflect.Float64:
		return v.Float()
	case reflect.Int:
		return float64(v.Int())
	}
	return 0
}

func Get(m map[string]interface{}, k string) interface{} {
	v := reflect.ValueOf(m).MapIndex(reflect.ValueOf(k))
	if !v.IsValid() || !v.CanInterface() {
		return nil
	}
	return v.Interface()
}

// Walk dispatches on the kind through a function variable, like jlib.Each.
func Walk(v reflect.Value) int {
	var f func(reflect.Value) int
	v = jtypes.Resolve(v)
	switch {
	case jtypes.IsMap(v):
		f = keys
	case jtypes.IsArray(v) && !jtypes.IsCallable(v):
		f = items
	default:
		return 0
	}
	return f(v)
}

func keys(v reflect.Value) int  { return len(v.MapKeys()) }
func items(v reflect.Value) int { return v.Len() }

// Wrap boxes a value after testing that there is one.
func Wrap(v reflect.Value) reflect.Value {
	arr := reflect.MakeSlice(reflect.TypeOf([]interface{}{}), 1, 1)
	if v.IsValid() {
		arr.Index(0).Set(v)
		arr = reflect.Append(arr, v)
	}
	return arr
}
