// Package bad: reflect.Value methods called on values nothing has tested.
package bad

import (
	"reflect"

	"github.com/blues/jsonata-go/jtypes"
)

// Count calls Len on whatever it is given.
func Count(v reflect.Value) int {
	v = jtypes.Resolve(v)
	return v.Len()
}

// Num reads a float from a value only known to be an integer.
func Num(v reflect.Value) float64 {
	v = jtypes.Resolve(v)
	if v.Kind() == reflect.Int {
		return v.Float()
	}
	return 0
}

// Get uses a map entry that may be missing.
func Get(m map[string]interface{}, k string) interface{} {
	v := reflect.ValueOf(m).MapIndex(reflect.ValueOf(k))
	return v.Interface()
}

// Keys passes an array to a helper that expects a map.
func Keys(v reflect.Value) int {
	v = jtypes.Resolve(v)
	if jtypes.IsArray(v) {
		return keys(v)
	}
	return 0
}

func keys(v reflect.Value) int { return len(v.MapKeys()) }

// Wrap boxes a value that may be "no value" (the zero Value): Set and Append panic on it.
func Wrap(v reflect.Value) reflect.Value {
	arr := reflect.MakeSlice(reflect.TypeOf([]interface{}{}), 1, 1)
	arr.Index(0).Set(v)
	return reflect.Append(arr, v)
}
