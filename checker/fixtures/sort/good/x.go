// Package good: stable sort of a fresh copy with a strict comparator.
package good

import "sort"

type item struct {
	key int
	pos int
}

func less(a, b item) bool { return a.key < b.key }

func Stable(xs []item) []item {
	out := make([]item, 0, len(xs))
	for _, x := range xs {
		out = append(out, x)
	}
	sort.SliceStable(out, func(i, j int) bool {
		if out[i].key == out[j].key {
			return false
		}
		return less(out[i], out[j])
	})
	return out
}
