// Package bad: unstable sort, non-strict comparator, input sorted in place.
package bad

import "sort"

type item struct {
	key int
	pos int
}

func Unstable(xs []item) []item {
	out := make([]item, len(xs))
	copy(out, xs)
	sort.Slice(out, func(i, j int) bool { return out[i].key < out[j].key })
	return out
}

func NonStrict(xs []item) []item {
	out := make([]item, len(xs))
	copy(out, xs)
	sort.SliceStable(out, func(i, j int) bool { return out[i].key <= out[j].key })
	return out
}

func Negated(xs []item) []item {
	out := make([]item, len(xs))
	copy(out, xs)
	sort.SliceStable(out, func(i, j int) bool { return !(out[j].key < out[i].key) })
	return out
}

func InPlace(xs []item) []item {
	sort.SliceStable(xs, func(i, j int) bool { return xs[i].key < xs[j].key })
	return xs
}
