// Package good: sequences are spliced and unwrapped before they become values.
package good

import "reflect"

type sequence struct {
	values []interface{}
}

func (s *sequence) Append(v interface{}) { s.values = append(s.values, v) }

func (s sequence) Value() reflect.Value {
	if len(s.values) == 1 {
		return reflect.ValueOf(s.values[0])
	}
	return reflect.ValueOf(s.values)
}

func asSequence(v reflect.Value) (*sequence, bool) {
	if !v.IsValid() || !v.CanInterface() {
		return nil, false
	}
	s, ok := v.Interface().(*sequence)
	return s, ok
}

func produce(n int) reflect.Value {
	s := &sequence{}
	for i := 0; i < n; i++ {
		s.Append(i)
	}
	return reflect.ValueOf(s)
}

func nest(n int) reflect.Value {
	out := &sequence{}
	v := produce(n)
	if seq, ok := asSequence(v); ok {
		for _, x := range seq.values {
			out.Append(x)
		}
		return reflect.ValueOf(out)
	}
	if v.IsValid() && v.CanInterface() {
		out.Append(v.Interface())
	}
	return reflect.ValueOf(out)
}

func eval(n int) (reflect.Value, error) {
	v := nest(n)
	if seq, ok := asSequence(v); ok {
		v = seq.Value()
	}
	return v, nil
}

func Eval(n int) (interface{}, error) {
	v, err := eval(n)
	if err != nil {
		return nil, err
	}
	return v.Interface(), nil
}
