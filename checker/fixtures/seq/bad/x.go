// Package bad: an internal sequence is nested into another one and leaves eval unopened.
package bad

import "reflect"

type sequence struct {
	values []interface{}
}

func (s *sequence) Append(v interface{}) { s.values = append(s.values, v) }

func (s sequence) Value() reflect.Value {
	if len(s.values) == 1 {
		return reflect.ValueOf(s.values[0])
	}
	return reflect.ValueOf(s.values)
}

func asSequence(v reflect.Value) (*sequence, bool) {
	if !v.IsValid() || !v.CanInterface() {
		return nil, false
	}
	s, ok := v.Interface().(*sequence)
	return s, ok
}

func produce(n int) reflect.Value {
	s := &sequence{}
	for i := 0; i < n; i++ {
		s.Append(i)
	}
	return reflect.ValueOf(s)
}

// nest appends the result of produce unopened.
func nest(n int) reflect.Value {
	out := &sequence{}
	v := produce(n)
	if v.IsValid() && v.CanInterface() {
		out.Append(v.Interface())
	}
	return reflect.ValueOf(out)
}

// eval forgets to unwrap.
func eval(n int) (reflect.Value, error) {
	v := nest(n)
	return v, nil
}

// Eval is the API boundary.
func Eval(n int) (interface{}, error) {
	v, err := eval(n)
	if err != nil {
		return nil, err
	}
	return v.Interface(), nil
}

var holder []reflect.Value

// keep stores a possibly wrapped sequence into memory.
func keep(n int) {
	holder = append(holder, produce(n))
}
