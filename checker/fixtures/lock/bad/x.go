// Package bad: a registry read outside its lock and aliased into an object.
package bad

import "sync"

var mu sync.RWMutex
var registry map[string]int

type Expr struct{ reg map[string]int }

func Register(k string, v int) {
	if registry == nil { // read before the lock is taken
		registry = make(map[string]int)
	}
	mu.Lock()
	registry[k] = v
	mu.Unlock()
}

func Compile() *Expr {
	mu.RLock()
	e := &Expr{reg: registry} // the shared map escapes the critical section
	mu.RUnlock()
	return e
}

func Leak(k string) int {
	mu.RLock()
	if v, ok := registry[k]; ok {
		return v // returns with the lock held
	}
	mu.RUnlock()
	return 0
}

var table map[string]int

func merge(dst *map[string]int, k string, v int) {
	if *dst == nil {
		*dst = make(map[string]int)
	}
	(*dst)[k] = v
}

// Put hands the address of a package variable to a helper that writes through it, with no lock held.
func Put(k string, v int) {
	merge(&table, k, v)
	mu.Lock()
	mu.Unlock()
}
