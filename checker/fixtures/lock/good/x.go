// Package good: every access under the lock, copies only.
package good

import "sync"

var mu sync.RWMutex
var registry map[string]int

type Expr struct{ reg map[string]int }

func Register(k string, v int) {
	mu.Lock()
	defer mu.Unlock()
	if registry == nil {
		registry = make(map[string]int)
	}
	registry[k] = v
}

func Compile() *Expr {
	e := &Expr{}
	mu.RLock()
	for k, v := range registry {
		if e.reg == nil {
			e.reg = make(map[string]int)
		}
		e.reg[k] = v
	}
	mu.RUnlock()
	return e
}

func merge(dst *map[string]int, k string, v int) {
	if *dst == nil {
		*dst = make(map[string]int)
	}
	(*dst)[k] = v
}

// Put hands the address of the registry to a helper, with the write lock held.
func Put(k string, v int) {
	mu.Lock()
	merge(&registry, k, v)
	mu.Unlock()
}
