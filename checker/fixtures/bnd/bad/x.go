// Package bad: index and slice expressions that can leave their bounds.
package bad

import "strings"

// Digits lost its clamp: n > 9 panics.
func Digits(n int) string {
	var buf [9]byte
	for i := range buf {
		buf[i] = '0'
	}
	if n < 0 {
		n = 0
	}
	return string(buf[:n])
}

// From slices at the result of IndexByte without testing for -1.
func From(s string) string {
	i := strings.IndexByte(s, ',')
	return s[i:]
}

// At has an off-by-one: n == len(xs) passes the test.
func At(xs []int, n int) int {
	if n >= 0 && n <= len(xs) {
		return xs[n]
	}
	return 0
}
