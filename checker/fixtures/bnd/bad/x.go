// Package bad: index and slice expressions that can leave their bounds.
package bad

import "strings"

// Digits lost its clamp: n > 9 panics.
func Digits(n int) string {
	var buf [9]byte
	for i := range buf {
		buf[i] = '0'
	}
	if n < 0 {
		n = 0
	}
	return string(buf[:n])
}

// From slices at the result of IndexByte without testing for -1.
func From(s string) string {
	i := strings.IndexByte(s, ',')
	return s[i:]
}

// At has an off-by-one: n == len(xs) passes the test.
func At(xs []int, n int) int {
	if n >= 0 && n <= len(xs) {
		return xs[n]
	}
	return 0
}

type pair struct {
	head int
	rest int
}

func sum(xs []int) int {
	t := 0
	for _, x := range xs {
		t += x
	}
	return t
}

// Chain reads ys[0] and passes ys[1:] to a call in one statement. The compiler evaluates the
// operand with the call first and then needs no check for ys[0]; reading the statement left to
// right, ys[0] would seem to vouch for ys[1:]. Neither vouches for the other: an empty ys panics.
func Chain(xs, ys []int) *pair {
	if len(xs) < 1 {
		return nil
	}
	return &pair{
		head: ys[0],
		rest: sum(ys[1:]),
	}
}
