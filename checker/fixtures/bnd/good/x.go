// Package good: the same shapes, in range on every path; some need the checker's own proof.
package good

import (
	"strings"
	"unicode/utf8"
)

// Digits clamps on both sides; the upper clamp arrives through a phi.
func Digits(n int) string {
	var buf [9]byte
	for i := range buf {
		buf[i] = '0'
	}
	if n < 0 {
		n = 0
	}
	if n > 9 {
		n = 9
	}
	return string(buf[:n])
}

func From(s string) string {
	i := strings.IndexByte(s, ',')
	if i < 0 {
		return ""
	}
	return s[i:]
}

func At(xs []int, n int) int {
	if n >= 0 && n < len(xs) {
		return xs[n]
	}
	return 0
}

// Skip steps over a backslash and the rune after it: pos+1+w <= len(s) because w is the
// width of a rune decoded from s[pos+1:].
func Skip(s string) string {
	pos := strings.IndexByte(s, '\\')
	if pos < 0 {
		return s
	}
	pos++
	_, w := utf8.DecodeRuneInString(s[pos:])
	pos += w
	return s[pos:]
}

// After uses the post-condition of strings.Index for a substring.
func After(s, sub string) string {
	i := strings.Index(s, sub)
	if i < 0 {
		return ""
	}
	return s[i+len(sub):]
}
