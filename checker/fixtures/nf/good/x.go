// Package good: the same functions following the resolve-first idiom.
package good

import (
	"reflect"

	"github.com/blues/jsonata-go/jtypes"
)

func Count(v reflect.Value) int {
	v = jtypes.Resolve(v)
	if jtypes.IsArray(v) {
		return v.Len()
	}
	return 0
}

func First(v reflect.Value) int {
	v = jtypes.Resolve(v)
	return helper(jtypes.Resolve(v.Index(0)))
}

func helper(v reflect.Value) int {
	return v.Len()
}

// Made values are resolved by construction.
func Made() int {
	s := reflect.MakeSlice(reflect.TypeOf([]interface{}{}), 0, 1)
	s = reflect.Append(s, reflect.ValueOf(1))
	return s.Len()
}
