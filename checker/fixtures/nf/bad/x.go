// Package bad: reflect accessors on values that were never resolved.
package bad

import (
	"reflect"

	"github.com/blues/jsonata-go/jtypes"
)

// Count calls Len on its (exported, hence arbitrary) parameter after a kind test only.
func Count(v reflect.Value) int {
	if jtypes.IsArray(v) {
		return v.Len()
	}
	return 0
}

// First hands a container slot (interface-kinded) to a helper that uses it unresolved.
func First(v reflect.Value) int {
	v = jtypes.Resolve(v)
	return helper(v.Index(0))
}

func helper(v reflect.Value) int {
	return v.Len()
}
