// Package bad: an evaluator that writes its program, a package variable and its input.
package bad

type Node struct {
	Args []int
	Next *Node
}

type Expr struct{ node *Node }

var cache = map[string]int{}

func (e *Expr) Eval(data map[string]interface{}) int { return eval(e.node, data) }

func eval(n *Node, data map[string]interface{}) int {
	n.Args = append([]int{1}, n.Args...) // the shared program is modified
	cache["calls"]++                     // package-level state
	data["seen"] = true                  // the caller's input
	helper(n.Next)
	if n.Next != nil {
		n.Next.label() // a by-value receiver whose slice field still points into the program
	}
	return len(n.Args)
}

// label works on a copy of the node, but the copy's slice shares the node's backing array.
func (n Node) label() int {
	args := n.Args
	for i := range args {
		args[i] = -args[i]
	}
	return len(args)
}

func helper(n *Node) {
	if n != nil && len(n.Args) > 0 {
		n.Args[0] = 2 // write through a parameter that receives shared memory
	}
}
