// Package bad: an evaluator that writes its program, a package variable and its input.
package bad

type Node struct {
	Args []int
	Next *Node
}

type Expr struct{ node *Node }

var cache = map[string]int{}

func (e *Expr) Eval(data map[string]interface{}) int { return eval(e.node, data) }

func eval(n *Node, data map[string]interface{}) int {
	n.Args = append([]int{1}, n.Args...) // the shared program is modified
	cache["calls"]++                      // package-level state
	data["seen"] = true                   // the caller's input
	helper(n.Next)
	return len(n.Args)
}

func helper(n *Node) {
	if n != nil && len(n.Args) > 0 {
		n.Args[0] = 2 // write through a parameter that receives shared memory
	}
}
