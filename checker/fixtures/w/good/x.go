// Package good: the same evaluator working on fresh copies only.
package good

type Node struct {
	Args []int
	Next *Node
}

type Expr struct{ node *Node }

func (e *Expr) Eval(data map[string]interface{}) int { return eval(e.node, data) }

func eval(n *Node, data map[string]interface{}) int {
	args := make([]int, 0, len(n.Args)+1)
	args = append(args, 1)
	args = append(args, n.Args...)
	local := &Node{Args: args, Next: n.Next}
	out := make(map[string]interface{}, len(data)+1)
	for k, v := range data {
		out[k] = v
	}
	out["seen"] = true
	helper(local)
	return len(local.Args) + len(out) + local.label()
}

// label negates a private copy of the arguments.
func (n Node) label() int {
	args := make([]int, len(n.Args))
	for i, a := range n.Args {
		args[i] = -a
	}
	return len(args)
}

func helper(n *Node) {
	if n != nil && len(n.Args) > 0 {
		n.Args[0] = 2
	}
}
