// Package good: every loop has a recognised variant.
package good

import (
	"math"
	"strings"
)

func Scale(v, min float64) (float64, int) {
	e := 0
	if v != 0 {
		x := math.Abs(v)
		for x < min {
			x *= 10
			e--
		}
		return x, e
	}
	return v, e
}

func Skip(s string) int {
	n := 0
	for {
		pos := strings.IndexByte(s, ',')
		if pos == -1 {
			break
		}
		n++
		s = s[pos+1:]
	}
	return n
}

func Count(xs []int, m map[string]int) int {
	c := 0
	for i := 0; i < len(xs); i++ {
		c += xs[i]
	}
	for _, v := range m {
		c += v
	}
	for n := len(xs); n > 0; n-- {
		c++
	}
	return c
}
