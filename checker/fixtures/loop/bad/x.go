// Package bad: loops without a variant.
package bad

import "strings"

// Scale never terminates for x <= 0.
func Scale(x, min float64) (float64, int) {
	e := 0
	for x < min {
		x *= 10
		e--
	}
	return x, e
}

// Skip forgets to shorten the string when the separator is at position 0... it re-slices at pos, not pos+1.
func Skip(s string) int {
	n := 0
	for {
		pos := strings.IndexByte(s, ',')
		if pos == -1 {
			break
		}
		n++
		s = s[pos:]
	}
	return n
}

// Wander steps away from its bound on one path.
func Wander(n int, flags []bool) int {
	c := 0
	for i := 0; i < n; {
		if flags[c%len(flags)] {
			i++
		} else {
			i--
		}
		c++
	}
	return c
}
