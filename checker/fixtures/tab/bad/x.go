// Package bad: a dispatch switch that forgot one constant of its enum.
package bad

import "fmt"

type Op uint8

const (
	_ Op = iota
	OpAdd
	OpSub
	OpMul
)

func Apply(op Op, a, b int) int {
	switch op {
	case OpAdd:
		return a + b
	case OpSub:
		return a - b
	default:
		panic(fmt.Sprintf("unrecognised operator %d", op))
	}
}

func (op Op) String() string {
	switch op {
	case OpAdd:
		return "+"
	case OpMul:
		return "*"
	default:
		return ""
	}
}
