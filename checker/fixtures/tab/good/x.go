// Package good: exhaustive dispatch.
package good

import "fmt"

type Op uint8

const (
	_ Op = iota
	OpAdd
	OpSub
)

func Apply(op Op, a, b int) (int, error) {
	switch op {
	case OpAdd:
		return a + b, nil
	case OpSub:
		return a - b, nil
	default:
		return 0, fmt.Errorf("unrecognised operator %d", op)
	}
}

func (op Op) String() string {
	switch op {
	case OpAdd:
		return "+"
	case OpSub:
		return "-"
	default:
		return ""
	}
}
