// Package good: interface-keyed map with statically hashable keys only.
package good

func Count(xs []string) map[interface{}]int {
	m := map[interface{}]int{}
	for _, x := range xs {
		m[x]++
		m[len(x)]++
	}
	return m
}
