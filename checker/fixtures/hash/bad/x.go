// Package bad: dynamic values and printed forms used as map keys.
package bad

import "fmt"

func Distinct(xs []interface{}) []interface{} {
	seen := map[interface{}]struct{}{}
	var out []interface{}
	for _, x := range xs {
		if m, ok := x.(map[string]interface{}); ok {
			k := fmt.Sprint(m)
			if _, dup := seen[k]; dup {
				continue
			}
			seen[k] = struct{}{}
			out = append(out, x)
			continue
		}
		if _, dup := seen[x]; dup {
			continue
		}
		seen[x] = struct{}{}
		out = append(out, x)
	}
	return out
}
