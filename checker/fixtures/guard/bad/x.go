// Package bad: partial operations without a dominating guard.
package bad

import (
	"strconv"
	"strings"
)

func Mod(a, b int) int { return a % b }

func Pad(s string, n int) string { return s + strings.Repeat(" ", n-len(s)) }

func Base(v int64, b int) string {
	if b < 2 {
		return ""
	}
	return strconv.FormatInt(v, b)
}

func Narrow(v int64, b int) string {
	if b < 2 || b > 16 {
		return ""
	}
	return strconv.FormatInt(v, b)
}
