// Package good: the same operations, guarded on the same value.
package good

import (
	"strconv"
	"strings"
)

func Mod(a, b int) int {
	if b == 0 {
		return a
	}
	return a % b
}

func Every(a, n int) int {
	if n <= 0 {
		return 0
	}
	return a / n
}

func Pad(s string, n int) string {
	p := n - len(s)
	if p > 0 {
		return s + strings.Repeat(" ", p)
	}
	return s
}

func Base(v int64, b int) string {
	if b < 2 || b > 36 {
		return ""
	}
	return strconv.FormatInt(v, b)
}
