package empty
