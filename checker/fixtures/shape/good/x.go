// Package good: the same jobs done right.
package good

import (
	"reflect"
	"strings"
)

// Join decides by position.
func Join(vs []string, sep string) string {
	var b strings.Builder
	for i, s := range vs {
		if i > 0 {
			b.WriteString(sep)
		}
		b.WriteString(s)
	}
	return b.String()
}

// JoinNonEmpty skips empty elements, so a non-empty output does mean an element was written.
func JoinNonEmpty(vs []string, sep string) string {
	out := ""
	for _, s := range vs {
		if s == "" {
			continue
		}
		if out != "" {
			out += sep
		}
		out += s
	}
	return out
}

// SameMap compares sizes and requires every key of a to be present in b.
func SameMap(a, b reflect.Value) bool {
	if a.Len() != b.Len() {
		return false
	}
	for _, k := range a.MapKeys() {
		bv := b.MapIndex(k)
		if !bv.IsValid() {
			return false
		}
		if !reflect.DeepEqual(a.MapIndex(k).Interface(), bv.Interface()) {
			return false
		}
	}
	return true
}
