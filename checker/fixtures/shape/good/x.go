// Package good: the same jobs done right.
package good

import (
	"errors"
	"fmt"
	"math"
	"reflect"
	"strings"
)

// Join decides by position.
func Join(vs []string, sep string) string {
	var b strings.Builder
	for i, s := range vs {
		if i > 0 {
			b.WriteString(sep)
		}
		b.WriteString(s)
	}
	return b.String()
}

// JoinNonEmpty skips empty elements, so a non-empty output does mean an element was written.
func JoinNonEmpty(vs []string, sep string) string {
	out := ""
	for _, s := range vs {
		if s == "" {
			continue
		}
		if out != "" {
			out += sep
		}
		out += s
	}
	return out
}

// SameMap compares sizes and requires every key of a to be present in b.
func SameMap(a, b reflect.Value) bool {
	if a.Len() != b.Len() {
		return false
	}
	for _, k := range a.MapKeys() {
		bv := b.MapIndex(k)
		if !bv.IsValid() {
			return false
		}
		if !reflect.DeepEqual(a.MapIndex(k).Interface(), bv.Interface()) {
			return false
		}
	}
	return true
}

// AsFloat tests every numeric kind.
func AsFloat(v interface{}) (float64, bool) {
	switch n := v.(type) {
	case float64:
		return n, true
	case float32:
		return float64(n), true
	case int:
		return float64(n), true
	case int8:
		return float64(n), true
	case int16:
		return float64(n), true
	case int32:
		return float64(n), true
	case int64:
		return float64(n), true
	case uint:
		return float64(n), true
	case uint8:
		return float64(n), true
	case uint16:
		return float64(n), true
	case uint32:
		return float64(n), true
	case uint64:
		return float64(n), true
	}
	return 0, false
}

type term struct {
	desc bool
	name string
}

// Terms decides the direction of each term within the term's own round.
func Terms(words []string) []term {
	var out []term
	count := 0
	for _, w := range words {
		desc := false
		if strings.HasPrefix(w, ">") {
			desc = true
			w = w[1:]
		} else if strings.HasPrefix(w, "<") {
			w = w[1:]
		}
		count++
		out = append(out, term{desc: desc, name: w})
	}
	_ = count
	return out
}

// Render looks at every argument before any successful return.
func Render(ms int64, picture, zone string) (string, error) {
	if zone != "" && len(zone) != 5 {
		return "", fmt.Errorf("bad zone")
	}
	if picture == "" {
		picture = "default"
	}
	return picture + zone + strings.Repeat("0", int(ms%3)), nil
}

// Uniq tests and sets.
func Uniq(groups [][]string) []string {
	seen := map[string]bool{}
	var out []string
	for _, g := range groups {
		for _, s := range g {
			if !seen[s] {
				seen[s] = true
				out = append(out, s)
			}
		}
	}
	return out
}

type node interface{ tidy() (node, error) }

// TidyAll stops at the first failure.
func TidyAll(ns []node) error {
	var err error
	for i := range ns {
		ns[i], err = ns[i].tidy()
		if err != nil {
			return err
		}
	}
	return nil
}

// ErrUndefined stands for "no value".
var ErrUndefined = errors.New("undefined")

// Swallow treats only the sentinel itself as "no value".
func Swallow(err error) error {
	if err == ErrUndefined {
		return nil
	}
	return err
}

// Nearest rounds exactly.
func Nearest(x float64) float64 {
	return math.Round(x)
}
