// Package bad: constructs the round-5 shape rules must report.
package bad

import (
	"reflect"
	"strings"
)

// Join writes the separator whenever the output is not empty yet: leading empty elements lose it.
func Join(vs []string, sep string) string {
	var b strings.Builder
	for _, s := range vs {
		if b.Len() > 0 {
			b.WriteString(sep)
		}
		b.WriteString(s)
	}
	return b.String()
}

// JoinConcat does the same with string concatenation.
func JoinConcat(vs []string, sep string) string {
	out := ""
	for _, s := range vs {
		if out != "" {
			out += sep
		}
		out += s
	}
	return out
}

// SameMap compares two maps by walking the keys of the first only: a is "equal" to every superset.
func SameMap(a, b reflect.Value) bool {
	for _, k := range a.MapKeys() {
		if !reflect.DeepEqual(a.MapIndex(k).Interface(), b.MapIndex(k).Interface()) {
			return false
		}
	}
	return true
}

// SameMapLen compares sizes, but takes a missing entry of b for a value.
func SameMapLen(a, b reflect.Value) bool {
	if a.Len() != b.Len() {
		return false
	}
	for _, k := range a.MapKeys() {
		if !same(a.MapIndex(k), b.MapIndex(k)) {
			return false
		}
	}
	return true
}

func same(x, y reflect.Value) bool {
	if !x.IsValid() || !y.IsValid() {
		return !x.IsValid() && !y.IsValid() || isNil(x) || isNil(y)
	}
	return reflect.DeepEqual(x.Interface(), y.Interface())
}

func isNil(v reflect.Value) bool { return !v.IsValid() }
