// Package bad: constructs the round-5 shape rules must report.
package bad

import (
	"errors"
	"fmt"
	"math"
	"reflect"
	"strings"
)

// Join writes the separator whenever the output is not empty yet: leading empty elements lose it.
func Join(vs []string, sep string) string {
	var b strings.Builder
	for _, s := range vs {
		if b.Len() > 0 {
			b.WriteString(sep)
		}
		b.WriteString(s)
	}
	return b.String()
}

// JoinConcat does the same with string concatenation.
func JoinConcat(vs []string, sep string) string {
	out := ""
	for _, s := range vs {
		if out != "" {
			out += sep
		}
		out += s
	}
	return out
}

// SameMap compares two maps by walking the keys of the first only: a is "equal" to every superset.
func SameMap(a, b reflect.Value) bool {
	for _, k := range a.MapKeys() {
		if !reflect.DeepEqual(a.MapIndex(k).Interface(), b.MapIndex(k).Interface()) {
			return false
		}
	}
	return true
}

// SameMapLen compares sizes, but takes a missing entry of b for a value.
func SameMapLen(a, b reflect.Value) bool {
	if a.Len() != b.Len() {
		return false
	}
	for _, k := range a.MapKeys() {
		if !same(a.MapIndex(k), b.MapIndex(k)) {
			return false
		}
	}
	return true
}

func same(x, y reflect.Value) bool {
	if !x.IsValid() || !y.IsValid() {
		return !x.IsValid() && !y.IsValid() || isNil(x) || isNil(y)
	}
	return reflect.DeepEqual(x.Interface(), y.Interface())
}

func isNil(v reflect.Value) bool { return !v.IsValid() }

// AsFloat recognises two of the twelve numeric kinds: an int64 is "not a number".
func AsFloat(v interface{}) (float64, bool) {
	switch n := v.(type) {
	case float64:
		return n, true
	case int:
		return float64(n), true
	}
	return 0, false
}

type term struct {
	desc bool
	name string
}

// Terms keeps the direction of the previous term for a term that has no marker of its own.
func Terms(words []string) []term {
	var out []term
	desc := false
	for _, w := range words {
		if strings.HasPrefix(w, ">") {
			desc = true
			w = w[1:]
		} else if strings.HasPrefix(w, "<") {
			desc = false
			w = w[1:]
		}
		out = append(out, term{desc: desc, name: w})
	}
	return out
}

// Render returns before it has looked at the zone when there is no picture.
func Render(ms int64, picture, zone string) (string, error) {
	if picture == "" {
		return strings.Repeat("0", int(ms%3)), nil
	}
	if zone != "" && len(zone) != 5 {
		return "", fmt.Errorf("bad zone")
	}
	return picture + zone + strings.Repeat("0", int(ms%3)), nil
}

// Uniq admits a value that is not in the set but never puts it there.
func Uniq(groups [][]string) []string {
	seen := map[string]bool{}
	var out []string
	for _, g := range groups {
		for _, s := range g {
			if !seen[s] {
				out = append(out, s)
			}
		}
	}
	return out
}

type node interface{ tidy() (node, error) }

// TidyAll keeps going after a failure and reports only the last round's error.
func TidyAll(ns []node) error {
	var err error
	for i := range ns {
		ns[i], err = ns[i].tidy()
	}
	return err
}

// ErrUndefined stands for "no value".
var ErrUndefined = errors.New("undefined")

// Swallow treats every error that wraps the sentinel as "no value".
func Swallow(err error) error {
	if errors.Is(err, ErrUndefined) {
		return nil
	}
	return err
}

// Nearest rounds by adding one half first: wrong for the double just below 0.5.
func Nearest(x float64) float64 {
	if x < 0 {
		return math.Ceil(x - 0.5)
	}
	return math.Floor(x + 0.5)
}
