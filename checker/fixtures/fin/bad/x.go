// Package bad: float results become values without a finiteness check.
package bad

import (
	"math"
	"reflect"
)

// Table boxes the functions the way the base environment does.
var Table = map[string]interface{}{"sum": Sum, "half": HalfChecked, "ratio": Ratio}

func Sum(xs []float64) (float64, error) {
	var s float64
	for _, x := range xs {
		s += x
	}
	return s, nil
}

// HalfChecked tests only for NaN; the overflow is still possible.
func HalfChecked(x, y float64) (float64, error) {
	r := x * y
	if math.IsNaN(r) {
		return 0, nil
	}
	return r, nil
}

func Ratio(x, y float64) float64 { return x / y }

func box(x, y float64) reflect.Value {
	return reflect.ValueOf(x - y)
}
