// Package good: every arithmetic result is checked before it becomes a value.
package good

import (
	"errors"
	"math"
	"reflect"
)

var Table = map[string]interface{}{"sum": Sum, "max": Max, "ratio": Ratio}

func Sum(xs []float64) (float64, error) {
	var s float64
	for _, x := range xs {
		s += x
	}
	if math.IsInf(s, 0) {
		return 0, errors.New("overflow")
	}
	return s, nil
}

func Max(xs []float64) float64 {
	var m float64
	for i, x := range xs {
		if i == 0 || x > m {
			m = x
		}
	}
	return math.Abs(m) + 1
}

func Ratio(x, y float64) (float64, error) {
	r := x / y
	if math.IsInf(r, 0) || math.IsNaN(r) {
		return 0, errors.New("not a number")
	}
	return r, nil
}

func box(x, y float64) (reflect.Value, error) {
	d := x - y
	if math.IsInf(d, 0) {
		return reflect.Value{}, errors.New("overflow")
	}
	if math.IsNaN(d) {
		return reflect.Value{}, errors.New("nan")
	}
	return reflect.ValueOf(d), nil
}
