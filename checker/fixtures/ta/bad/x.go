// Package bad: single-result type assertions nothing vouches for.
package bad

import "reflect"

type T struct{ N int }

type Shower interface{ Show() string }

var typeTPtr = reflect.TypeOf((*T)(nil))
var typeShower = reflect.TypeOf((*Shower)(nil)).Elem()

// Unchecked asserts without any test.
func Unchecked(v reflect.Value) *T {
	return v.Interface().(*T)
}

// WrongVar tests against a variable that denotes another type.
func WrongVar(v reflect.Value) *T {
	if v.Type() == typeShower {
		return v.Interface().(*T)
	}
	return nil
}

// OtherValue tests one value and asserts another.
func OtherValue(v, w reflect.Value) *T {
	if v.Type() == typeTPtr && w.CanInterface() {
		return w.Interface().(*T)
	}
	return nil
}
