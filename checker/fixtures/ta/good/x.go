// Package good: the same assertions under a test of the same value against the right type.
package good

import (
	"errors"
	"reflect"
)

type T struct{ N int }

type Shower interface{ Show() string }

type Node interface{ node() }

func (*T) node() {}

var typeTPtr = reflect.TypeOf((*T)(nil))
var typeShower = reflect.TypeOf((*Shower)(nil)).Elem()

func Checked(v reflect.Value) *T {
	if v.IsValid() && v.Type() == typeTPtr && v.CanInterface() {
		return v.Interface().(*T)
	}
	return nil
}

func Implements(v reflect.Value) Shower {
	if v.Type().Implements(typeShower) && v.CanInterface() {
		return v.Interface().(Shower)
	}
	return nil
}

func build(n int) (Node, error) {
	if n < 0 {
		return nil, errors.New("negative")
	}
	return &T{N: n}, nil
}

// FromCallee asserts the success result of a function that only ever returns a *T.
func FromCallee(n int) (*T, error) {
	nd, err := build(n)
	if err != nil {
		return nil, err
	}
	return nd.(*T), nil
}
