// Package bad: struct field values used as data without a usability test.
package bad

import "reflect"

// Walk hands every field to fn, unexported ones included.
func Walk(v reflect.Value, fn func(reflect.Value)) {
	for i := 0; i < v.NumField(); i++ {
		fn(v.Field(i))
	}
}

// Get returns whatever FieldByName finds.
func Get(v reflect.Value, name string) reflect.Value {
	return v.FieldByName(name)
}

// Kind calls a method on the type of a possibly nil interface.
func Kind(x interface{}) reflect.Kind {
	return reflect.TypeOf(x).Kind()
}
