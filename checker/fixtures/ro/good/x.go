// Package good: the same, with the tests that make the values usable.
package good

import "reflect"

func Walk(v reflect.Value, fn func(reflect.Value)) {
	for i := 0; i < v.NumField(); i++ {
		if f := v.Field(i); f.CanInterface() {
			fn(f)
		}
	}
}

func WalkExported(v reflect.Value, fn func(reflect.Value)) {
	t := v.Type()
	for i := 0; i < v.NumField(); i++ {
		field := t.Field(i)
		if field.PkgPath != "" {
			continue
		}
		fn(v.Field(i))
	}
}

func Get(v reflect.Value, name string) reflect.Value {
	var out reflect.Value
	if f := v.FieldByName(name); f.IsValid() && f.CanInterface() {
		out = f
	}
	return out
}

func Kind(x interface{}) reflect.Kind {
	if x == nil {
		return reflect.Invalid
	}
	return reflect.TypeOf(x).Kind()
}
