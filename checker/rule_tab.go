package main

import (
	"fmt"
	"go/ast"
	"go/constant"
	"go/token"
	"go/types"
	"sort"
	"strconv"
	"strings"

	"golang.org/x/tools/go/packages"
	"golang.org/x/tools/go/ssa"
)

// TAB — tables and dispatch exhaustiveness (DESIGN.md §3 TAB). AST + go/types, by constant
// value and object identity, never by position.

type enumInfo struct {
	T      *types.Named
	Consts []*types.Const // declared constants of type T in T's package, sorted by value then name
}

func (e *enumInfo) values() map[string][]string {
	m := map[string][]string{}
	for _, c := range e.Consts {
		m[c.Val().ExactString()] = append(m[c.Val().ExactString()], c.Name())
	}
	return m
}

func enumTypes(pkg *packages.Package) map[*types.Named]*enumInfo {
	out := map[*types.Named]*enumInfo{}
	sc := pkg.Types.Scope()
	for _, n := range sc.Names() {
		c, ok := sc.Lookup(n).(*types.Const)
		if !ok {
			continue
		}
		nt, ok := c.Type().(*types.Named)
		if !ok || nt.Obj().Pkg() != pkg.Types {
			continue
		}
		b, ok := nt.Underlying().(*types.Basic)
		if !ok || b.Info()&types.IsInteger == 0 {
			continue
		}
		if out[nt] == nil {
			out[nt] = &enumInfo{T: nt}
		}
		out[nt].Consts = append(out[nt].Consts, c)
	}
	for _, e := range out {
		sort.Slice(e.Consts, func(i, j int) bool {
			if constant.Compare(e.Consts[i].Val(), token.EQL, e.Consts[j].Val()) {
				return e.Consts[i].Name() < e.Consts[j].Name()
			}
			return constant.Compare(e.Consts[i].Val(), token.LSS, e.Consts[j].Val())
		})
	}
	return out
}

type switchInfo struct {
	Pkg      *packages.Package
	Fn       string // enclosing function (Recv.Name or Name)
	FnObj    types.Object
	Stmt     *ast.SwitchStmt
	TagType  types.Type
	CaseVals map[string]bool // constant values (ExactString) of all case expressions
	HasDef   bool
	DefKind  string // "panic" | "error" | "other"
	NonConst bool   // some case expression is not a constant
	Ordinal  int    // ordinal among the switches of the function over the same tag type
}

func funcDeclName(fd *ast.FuncDecl) string {
	if fd.Recv != nil && len(fd.Recv.List) == 1 {
		t := fd.Recv.List[0].Type
		if s, ok := t.(*ast.StarExpr); ok {
			t = s.X
		}
		if id, ok := t.(*ast.Ident); ok {
			return id.Name + "." + fd.Name.Name
		}
	}
	return fd.Name.Name
}

// classifyDefault: does the default clause panic or return a non-nil error?
func classifyDefault(pkg *packages.Package, cc *ast.CaseClause) string {
	kind := "other"
	// a default that fails unconditionally says "no other value can get here"; one that tests
	// something first (if …) is an ordinary "everything else" branch and makes no such claim
	for _, st := range cc.Body {
		switch st.(type) {
		case *ast.ExprStmt, *ast.ReturnStmt, *ast.AssignStmt, *ast.DeclStmt:
		default:
			return "other"
		}
	}
	for _, st := range cc.Body {
		ast.Inspect(st, func(n ast.Node) bool {
			switch n := n.(type) {
			case *ast.CallExpr:
				if id, ok := n.Fun.(*ast.Ident); ok && (id.Name == "panic" || id.Name == "panicf") {
					kind = "panic"
				}
			case *ast.ReturnStmt:
				for _, res := range n.Results {
					t := pkg.TypesInfo.TypeOf(res)
					if t == nil {
						continue
					}
					if id, ok := res.(*ast.Ident); ok && id.Name == "nil" {
						continue
					}
					if isErrorType(t) || types.Implements(t, errorIface()) {
						if kind != "panic" {
							kind = "error"
						}
					}
				}
			}
			return true
		})
	}
	return kind
}

func errorIface() *types.Interface {
	return types.Universe.Lookup("error").Type().Underlying().(*types.Interface)
}

func collectSwitches(pkg *packages.Package) []*switchInfo {
	var out []*switchInfo
	for _, file := range pkg.Syntax {
		for _, d := range file.Decls {
			fd, ok := d.(*ast.FuncDecl)
			if !ok || fd.Body == nil {
				continue
			}
			ords := map[string]int{}
			ast.Inspect(fd.Body, func(n ast.Node) bool {
				sw, ok := n.(*ast.SwitchStmt)
				if !ok || sw.Tag == nil {
					return true
				}
				tt := pkg.TypesInfo.TypeOf(sw.Tag)
				if tt == nil {
					return true
				}
				si := &switchInfo{Pkg: pkg, Fn: funcDeclName(fd), FnObj: pkg.TypesInfo.Defs[fd.Name], Stmt: sw, TagType: tt, CaseVals: map[string]bool{}}
				for _, st := range sw.Body.List {
					cc := st.(*ast.CaseClause)
					if cc.List == nil {
						si.HasDef = true
						si.DefKind = classifyDefault(pkg, cc)
						continue
					}
					for _, e := range cc.List {
						tv := pkg.TypesInfo.Types[e]
						if tv.Value == nil {
							si.NonConst = true
							continue
						}
						si.CaseVals[tv.Value.ExactString()] = true
					}
				}
				ords[tt.String()]++
				si.Ordinal = ords[tt.String()]
				out = append(out, si)
				return true
			})
		}
	}
	return out
}

// indexedFuncTable extracts `var name = [...]T{ constKey: funcIdent, ... }`.
func indexedFuncTable(pkg *packages.Package, name string) (map[string][]types.Object, bool) {
	// returns const value -> function objects (key ExactString)
	for _, file := range pkg.Syntax {
		for _, d := range file.Decls {
			gd, ok := d.(*ast.GenDecl)
			if !ok {
				continue
			}
			for _, sp := range gd.Specs {
				vs, ok := sp.(*ast.ValueSpec)
				if !ok || len(vs.Names) != 1 || vs.Names[0].Name != name || len(vs.Values) != 1 {
					continue
				}
				lit, ok := vs.Values[0].(*ast.CompositeLit)
				if !ok {
					return nil, false
				}
				out := map[string][]types.Object{}
				for _, el := range lit.Elts {
					kv, ok := el.(*ast.KeyValueExpr)
					if !ok {
						return nil, false
					}
					tv := pkg.TypesInfo.Types[kv.Key]
					if tv.Value == nil {
						return nil, false
					}
					var obj types.Object
					switch x := kv.Value.(type) {
					case *ast.Ident:
						obj = pkg.TypesInfo.Uses[x]
					case *ast.SelectorExpr:
						obj = pkg.TypesInfo.Uses[x.Sel]
					}
					if obj == nil {
						return nil, false
					}
					out[tv.Value.ExactString()] = append(out[tv.Value.ExactString()], obj)
				}
				return out, true
			}
		}
	}
	return nil, false
}

// mapLitKeys extracts the constant keys of `var name = map[K]V{...}` with the value expressions.
func mapLitKeys(pkg *packages.Package, name string) (map[string]ast.Expr, token.Pos, bool) {
	for _, file := range pkg.Syntax {
		for _, d := range file.Decls {
			gd, ok := d.(*ast.GenDecl)
			if !ok {
				continue
			}
			for _, sp := range gd.Specs {
				vs, ok := sp.(*ast.ValueSpec)
				if !ok || len(vs.Names) != 1 || vs.Names[0].Name != name || len(vs.Values) != 1 {
					continue
				}
				lit, ok := vs.Values[0].(*ast.CompositeLit)
				if !ok {
					return nil, 0, false
				}
				out := map[string]ast.Expr{}
				for _, el := range lit.Elts {
					kv, ok := el.(*ast.KeyValueExpr)
					if !ok {
						return nil, 0, false
					}
					tv := pkg.TypesInfo.Types[kv.Key]
					if tv.Value == nil {
						return nil, 0, false
					}
					out[tv.Value.ExactString()] = kv.Value
				}
				return out, vs.Pos(), true
			}
		}
	}
	return nil, 0, false
}

func constNames(e *enumInfo, val string) string {
	return strings.Join(e.values()[val], "/")
}

// runEnumSwitches: every switch over a module enum whose default panics or errors covers all constants.
func runEnumSwitches(c *Ctx, r *Result, rule string, pkgs []string, onlyTypes map[string]bool) int {
	n := 0
	for _, pn := range pkgs {
		pkg := c.W.Lib[pn]
		if pkg == nil {
			pkg = c.W.Fix[pn]
		}
		if pkg == nil {
			r.LoseAnchor("package %s not loaded", pn)
			continue
		}
		// enum types visible here: own and imported library packages
		enums := map[*types.Named]*enumInfo{}
		for _, lp := range c.W.Lib {
			for k, v := range enumTypes(lp) {
				enums[k] = v
			}
		}
		for k, v := range enumTypes(pkg) {
			enums[k] = v
		}
		for _, si := range collectSwitches(pkg) {
			nt, ok := si.TagType.(*types.Named)
			if !ok {
				continue
			}
			en := enums[nt]
			if en == nil || len(en.Consts) < 2 {
				continue
			}
			if nt.Obj().Name() == "tokenType" {
				continue // handled by the registration/switch agreement rule
			}
			if onlyTypes != nil && !onlyTypes[nt.Obj().Name()] {
				continue
			}
			if !si.HasDef || (si.DefKind != "panic" && si.DefKind != "error") {
				// String()-style switches with a constant default: still must cover everything
				if !(strings.HasSuffix(si.Fn, ".String") && si.HasDef) {
					continue
				}
			}
			n++
			key := fmt.Sprintf("%s.%s:switch(%s)#%d", pn, si.Fn, nt.Obj().Name(), si.Ordinal)
			o := Obligation{Rule: rule, Key: key, Fn: pn + "." + si.Fn, Pos: c.W.Pos(si.Stmt.Pos()), Nontrivial: true}
			var missing []string
			for val := range en.values() {
				if !si.CaseVals[val] {
					missing = append(missing, constNames(en, val))
				}
			}
			sort.Strings(missing)
			switch {
			case si.NonConst:
				o.Verdict, o.Reason = Undecided, "switch has non-constant case expressions"
			case len(missing) > 0:
				o.Verdict, o.Reason = Finding, fmt.Sprintf("switch over %s does not handle %v and its default %ss: a value the parser can produce reaches it", nt.Obj().Name(), missing, si.DefKind)
			default:
				o.Verdict, o.Reason = Discharged, fmt.Sprintf("all %d constants of %s have a case; the %s default is unreachable", len(en.values()), nt.Obj().Name(), si.DefKind)
			}
			r.Add(o)
		}
	}
	return n
}

// runRegistrationSwitch: a function registered in nuds/leds for token types K handles exactly K in
// its switch over the token type (so its "unexpected ..." panic is unreachable).
func runRegistrationSwitch(c *Ctx, r *Result, rule string) (int, map[string]bool) {
	pkg := c.W.Lib["jparse"]
	n := 0
	covered := map[string]bool{} // functions whose panic is the subject of one of these obligations
	byAST := map[types.Object]bool{}
	tokEnum := (*enumInfo)(nil)
	for nt, e := range enumTypes(pkg) {
		if nt.Obj().Name() == "tokenType" {
			tokEnum = e
		}
	}
	if tokEnum == nil {
		r.LoseAnchor("jparse.tokenType constants not found")
		return 0, covered
	}
	reg := map[types.Object]map[string]bool{} // function -> token values it is registered for
	for _, tbl := range []string{"nuds", "leds"} {
		m, ok := indexedFuncTable(pkg, tbl)
		if !ok {
			r.LoseAnchor("jparse.%s is not an indexed array literal of functions (table representation changed)", tbl)
			continue
		}
		for val, objs := range m {
			for _, o := range objs {
				if reg[o] == nil {
					reg[o] = map[string]bool{}
				}
				reg[o][tbl+":"+val] = true
			}
		}
	}
	for _, si := range collectSwitches(pkg) {
		nt, ok := si.TagType.(*types.Named)
		if !ok || nt.Obj().Name() != "tokenType" || si.FnObj == nil || reg[si.FnObj] == nil {
			continue
		}
		if !si.HasDef || si.DefKind != "panic" {
			continue
		}
		n++
		byAST[si.FnObj] = true
		covered["jparse."+si.Fn] = true
		// the function may be registered in one table only for this to be meaningful
		want := map[string]bool{}
		for k := range reg[si.FnObj] {
			want[k[strings.Index(k, ":")+1:]] = true
		}
		o := Obligation{Rule: rule, Key: fmt.Sprintf("jparse.%s:registered-vs-switch", si.Fn), Fn: "jparse." + si.Fn, Pos: c.W.Pos(si.Stmt.Pos()), Nontrivial: true}
		var missing, extra []string
		for v := range want {
			if !si.CaseVals[v] {
				missing = append(missing, constNames(tokEnum, v))
			}
		}
		for v := range si.CaseVals {
			if !want[v] {
				extra = append(extra, constNames(tokEnum, v))
			}
		}
		sort.Strings(missing)
		sort.Strings(extra)
		switch {
		case len(missing) > 0:
			o.Verdict, o.Reason = Finding, fmt.Sprintf("%s is registered for %v but its switch has no case for them: its 'unexpected operator' panic is reachable from Compile", si.Fn, missing)
		case len(extra) > 0:
			o.Verdict, o.Reason = Finding, fmt.Sprintf("%s handles %v which it is not registered for (dead case or missing registration)", si.Fn, extra)
		default:
			o.Verdict, o.Reason = Discharged, fmt.Sprintf("registered for exactly the %d token types its switch handles; the panicking default is unreachable", len(want))
		}
		r.Add(o)
	}
	// The same dispatch without a switch statement of its own: an if chain, or a helper of the
	// package that maps the token type and panics when none matched. The panic is reached only
	// over the false edges of `type == K`; the set of those K is what the switch would list.
	var regObjs []types.Object
	for o := range reg {
		if !byAST[o] {
			regObjs = append(regObjs, o)
		}
	}
	sort.Slice(regObjs, func(i, j int) bool { return regObjs[i].Name() < regObjs[j].Name() })
	for _, ro := range regObjs {
		f := c.W.Fn("jparse." + ro.Name())
		if f == nil {
			continue
		}
		fns := []*ssa.Function{f}
		for _, ci := range callsIn(f) {
			if callee := ci.Common().StaticCallee(); callee != nil && fnPkg(callee) == pkg.Types && len(callee.Blocks) > 0 && callee.Signature.Recv() == nil && callee.Name() != "panicf" {
				fns = append(fns, callee)
			}
		}
		for _, g := range fns {
			for _, ins := range instrsIn(g) {
				isPanic := false
				switch x := ins.(type) {
				case *ssa.Panic:
					isPanic = true
				case ssa.CallInstruction:
					if callee := x.Common().StaticCallee(); callee != nil && callee.Name() == "panicf" {
						isPanic = true
					}
				}
				if !isPanic {
					continue
				}
				excl := tokenTypesExcluded(ins)
				if len(excl) == 0 {
					continue
				}
				n++
				covered[shortFn(g)] = true
				want := map[string]bool{}
				for k := range reg[ro] {
					want[k[strings.Index(k, ":")+1:]] = true
				}
				o := Obligation{Rule: rule, Key: fmt.Sprintf("jparse.%s:registered-vs-switch", ro.Name()), Fn: shortFn(g), Pos: c.W.Pos(ins.Pos()), Nontrivial: true}
				var missing, extra []string
				for v := range want {
					if !excl[v] {
						missing = append(missing, constNames(tokEnum, v))
					}
				}
				for v := range excl {
					if !want[v] {
						extra = append(extra, constNames(tokEnum, v))
					}
				}
				sort.Strings(missing)
				sort.Strings(extra)
				switch {
				case len(missing) > 0:
					o.Verdict, o.Reason = Finding, fmt.Sprintf("%s is registered for %v but the dispatch in %s does not test for them before it panics: the panic is reachable from Compile", ro.Name(), missing, g.Name())
				case len(extra) > 0 && g == f:
					o.Verdict, o.Reason = Finding, fmt.Sprintf("%s handles %v which it is not registered for (dead case or missing registration)", ro.Name(), extra)
				default:
					o.Verdict, o.Reason = Discharged, fmt.Sprintf("registered for the %d token types the dispatch in %s tests for; the panic behind them is unreachable", len(want), g.Name())
				}
				r.Add(o)
			}
		}
	}
	// parseBoolean's string cases = keywords lookupKeyword maps to typeBoolean
	var kwBool, pbCases map[string]bool
	var pbPos token.Pos
	for _, si := range collectSwitches(pkg) {
		if b, ok := si.TagType.Underlying().(*types.Basic); !ok || b.Info()&types.IsString == 0 {
			continue
		}
		if si.Fn == "parseBoolean" {
			pbCases = si.CaseVals
			pbPos = si.Stmt.Pos()
		}
	}
	if pbCases == nil {
		// parseBoolean written as an if chain
		if tab := stringCaseTable(c.W.Fn("jparse.parseBoolean")); tab != nil {
			pbCases = map[string]bool{}
			for w := range tab {
				pbCases[strconv.Quote(w)] = true
			}
		}
	}
	if tab := stringCaseTable(c.W.Fn("jparse.lookupKeyword")); tab != nil {
		kwBool = map[string]bool{}
		tb := pkgConstExact(pkg, "typeBoolean")
		for w, v := range tab {
			if tb != "" && v == tb {
				kwBool[strconv.Quote(w)] = true
			}
		}
	}
	if kwBool == nil || pbCases == nil {
		r.LoseAnchor("parseBoolean / lookupKeyword string switches not found")
	} else {
		n++
		o := Obligation{Rule: rule, Key: "jparse.parseBoolean:keywords-vs-switch", Fn: "jparse.parseBoolean", Pos: c.W.Pos(pbPos), Nontrivial: true}
		same := len(kwBool) == len(pbCases)
		for k := range kwBool {
			if !pbCases[k] {
				same = false
			}
		}
		if same {
			o.Verdict, o.Reason = Discharged, fmt.Sprintf("the %d keywords lexed as typeBoolean are exactly parseBoolean's cases", len(kwBool))
		} else {
			o.Verdict, o.Reason = Finding, "a keyword lexed as typeBoolean has no case in parseBoolean (its panic is reachable), or vice versa"
		}
		r.Add(o)
	}
	return n, covered
}

// tokenTypesExcluded: the tokenType constants K such that ins is reached only over the false edge
// of a test `x == K` (exact values as strings).
func tokenTypesExcluded(ins ssa.Instruction) map[string]bool {
	out := map[string]bool{}
	var tag ssa.Value
	for d := ins.Block(); d != nil; d = d.Idom() {
		if len(d.Preds) != 1 {
			continue
		}
		pr := d.Preds[0]
		iff, ok := pr.Instrs[len(pr.Instrs)-1].(*ssa.If)
		if !ok || pr.Succs[1] != d || pr.Succs[0] == d {
			continue
		}
		bo, ok := iff.Cond.(*ssa.BinOp)
		if !ok || bo.Op != token.EQL {
			continue
		}
		k, ok := bo.Y.(*ssa.Const)
		if !ok || k.Value == nil || k.Value.Kind() != constant.Int {
			continue
		}
		nt, ok := bo.X.Type().(*types.Named)
		if !ok || nt.Obj().Name() != "tokenType" {
			continue
		}
		if tag != nil && tag != bo.X && (bndCtx == nil || bndCtx.canon(tag) != bndCtx.canon(bo.X)) {
			continue
		}
		tag = bo.X
		out[k.Value.ExactString()] = true
	}
	return out
}

// runErrMsgs: every ErrType constant has a non-empty message.
func runErrMsgs(c *Ctx, r *Result, rule string, pn string, min int) {
	pkg := c.W.Lib[pn]
	var en *enumInfo
	for nt, e := range enumTypes(pkg) {
		if nt.Obj().Name() == "ErrType" {
			en = e
		}
	}
	keys, pos, ok := mapLitKeys(pkg, "errmsgs")
	if en == nil || !ok {
		r.LoseAnchor("%s: ErrType constants or errmsgs map literal not found", pn)
		return
	}
	n := 0
	for _, cst := range en.Consts {
		if cst.Name() == "_" {
			continue
		}
		n++
		o := Obligation{Rule: rule, Key: fmt.Sprintf("%s.errmsgs[%s]", pn, cst.Name()), Fn: pn + ".errmsgs", Pos: c.W.Pos(pos), Nontrivial: false}
		ve, has := keys[cst.Val().ExactString()]
		nonEmpty := false
		if has {
			if tv := pkg.TypesInfo.Types[ve]; tv.Value != nil && tv.Value.Kind() == constant.String && constant.StringVal(tv.Value) != "" {
				nonEmpty = true
			}
		}
		if nonEmpty {
			o.Verdict, o.Reason = Discharged, "declared error type has a non-empty message"
		} else {
			o.Verdict, o.Reason = Finding, "error type "+cst.Name()+" has no (or an empty) message: Error() would report 'unknown error type'"
		}
		r.Add(o)
	}
	r.RequireMin(rule+" "+pn+".ErrType constants", n, min)
}

// runDateTables: defaultDateFormats has a key per dateComponent.
func runDateTables(c *Ctx, r *Result, rule string) {
	pkg := c.W.Lib["jxpath"]
	var en *enumInfo
	for nt, e := range enumTypes(pkg) {
		if nt.Obj().Name() == "dateComponent" {
			en = e
		}
	}
	keys, pos, ok := mapLitKeys(pkg, "defaultDateFormats")
	if en == nil || !ok {
		r.LoseAnchor("jxpath: dateComponent constants or defaultDateFormats literal not found")
		return
	}
	n := 0
	for _, cst := range en.Consts {
		n++
		o := Obligation{Rule: rule, Key: "jxpath.defaultDateFormats[" + cst.Name() + "]", Fn: "jxpath.defaultDateFormats", Pos: c.W.Pos(pos)}
		if _, has := keys[cst.Val().ExactString()]; has {
			o.Verdict, o.Reason = Discharged, "component has a default presentation format"
		} else {
			o.Verdict, o.Reason = Finding, "component "+cst.Name()+" has no default format: a marker without a presentation modifier gets an empty format"
		}
		r.Add(o)
	}
	r.RequireMin(rule+" dateComponent constants", n, 17)
}

// runEvalDispatch: eval's type switch has a case for every node type the parser can emit.
func runEvalDispatch(c *Ctx, r *Result, rule string) {
	jp := c.W.Lib["jparse"]
	root := c.W.Lib["jsonata"]
	nodeObj, _ := jp.Types.Scope().Lookup("Node").(*types.TypeName)
	if nodeObj == nil {
		r.LoseAnchor("jparse.Node not found")
		return
	}
	iface := nodeObj.Type().Underlying().(*types.Interface)
	// cases of eval's type switch (in eval itself, or in the function eval hands its node to)
	cases := map[string]bool{}
	var swPos token.Pos
	found := false
	if df := evalDispatchFn(c); df != nil {
		if fd, ok := df.Syntax().(*ast.FuncDecl); ok && fd.Body != nil {
			ast.Inspect(fd.Body, func(n ast.Node) bool {
				ts, ok := n.(*ast.TypeSwitchStmt)
				if !ok || found {
					return true
				}
				found = true
				swPos = ts.Pos()
				for _, st := range ts.Body.List {
					cc := st.(*ast.CaseClause)
					for _, e := range cc.List {
						if t := root.TypesInfo.TypeOf(e); t != nil {
							cases[t.String()] = true
						}
					}
				}
				return true
			})
		}
	}
	if !found {
		r.LoseAnchor("eval: type switch not found")
		return
	}
	// interim types: optimize never returns the receiver (every returned node has another static type)
	neverSelf := func(T *types.Named) bool {
		f := c.W.Fn("jparse.(*" + T.Obj().Name() + ").optimize")
		if f == nil {
			return false
		}
		for _, b := range f.Blocks {
			for _, ins := range b.Instrs {
				ret, ok := ins.(*ssa.Return)
				if !ok {
					continue
				}
				switch v := ret.Results[0].(type) {
				case *ssa.Const:
					if !v.IsNil() {
						return false
					}
				case *ssa.MakeInterface:
					if types.Identical(v.X.Type(), types.NewPointer(T)) {
						return false
					}
				default:
					return false // an interface value of unknown dynamic type
				}
			}
		}
		return true
	}
	exceptions := map[string]string{
		"PlaceholderNode": "only constructed into PartialNode.Args (parseFunctionCall sets isPartial with it) and timeCallables' argument lists; partialCallable.Call consumes it in its own type switch before eval is called",
	}
	n := 0
	sc := jp.Types.Scope()
	for _, name := range sc.Names() {
		tn, ok := sc.Lookup(name).(*types.TypeName)
		if !ok || tn.IsAlias() {
			continue
		}
		T, ok := tn.Type().(*types.Named)
		if !ok {
			continue
		}
		if _, isI := T.Underlying().(*types.Interface); isI {
			continue
		}
		P := types.NewPointer(T)
		if !types.Implements(P, iface) {
			continue
		}
		n++
		o := Obligation{Rule: rule, Key: "eval:case(*" + name + ")", Fn: "jsonata.eval", Pos: c.W.Pos(swPos), Nontrivial: true}
		switch {
		case cases[P.String()]:
			o.Verdict, o.Reason = Discharged, "eval's type switch has a case for *jparse."+name
			o.Nontrivial = false
		case neverSelf(T):
			o.Verdict, o.Reason = Discharged, "interim node: no return of (*"+name+").optimize returns the receiver, so it never survives Parse"
		case exceptions[name] != "":
			// check the structural premise: partialCallable.Call has a case for it
			o.Verdict, o.Reason = Exception, "exception for "+name+": "+exceptions[name]
			if !typeSwitchHasCase(root, "partialCallable.Call", P) && !ssaAssertsType(c, "jsonata.(*partialCallable).Call", P) {
				o.Verdict, o.Reason = Finding, "PlaceholderNode has no case in eval and partialCallable.Call does not consume it either"
			}
		default:
			o.Verdict, o.Reason = Finding, "the parser can emit *jparse."+name+" but eval has no case for it: Eval panics with 'unexpected node type'"
		}
		r.Add(o)
	}
	r.RequireMin(rule+" Node implementations", n, 30)
}

// evalDispatchFn: the function holding the evaluator's dispatch over node types: jsonata.eval when
// its own body has a type switch, else the function of the package that eval passes its node
// parameter to and that has one.
func evalDispatchFn(c *Ctx) *ssa.Function {
	ev := c.W.Fn("jsonata.eval")
	if ev == nil {
		return nil
	}
	hasSwitch := func(f *ssa.Function) bool {
		fd, ok := f.Syntax().(*ast.FuncDecl)
		if !ok || fd.Body == nil {
			return false
		}
		has := false
		ast.Inspect(fd.Body, func(n ast.Node) bool {
			if _, ok := n.(*ast.TypeSwitchStmt); ok {
				has = true
			}
			return !has
		})
		return has
	}
	if hasSwitch(ev) {
		return ev
	}
	if len(ev.Params) == 0 {
		return nil
	}
	for _, ins := range instrsIn(ev) {
		call, ok := ins.(*ssa.Call)
		if !ok {
			continue
		}
		f := call.Call.StaticCallee()
		if f == nil || !c.Lib[fnPkg(f)] || f.Blocks == nil {
			continue
		}
		for _, a := range call.Call.Args {
			if a == ssa.Value(ev.Params[0]) && hasSwitch(f) {
				return f
			}
		}
	}
	return nil
}

// ssaAssertsType: the function (or one of its closures) tests a value for dynamic type T with a
// type switch case or a comma-ok assertion (both lower to the same instruction).
func ssaAssertsType(c *Ctx, fn string, T types.Type) bool {
	f := c.W.Fn(fn)
	if f == nil {
		return false
	}
	// the function itself or a helper it calls directly (the consuming loop may live in a method
	// of the same type)
	seen := map[*ssa.Function]bool{}
	var walk func(g *ssa.Function, depth int) bool
	walk = func(g *ssa.Function, depth int) bool {
		if g == nil || seen[g] || depth > 3 || len(g.Blocks) == 0 {
			return false
		}
		seen[g] = true
		for _, ins := range instrsIn(g) {
			if ta, ok := ins.(*ssa.TypeAssert); ok && types.Identical(ta.AssertedType, T) {
				return true
			}
			if call, ok := ins.(*ssa.Call); ok {
				if callee := call.Call.StaticCallee(); callee != nil && c.G.InSc[callee] && walk(callee, depth+1) {
					return true
				}
			}
		}
		return false
	}
	return walk(f, 0)
}

func typeSwitchHasCase(pkg *packages.Package, fn string, T types.Type) bool {
	has := false
	for _, file := range pkg.Syntax {
		for _, d := range file.Decls {
			fd, ok := d.(*ast.FuncDecl)
			if !ok || funcDeclName(fd) != fn || fd.Body == nil {
				continue
			}
			ast.Inspect(fd.Body, func(n ast.Node) bool {
				if ts, ok := n.(*ast.TypeSwitchStmt); ok {
					for _, st := range ts.Body.List {
						for _, e := range st.(*ast.CaseClause).List {
							if t := pkg.TypesInfo.TypeOf(e); t != nil && types.Identical(t, T) {
								has = true
							}
						}
					}
				}
				return true
			})
		}
	}
	return has
}

// runJSONEscapes (C11): jsonEscapes equals RFC 8259 §7's table; true/false/null keywords.
func runJSONLiterals(c *Ctx, r *Result, rule string) {
	pkg := c.W.Lib["jparse"]
	rfc := map[rune]string{'"': "\"", '\\': "\\", '/': "/", 'b': "\b", 'f': "\f", 'n': "\n", 'r': "\r", 't': "\t"}
	keys, pos, ok := mapLitKeys(pkg, "jsonEscapes")
	if !ok {
		r.LoseAnchor("jparse.jsonEscapes map literal not found")
	} else {
		got := map[rune]string{}
		bad := false
		for k, ve := range keys {
			var rn int64
			fmt.Sscan(k, &rn)
			tv := pkg.TypesInfo.Types[ve]
			if tv.Value == nil || tv.Value.Kind() != constant.String {
				bad = true
				continue
			}
			got[rune(rn)] = constant.StringVal(tv.Value)
		}
		for rn, want := range rfc {
			o := Obligation{Rule: rule, Key: fmt.Sprintf("jparse.jsonEscapes[%q]", rn), Fn: "jparse.jsonEscapes", Pos: c.W.Pos(pos), Nontrivial: true}
			if g, has := got[rn]; has && g == want {
				o.Verdict, o.Reason = Discharged, fmt.Sprintf("escape \\%c denotes %q as in RFC 8259 §7", rn, want)
			} else if has {
				o.Verdict, o.Reason = Finding, fmt.Sprintf("escape \\%c denotes %q, RFC 8259 says %q", rn, g, want)
			} else {
				o.Verdict, o.Reason = Finding, fmt.Sprintf("JSON escape \\%c is missing: a valid JSON string is rejected", rn)
			}
			r.Add(o)
		}
		for rn := range got {
			if _, has := rfc[rn]; !has {
				r.Add(Obligation{Rule: rule, Key: fmt.Sprintf("jparse.jsonEscapes[%q]", rn), Fn: "jparse.jsonEscapes", Pos: c.W.Pos(pos), Nontrivial: true,
					Verdict: Finding, Reason: fmt.Sprintf("\\%c is accepted as an escape but is not a JSON escape (malformed escapes must be compile errors)", rn)})
			}
		}
		if bad {
			r.LoseAnchor("jparse.jsonEscapes has non-constant values")
		}
	}
	// keyword table: true/false -> typeBoolean with the right values, null -> typeNull
	kw := map[string]string{}
	var kwPos token.Pos
	if kf := c.W.Fn("jparse.lookupKeyword"); kf != nil {
		kwPos = kf.Pos()
		names := map[string]string{}
		for _, n := range []string{"typeBoolean", "typeNull"} {
			if v := pkgConstExact(pkg, n); v != "" {
				names[v] = n
			}
		}
		for w, v := range stringCaseTable(kf) {
			kw[w] = names[v]
		}
	}
	for word, want := range map[string]string{"true": "typeBoolean", "false": "typeBoolean", "null": "typeNull"} {
		o := Obligation{Rule: rule, Key: "jparse.lookupKeyword[" + word + "]", Fn: "jparse.lookupKeyword", Pos: c.W.Pos(kwPos), Nontrivial: true}
		if kw[word] == want {
			o.Verdict, o.Reason = Discharged, word+" is lexed as "+want
		} else {
			o.Verdict, o.Reason = Finding, fmt.Sprintf("%s is lexed as %q, expected %s", word, kw[word], want)
		}
		r.Add(o)
	}
	// parseBoolean: case "true" assigns true, case "false" assigns false
	for _, file := range pkg.Syntax {
		for _, d := range file.Decls {
			fd, ok := d.(*ast.FuncDecl)
			if !ok || fd.Name.Name != "parseBoolean" || fd.Body == nil {
				continue
			}
			ast.Inspect(fd.Body, func(n ast.Node) bool {
				sw, ok := n.(*ast.SwitchStmt)
				if !ok {
					return true
				}
				for _, st := range sw.Body.List {
					cc := st.(*ast.CaseClause)
					for _, e := range cc.List {
						tv := pkg.TypesInfo.Types[e]
						if tv.Value == nil || tv.Value.Kind() != constant.String {
							continue
						}
						word := constant.StringVal(tv.Value)
						assigned := ""
						for _, s := range cc.Body {
							if as, ok := s.(*ast.AssignStmt); ok && len(as.Rhs) == 1 {
								if id, ok := as.Rhs[0].(*ast.Ident); ok {
									assigned = id.Name
								}
							}
						}
						o := Obligation{Rule: rule, Key: "jparse.parseBoolean[" + word + "]", Fn: "jparse.parseBoolean", Pos: c.W.Pos(cc.Pos()), Nontrivial: true}
						if assigned == word {
							o.Verdict, o.Reason = Discharged, "literal "+word+" denotes "+assigned
						} else {
							o.Verdict, o.Reason = Finding, "literal "+word+" denotes "+assigned
						}
						r.Add(o)
					}
				}
				return false
			})
		}
	}
	// evalArray: an *ArrayNode item is appended as a unit (no flattening of nested array literals)
	runArrayUnit(c, r, rule)
}

// runArrayUnit: in evalArray the type switch on the item has an *ArrayNode case that does not
// iterate over the value (append as a unit), and a default that flattens.
func runArrayUnit(c *Ctx, r *Result, rule string) {
	o := Obligation{Rule: rule, Key: "jsonata.evalArray:array-literal-kept-as-unit", Fn: "jsonata.evalArray", Pos: "eval.go", Nontrivial: true}
	f := c.W.Fn("jsonata.evalArray")
	if f == nil {
		r.LoseAnchor("TAB: jsonata.evalArray not found")
		return
	}
	o.Pos = c.W.Pos(f.Pos())
	o.Verdict, o.Reason = Finding, "evalArray has no *jparse.ArrayNode case that appends the nested array literal as a unit"
	// the item being evaluated and its value
	for _, ins := range instrsIn(f) {
		ta, ok := ins.(*ssa.TypeAssert)
		if !ok || !ta.CommaOk || !isNamedPtr(ta.AssertedType, "jparse", "ArrayNode") {
			continue
		}
		item := ta.X
		var val ssa.Value
		for _, i2 := range instrsIn(f) {
			if call, ok := i2.(*ssa.Call); ok && call.Call.StaticCallee() != nil && shortFn(call.Call.StaticCallee()) == "jsonata.eval" && len(call.Call.Args) > 0 && sameNodeValue(call.Call.Args[0], item) {
				for _, rf := range *call.Referrers() {
					if ex, ok := rf.(*ssa.Extract); ok && ex.Index == 0 {
						val = ex
					}
				}
			}
		}
		var okv ssa.Value
		for _, rf := range *ta.Referrers() {
			if ex, ok := rf.(*ssa.Extract); ok && ex.Index == 1 {
				okv = ex
			}
		}
		if val == nil || okv == nil {
			continue
		}
		appended, iterated := false, ""
		for _, b := range f.Blocks {
			if !domGuard(b, func(cond ssa.Value) (int, bool) { return boolEdge(cond, okv, true) }) {
				continue
			}
			for _, i2 := range b.Instrs {
				call, ok := i2.(*ssa.Call)
				if !ok {
					continue
				}
				if bi, isB := call.Call.Value.(*ssa.Builtin); isB && bi.Name() == "append" {
					appended = true
					continue
				}
				for ai, a := range call.Call.Args {
					if a != val {
						continue
					}
					switch staticName(call) {
					case "reflect.Value.CanInterface", "reflect.Value.Interface", "reflect.Value.IsValid":
					default:
						iterated = fmt.Sprintf("%s (argument %d)", call.String(), ai)
					}
				}
			}
		}
		switch {
		case iterated != "":
			o.Verdict, o.Reason = Finding, "on the *ArrayNode path the value of the nested literal is handed to "+iterated+": it would be taken apart instead of being appended as a unit"
		case appended:
			o.Verdict, o.Reason = Discharged, "when the item is an *ArrayNode its value is appended once (v.Interface()) and never taken apart"
		}
	}
	r.Add(o)
}

func isNamedPtr(t types.Type, pkg, name string) bool {
	p, ok := t.(*types.Pointer)
	return ok && isNamed(p.Elem(), pkg, name)
}

// sameNodeValue: a and b are the same jparse.Node value (possibly one converted to interface{}).
func sameNodeValue(a, b ssa.Value) bool {
	strip := func(v ssa.Value) ssa.Value {
		for {
			switch x := v.(type) {
			case *ssa.ChangeInterface:
				v = x.X
				continue
			}
			return v
		}
	}
	return strip(a) == strip(b)
}

// stringCaseTable reads, from the resolved program, which constant a function returns for which
// string: every `x == "lit"` (switch case or if chain alike) whose true edge leads, through
// empty blocks, to a return of a constant. The result maps the literal to the constant's exact
// string; nil when the function has no such comparison.
func stringCaseTable(f *ssa.Function) map[string]string {
	if f == nil {
		return nil
	}
	var out map[string]string
	for _, b := range f.Blocks {
		iff, ok := b.Instrs[len(b.Instrs)-1].(*ssa.If)
		if !ok {
			continue
		}
		bo, ok := iff.Cond.(*ssa.BinOp)
		if !ok || (bo.Op != token.EQL && bo.Op != token.NEQ) {
			continue
		}
		var lit *ssa.Const
		if k, isK := bo.Y.(*ssa.Const); isK && k.Value != nil && k.Value.Kind() == constant.String {
			lit = k
		} else if k, isK := bo.X.(*ssa.Const); isK && k.Value != nil && k.Value.Kind() == constant.String {
			lit = k
		}
		if lit == nil {
			continue
		}
		tgt, from := b.Succs[0], b
		if bo.Op == token.NEQ {
			tgt = b.Succs[1]
		}
		for hops := 0; hops < 4 && len(tgt.Instrs) == 1; hops++ {
			if _, isJump := tgt.Instrs[0].(*ssa.Jump); !isJump {
				break
			}
			tgt, from = tgt.Succs[0], tgt
		}
		ret, ok := tgt.Instrs[len(tgt.Instrs)-1].(*ssa.Return)
		if !ok || len(ret.Results) == 0 {
			continue
		}
		v := ret.Results[0]
		if phi, isPhi := v.(*ssa.Phi); isPhi && phi.Block() == tgt {
			for i, pr := range tgt.Preds {
				if pr == from {
					v = phi.Edges[i]
				}
			}
		}
		k, isK := v.(*ssa.Const)
		if !isK || k.Value == nil {
			continue
		}
		if out == nil {
			out = map[string]string{}
		}
		out[constant.StringVal(lit.Value)] = k.Value.ExactString()
	}
	return out
}

// constCaseMap: for every `x == K` / `x != K` test of f against a constant K, the constants selected
// on the equal edge: the constant results of the return it leads to (through empty blocks) and the
// constant edges of the φ-nodes of the block it joins. Switch statements and if chains lower to
// the same tests, so the table does not depend on which one the source uses.
type constCase struct {
	Lit *ssa.Const   // the constant compared with
	Sel []*ssa.Const // the constants selected when the test succeeds
}

func constCaseMap(f *ssa.Function) []constCase {
	if f == nil {
		return nil
	}
	var out []constCase
	for _, b := range f.Blocks {
		iff, ok := b.Instrs[len(b.Instrs)-1].(*ssa.If)
		if !ok {
			continue
		}
		bo, ok := iff.Cond.(*ssa.BinOp)
		if !ok || (bo.Op != token.EQL && bo.Op != token.NEQ) {
			continue
		}
		var lit *ssa.Const
		if k, isK := bo.Y.(*ssa.Const); isK && k.Value != nil {
			lit = k
		} else if k, isK := bo.X.(*ssa.Const); isK && k.Value != nil {
			lit = k
		}
		if lit == nil {
			continue
		}
		tgt, from := b.Succs[0], b
		if bo.Op == token.NEQ {
			tgt = b.Succs[1]
		}
		for hops := 0; hops < 4 && len(tgt.Instrs) == 1; hops++ {
			if _, isJump := tgt.Instrs[0].(*ssa.Jump); !isJump {
				break
			}
			tgt, from = tgt.Succs[0], tgt
		}
		edge := -1
		for i, pr := range tgt.Preds {
			if pr == from {
				edge = i
			}
		}
		cse := constCase{Lit: lit}
		for _, ins := range tgt.Instrs {
			switch ins := ins.(type) {
			case *ssa.Phi:
				if edge >= 0 {
					if k, isK := ins.Edges[edge].(*ssa.Const); isK && k.Value != nil {
						cse.Sel = append(cse.Sel, k)
					}
				}
			case *ssa.Return:
				for _, v := range ins.Results {
					if k, isK := v.(*ssa.Const); isK && k.Value != nil {
						cse.Sel = append(cse.Sel, k)
					}
				}
			}
		}
		if len(cse.Sel) > 0 {
			out = append(out, cse)
		}
	}
	return out
}

// pkgConstExact: the exact string of the package-level constant name, "" when there is none.
func pkgConstExact(pkg *packages.Package, name string) string {
	if k, ok := pkg.Types.Scope().Lookup(name).(*types.Const); ok {
		return k.Val().ExactString()
	}
	return ""
}
