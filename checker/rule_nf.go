package main

import (
	"fmt"
	"go/token"
	"go/types"
	"sort"

	"golang.org/x/tools/go/ssa"
)

// NF — resolved-value discipline for reflect accessors (DESIGN.md §3 NF).
//
// reflect.Value.{Len,Index,MapKeys,MapIndex,MapRange,NumField,Field,FieldByName,
// FieldByIndex,SetMapIndex} panic when the receiver's kind is Interface or Ptr. Values taken
// out of containers are interface-kinded, so the repository resolves first. The rule computes,
// for every SSA value of type reflect.Value, whether it is "NF" (provably the result of a
// resolving/constructing operation on every path) and demands NF for every accessor receiver.

var nfAccessors = map[string]bool{
	"Len": true, "Index": true, "MapKeys": true, "MapIndex": true, "MapRange": true,
	"NumField": true, "Field": true, "FieldByName": true, "FieldByIndex": true, "SetMapIndex": true,
	"Cap": true, "Slice": true, "Slice3": true,
}

// nfExceptions: one named function each, with the reason the receiver is resolved although
// the dataflow cannot see it. Confirmed by reading.
var nfExceptions = map[string]string{
	"jlib.Zip":    "vs[j] was overwritten for every j by the first loop with forceArray(jtypes.Resolve(...)); the second loop only reads those slots",
	"jlib.Single": "reflect.ValueOf(x) under `reflect.TypeOf(x).Kind() == reflect.Slice`: ValueOf of an interface holding a slice is slice-kinded",
}

// nfExceptionFor: the entry for f's own (outermost) function, or — for an unexported function
// that is only ever called directly, and only from functions that have an entry — the entry of
// its callers: the excepted code was moved into a helper of the excepted function.
func nfExceptionFor(c *Ctx, f *ssa.Function, depth int) (string, string, bool) {
	k := exceptionKey(f)
	if why, ok := nfExceptions[k]; ok {
		return k, why, true
	}
	root := exceptionRoot(f)
	if depth >= 2 || c == nil || root.Object() == nil || root.Object().Exported() {
		return "", "", false
	}
	sites, ok := c.staticCallers(root)
	if !ok || len(sites) == 0 {
		return "", "", false
	}
	key, why := "", ""
	for _, s := range sites {
		k2, w2, ok2 := nfExceptionFor(c, s.Parent(), depth+1)
		if !ok2 || (key != "" && key != k2) {
			return "", "", false
		}
		key, why = k2, w2
	}
	return key, why + " (the code now lives in " + shortFn(root) + ", which only " + key + " calls)", true
}

type nfEngine struct {
	c       *Ctx
	g       *MCG
	funcs   []*ssa.Function
	paramNF map[*ssa.Parameter]bool
	retNF   map[*ssa.Function][]bool // per result index: all success returns NF
	memo    map[ssa.Value]int        // per round: 1 NF (provisional), 3 in progress
	anyv    map[ssa.Value]bool       // permanent: proven possibly-unresolved (descending fixpoint)
	changed bool
	queries []ssa.Value
	reason  map[ssa.Value]string
	trivial map[ssa.Value]bool
}

func isReflectValue(t types.Type) bool { return isNamed(t, "reflect", "Value") }

func staticCalleeOf(v ssa.Value) (*ssa.Function, *ssa.Call) {
	call, ok := v.(*ssa.Call)
	if !ok {
		return nil, nil
	}
	return call.Call.StaticCallee(), call
}

func isPkgFunc(f *ssa.Function, pkg, name string) bool {
	if f == nil || f.Signature.Recv() != nil {
		return false
	}
	p := fnPkg(f)
	if p == nil {
		return false
	}
	return f.Name() == name && (p.Path() == pkg || hasSuffixPath(p.Path(), pkg))
}

func hasSuffixPath(path, suffix string) bool {
	return len(path) > len(suffix) && path[len(path)-len(suffix)-1] == '/' && path[len(path)-len(suffix):] == suffix
}

func newNF(c *Ctx, g *MCG) *nfEngine {
	e := &nfEngine{c: c, g: g, paramNF: map[*ssa.Parameter]bool{}, retNF: map[*ssa.Function][]bool{}, anyv: map[ssa.Value]bool{}, reason: map[ssa.Value]string{}, trivial: map[ssa.Value]bool{}}
	for _, f := range g.Funcs {
		if len(f.Blocks) == 0 {
			continue
		}
		e.funcs = append(e.funcs, f)
	}
	// targets of callback/reflect edges and boxed functions receive unknown arguments
	unknownCallers := map[*ssa.Function]bool{}
	for _, f := range g.Boxed {
		unknownCallers[f] = true
	}
	for _, es := range g.Out {
		for _, ed := range es {
			if ed.Kind == "callback" || ed.Kind == "reflect" {
				unknownCallers[ed.Callee] = true
			}
		}
	}
	for _, f := range e.funcs {
		exported := f.Parent() == nil && token.IsExported(f.Name())
		if f.Synthetic != "" && f.Object() != nil {
			exported = token.IsExported(f.Object().Name())
		}
		opt := !exported && !unknownCallers[f]
		for _, p := range f.Params {
			if isReflectValue(p.Type()) {
				e.paramNF[p] = opt
			}
		}
		n := f.Signature.Results().Len()
		rs := make([]bool, n)
		for i := 0; i < n; i++ {
			rs[i] = isReflectValue(f.Signature.Results().At(i).Type())
		}
		e.retNF[f] = rs
	}
	return e
}

// solve runs the descending fixpoint: everything starts resolved (optimistically), a value
// proven possibly-unresolved stays so, and rounds repeat until nothing flips. In the last
// round every positive answer is justified by positive answers only (greatest fixpoint).
func (e *nfEngine) solve(queries []ssa.Value) {
	g := e.g
	for round := 0; round < 200; round++ {
		e.memo = map[ssa.Value]int{}
		e.changed = false
		changed := false
		// return summaries
		for _, f := range e.funcs {
			rs := e.retNF[f]
			for i := range rs {
				if !rs[i] {
					continue
				}
				if !e.allSuccessReturnsNF(f, i) {
					rs[i] = false
					changed = true
				}
			}
		}
		// parameters
		for _, f := range e.funcs {
			for _, b := range f.Blocks {
				for _, ins := range b.Instrs {
					ci, ok := ins.(ssa.CallInstruction)
					if !ok {
						continue
					}
					if _, _, excepted := nfExceptionFor(e.c, f, 0); excepted {
						// arguments built inside an excepted function are covered by its exception
						continue
					}
					for _, callee := range g.Sites[ci] {
						args := ci.Common().Args
						off := 0
						if ci.Common().IsInvoke() {
							off = 1
						}
						for i, a := range args {
							pi := i + off
							if pi >= len(callee.Params) {
								break
							}
							p := callee.Params[pi]
							if e.paramNF[p] && isReflectValue(p.Type()) && !e.nf(a) {
								e.paramNF[p] = false
								changed = true
							}
						}
					}
				}
			}
		}
		for _, q := range queries {
			e.nf(q)
		}
		if !changed && !e.changed {
			return
		}
	}
	panic("NF fixpoint did not converge")
}

func (e *nfEngine) allSuccessReturnsNF(f *ssa.Function, idx int) bool {
	found := false
	for _, b := range f.Blocks {
		for _, ins := range b.Instrs {
			ret, ok := ins.(*ssa.Return)
			if !ok {
				continue
			}
			if !isSuccessReturn(ret) {
				continue
			}
			found = true
			if !e.nf(ret.Results[idx]) {
				return false
			}
		}
	}
	return found
}

func isErrorType(t types.Type) bool {
	n, ok := t.(*types.Named)
	return ok && n.Obj().Pkg() == nil && n.Obj().Name() == "error"
}

func (e *nfEngine) set(v ssa.Value, nf bool, why string, trivial bool) bool {
	if nf {
		e.memo[v] = 1
	} else {
		delete(e.memo, v)
		if !e.anyv[v] {
			e.anyv[v] = true
			e.changed = true
		}
	}
	e.reason[v] = why
	e.trivial[v] = trivial
	return nf
}

// nf decides whether v is provably resolved.
func (e *nfEngine) nf(v ssa.Value) bool {
	if e.anyv[v] {
		return false
	}
	switch e.memo[v] {
	case 1:
		return true
	case 3:
		return true // optimistic on cycles (phi loops); re-validated by the next round
	}
	e.memo[v] = 3
	switch v := v.(type) {
	case *ssa.Call:
		callee := v.Call.StaticCallee()
		if callee == nil {
			// dynamic call: all possible callees must return NF
			cs := e.g.Sites[v]
			if len(cs) == 0 {
				return e.set(v, false, "result of an unresolved dynamic call", false)
			}
			for _, c := range cs {
				if rs := e.retNF[c]; len(rs) != 1 || !rs[0] {
					return e.set(v, false, "dynamic callee "+shortFn(c)+" may return an unresolved value", false)
				}
			}
			return e.set(v, true, "every dynamic callee returns a resolved value", false)
		}
		if isPkgFunc(callee, "jtypes", "Resolve") {
			return e.set(v, true, "result of jtypes.Resolve", true)
		}
		if p := fnPkg(callee); p != nil && p.Path() == "reflect" && callee.Signature.Recv() == nil {
			switch callee.Name() {
			case "MakeSlice", "MakeMap", "MakeMapWithSize", "Append", "AppendSlice":
				return e.set(v, true, "result of reflect."+callee.Name(), true)
			case "ValueOf":
				if mi, ok := v.Call.Args[0].(*ssa.MakeInterface); ok {
					switch mi.X.Type().Underlying().(type) {
					case *types.Pointer, *types.Interface:
					default:
						return e.set(v, true, "reflect.ValueOf of a non-pointer, non-interface static type", true)
					}
				}
				return e.set(v, false, "reflect.ValueOf of an interface or pointer may be pointer-kinded", false)
			}
			return e.set(v, false, "result of reflect."+callee.Name(), false)
		}
		if isReflectValue(recvType(callee)) {
			switch callee.Name() {
			case "Slice", "Slice3", "Convert":
				if e.nf(v.Call.Args[0]) {
					return e.set(v, true, "reflect.Value."+callee.Name()+" of a resolved value", false)
				}
			}
			return e.set(v, false, "result of reflect.Value."+callee.Name()+" (container slots are interface-kinded)", false)
		}
		if rs, ok := e.retNF[callee]; ok && len(rs) == 1 && rs[0] {
			return e.set(v, true, "every success return of "+shortFn(callee)+" is resolved", false)
		}
		return e.set(v, false, "result of "+shortFn(callee)+" is not resolved on every success return", false)
	case *ssa.Extract:
		if call, ok := v.Tuple.(*ssa.Call); ok {
			if callee := call.Call.StaticCallee(); callee != nil {
				if rs, ok := e.retNF[callee]; ok && v.Index < len(rs) && rs[v.Index] {
					return e.set(v, true, "every success return of "+shortFn(callee)+" is resolved", false)
				}
				return e.set(v, false, "result of "+shortFn(callee)+" is not resolved on every success return", false)
			}
			cs := e.g.Sites[call]
			if len(cs) > 0 {
				for _, c := range cs {
					if rs := e.retNF[c]; v.Index >= len(rs) || !rs[v.Index] {
						return e.set(v, false, "dynamic callee "+shortFn(c)+" may return an unresolved value", false)
					}
				}
				return e.set(v, true, "every dynamic callee returns a resolved value", false)
			}
		}
		return e.set(v, false, "extracted from an unmodelled tuple", false)
	case *ssa.Phi:
		for _, ed := range v.Edges {
			if !e.nf(ed) {
				return e.set(v, false, "phi with an unresolved edge: "+e.reason[ed], false)
			}
		}
		return e.set(v, true, "phi of resolved values", false)
	case *ssa.Parameter:
		if e.paramNF[v] {
			return e.set(v, true, "every call site of "+shortFn(v.Parent())+" passes a resolved value for "+v.Name(), false)
		}
		return e.set(v, false, "parameter "+v.Name()+" of "+shortFn(v.Parent())+" can receive an unresolved value", false)
	case *ssa.UnOp:
		if v.Op == token.MUL {
			if stores, ok := cellStores(v.X); ok {
				for _, s := range stores {
					if !e.nf(s.Val) {
						return e.set(v, false, "variable may hold an unresolved value: "+e.reason[s.Val], false)
					}
				}
				if len(stores) > 0 {
					return e.set(v, true, "every store to the variable is resolved", false)
				}
			}
		}
		return e.set(v, false, "loaded from memory (field, element or escaping variable)", false)
	case *ssa.ChangeType:
		return e.nf(v.X)
	}
	return e.set(v, false, fmt.Sprintf("value of kind %T", v), false)
}

func recvType(f *ssa.Function) types.Type {
	if f == nil || f.Signature.Recv() == nil {
		return types.Typ[types.Invalid]
	}
	return f.Signature.Recv().Type()
}

// cellStores returns every store to a local variable cell (an Alloc, or a FreeVar bound to
// one in every MakeClosure of the enclosing function). ok=false if the cell escapes in a
// way that makes the store set unknown.
func cellStores(addr ssa.Value) ([]*ssa.Store, bool) {
	var alloc *ssa.Alloc
	switch a := addr.(type) {
	case *ssa.Alloc:
		alloc = a
	case *ssa.FreeVar:
		fn := a.Parent()
		idx := -1
		for i, fv := range fn.FreeVars {
			if fv == a {
				idx = i
			}
		}
		parent := fn.Parent()
		if parent == nil || idx < 0 {
			return nil, false
		}
		var found ssa.Value
		for _, b := range parent.Blocks {
			for _, ins := range b.Instrs {
				if mc, ok := ins.(*ssa.MakeClosure); ok && mc.Fn == fn {
					if found != nil && found != mc.Bindings[idx] {
						return nil, false
					}
					found = mc.Bindings[idx]
				}
			}
		}
		if found == nil {
			return nil, false
		}
		return cellStores(found)
	default:
		return nil, false
	}
	var stores []*ssa.Store
	var visit func(v ssa.Value) bool
	visit = func(v ssa.Value) bool {
		refs := v.Referrers()
		if refs == nil {
			return false
		}
		for _, r := range *refs {
			switch r := r.(type) {
			case *ssa.Store:
				if r.Addr == v {
					stores = append(stores, r)
				} else {
					return false // address stored somewhere
				}
			case *ssa.UnOp:
				// load
			case *ssa.DebugRef:
			case *ssa.MakeClosure:
				fn := r.Fn.(*ssa.Function)
				for i, b := range r.Bindings {
					if b == v {
						if !visit(fn.FreeVars[i]) {
							return false
						}
					}
				}
			default:
				return false
			}
		}
		return true
	}
	if !visit(alloc) {
		return nil, false
	}
	return stores, true
}

// runNF checks every accessor site in the given functions.
func runNF(c *Ctx, g *MCG, r *Result, rule string, fns []*ssa.Function, reach *Reach) int {
	e := newNF(c, g)
	sites := 0
	sortFns(fns)
	var queries []ssa.Value
	for _, f := range fns {
		for _, b := range f.Blocks {
			for _, ins := range b.Instrs {
				if call, ok := ins.(*ssa.Call); ok {
					if callee := call.Call.StaticCallee(); callee != nil && isReflectValue(recvType(callee)) && nfAccessors[callee.Name()] {
						queries = append(queries, call.Call.Args[0])
					}
				}
			}
		}
	}
	e.solve(queries)
	for _, f := range fns {
		if f.Synthetic != "" {
			continue
		}
		ord := map[string]int{}
		type site struct {
			call *ssa.Call
			name string
		}
		var ss []site
		for _, b := range f.Blocks {
			for _, ins := range b.Instrs {
				call, ok := ins.(*ssa.Call)
				if !ok {
					continue
				}
				callee := call.Call.StaticCallee()
				if callee == nil || !isReflectValue(recvType(callee)) || !nfAccessors[callee.Name()] {
					continue
				}
				ss = append(ss, site{call, callee.Name()})
			}
		}
		sort.SliceStable(ss, func(i, j int) bool { return ss[i].call.Pos() < ss[j].call.Pos() })
		for _, s := range ss {
			ord[s.name]++
			sites++
			recv := s.call.Call.Args[0]
			o := Obligation{Rule: rule, Key: fmt.Sprintf("%s:%s#%d", shortFn(f), s.name, ord[s.name]),
				Pos: c.W.Pos(s.call.Pos()), Fn: shortFn(f)}
			if e.nf(recv) {
				o.Verdict = Discharged
				o.Reason = e.reason[recv]
				o.Nontrivial = !e.trivial[recv]
			} else if ek, why, ok := nfExceptionFor(c, f, 0); ok {
				o.Verdict = Exception
				o.Reason = "exception for " + ek + ": " + why
				o.Nontrivial = true
			} else {
				o.Verdict = Finding
				o.Reason = "receiver of reflect.Value." + s.name + " is not provably resolved: " + e.reason[recv]
				o.Nontrivial = true
				if reach != nil {
					o.Path = reach.Path(f)
				}
			}
			r.Add(o)
		}
	}
	return sites
}

func exceptionKey(f *ssa.Function) string {
	for f.Parent() != nil {
		f = f.Parent()
	}
	return shortFn(f)
}
