package main

import (
	"fmt"
	"go/token"
	"go/types"

	"golang.org/x/tools/go/ssa"
)

func dumpGuardSites(c *Ctx) {
	for _, f := range srcFuncsIn(c.REval) {
		for _, ins := range instrsIn(f) {
			switch ins := ins.(type) {
			case *ssa.BinOp:
				if (ins.Op == token.QUO || ins.Op == token.REM) && isIntType(ins.X.Type()) {
					if _, k := ins.Y.(*ssa.Const); !k {
						fmt.Printf("INTDIV %s %s: %s %s %s\n", shortFn(f), c.W.Pos(ins.Pos()), ins.X, ins.Op, ins.Y)
					}
				}
			case *ssa.MakeSlice:
				if _, k := ins.Len.(*ssa.Const); !k {
					fmt.Printf("MAKESLICE %s %s len=%s cap=%s\n", shortFn(f), c.W.Pos(ins.Pos()), ins.Len, ins.Cap)
				}
			case *ssa.MakeMap:
			case ssa.CallInstruction:
				callee := ins.Common().StaticCallee()
				if callee == nil {
					continue
				}
				n := calleePkgPath(callee) + "." + callee.Name()
				switch n {
				case "strconv.FormatInt", "strings.Repeat", "reflect.MakeSlice", "reflect.MakeMapWithSize", "strconv.FormatUint", "strconv.ParseInt":
					fmt.Printf("CALL %s %s %s args=%v\n", n, shortFn(f), c.W.Pos(ins.Pos()), ins.Common().Args)
				}
				if calleePkgPath(callee) == "time" || calleePkgPath(callee) == "math/rand" {
					fmt.Printf("TIME/RAND %s %s %s\n", callee.String(), shortFn(f), c.W.Pos(ins.Pos()))
				}
			case *ssa.Lookup:
				if mt, ok := ins.X.Type().Underlying().(*types.Map); ok {
					if _, isI := mt.Key().Underlying().(*types.Interface); isI {
						fmt.Printf("IFACEKEY %s %s\n", shortFn(f), c.W.Pos(ins.Pos()))
					}
				}
			case *ssa.Panic:
				fmt.Printf("PANIC %s %s\n", shortFn(f), c.W.Pos(ins.Pos()))
			}
		}
	}
}
