package main

import (
	"fmt"
	"go/token"
	"go/types"
	"sort"
	"strings"

	"golang.org/x/tools/go/ssa"
)

func dumpGuardSites(c *Ctx) {
	for _, f := range srcFuncsIn(c.REval) {
		for _, ins := range instrsIn(f) {
			switch ins := ins.(type) {
			case *ssa.BinOp:
				if (ins.Op == token.QUO || ins.Op == token.REM) && isIntType(ins.X.Type()) {
					if _, k := ins.Y.(*ssa.Const); !k {
						fmt.Printf("INTDIV %s %s: %s %s %s\n", shortFn(f), c.W.Pos(ins.Pos()), ins.X, ins.Op, ins.Y)
					}
				}
			case *ssa.MakeSlice:
				if _, k := ins.Len.(*ssa.Const); !k {
					fmt.Printf("MAKESLICE %s %s len=%s cap=%s\n", shortFn(f), c.W.Pos(ins.Pos()), ins.Len, ins.Cap)
				}
			case *ssa.MakeMap:
			case ssa.CallInstruction:
				callee := ins.Common().StaticCallee()
				if callee == nil {
					continue
				}
				n := calleePkgPath(callee) + "." + callee.Name()
				switch n {
				case "strconv.FormatInt", "strings.Repeat", "reflect.MakeSlice", "reflect.MakeMapWithSize", "strconv.FormatUint", "strconv.ParseInt":
					fmt.Printf("CALL %s %s %s args=%v\n", n, shortFn(f), c.W.Pos(ins.Pos()), ins.Common().Args)
				}
				if calleePkgPath(callee) == "time" || calleePkgPath(callee) == "math/rand" {
					fmt.Printf("TIME/RAND %s %s %s\n", callee.String(), shortFn(f), c.W.Pos(ins.Pos()))
				}
			case *ssa.Lookup:
				if mt, ok := ins.X.Type().Underlying().(*types.Map); ok {
					if _, isI := mt.Key().Underlying().(*types.Interface); isI {
						fmt.Printf("IFACEKEY %s %s\n", shortFn(f), c.W.Pos(ins.Pos()))
					}
				}
			case *ssa.Panic:
				fmt.Printf("PANIC %s %s\n", shortFn(f), c.W.Pos(ins.Pos()))
			}
		}
	}
}

func dumpWriteSites(c *Ctx) {
	seen := map[*ssa.Function]bool{}
	var fns []*ssa.Function
	for _, rc := range []*Reach{c.REval, c.RCompile, c.RReg, c.RStr} {
		for _, f := range srcFuncsIn(rc) {
			if !seen[f] {
				seen[f] = true
				fns = append(fns, f)
			}
		}
	}
	sortFns(fns)
	nStore, nMap := 0, 0
	for _, f := range fns {
		for _, ins := range instrsIn(f) {
			switch ins := ins.(type) {
			case *ssa.Store:
				switch a := ins.Addr.(type) {
				case *ssa.Alloc:
					continue
				case *ssa.IndexAddr:
					if al, ok := a.X.(*ssa.Alloc); ok && al.Comment == "varargs" {
						continue
					}
				case *ssa.FieldAddr:
					if _, ok := a.X.(*ssa.Alloc); ok {
						continue
					}
				}
				nStore++
				fmt.Printf("STORE %s %s addr=%T %s\n", shortFn(f), c.W.Pos(ins.Pos()), ins.Addr, ins.Addr)
			case *ssa.MapUpdate:
				nMap++
				fmt.Printf("MAPUPD %s %s map=%T %s\n", shortFn(f), c.W.Pos(ins.Pos()), ins.Map, ins.Map)
			case ssa.CallInstruction:
				cc := ins.Common()
				if b, ok := cc.Value.(*ssa.Builtin); ok {
					switch b.Name() {
					case "append", "copy", "delete", "clear":
						fmt.Printf("BUILTIN %s %s %s arg0=%T %s\n", b.Name(), shortFn(f), c.W.Pos(ins.Pos()), cc.Args[0], cc.Args[0])
					}
					continue
				}
				callee := cc.StaticCallee()
				if callee == nil || c.G.InSc[callee] {
					continue
				}
				pp := calleePkgPath(callee)
				n := callee.Name()
				if pp == "reflect" && (strings.HasPrefix(n, "Set") || n == "Append" || n == "AppendSlice" || n == "Copy" || n == "Swapper" || n == "Grow" || n == "Clear") ||
					pp == "sort" || pp == "math/rand" && n == "Shuffle" || pp == "encoding/json" && (n == "Unmarshal" || n == "Decode") {
					fmt.Printf("EXTMUT %s.%s %s %s args=%v\n", pp, n, shortFn(f), c.W.Pos(ins.Pos()), cc.Args)
				}
			}
		}
	}
	fmt.Println("stores", nStore, "mapupdates", nMap, "functions", len(fns))
}

func dumpIndexSites(c *Ctx) {
	for _, f := range srcFuncsIn(c.REval) {
		loops := findLoops(f)
		for _, ins := range instrsIn(f) {
			call, ok := ins.(*ssa.Call)
			if !ok {
				continue
			}
			callee := call.Call.StaticCallee()
			if callee == nil || !isReflectValue(recvType(callee)) || callee.Name() != "Index" {
				continue
			}
			idx := call.Call.Args[1]
			kind := "other"
			if _, isK := idx.(*ssa.Const); isK {
				kind = "const"
			}
			for _, l := range loops {
				if !l.body[call.Block()] {
					continue
				}
				if _, okc := l.classCounted(); okc {
					// is idx the induction variable (or phi+1)?
					if p, isP := idx.(*ssa.Phi); isP && p.Block() == l.header {
						kind = "loopvar"
					}
					if b, isB := idx.(*ssa.BinOp); isB {
						if p, isP := b.X.(*ssa.Phi); isP && p.Block() == l.header {
							kind = "loopvar+"
						}
					}
				}
			}
			fmt.Printf("INDEX %-8s %s %s idx=%s\n", kind, shortFn(f), c.W.Pos(call.Pos()), idx)
		}
	}
}

// dumpPanicOps: inventory of operations that can panic, under Eval and under Compile.
func dumpPanicOps(c *Ctx) {
	for _, rc := range []struct {
		name  string
		reach *Reach
	}{{"Eval", c.REval}, {"Compile", c.RCompile}} {
		counts := map[string]int{}
		var lines []string
		for _, f := range srcFuncsIn(rc.reach) {
			if !c.Lib[fnPkg(f)] {
				continue
			}
			for _, ins := range instrsIn(f) {
				switch x := ins.(type) {
				case *ssa.TypeAssert:
					if !x.CommaOk {
						counts["typeassert"]++
						lines = append(lines, fmt.Sprintf("  typeassert %s %s: %s.(%s)", c.W.Pos(x.Pos()), shortFn(f), x.X.Name(), types.TypeString(x.AssertedType, nil)))
					}
				case *ssa.Call:
					if callee := x.Call.StaticCallee(); callee != nil && callee.Signature.Recv() != nil && calleePkgPath(callee) == "reflect" {
						counts["reflect."+callee.Name()]++
					}
				case *ssa.MapUpdate:
					counts["mapupdate"]++
				case *ssa.UnOp:
					if x.Op == token.MUL {
						counts["deref"]++
					}
				case *ssa.Convert:
					// slice to array pointer conversions panic; none expected
				case *ssa.BinOp:
					if (x.Op == token.QUO || x.Op == token.REM) && isIntType(x.X.Type()) {
						counts["intdiv"]++
					}
					if x.Op == token.SHL || x.Op == token.SHR {
						counts["shift"]++
					}
				case *ssa.MakeSlice, *ssa.MakeChan:
					counts["make"]++
				case *ssa.SliceToArrayPointer:
					counts["slice2array"]++
				}
			}
		}
		fmt.Println("==", rc.name)
		var ks []string
		for k := range counts {
			ks = append(ks, k)
		}
		sort.Strings(ks)
		for _, k := range ks {
			fmt.Printf("  %-28s %d\n", k, counts[k])
		}
		sort.Strings(lines)
		for _, l := range lines {
			fmt.Println(l)
		}
	}
}
