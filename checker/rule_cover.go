package main

import (
	"fmt"
	"go/token"

	"golang.org/x/tools/go/ssa"
)

// ---------------------------------------------------------------------------------------
// COVER — element traversals visit every member once, in order (C15).
//
// A loop that reads container[i] with i its counted variable is a traversal. It must start at
// the first member, step by one and run to the length of the SAME container (ascending), or
// start at length-1 and run down to 0 (descending; allowed only where listed, e.g. $reverse).
// IDX/BND already exclude running past the end; COVER excludes starting late, stopping early,
// striding, and bounding by another container's length. Deliberate partial traversals carry a
// reviewed one-loop exception.

type coverSite struct {
	recv ssa.Value // container (reflect.Value or native slice/string)
	idx  ssa.Value
	ins  ssa.Instruction
}

func coverSitesIn(l *loopInfo) []coverSite {
	var out []coverSite
	for b := range l.body {
		for _, ins := range b.Instrs {
			switch x := ins.(type) {
			case *ssa.Call:
				if n := staticName(x); n == "reflect.Value.Index" || n == "reflect.Value.Field" {
					out = append(out, coverSite{x.Call.Args[0], x.Call.Args[1], x})
				}
			case *ssa.IndexAddr:
				out = append(out, coverSite{x.X, x.Index, x})
			case *ssa.Index:
				out = append(out, coverSite{x.X, x.Index, x})
			}
		}
	}
	return out
}

// lengthOf: v is the length of recv: recv.Len(), len(recv), arrayLen(recv)-like helper, the
// length recv was made with, or a value defined as one of those.
// paramLenOf: v and recv are parameters of one function that is only called directly, and every
// call passes, for v, the length of what it passes for recv (n := items.Len(); f(items, n)).
func paramLenOf(v, recv ssa.Value, depth int) bool {
	pv, ok1 := v.(*ssa.Parameter)
	pr, ok2 := recv.(*ssa.Parameter)
	if !ok1 || !ok2 || pv.Parent() != pr.Parent() || bndCtx == nil || depth > 1 {
		return false
	}
	f := pv.Parent()
	iv, ir := -1, -1
	for i, q := range f.Params {
		if q == pv {
			iv = i
		}
		if q == pr {
			ir = i
		}
	}
	sites, ok := bndCtx.staticCallers(f)
	if !ok || len(sites) == 0 || iv < 0 || ir < 0 {
		return false
	}
	for _, s := range sites {
		args := s.Common().Args
		if iv >= len(args) || ir >= len(args) {
			return false
		}
		if !lengthOfD(args[iv], args[ir], depth+1) {
			return false
		}
	}
	return true
}

func lengthOf(v, recv ssa.Value) bool { return lengthOfD(v, recv, 0) }

func lengthOfD(v, recv ssa.Value, depth int) bool {
	if paramLenOf(v, recv, depth) {
		return true
	}
	if call, ok := v.(*ssa.Call); ok && staticName(call) == "reflect.Value.NumField" && call.Call.Args[0] == recv {
		return true
	}
	if lenLike(v, recv, 0) || madeWithLenValue(recv, v) || lenOfSliceSizedBy(v, recv) {
		return true
	}
	if ms, ok := recv.(*ssa.MakeSlice); ok && (ms.Len == v || sameLen(ms.Len, v)) {
		return true
	}
	if mk, ok := recv.(*ssa.Call); ok && staticName(mk) == "reflect.MakeSlice" && sameLen(mk.Call.Args[1], v) {
		return true
	}
	if call, ok := v.(*ssa.Call); ok {
		if bi, ok := call.Call.Value.(*ssa.Builtin); ok && bi.Name() == "len" && len(call.Call.Args) == 1 {
			a := call.Call.Args[0]
			if a == recv {
				return true
			}
			// two loads of the same unchanging location
			if bndCtx != nil && bndCtx.canon(a) == bndCtx.canon(recv) {
				return true
			}
		}
	}
	return false
}

// sameLen: a and b are both len(x) of the same slice value.
func sameLen(a, b ssa.Value) bool {
	la, lb := bnorm(a), bnorm(b)
	return la.n.v != nil && la.n.ln && la == lb
}

var coverExceptions = map[string]string{
	"jlib.keysMap:loop#1":  "results is made with v.Len() elements and the loop ranges over v.MapKeys(), which has exactly v.Len() entries (reflect contract)",
	"jlib.Append$1:loop#1": "appendSlice(vs, length) is only called as appendSlice(v1, len1) and appendSlice(v2, len2) with lenN = vN.Len() computed just before (the same pairing IDX relies on)",
	"jlib.Reduce:loop#1":   "without an initial value the first member seeds the accumulator and the fold starts at the second: i is 0 or 1 accordingly",
	"jlib.Zip:loop#2":      "$zip pairs members up to the shortest argument: the bound is the minimum of the argument lengths computed by the first loop",
	"jlib.Zip:loop#3":      "inner loop over the argument list vs, indexed by j < len(vs); the member read is vs[j].Index(i) with i bounded by the shortest argument",
}

func runCOVER(c *Ctx, r *Result, rule string, fns []*ssa.Function, descendingOK map[string]bool) int {
	bndCtx = c
	n := 0
	from := len(r.Obls)
	defer func() { resolvePending(c, r, from, coverExceptions, nil, nil, fns, true) }()
	for _, f := range fns {
		for li, l := range findLoops(f) {
			// counted variable(s)
			var phis []*ssa.Phi
			for _, ins := range l.header.Instrs {
				phi, ok := ins.(*ssa.Phi)
				if !ok {
					break
				}
				_, inside := l.phiEdges(phi)
				counted := len(inside) > 0
				for _, e := range inside {
					if _, ok := stepOf(e, phi); !ok {
						counted = false
					}
				}
				if counted && isSignedInt(phi.Type()) {
					phis = append(phis, phi)
				}
			}
			if len(phis) == 0 {
				continue
			}
			// traversal sites: container[phi] or container[phi+1] (range form)
			type trav struct {
				phi  *ssa.Phi
				off  int64
				site coverSite
			}
			var travs []trav
			for _, s := range coverSitesIn(l) {
				for _, phi := range phis {
					if s.idx == ssa.Value(phi) {
						travs = append(travs, trav{phi, 0, s})
					} else if k, ok := stepOf(s.idx, phi); ok {
						travs = append(travs, trav{phi, k, s})
					}
				}
			}
			if len(travs) == 0 {
				continue
			}
			// inner loops are reported for their own header only
			inner := false
			for _, t := range travs {
				if !l.definedOutside(t.site.recv) {
					// container changes per iteration (e.g. vs[j] of an inner loop): judged there
					_ = t
				}
			}
			_ = inner
			n++
			key := fmt.Sprintf("%s:loop#%d", shortFn(f), li+1)
			o := Obligation{Rule: rule, Key: key, Fn: shortFn(f), Pos: c.W.Pos(travs[0].site.ins.Pos()), Nontrivial: true}
			bad := ""
			dir := ""
			for _, t := range travs {
				if w := coverCheck(l, t.phi, t.off, t.site, descendingOK[shortFn(f)]); w.bad != "" {
					bad = w.bad
				} else if dir == "" {
					dir = w.dir
				}
			}
			switch {
			case bad == "":
				o.Verdict, o.Reason = Discharged, fmt.Sprintf("%s traversal of the whole container: starts at the %s member, steps by one, bounded by the container's own length (%d indexed reads)", dir, map[string]string{"ascending": "first", "descending": "last"}[dir], len(travs))
			default:
				o.Verdict, o.Reason = pendingExc, "partial or irregular traversal: "+bad
			}
			r.Add(o)
		}
	}
	return n
}

type coverVerdict struct{ bad, dir string }

func coverCheck(l *loopInfo, phi *ssa.Phi, off int64, s coverSite, descOK bool) coverVerdict {
	outside, inside := l.phiEdges(phi)
	step := int64(0)
	for _, e := range inside {
		k, _ := stepOf(e, phi)
		if step != 0 && k != step {
			return coverVerdict{bad: "the counted variable steps by different amounts"}
		}
		step = k
	}
	if step != 1 && step != -1 {
		return coverVerdict{bad: fmt.Sprintf("the counted variable steps by %d, members are skipped", step)}
	}
	// the exit test on the index expression
	var test *ssa.BinOp
	for _, iff := range l.exits() {
		bo, ok := iff.Cond.(*ssa.BinOp)
		if !ok || !l.body[iff.Block().Succs[0]] {
			continue
		}
		if bo.X == s.idx || (off == 0 && bo.X == ssa.Value(phi)) {
			test = bo
		}
	}
	if test == nil {
		return coverVerdict{bad: "no exit test on the index of " + s.ins.String()}
	}
	if step == 1 {
		for _, e := range outside {
			k, ok := intConstOf(e)
			if !ok || k+off != 0 {
				return coverVerdict{bad: fmt.Sprintf("the traversal does not start at the first member (start %s, index offset %d)", e.String(), off)}
			}
		}
		if test.Op != token.LSS {
			return coverVerdict{bad: "the exit test is not `index < length`: " + test.String()}
		}
		if !lengthOf(test.Y, s.recv) && !lenEqualBy(test.Y, s.recv, l.header) {
			return coverVerdict{bad: "the bound " + test.Y.String() + " is not the length of the container being read (" + s.recv.Name() + ")"}
		}
		return coverVerdict{dir: "ascending"}
	}
	if !descOK {
		return coverVerdict{bad: "descending traversal in a function that must visit members in order"}
	}
	if !(test.Op == token.GEQ && isZero(test.Y)) && !(test.Op == token.GTR && isMinusOne(test.Y)) {
		return coverVerdict{bad: "the descending exit test is not `index >= 0`: " + test.String()}
	}
	for _, e := range outside {
		l2 := bnorm(e)
		want := blin{}
		// start must be length-1 (with the index offset)
		ok := false
		if bo, isBo := e.(*ssa.BinOp); isBo && bo.Op == token.SUB {
			if k, isK := intConstOf(bo.Y); isK && k-off == 1 && lengthOf(bo.X, s.recv) {
				ok = true
			}
		}
		_ = l2
		_ = want
		if !ok {
			return coverVerdict{bad: "the descending traversal does not start at the last member (start " + e.String() + ")"}
		}
	}
	return coverVerdict{dir: "descending"}
}

func isZero(v ssa.Value) bool     { k, ok := intConstOf(v); return ok && k == 0 }
func isMinusOne(v ssa.Value) bool { k, ok := intConstOf(v); return ok && k == -1 }
