package main

import (
	"fmt"
	"go/token"
	"go/types"

	"golang.org/x/tools/go/ssa"
)

// ---------------------------------------------------------------------------------------
// TA — single-result type assertions x.(T) panic when the dynamic type is not T.
//
// Discharges:
//   P1  x is v.Interface() (or v.Addr().Interface()) and the assertion is dominated by the true
//       edge of a reflect type test on the same v: v.Type() == G, v.Type().Implements(G) or
//       reflect.PtrTo(v.Type()).Implements(G), where G is a package variable whose initialiser
//       (read from the package's init function) denotes exactly the asserted type;
//   P2  x is the first result of a static call whose every success return boxes a value of
//       type T, and the assertion is dominated by the `err == nil` edge of the same call;
//   P3  a reviewed exception naming the invariant.

// reflectTypeGlobals: package variable -> the Go type its initialiser denotes, for the
// initialiser shapes reflect.TypeOf((*T)(nil)).Elem(), reflect.TypeOf((*T)(nil)),
// reflect.PtrTo(G), reflect.MapOf(K, V), reflect.SliceOf(E).
func (c *Ctx) reflectTypeGlobals() map[*ssa.Global]types.Type {
	if c.rtGlobals != nil {
		return c.rtGlobals
	}
	out := map[*ssa.Global]types.Type{}
	c.rtGlobals = out
	var eval func(v ssa.Value, depth int) types.Type
	eval = func(v ssa.Value, depth int) types.Type {
		if depth > 6 {
			return nil
		}
		switch x := v.(type) {
		case *ssa.UnOp:
			if x.Op == token.MUL {
				if g, ok := x.X.(*ssa.Global); ok {
					return out[g]
				}
			}
		case *ssa.Call:
			if x.Call.IsInvoke() {
				// reflect.Type method
				recv := eval(x.Call.Value, depth+1)
				if recv == nil {
					return nil
				}
				switch x.Call.Method.Name() {
				case "Elem":
					switch u := recv.Underlying().(type) {
					case *types.Pointer:
						return u.Elem()
					case *types.Slice:
						return u.Elem()
					case *types.Map:
						return u.Elem()
					}
				}
				return nil
			}
			callee := x.Call.StaticCallee()
			if callee == nil || calleePkgPath(callee) != "reflect" {
				return nil
			}
			switch callee.Name() {
			case "TypeOf":
				if mi, ok := x.Call.Args[0].(*ssa.MakeInterface); ok {
					return mi.X.Type()
				}
			case "PtrTo", "PointerTo":
				if t := eval(x.Call.Args[0], depth+1); t != nil {
					return types.NewPointer(t)
				}
			case "SliceOf":
				if t := eval(x.Call.Args[0], depth+1); t != nil {
					return types.NewSlice(t)
				}
			case "MapOf":
				k, e := eval(x.Call.Args[0], depth+1), eval(x.Call.Args[1], depth+1)
				if k != nil && e != nil {
					return types.NewMap(k, e)
				}
			}
		}
		return nil
	}
	// iterate to a fixpoint: initialisers may refer to other globals (any order)
	for round := 0; round < 4; round++ {
		var pkgs []*ssa.Package
		for _, sp := range c.W.LibSSA {
			pkgs = append(pkgs, sp)
		}
		for _, sp := range c.W.FixSSA {
			pkgs = append(pkgs, sp)
		}
		for _, sp := range pkgs {
			init := sp.Func("init")
			if init == nil {
				continue
			}
			for _, ins := range instrsIn(init) {
				st, ok := ins.(*ssa.Store)
				if !ok {
					continue
				}
				g, ok := st.Addr.(*ssa.Global)
				if !ok {
					continue
				}
				if t := eval(st.Val, 0); t != nil {
					out[g] = t
				}
			}
		}
	}
	// a type global must not be reassigned outside init
	for g := range out {
		if c.bndMemory().mutableGlob[g] {
			delete(out, g)
		}
	}
	return out
}

var taExceptions = map[string]string{
	"jsonata.asSequence:*jsonata.sequence#2":            "[protocol] the test is on Resolve(v), which differs from v only for interface- or pointer-kinded values; the SEQ rule of C01 shows that a sequence is only ever handed around as reflect.ValueOf(*sequence) and never stored inside a container, so such a v does not hold one, and for a struct-kinded v Resolve is the identity",
	"(*jsonata.goCallable).Call:error#1":                "[protocol] validateGoCallableFunc admits a second result only if its type implements error, and the value is tested !IsNil() in the same condition",
	"jsonata.processGoCallableArg:jtypes.Convertible#1": "[value] inside the switch case argType.Implements(jtypes.TypeConvertible), where argType is arg.Type() read at the top of the function",
	"jsonata.processOptionalArg:jtypes.Optional#1":      "[protocol] param.isOpt is set by newGoCallableParam only when a pointer to the parameter type implements jtypes.Optional, and processOptionalArg is only called for such parameters; reflect.New(param.t) is that pointer",
	"(*jtypes.OptionalValue).Set:reflect.Value#1":       "[protocol] Set is called with the argument converted to the optional's underlying type (Type() = TypeValue), so v holds a reflect.Value",
	"(*jtypes.OptionalCallable).Set:jtypes.Callable#1":  "[protocol] Set is called with the argument converted to the optional's underlying type (Type() = TypeCallable), so v holds a Callable",
}

func shortType(t types.Type) string {
	return types.TypeString(t, func(p *types.Package) string { return p.Name() })
}

// reflectInterfaceOperand: x = v.Interface() or v.Addr().Interface(); returns v and whether Addr
// was taken.
func reflectInterfaceOperand(x ssa.Value) (ssa.Value, bool, bool) {
	call, ok := x.(*ssa.Call)
	if !ok || staticName(call) != "reflect.Value.Interface" {
		return nil, false, false
	}
	v := call.Call.Args[0]
	if a, ok := v.(*ssa.Call); ok && staticName(a) == "reflect.Value.Addr" {
		return a.Call.Args[0], true, true
	}
	return v, false, true
}

// typeTestOn: cond tests the reflect type of v against a type global; returns the denoted type
// and whether the test is on a pointer to v's type.
func (c *Ctx) typeTestOn(cond ssa.Value, v ssa.Value) (types.Type, bool, bool) {
	globals := c.reflectTypeGlobals()
	loadOf := func(x ssa.Value) types.Type {
		if u, ok := x.(*ssa.UnOp); ok && u.Op == token.MUL {
			if g, ok := u.X.(*ssa.Global); ok {
				return globals[g]
			}
		}
		return nil
	}
	// typeOf(x): x is v.Type() (ptr=false) or reflect.PtrTo(v.Type()) (ptr=true)
	typeOf := func(x ssa.Value) (bool, bool) {
		call, ok := x.(*ssa.Call)
		if !ok {
			return false, false
		}
		if staticName(call) == "reflect.Value.Type" && call.Call.Args[0] == v {
			return false, true
		}
		if n := staticName(call); n == "reflect.PtrTo" || n == "reflect.PointerTo" {
			if inner, ok := call.Call.Args[0].(*ssa.Call); ok && staticName(inner) == "reflect.Value.Type" && inner.Call.Args[0] == v {
				return true, true
			}
		}
		return false, false
	}
	switch x := cond.(type) {
	case *ssa.BinOp:
		if x.Op != token.EQL {
			return nil, false, false
		}
		for _, pr := range [][2]ssa.Value{{x.X, x.Y}, {x.Y, x.X}} {
			if ptr, ok := typeOf(pr[0]); ok {
				if t := loadOf(pr[1]); t != nil {
					return t, ptr, true
				}
			}
		}
	case *ssa.Call:
		if x.Call.IsInvoke() && x.Call.Method.Name() == "Implements" && len(x.Call.Args) == 1 {
			if ptr, ok := typeOf(x.Call.Value); ok {
				if t := loadOf(x.Call.Args[0]); t != nil {
					return t, ptr, true
				}
			}
		}
	}
	return nil, false, false
}

func runTA(c *Ctx, r *Result, rule string, fns []*ssa.Function, reach *Reach) int {
	n := 0
	from := len(r.Obls)
	fnOf := map[string]*ssa.Function{}
	defer func() { resolvePending(c, r, from, taExceptions, reach, fnOf, fns, true) }()
	for _, f := range fns {
		ord := map[string]int{}
		for _, ins := range instrsIn(f) {
			ta, ok := ins.(*ssa.TypeAssert)
			if !ok || ta.CommaOk {
				continue
			}
			n++
			tname := shortType(ta.AssertedType)
			k := shortFn(f) + ":" + tname
			ord[k]++
			key := fmt.Sprintf("%s#%d", k, ord[k])
			o := Obligation{Rule: rule, Key: key, Fn: shortFn(f), Pos: c.W.Pos(ta.Pos()), Nontrivial: true}
			why := ""
			// P1
			if v, addr, ok := reflectInterfaceOperand(ta.X); ok {
				if domGuard(ta.Block(), func(cond ssa.Value) (int, bool) {
					t, ptr, ok := c.typeTestOn(cond, v)
					if !ok || ptr != addr {
						return 0, false
					}
					_, isIface := ta.AssertedType.Underlying().(*types.Interface)
					if _, testIface := t.Underlying().(*types.Interface); testIface {
						// Implements(G) or == G with an interface type: the dynamic type implements G
						return 0, isIface && types.Identical(t, ta.AssertedType)
					}
					want := t
					return 0, !isIface && types.Identical(want, ta.AssertedType)
				}) {
					why = "the operand is v.Interface() under a dominating reflect type test of the same v against a type variable whose initialiser denotes " + tname
				}
			}
			// P2
			if why == "" {
				if ex, ok := ta.X.(*ssa.Extract); ok && ex.Index == 0 {
					if call, ok := ex.Tuple.(*ssa.Call); ok {
						if callee := call.Call.StaticCallee(); callee != nil && len(callee.Blocks) > 0 && boxesOnly(callee, ta.AssertedType) && errNilDominates(call, ta.Block()) {
							why = "the operand is the first result of " + shortFn(callee) + ", whose every success return boxes a " + tname + ", and the assertion is reached only after its error was tested nil"
						}
					}
				}
			}
			// P3
			if why == "" && sliceOfBoxed(ta.X, ta.AssertedType) {
				why = "the operand is an element of a local slice into which this function (and the closures sharing it) only ever put boxed values of static type " + tname
			}
			switch {
			case why != "":
				o.Verdict, o.Reason = Discharged, why
			default:
				o.Verdict, o.Reason = pendingExc, "type assertion without a comma-ok form and without a dominating test of the dynamic type: it panics when the value is not a "+tname
				fnOf[shortFn(f)] = f
			}
			r.Add(o)
		}
	}
	return n
}

// boxesOnly: every return of f either boxes a value of type T as its first result or returns a
// definitely non-nil error.
func boxesOnly(f *ssa.Function, T types.Type) bool {
	for _, b := range f.Blocks {
		ret, ok := b.Instrs[len(b.Instrs)-1].(*ssa.Return)
		if !ok {
			continue
		}
		if len(ret.Results) != 2 {
			return false
		}
		if !isSuccessReturn(ret) {
			continue
		}
		if !boxedAs(ret.Results[0], T, map[ssa.Value]bool{}) {
			return false
		}
	}
	return true
}

func boxedAs(v ssa.Value, T types.Type, seen map[ssa.Value]bool) bool {
	if seen[v] {
		return true
	}
	seen[v] = true
	switch x := v.(type) {
	case *ssa.MakeInterface:
		return types.Identical(x.X.Type(), T)
	case *ssa.ChangeInterface:
		return boxedAs(x.X, T, seen)
	case *ssa.Phi:
		for _, e := range x.Edges {
			if !boxedAs(e, T, seen) {
				return false
			}
		}
		return true
	}
	return false
}

// errNilDominates: block b is reached only through the `err == nil` edge of the call's second
// result.
func errNilDominates(call *ssa.Call, b *ssa.BasicBlock) bool {
	var errv ssa.Value
	if refs := call.Referrers(); refs != nil {
		for _, rf := range *refs {
			if ex, ok := rf.(*ssa.Extract); ok && ex.Index == 1 {
				errv = ex
			}
		}
	}
	if errv == nil {
		return false
	}
	return domGuard(b, func(cond ssa.Value) (int, bool) {
		bo, ok := cond.(*ssa.BinOp)
		if !ok || (bo.Op != token.NEQ && bo.Op != token.EQL) {
			return 0, false
		}
		var other ssa.Value
		switch {
		case bo.X == errv:
			other = bo.Y
		case bo.Y == errv:
			other = bo.X
		default:
			return 0, false
		}
		if k, ok := other.(*ssa.Const); !ok || !k.IsNil() {
			return 0, false
		}
		if bo.Op == token.NEQ {
			return 1, true // false edge: err == nil
		}
		return 0, true
	})
}

// sliceOfBoxed (P3): x is s[i] where s is a slice variable of the enclosing function (possibly
// captured by the closure doing the assertion) and every value ever put into that variable's
// slice — by append or by an element store, anywhere in the function and its closures — is a
// boxed value of static type T. Sorting or re-slicing the slice does not change the dynamic type
// of its elements.
func sliceOfBoxed(x ssa.Value, T types.Type) bool {
	ld, ok := x.(*ssa.UnOp)
	if !ok || ld.Op != token.MUL {
		return false
	}
	ia, ok := ld.X.(*ssa.IndexAddr)
	if !ok {
		return false
	}
	sl, ok := ia.X.(*ssa.UnOp)
	if !ok || sl.Op != token.MUL {
		return false
	}
	cell := cellOf(sl.X)
	if cell == nil {
		return false
	}
	boxedT := func(v ssa.Value) bool {
		mi, ok := v.(*ssa.MakeInterface)
		return ok && types.Identical(mi.X.Type(), T)
	}
	// every function that can see the cell: its parent and the closures it is bound into
	fns := []*ssa.Function{cell.Parent()}
	fns = append(fns, cell.Parent().AnonFuncs...)
	isCellLoad := func(v ssa.Value) bool {
		u, ok := v.(*ssa.UnOp)
		return ok && u.Op == token.MUL && cellOf(u.X) == cell
	}
	var fromCell func(v ssa.Value, depth int) bool // v is the cell's slice or a re-slice / append of it
	fromCell = func(v ssa.Value, depth int) bool {
		if depth > 6 {
			return false
		}
		if isCellLoad(v) {
			return true
		}
		switch y := v.(type) {
		case *ssa.Slice:
			return fromCell(y.X, depth+1)
		case *ssa.Call:
			if bi, ok := y.Call.Value.(*ssa.Builtin); ok && bi.Name() == "append" {
				return fromCell(y.Call.Args[0], depth+1)
			}
		case *ssa.Phi:
			for _, e := range y.Edges {
				if !fromCell(e, depth+1) {
					return false
				}
			}
			return true
		}
		return false
	}
	for _, f := range fns {
		for _, ins := range instrsIn(f) {
			switch y := ins.(type) {
			case *ssa.Store:
				if cellOf(y.Addr) == cell {
					// the variable is assigned: a fresh make, nil, or an append onto itself of boxed Ts
					switch v := y.Val.(type) {
					case *ssa.MakeSlice:
					case *ssa.Const:
						if !v.IsNil() {
							return false
						}
					case *ssa.Call:
						bi, ok := v.Call.Value.(*ssa.Builtin)
						if !ok || bi.Name() != "append" || !fromCell(v.Call.Args[0], 0) {
							return false
						}
						elems := variadicElems(v.Call.Args[1])
						if len(elems) == 0 {
							return false
						}
						for _, e := range elems {
							if !boxedT(e) {
								return false
							}
						}
					default:
						if !fromCell(y.Val, 0) {
							return false
						}
					}
					continue
				}
				// an element store s[i] = v
				if ia2, ok := y.Addr.(*ssa.IndexAddr); ok && fromCell(ia2.X, 0) && !boxedT(y.Val) {
					return false
				}
			}
		}
	}
	// the address of the variable must not escape other than into the closures (bindings)
	for _, ref := range *cell.Referrers() {
		switch ref.(type) {
		case *ssa.Store, *ssa.UnOp, *ssa.MakeClosure, *ssa.DebugRef:
		default:
			return false
		}
	}
	return true
}

// cellOf: the local variable cell behind an address: the Alloc itself, or the Alloc a closure's
// free variable is bound to.
func cellOf(addr ssa.Value) *ssa.Alloc {
	switch a := addr.(type) {
	case *ssa.Alloc:
		return a
	case *ssa.FreeVar:
		fn := a.Parent()
		idx := -1
		for i, fv := range fn.FreeVars {
			if fv == a {
				idx = i
			}
		}
		if idx < 0 || fn.Parent() == nil {
			return nil
		}
		for _, ins := range instrsIn(fn.Parent()) {
			if mc, ok := ins.(*ssa.MakeClosure); ok && mc.Fn == ssa.Value(fn) && idx < len(mc.Bindings) {
				if al, ok := mc.Bindings[idx].(*ssa.Alloc); ok {
					return al
				}
			}
		}
	}
	return nil
}
