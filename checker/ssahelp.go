package main

import (
	"go/constant"
	"go/token"
	"go/types"

	"golang.org/x/tools/go/ssa"
)

// nonNilErrFuncs caches functions whose (single) error result is non-nil on every return.
var nonNilErrCache = map[*ssa.Function]int{} // 1 yes, 2 no, 3 in progress

func alwaysNonNilError(f *ssa.Function) bool {
	if f == nil {
		return false
	}
	switch nonNilErrCache[f] {
	case 1:
		return true
	case 2, 3:
		return false
	}
	if p := fnPkg(f); p != nil {
		if (p.Path() == "fmt" && f.Name() == "Errorf") || (p.Path() == "errors" && f.Name() == "New") {
			nonNilErrCache[f] = 1
			return true
		}
	}
	if len(f.Blocks) == 0 || f.Signature.Results().Len() != 1 {
		nonNilErrCache[f] = 2
		return false
	}
	nonNilErrCache[f] = 3
	ok := true
	for _, b := range f.Blocks {
		for _, ins := range b.Instrs {
			if ret, isRet := ins.(*ssa.Return); isRet {
				if !definitelyNonNil(ret.Results[0], b) {
					ok = false
				}
			}
		}
	}
	if ok {
		nonNilErrCache[f] = 1
	} else {
		nonNilErrCache[f] = 2
	}
	return ok
}

// definitelyNonNil: an interface value that is provably not nil when used in block b.
func definitelyNonNil(v ssa.Value, b *ssa.BasicBlock) bool {
	switch v := v.(type) {
	case *ssa.MakeInterface:
		switch x := v.X.(type) {
		case *ssa.Alloc:
			return true
		case *ssa.Const:
			return !x.IsNil()
		default:
			_ = x
			return true // a boxed non-interface value makes a non-nil interface (a typed nil pointer is still a non-nil error)
		}
	case *ssa.Call:
		if alwaysNonNilError(v.Call.StaticCallee()) {
			return true
		}
	}
	// dominated by the true edge of `v != nil` (or false edge of `v == nil`)
	f := b.Parent()
	for _, hb := range f.Blocks {
		if len(hb.Instrs) == 0 {
			continue
		}
		iff, ok := hb.Instrs[len(hb.Instrs)-1].(*ssa.If)
		if !ok {
			continue
		}
		bo, ok := iff.Cond.(*ssa.BinOp)
		if !ok || (bo.Op != token.NEQ && bo.Op != token.EQL) {
			continue
		}
		var other ssa.Value
		if bo.X == v {
			other = bo.Y
		} else if bo.Y == v {
			other = bo.X
		} else {
			continue
		}
		if k, ok := other.(*ssa.Const); !ok || !k.IsNil() {
			continue
		}
		tgt := hb.Succs[0]
		if bo.Op == token.EQL {
			tgt = hb.Succs[1]
		}
		if len(tgt.Preds) == 1 && tgt.Dominates(b) {
			return true
		}
	}
	return false
}

// isSuccessReturn: no result of type error is provably non-nil.
func isSuccessReturn(ret *ssa.Return) bool {
	for _, r := range ret.Results {
		if isErrorType(r.Type()) {
			if c, ok := r.(*ssa.Const); ok && c.IsNil() {
				continue
			}
			if definitelyNonNil(r, ret.Block()) {
				return false
			}
		}
	}
	return true
}

// firstIterValue: phi lives in a range/counted-loop header H; the use block b is dominated by
// the true edge of `k == 0` where k is the loop's index (k = φi + 1 with φi = φ(pre: -1, latch: k),
// or k = φ(pre: 0, latch: k+1)). Then on that path the loop is in its first iteration and phi has
// the value of its pre-header edge. Returns that edge value and its predecessor block.
func firstIterValue(phi *ssa.Phi, b *ssa.BasicBlock) (ssa.Value, *ssa.BasicBlock, bool) {
	H := phi.Block()
	f := H.Parent()
	for _, hb := range f.Blocks {
		if len(hb.Instrs) == 0 {
			continue
		}
		iff, ok := hb.Instrs[len(hb.Instrs)-1].(*ssa.If)
		if !ok {
			continue
		}
		bo, ok := iff.Cond.(*ssa.BinOp)
		if !ok || (bo.Op != token.EQL && bo.Op != token.NEQ && bo.Op != token.GTR && bo.Op != token.LEQ) {
			continue
		}
		k, z := bo.X, bo.Y
		if !isIntConst(z, 0) {
			if bo.Op == token.GTR || bo.Op == token.LEQ {
				continue
			}
			k, z = bo.Y, bo.X
			if !isIntConst(z, 0) {
				continue
			}
		}
		// the edge on which k == 0 (k is a non-negative loop index: `k > 0` false and `k <= 0`
		// true say the same)
		T := hb.Succs[0]
		if bo.Op == token.NEQ || bo.Op == token.GTR {
			T = hb.Succs[1]
		}
		if len(T.Preds) != 1 || !T.Dominates(b) {
			continue
		}
		// identify the index phi in H and its pre-header edge
		pre := -1
		if add, ok := k.(*ssa.BinOp); ok && add.Op == token.ADD && isIntConst(add.Y, 1) {
			if ip, ok := add.X.(*ssa.Phi); ok && ip.Block() == H {
				bad := false
				for i, e := range ip.Edges {
					if isIntConst(e, -1) && pre == -1 {
						pre = i
					} else if e != ssa.Value(add) {
						bad = true
					}
				}
				if bad {
					pre = -2
				}
			}
		} else if ip, ok := k.(*ssa.Phi); ok && ip.Block() == H {
			bad := false
			for i, e := range ip.Edges {
				if isIntConst(e, 0) && pre == -1 {
					pre = i
				} else if inc, ok := e.(*ssa.BinOp); !ok || inc.Op != token.ADD || inc.X != ssa.Value(ip) || !isIntConst(inc.Y, 1) {
					bad = true
				}
			}
			if bad {
				pre = -2
			}
		}
		if pre < 0 || len(phi.Edges) != len(H.Preds) {
			continue
		}
		return phi.Edges[pre], H.Preds[pre], true
	}
	return nil, nil, false
}

func isIntConst(v ssa.Value, n int64) bool {
	c, ok := v.(*ssa.Const)
	if !ok || c.Value == nil || c.Value.Kind() != constant.Int {
		return false
	}
	x, exact := constant.Int64Val(c.Value)
	return exact && x == n
}

// variadicElems: the values packed into the slice a variadic call receives (f(a, x, y) compiles to
// an array allocation, one store per element and a slice of it); nil for f(a, xs...).
func variadicElems(v ssa.Value) []ssa.Value {
	sl, ok := v.(*ssa.Slice)
	if !ok {
		return nil
	}
	al, ok := sl.X.(*ssa.Alloc)
	if !ok {
		return nil
	}
	var out []ssa.Value
	for _, ref := range *al.Referrers() {
		ia, ok := ref.(*ssa.IndexAddr)
		if !ok {
			continue
		}
		for _, r2 := range *ia.Referrers() {
			if st, ok := r2.(*ssa.Store); ok && st.Addr == ia {
				out = append(out, st.Val)
			}
		}
	}
	return out
}

// deref returns the element type of a pointer type, and t itself otherwise.
func deref(t types.Type) types.Type {
	if p, ok := t.Underlying().(*types.Pointer); ok {
		return p.Elem()
	}
	return t
}
