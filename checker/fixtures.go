package main

// fixtureCheck is one expectation: running rule Run over fixture package Pkg must produce
// findings whose keys contain each of Want (bad) or no findings at all (good).
type fixtureCheck struct {
	Group string // rule group name, e.g. "nf"
	Pkg   string // fixture package key, e.g. "nf/bad"
	Run   func(c *Ctx, r *Result, pkg string)
	Want  []string // substrings of finding IDs that must be present; empty => must be silent
}

var fixtureChecks []fixtureCheck

func registerFixture(f fixtureCheck) { fixtureChecks = append(fixtureChecks, f) }

func runFixtures(c *Ctx, r *Result, groups []string) {
	want := map[string]bool{}
	for _, g := range groups {
		want[g] = true
	}
	for _, fc := range fixtureChecks {
		if !want[fc.Group] {
			continue
		}
		if c.W.Fix[fc.Pkg] == nil {
			r.FixtureFail = append(r.FixtureFail, "fixture package "+fc.Pkg+" not loaded")
			continue
		}
		sub := NewResult("fixture")
		fc.Run(c, sub, fc.Pkg)
		var got []string
		for _, o := range sub.Obls {
			if o.Verdict == Finding || o.Verdict == Undecided {
				got = append(got, o.ID())
			}
		}
		for _, l := range sub.Lost {
			got = append(got, "LOST:"+l)
		}
		if len(fc.Want) == 0 {
			if len(got) != 0 {
				r.FixtureFail = append(r.FixtureFail, fc.Pkg+": expected silence, got "+join(got))
			} else {
				r.Fixtures = append(r.Fixtures, fc.Pkg+": silent as expected ("+itoa(len(sub.Obls))+" obligations)")
			}
			continue
		}
		for _, w := range fc.Want {
			found := false
			for _, g := range got {
				if contains(g, w) {
					found = true
				}
			}
			if !found {
				r.FixtureFail = append(r.FixtureFail, fc.Pkg+": expected a finding matching "+w+", got "+join(got))
			} else {
				r.Fixtures = append(r.Fixtures, fc.Pkg+": fired on "+w)
			}
		}
	}
}
