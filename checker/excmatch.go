package main

import (
	"go/ast"
	"go/token"
	"go/types"
	"regexp"
	"sort"
	"strconv"
	"strings"

	"golang.org/x/tools/go/ast/astutil"
	"golang.org/x/tools/go/ssa"
)

// ---------------------------------------------------------------------------------------
// Reviewed exceptions that survive refactoring.
//
// An exception is written for one construct: function + fingerprint + ordinal. The fingerprint
// of an expression replaces local variable and parameter names by their types, so renaming a
// local does not orphan the entry. When no entry matches exactly, an entry is still accepted if
// its own site has disappeared from the program ("orphaned") and it has the same fingerprint:
// first within the same function (ordinals shift when code is added or removed), then anywhere
// in the same package (the construct was moved into a helper, or the function was renamed).
// An entry is consumed by at most one site, so a new unreviewed construct cannot ride on an
// entry whose own site is still there.

type excSiteKey struct {
	fn  string // shortFn of the outermost function
	fp  string
	ord int
}

func (k excSiteKey) String() string { return k.fn + ":" + k.fp + "#" + itoa(k.ord) }

func parseExcKey(s string) (excSiteKey, bool) {
	i := strings.LastIndex(s, "#")
	if i < 0 {
		return excSiteKey{}, false
	}
	ord := 0
	for _, ch := range s[i+1:] {
		if ch < '0' || ch > '9' {
			return excSiteKey{}, false
		}
		ord = ord*10 + int(ch-'0')
	}
	head := s[:i]
	// the function name may itself contain ':' never; the first ':' after the closing ')' of a
	// method receiver or after the package-qualified name separates it from the fingerprint
	depth := 0
	for j, ch := range head {
		switch ch {
		case '(':
			depth++
		case ')':
			depth--
		case ':':
			if depth == 0 {
				return excSiteKey{fn: head[:j], fp: head[j+1:], ord: ord}, true
			}
		}
	}
	return excSiteKey{}, false
}

func pkgOfFnKey(fn string) string {
	fn = strings.TrimLeft(fn, "(*")
	if i := strings.Index(fn, "."); i >= 0 {
		return fn[:i]
	}
	return fn
}

// excResolver matches the sites of one rule run against one exception table.
type excResolver struct {
	entries map[string]bool // all keys of the table
	present map[string]bool // keys of sites that exist in the program (whether or not they need the entry)
	needing map[string]bool // keys of sites that are not discharged without an entry
	used    map[string]bool // entries already consumed
	scope   map[string]bool // function keys analysed by this run
	prog    map[string]bool // function keys of the whole program
	crossFn bool            // fingerprints identify the construct well enough to follow it into another function
	norm    func(fp string) string
	callers map[string]map[string]bool // function key -> the (outermost) functions that call it
}

func (r *excResolver) isNear(s, ek excSiteKey) bool {
	rootOf := func(fn string) string {
		if i := strings.Index(fn, "$"); i >= 0 {
			return fn[:i]
		}
		return fn
	}
	return r.callers[s.fn][rootOf(ek.fn)] || r.callers[rootOf(s.fn)][rootOf(ek.fn)]
}

// near orders the candidates of another function of the package: an entry written for a function
// that calls the site's function (the construct moved into a helper of it) comes first.
func (r *excResolver) near(s excSiteKey, ks []string) []string {
	rootOf := func(fn string) string {
		if i := strings.Index(fn, "$"); i >= 0 {
			return fn[:i]
		}
		return fn
	}
	var first, rest []string
	for _, k := range ks {
		ek, _ := parseExcKey(k)
		if r.callers[s.fn][rootOf(ek.fn)] || r.callers[rootOf(s.fn)][rootOf(ek.fn)] {
			first = append(first, k)
		} else {
			rest = append(rest, k)
		}
	}
	return append(first, rest...)
}

// newExcResolver: sites are all sites enumerated by the run, scope the analysed functions.
// An entry is orphaned when its own site no longer exists: its function was analysed and has no
// such site, or its function is not in the program at all. An entry of a function that exists
// but lies outside this run (the table is shared between properties) is not orphaned.
func newExcResolver(c *Ctx, keys []string, sites, needing []excSiteKey, scope []*ssa.Function, crossFn bool) *excResolver {
	r := &excResolver{entries: map[string]bool{}, present: map[string]bool{}, needing: map[string]bool{}, used: map[string]bool{}, scope: map[string]bool{}, prog: c.fnKeys(), crossFn: crossFn}
	for _, k := range keys {
		r.entries[k] = true
	}
	for _, s := range sites {
		r.present[s.String()] = true
	}
	for _, s := range needing {
		r.needing[s.String()] = true
	}
	for _, f := range scope {
		r.scope[shortFn(f)] = true
		r.scope[exceptionKey(f)] = true
	}
	r.callers = map[string]map[string]bool{}
	for f, edges := range c.G.Out {
		from := exceptionKey(f)
		for _, e := range edges {
			to := exceptionKey(e.Callee)
			if to == from {
				continue
			}
			if r.callers[to] == nil {
				r.callers[to] = map[string]bool{}
			}
			r.callers[to][from] = true
		}
	}
	memo := map[string]string{}
	r.norm = func(fp string) string {
		if v, ok := memo[fp]; ok {
			return v
		}
		v := normFingerprint(c, fp)
		memo[fp] = v
		return v
	}
	return r
}

var fpFieldSel = regexp.MustCompile(`<([^<>]*)>\.([A-Za-z_][A-Za-z0-9_]*)`)

// normFingerprint replaces every field selection `<T>.f` of a fingerprint by `<type of T.f>`, so
// that a container reached through a struct and the same container held in a variable look
// alike. Unresolvable selections are left as they are.
func normFingerprint(c *Ctx, fp string) string {
	for round := 0; round < 6; round++ {
		changed := false
		fp = fpFieldSel.ReplaceAllStringFunc(fp, func(m string) string {
			sub := fpFieldSel.FindStringSubmatch(m)
			tname, field := strings.TrimPrefix(sub[1], "*"), sub[2]
			dot := strings.LastIndex(tname, ".")
			if dot < 0 {
				return m
			}
			pkg := c.W.Lib[tname[:dot]]
			if pkg == nil {
				return m
			}
			obj := pkg.Types.Scope().Lookup(tname[dot+1:])
			if obj == nil {
				return m
			}
			st, ok := obj.Type().Underlying().(*types.Struct)
			if !ok {
				return m
			}
			for i := 0; i < st.NumFields(); i++ {
				if st.Field(i).Name() == field {
					changed = true
					return "<" + types.TypeString(st.Field(i).Type(), func(p *types.Package) string { return p.Name() }) + ">"
				}
			}
			return m
		})
		if !changed {
			break
		}
	}
	// a call of a module function with one result spelled inline (`s[pos(s, n):]`) and the same
	// call held in a local (`p := pos(s, n); s[p:]`) look alike: the call becomes its result type
	for round := 0; round < 4; round++ {
		changed := false
		fp = fpCall.ReplaceAllStringFunc(fp, func(m string) string {
			sub := fpCall.FindStringSubmatch(m)
			res := ""
			for _, pkg := range c.W.Lib {
				fn, ok := pkg.Types.Scope().Lookup(sub[1]).(*types.Func)
				if !ok {
					continue
				}
				sig := fn.Type().(*types.Signature)
				if sig.Results().Len() != 1 {
					return m
				}
				t := "<" + types.TypeString(sig.Results().At(0).Type(), func(p *types.Package) string { return p.Name() }) + ">"
				if res != "" && res != t {
					return m
				}
				res = t
			}
			if res == "" {
				return m
			}
			changed = true
			return res
		})
		if !changed {
			break
		}
	}
	return fp
}

var fpCall = regexp.MustCompile(`\b([A-Za-z_][A-Za-z0-9_]*)\(([^()\[\]]*)\)`)

func (c *Ctx) fnKeys() map[string]bool {
	if c.fnKeySet == nil {
		c.fnKeySet = map[string]bool{}
		for _, f := range c.G.Funcs {
			c.fnKeySet[shortFn(f)] = true
		}
	}
	return c.fnKeySet
}

// orphaned: within the entry's own function it is enough that its own site does not need it
// (ordinals shift when a function is rearranged); to follow a construct into another function
// the entry's own site must be gone.
func (r *excResolver) orphaned(k string, ek excSiteKey, sameFn bool) bool {
	if r.used[k] || r.needing[k] {
		return false
	}
	if !sameFn && r.present[k] {
		return false
	}
	return r.scope[ek.fn] || !r.prog[ek.fn]
}

// resolve returns the table key that covers the site, or "".
func (r *excResolver) resolve(s excSiteKey) string {
	if k := s.String(); r.entries[k] {
		r.used[k] = true
		return k
	}
	var sameFn, samePkg []string
	for k := range r.entries {
		ek, ok := parseExcKey(k)
		if !ok || ek.fp != s.fp {
			continue
		}
		if !r.orphaned(k, ek, ek.fn == s.fn) {
			// the entry's own key is still the key of a site, but that site is discharged without
			// it (ordinals shifted when the construct moved out): the entry is unused, and a site
			// in a helper that the entry's function calls may take it
			if !(r.crossFn && !r.used[k] && !r.needing[k] && r.present[k] && ek.fn != s.fn && len(r.near(s, []string{k})) == 1 && r.isNear(s, ek)) {
				continue
			}
		}
		switch {
		case ek.fn == s.fn:
			sameFn = append(sameFn, k)
		case r.crossFn && pkgOfFnKey(ek.fn) == pkgOfFnKey(s.fn):
			samePkg = append(samePkg, k)
		}
	}
	sort.Strings(sameFn)
	sort.Strings(samePkg)
	samePkg = r.near(s, samePkg)
	for _, k := range append(sameFn, samePkg...) {
		r.used[k] = true
		return k
	}
	// `c[k]` with a constant k where the table has `c[m:]`, m > k, for the same container in the same
	// function: the entry's claim len(c) >= m is the site's claim len(c) > k
	fps := []string{s.fp}
	if r.norm != nil && r.norm(s.fp) != s.fp {
		fps = append(fps, r.norm(s.fp)) // the container as a field of a struct
	}
	for _, sfp := range fps {
		i := strings.LastIndex(sfp, "[")
		if i <= 0 || !strings.HasSuffix(sfp, "]") {
			continue
		}
		k, err := strconv.Atoi(sfp[i+1 : len(sfp)-1])
		if err != nil {
			continue
		}
		var cands []string
		for e := range r.entries {
			ek, ok := parseExcKey(e)
			if !ok || ek.fn != s.fn || !strings.HasPrefix(ek.fp, sfp[:i+1]) || !strings.HasSuffix(ek.fp, ":]") {
				continue
			}
			if m, err := strconv.Atoi(ek.fp[i+1 : len(ek.fp)-2]); err == nil && m > k {
				cands = append(cands, e)
			}
		}
		sort.Strings(cands)
		if len(cands) > 0 {
			return cands[0] // not marked used: the entry's own site may still come
		}
	}
	// the container moved into (or out of) a struct: `matches[0][0]` became `m.texts[0][0]`. With
	// field selections replaced by the type of the field the two have the same fingerprint.
	if r.norm != nil {
		sn := r.norm(s.fp)
		var sameFnN, samePkgN []string
		for k := range r.entries {
			ek, ok := parseExcKey(k)
			if !ok || r.norm(ek.fp) != sn || !r.orphaned(k, ek, ek.fn == s.fn) {
				continue
			}
			switch {
			case ek.fn == s.fn:
				sameFnN = append(sameFnN, k)
			case r.crossFn && pkgOfFnKey(ek.fn) == pkgOfFnKey(s.fn):
				samePkgN = append(samePkgN, k)
			}
		}
		sort.Strings(sameFnN)
		sort.Strings(samePkgN)
		samePkgN = r.near(s, samePkgN)
		for _, k := range append(sameFnN, samePkgN...) {
			r.used[k] = true
			return k
		}
	}
	// an unexported field was renamed: with the names of selected fields erased the two
	// fingerprints are the same (`info[i].values[t]` / `infos[i].keys[t]`); same function only
	{
		se := eraseFieldNames(s.fp)
		var same []string
		for k := range r.entries {
			ek, ok := parseExcKey(k)
			if ok && ek.fn == s.fn && ek.fp != s.fp && eraseFieldNames(ek.fp) == se && r.orphaned(k, ek, true) {
				same = append(same, k)
			}
		}
		sort.Strings(same)
		for _, k := range same {
			r.used[k] = true
			return k
		}
	}
	// the expression was rewritten inside the same function (a sub-expression hoisted into a
	// local, an element copied out first): an orphaned entry of the same function and the same
	// shape class — same operation on the same kind of container — still covers it, provided the
	// rewritten expression brings no constant of its own (an offset that changed is a new claim)
	if cls := shapeClass(s.fp); cls != "" {
		// "the same function" includes a function of the package that no longer exists under the
		// entry's name (renamed), and — after those — a helper that the entry's function calls
		// (the loop body was extracted)
		gone := func(ek excSiteKey) bool {
			return r.crossFn && ek.fn != s.fn && !r.prog[ek.fn] && pkgOfFnKey(ek.fn) == pkgOfFnKey(s.fn)
		}
		var sameClass, renamed, helper []string
		for k := range r.entries {
			ek, ok := parseExcKey(k)
			if !ok || shapeClass(ek.fp) != cls || !noNewLiterals(s.fp, ek.fp) {
				continue
			}
			switch {
			case ek.fn == s.fn && r.orphaned(k, ek, true):
				sameClass = append(sameClass, k)
			case gone(ek) && r.orphaned(k, ek, false):
				renamed = append(renamed, k)
			case r.crossFn && ek.fn != s.fn && r.isNear(s, ek) && r.orphaned(k, ek, false):
				helper = append(helper, k)
			}
		}
		sort.Strings(sameClass)
		sort.Strings(renamed)
		sort.Strings(helper)
		for _, k := range append(append(sameClass, renamed...), helper...) {
			r.used[k] = true
			return k
		}
		// the construct moved into a helper and was rewritten on the way: an orphaned entry of the
		// same package for the same operation on the same named field of the same type (a
		// container that specific is the same data)
		if r.crossFn && strings.Contains(containerOf(cls), ">.") {
			var moved []string
			for k := range r.entries {
				ek, ok := parseExcKey(k)
				if ok && ek.fn != s.fn && pkgOfFnKey(ek.fn) == pkgOfFnKey(s.fn) && r.orphaned(k, ek, false) && shapeClass(ek.fp) == cls && noNewLiterals(s.fp, ek.fp) {
					moved = append(moved, k)
				}
			}
			sort.Strings(moved)
			for _, k := range moved {
				r.used[k] = true
				return k
			}
		}
		// an index loop rewritten as a range over a re-slice of the same container (or the
		// reverse): the orphaned entry of the other operation on the same kind of container, in
		// the same function, states the same invariant about the container's length
		var sameContainer []string
		for k := range r.entries {
			ek, ok := parseExcKey(k)
			if ok && ek.fn == s.fn && r.orphaned(k, ek, true) && containerOf(shapeClass(ek.fp)) == containerOf(cls) && containerOf(cls) != "" && noNewLiterals(s.fp, ek.fp) {
				sameContainer = append(sameContainer, k)
			}
		}
		sort.Strings(sameContainer)
		for _, k := range sameContainer {
			r.used[k] = true
			return k
		}
	}
	return ""
}

// fpLiterals: the literal tokens (digit runs, quoted runes) of a fingerprint outside the <type> parts.
func fpLiterals(fp string) []string {
	var out []string
	depth := 0
	cur := ""
	flush := func() {
		if cur != "" {
			out = append(out, cur)
			cur = ""
		}
	}
	prevIdent := false
	for _, ch := range fp {
		switch {
		case ch == '<':
			flush()
			depth++
		case ch == '>':
			flush()
			if depth > 0 {
				depth--
			}
		case depth == 0 && ch >= '0' && ch <= '9' && (cur != "" || !prevIdent):
			cur += string(ch)
		default:
			flush()
		}
		prevIdent = ch == '_' || (ch >= 'a' && ch <= 'z') || (ch >= 'A' && ch <= 'Z') || (prevIdent && ch >= '0' && ch <= '9')
	}
	flush()
	return out
}

// noNewLiterals: every literal of fp also occurs (as often) in ref.
func noNewLiterals(fp, ref string) bool {
	have := map[string]int{}
	for _, l := range fpLiterals(ref) {
		have[l]++
	}
	for _, l := range fpLiterals(fp) {
		if have[l] == 0 {
			return false
		}
		have[l]--
	}
	return true
}

// shapeClass of an index/slice fingerprint: the container part and whether it is sliced or
// indexed ("<string>[:" / "<[]int>["); "" for fingerprints of other kinds.
func shapeClass(fp string) string {
	depth := 0
	last := -1
	for i, ch := range fp {
		switch ch {
		case '[':
			if depth == 0 {
				last = i
			}
			depth++
		case ']':
			depth--
		case '<':
			depth++
		case '>':
			depth--
		}
	}
	if last <= 0 || !strings.HasSuffix(fp, "]") {
		return ""
	}
	inner := fp[last+1 : len(fp)-1]
	kind := "index"
	d := 0
	for _, ch := range inner {
		switch ch {
		case '[', '(', '<':
			d++
		case ']', ')', '>':
			d--
		case ':':
			if d == 0 {
				kind = "slice"
			}
		}
	}
	return kind + ":" + fp[:last]
}

// exprFingerprint renders e with local variables and parameters replaced by their types.
func exprFingerprint(info *types.Info, e ast.Expr) string {
	qual := func(p *types.Package) string { return p.Name() }
	var fp func(e ast.Expr) string
	fp = func(e ast.Expr) string {
		switch x := e.(type) {
		case *ast.Ident:
			if obj := info.ObjectOf(x); obj != nil {
				if v, ok := obj.(*types.Var); ok && !v.IsField() && (v.Parent() == nil || v.Parent() != v.Pkg().Scope()) {
					return "<" + types.TypeString(v.Type(), qual) + ">"
				}
			}
			return x.Name
		case *ast.BasicLit:
			return x.Value
		case *ast.ParenExpr:
			return "(" + fp(x.X) + ")"
		case *ast.SelectorExpr:
			return fp(x.X) + "." + x.Sel.Name
		case *ast.IndexExpr:
			return fp(hoisted(info, x.X)) + "[" + fp(x.Index) + "]"
		case *ast.SliceExpr:
			s := fp(hoisted(info, x.X)) + "["
			if x.Low != nil {
				s += fp(x.Low)
			}
			s += ":"
			if x.High != nil {
				s += fp(x.High)
			}
			if x.Max != nil {
				s += ":" + fp(x.Max)
			}
			return s + "]"
		case *ast.BinaryExpr:
			return fp(x.X) + x.Op.String() + fp(x.Y)
		case *ast.UnaryExpr:
			return x.Op.String() + fp(x.X)
		case *ast.StarExpr:
			return "*" + fp(x.X)
		case *ast.CallExpr:
			var as []string
			for _, a := range x.Args {
				as = append(as, fp(a))
			}
			return fp(x.Fun) + "(" + strings.Join(as, ",") + ")"
		}
		return types.ExprString(e)
	}
	return fp(e)
}

// hoisted: when the container of an index or slice expression is a local variable defined once, by
// `v := a[k]` with a constant k, and never assigned again, the defining expression: `s := m[0];
// s[0]` is the site `m[0][0]` with a name given to its first half.
var singleDefs map[*types.Info]map[types.Object]ast.Expr

func hoisted(info *types.Info, e ast.Expr) ast.Expr {
	id, ok := e.(*ast.Ident)
	if !ok || bndCtx == nil {
		return e
	}
	if singleDefs == nil {
		singleDefs = map[*types.Info]map[types.Object]ast.Expr{}
	}
	defs, ok := singleDefs[info]
	if !ok {
		defs = map[types.Object]ast.Expr{}
		writes := map[types.Object]int{}
		for _, pkg := range bndCtx.W.All {
			if pkg.TypesInfo != info {
				continue
			}
			for _, file := range pkg.Syntax {
				ast.Inspect(file, func(n ast.Node) bool {
					switch st := n.(type) {
					case *ast.AssignStmt:
						for i, l := range st.Lhs {
							lid, isId := l.(*ast.Ident)
							if !isId {
								continue
							}
							obj := info.ObjectOf(lid)
							if obj == nil {
								continue
							}
							writes[obj]++
							if st.Tok == token.DEFINE && len(st.Lhs) == len(st.Rhs) {
								if ix, isIx := st.Rhs[i].(*ast.IndexExpr); isIx {
									if tv := info.Types[ix.Index]; tv.Value != nil {
										if _, rootIsId := ix.X.(*ast.Ident); rootIsId {
											defs[obj] = ix
										}
									}
								}
							}
						}
					case *ast.IncDecStmt:
						if lid, isId := st.X.(*ast.Ident); isId {
							writes[info.ObjectOf(lid)] += 2
						}
					case *ast.RangeStmt:
						for _, l := range []ast.Expr{st.Key, st.Value} {
							if lid, isId := l.(*ast.Ident); isId {
								writes[info.ObjectOf(lid)] += 2
							}
						}
					case *ast.UnaryExpr:
						if st.Op == token.AND {
							if lid, isId := st.X.(*ast.Ident); isId {
								writes[info.ObjectOf(lid)] += 2
							}
						}
					}
					return true
				})
			}
		}
		for obj := range defs {
			if writes[obj] != 1 {
				delete(defs, obj)
			}
		}
		singleDefs[info] = defs
	}
	if obj := info.ObjectOf(id); obj != nil {
		if d, ok := defs[obj]; ok {
			return d
		}
	}
	return e
}

// indexExprAt: the index or slice expression whose '[' is at pos, with its package's type info.
func indexExprAt(c *Ctx, pos token.Pos) (ast.Expr, *types.Info) {
	for _, pkg := range c.W.All {
		for _, file := range pkg.Syntax {
			if file.Pos() <= pos && pos < file.End() {
				path, _ := astutil.PathEnclosingInterval(file, pos, pos)
				for _, n := range path {
					switch e := n.(type) {
					case *ast.IndexExpr:
						if e.Lbrack == pos {
							return e, pkg.TypesInfo
						}
					case *ast.SliceExpr:
						if e.Lbrack == pos {
							return e, pkg.TypesInfo
						}
					}
				}
				return nil, nil
			}
		}
	}
	return nil, nil
}

// resolvePending: obligations marked Verdict == pendingExc (their Key being a site key) are
// matched against the table; matched ones become exceptions, the others findings with the
// reason kept in Reason.
const pendingExc = "pending-exception"

func resolvePending(c *Ctx, r *Result, from int, table map[string]string, reach *Reach, fnOf map[string]*ssa.Function, scope []*ssa.Function, crossFn bool) {
	var keys []string
	for k := range table {
		keys = append(keys, k)
	}
	var sites, needing []excSiteKey
	for i := from; i < len(r.Obls); i++ {
		if k, ok := parseExcKey(r.Obls[i].Key); ok {
			sites = append(sites, k)
			if r.Obls[i].Verdict == pendingExc {
				needing = append(needing, k)
			}
		}
	}
	res := newExcResolver(c, keys, sites, needing, scope, crossFn)
	for i := from; i < len(r.Obls); i++ {
		o := &r.Obls[i]
		if o.Verdict != pendingExc {
			continue
		}
		k, ok := parseExcKey(o.Key)
		matched := ""
		if ok {
			matched = res.resolve(k)
		}
		if matched != "" {
			o.Verdict = Exception
			o.Reason = "reviewed (" + matched + "): " + table[matched]
			continue
		}
		o.Verdict = Finding
		if reach != nil && fnOf != nil {
			if f := fnOf[o.Fn]; f != nil {
				o.Path = reach.Path(f)
			}
		}
	}
}

var fpFieldName = regexp.MustCompile(`\.[A-Za-z_][A-Za-z0-9_]*`)

// eraseFieldNames replaces every `.name` selection outside the <type> parts of a fingerprint by `.*`.
func eraseFieldNames(fp string) string {
	var b strings.Builder
	depth := 0
	seg := ""
	flush := func() {
		b.WriteString(fpFieldName.ReplaceAllString(seg, ".*"))
		seg = ""
	}
	for _, r := range fp {
		switch {
		case r == '<':
			if depth == 0 {
				flush()
			}
			depth++
			b.WriteRune(r)
		case r == '>' && depth > 0:
			depth--
			b.WriteRune(r)
		case depth > 0:
			b.WriteRune(r)
		default:
			seg += string(r)
		}
	}
	flush()
	return b.String()
}

// containerOf: the container part of a shape class ("index:<[]int>" / "slice:<[]int>" -> "<[]int>").
func containerOf(cls string) string {
	if i := strings.Index(cls, ":"); i >= 0 {
		return cls[i+1:]
	}
	return ""
}
