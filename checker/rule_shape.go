package main

import (
	"fmt"
	"go/constant"
	"go/token"
	"go/types"
	"math"
	"regexp"
	"sort"
	"strconv"
	"strings"

	"golang.org/x/tools/go/ssa"
)

// ---------------------------------------------------------------------------------------
// Rules added after the fifth round of seeded changes. Each is a structural necessary
// condition that two independent authors broke in the same way.
// ---------------------------------------------------------------------------------------

// LASTSTEP (C01).
//
// evalPathStep turns the per-item results of a step into a *sequence*: array-valued results are
// flattened one level into it, array-constructor results are kept as units. The one place where
// a raw per-item result leaves the function unwrapped is the lone-array shortcut, and that is
// only sound for the LAST step of a path: the next step would map over the members of a
// constructed array instead of seeing it as one item (`a.[b,c].$count($)`). Rule: in the step
// function evalPath's loop calls, every success return whose value is not "no value" and not a
// boxed *sequence is dominated by the true edge of the last-step flag, and the flag every call
// site passes is a test that the loop index is the last index of the step list.
func runLASTSTEP(c *Ctx, r *Result, rule string) int {
	ep := c.W.Fn("jsonata.evalPath")
	step := c.W.Fn("jsonata.evalPathStep")
	if ep == nil || step == nil {
		r.LoseAnchor("LASTSTEP: jsonata.evalPath or jsonata.evalPathStep not found")
		return 0
	}
	n := 0
	// the boolean parameters of the step function
	var flags []*ssa.Parameter
	for _, p := range step.Params {
		if b, ok := p.Type().Underlying().(*types.Basic); ok && b.Kind() == types.Bool {
			flags = append(flags, p)
		}
	}
	var seqT types.Type
	if tn, ok := step.Pkg.Pkg.Scope().Lookup("sequence").(*types.TypeName); ok {
		seqT = tn.Type()
	}
	isSeqBox := func(v ssa.Value) bool {
		call, ok := v.(*ssa.Call)
		if !ok || staticName(call) != "reflect.ValueOf" {
			return false
		}
		mi, ok := call.Call.Args[0].(*ssa.MakeInterface)
		if !ok {
			return false
		}
		pt, ok := mi.X.Type().(*types.Pointer)
		return ok && seqT != nil && types.Identical(pt.Elem(), seqT)
	}
	var rawWhy func(v ssa.Value, seen map[ssa.Value]bool) string
	rawWhy = func(v ssa.Value, seen map[ssa.Value]bool) string {
		if seen[v] {
			return ""
		}
		seen[v] = true
		switch x := v.(type) {
		case *ssa.Phi:
			for _, e := range x.Edges {
				if w := rawWhy(e, seen); w != "" {
					return w
				}
			}
			return ""
		case *ssa.Const:
			return ""
		case *ssa.UnOp:
			if isUndefinedLoad(x) {
				return ""
			}
		case *ssa.Call:
			if isSeqBox(x) {
				return ""
			}
		}
		return describeVal(v)
	}
	rets := 0
	for _, b := range step.Blocks {
		ret, ok := b.Instrs[len(b.Instrs)-1].(*ssa.Return)
		if !ok || len(ret.Results) != 2 || !isSuccessReturn(ret) {
			continue
		}
		rets++
		n++
		o := Obligation{Rule: rule, Key: fmt.Sprintf("evalPathStep:result#%d", rets), Fn: shortFn(step), Pos: c.W.Pos(ret.Pos()), Nontrivial: true}
		why := rawWhy(ret.Results[0], map[ssa.Value]bool{})
		switch {
		case why == "":
			o.Verdict, o.Reason = Discharged, "returns no value or a boxed *sequence (flattened once, constructor results kept as units)"
		default:
			guarded := false
			for _, fl := range flags {
				fl := fl
				if domGuard(b, func(cond ssa.Value) (int, bool) { return boolEdge(cond, fl, true) }) {
					guarded = true
				}
			}
			if guarded {
				o.Verdict, o.Reason = Discharged, "a per-item result is returned unwrapped only under the last-step flag"
			} else {
				o.Verdict, o.Reason = Finding, "a per-item result ("+why+") is returned unwrapped on a path that is not restricted to the last step of the path: the next step would map over the members of a constructed array instead of taking it as one item"
			}
		}
		r.Add(o)
	}
	// the flag passed by evalPath
	ord := 0
	for _, ins := range instrsIn(ep) {
		call, ok := ins.(*ssa.Call)
		if !ok || call.Call.StaticCallee() != step {
			continue
		}
		for i, p := range step.Params {
			isFlag := false
			for _, fl := range flags {
				if fl == p {
					isFlag = true
				}
			}
			if !isFlag || i >= len(call.Call.Args) {
				continue
			}
			ord++
			n++
			o := Obligation{Rule: rule, Key: fmt.Sprintf("evalPath:last-step-flag#%d", ord), Fn: shortFn(ep), Pos: c.W.Pos(call.Pos()), Nontrivial: true}
			if isLastIndexTest(call.Call.Args[i]) {
				o.Verdict, o.Reason = Discharged, "the flag is a test that the loop index is the last index of the step list"
			} else {
				o.Verdict, o.Reason = Undecided, "the last-step flag passed to evalPathStep is "+describeVal(call.Call.Args[i])+", not a recognised test that the loop index is len(steps)-1"
			}
			r.Add(o)
		}
	}
	return n
}

// isLastIndexTest: i == len(x)-1 (or >=), i+1 == len(x) (or >=), with either operand order.
func isLastIndexTest(v ssa.Value) bool {
	b, ok := v.(*ssa.BinOp)
	if !ok {
		return false
	}
	lenMinus := func(x ssa.Value, k int64) bool {
		// len(..) - k, or len(..) when k == 0
		if k == 0 {
			return isLenCall(x)
		}
		s, ok := x.(*ssa.BinOp)
		if !ok || s.Op != token.SUB {
			return false
		}
		kk, ok := intConstOf(s.Y)
		return ok && kk == k && isLenCall(s.X)
	}
	plus := func(x ssa.Value, k int64) (ssa.Value, bool) {
		s, ok := x.(*ssa.BinOp)
		if !ok || s.Op != token.ADD {
			return nil, false
		}
		if kk, ok := intConstOf(s.Y); ok && kk == k {
			return s.X, true
		}
		if kk, ok := intConstOf(s.X); ok && kk == k {
			return s.Y, true
		}
		return nil, false
	}
	isIndex := func(x ssa.Value) bool {
		_, isPhi := x.(*ssa.Phi)
		if isPhi {
			return true
		}
		// range loops over a slice number their iterations with phi+1
		if in, ok := plus(x, 1); ok {
			_, isPhi := in.(*ssa.Phi)
			return isPhi
		}
		return false
	}
	try := func(idx, bound ssa.Value, op token.Token) bool {
		if op != token.EQL && op != token.GEQ {
			return false
		}
		if lenMinus(bound, 1) && isIndex(idx) {
			return true
		}
		if in, ok := plus(idx, 1); ok && lenMinus(bound, 0) && isIndex(in) {
			return true
		}
		return false
	}
	switch b.Op {
	case token.EQL:
		return try(b.X, b.Y, token.EQL) || try(b.Y, b.X, token.EQL)
	case token.GEQ:
		return try(b.X, b.Y, token.GEQ)
	case token.LEQ:
		return try(b.Y, b.X, token.GEQ)
	}
	return false
}

func isLenCall(v ssa.Value) bool {
	call, ok := v.(*ssa.Call)
	if !ok {
		return false
	}
	bi, ok := call.Call.Value.(*ssa.Builtin)
	return ok && bi.Name() == "len"
}

// ---------------------------------------------------------------------------------------
// SEPLEN (C16): "the output is not empty yet" is not "this is not the first element".
//
// A loop that builds text from elements and separators and decides whether to write the
// separator by testing the accumulated output for emptiness (`b.Len() > 0`, `out != ""`,
// `len(buf) > 0`) drops the separator after every leading element that is itself empty:
// `$join(["", "x"], "-")` gives "x". Two independent authors rewrote $join this way. The rule
// flags, in every loop of the given functions, a branch on the emptiness of a text accumulator
// (strings.Builder, bytes.Buffer, string, []byte) that guards a write into the same accumulator,
// when the loop also writes an element that has not been tested to be non-empty.
// ---------------------------------------------------------------------------------------

type textAcc struct {
	ptr ssa.Value // *strings.Builder / *bytes.Buffer
	val ssa.Value // string or []byte value (usually a phi)
}

func isTextBuilderPtr(t types.Type) bool {
	p, ok := t.(*types.Pointer)
	if !ok {
		return false
	}
	n, ok := p.Elem().(*types.Named)
	if !ok || n.Obj().Pkg() == nil {
		return false
	}
	q := n.Obj().Pkg().Path() + "." + n.Obj().Name()
	return q == "strings.Builder" || q == "bytes.Buffer"
}

func isTextValue(t types.Type) bool {
	switch u := t.Underlying().(type) {
	case *types.Basic:
		return u.Info()&types.IsString != 0
	case *types.Slice:
		b, ok := u.Elem().Underlying().(*types.Basic)
		return ok && b.Kind() == types.Byte
	}
	return false
}

// emptinessTest: cond is a test of the accumulated text for emptiness; returns the accumulator
// and the successor index (0 true / 1 false) on which the text is NOT empty.
func emptinessTest(cond ssa.Value) (textAcc, int, bool) {
	b, ok := cond.(*ssa.BinOp)
	if !ok {
		return textAcc{}, 0, false
	}
	lenOf := func(v ssa.Value) (textAcc, bool) {
		call, ok := v.(*ssa.Call)
		if !ok {
			return textAcc{}, false
		}
		if bi, ok := call.Call.Value.(*ssa.Builtin); ok && bi.Name() == "len" && isTextValue(call.Call.Args[0].Type()) {
			return textAcc{val: call.Call.Args[0]}, true
		}
		if callee := call.Call.StaticCallee(); callee != nil && callee.Name() == "Len" && callee.Signature.Recv() != nil && len(call.Call.Args) == 1 && isTextBuilderPtr(call.Call.Args[0].Type()) {
			return textAcc{ptr: call.Call.Args[0]}, true
		}
		return textAcc{}, false
	}
	// len(A) OP k
	if acc, ok := lenOf(b.X); ok {
		if k, ok := intConstOf(b.Y); ok {
			switch {
			case (b.Op == token.GTR || b.Op == token.NEQ) && k == 0, b.Op == token.GEQ && k == 1:
				return acc, 0, true
			case (b.Op == token.EQL || b.Op == token.LEQ) && k == 0, b.Op == token.LSS && k == 1:
				return acc, 1, true
			}
		}
	}
	if acc, ok := lenOf(b.Y); ok {
		if k, ok := intConstOf(b.X); ok {
			switch {
			case (b.Op == token.LSS || b.Op == token.NEQ) && k == 0, b.Op == token.LEQ && k == 1:
				return acc, 0, true
			case (b.Op == token.EQL || b.Op == token.GEQ) && k == 0, b.Op == token.GTR && k == 1:
				return acc, 1, true
			}
		}
	}
	// A != "" / A == ""
	isEmptyStr := func(v ssa.Value) bool {
		k, ok := v.(*ssa.Const)
		return ok && k.Value != nil && k.Value.ExactString() == `""`
	}
	for _, pr := range [][2]ssa.Value{{b.X, b.Y}, {b.Y, b.X}} {
		if isEmptyStr(pr[1]) && isTextValue(pr[0].Type()) {
			switch b.Op {
			case token.NEQ:
				return textAcc{val: pr[0]}, 0, true
			case token.EQL:
				return textAcc{val: pr[0]}, 1, true
			}
		}
	}
	return textAcc{}, 0, false
}

// textWrite: ins writes text into the accumulator; returns what is written.
func textWrite(ins ssa.Instruction, acc textAcc) (ssa.Value, bool) {
	switch x := ins.(type) {
	case *ssa.Call:
		if acc.ptr != nil {
			if callee := x.Call.StaticCallee(); callee != nil && callee.Signature.Recv() != nil && len(x.Call.Args) == 2 && x.Call.Args[0] == acc.ptr {
				switch callee.Name() {
				case "WriteString", "Write", "WriteByte", "WriteRune":
					return x.Call.Args[1], true
				}
			}
			return nil, false
		}
		if bi, ok := x.Call.Value.(*ssa.Builtin); ok && bi.Name() == "append" && len(x.Call.Args) == 2 && sameAccValue(x.Call.Args[0], acc.val) {
			return x.Call.Args[1], true
		}
	case *ssa.BinOp:
		if acc.val != nil && x.Op == token.ADD && isTextValue(x.Type()) && sameAccValue(x.X, acc.val) {
			return x.Y, true
		}
	}
	return nil, false
}

// sameAccValue: v is the accumulator value a (the loop phi) or a value derived from it by
// earlier writes in the same iteration (a + sep).
func sameAccValue(v, a ssa.Value) bool {
	for d := 0; d < 6; d++ {
		if v == a {
			return true
		}
		switch x := v.(type) {
		case *ssa.BinOp:
			if x.Op != token.ADD {
				return false
			}
			v = x.X
		case *ssa.Phi:
			for _, e := range x.Edges {
				if e != v && sameAccValue2(e, a, d+1) {
					return true
				}
			}
			return false
		case *ssa.Call:
			if bi, ok := x.Call.Value.(*ssa.Builtin); ok && bi.Name() == "append" {
				v = x.Call.Args[0]
				continue
			}
			return false
		default:
			return false
		}
	}
	return false
}

func sameAccValue2(v, a ssa.Value, d int) bool {
	if d > 6 {
		return false
	}
	if v == a {
		return true
	}
	switch x := v.(type) {
	case *ssa.BinOp:
		if x.Op == token.ADD {
			return sameAccValue2(x.X, a, d+1)
		}
	case *ssa.Call:
		if bi, ok := x.Call.Value.(*ssa.Builtin); ok && bi.Name() == "append" {
			return sameAccValue2(x.Call.Args[0], a, d+1)
		}
	}
	return false
}

// provenNonEmpty: block b is dominated by a test showing text value x is not empty.
func provenNonEmpty(x ssa.Value, b *ssa.BasicBlock) bool {
	if k, ok := x.(*ssa.Const); ok {
		return k.Value != nil && k.Value.ExactString() != `""`
	}
	if _, ok := x.Type().Underlying().(*types.Basic); ok && !isTextValue(x.Type()) {
		return true // a byte or a rune is never empty
	}
	return domGuard(b, func(cond ssa.Value) (int, bool) {
		acc, succ, ok := emptinessTest(cond)
		if !ok || acc.val == nil || acc.val != x {
			return 0, false
		}
		return succ, true
	})
}

func runSEPLEN(c *Ctx, r *Result, rule string, fns []*ssa.Function) int {
	n := 0
	for _, f := range fns {
		ord := 0
		for _, hb := range f.Blocks {
			if len(hb.Instrs) == 0 || !inLoop(hb) {
				continue
			}
			iff, ok := hb.Instrs[len(hb.Instrs)-1].(*ssa.If)
			if !ok {
				continue
			}
			acc, succ, ok := emptinessTest(iff.Cond)
			if !ok {
				continue
			}
			guarded := hb.Succs[succ]
			if len(guarded.Preds) != 1 {
				continue
			}
			// a write into the same accumulator under the "not empty" edge
			sepWrite := false
			for _, gb := range f.Blocks {
				if !guarded.Dominates(gb) {
					continue
				}
				for _, ins := range gb.Instrs {
					if _, ok := textWrite(ins, acc); ok {
						sepWrite = true
					}
				}
			}
			if !sepWrite {
				continue
			}
			ord++
			n++
			o := Obligation{Rule: rule, Key: fmt.Sprintf("%s:separator-by-length#%d", shortFn(f), ord), Fn: shortFn(f), Pos: c.W.Pos(iff.Cond.Pos()), Nontrivial: true}
			// an element written in the same loop that may be empty
			bad := ""
			for _, eb := range f.Blocks {
				if guarded.Dominates(eb) || !reaches(eb, hb) || !reaches(hb, eb) {
					continue
				}
				for _, ins := range eb.Instrs {
					if x, ok := textWrite(ins, acc); ok && !provenNonEmpty(x, eb) {
						bad = describeVal(x) + " at " + c.W.Pos(ins.Pos())
					}
				}
			}
			if bad == "" {
				o.Verdict, o.Reason = Discharged, "every element written in this loop is tested to be non-empty, so a non-empty output means an element was written"
			} else {
				o.Verdict, o.Reason = Finding, "the separator is written when the accumulated output is not empty, but the loop also writes an element that may be empty ("+bad+"): every leading empty element loses its separator"
			}
			r.Add(o)
		}
	}
	return n
}

// ---------------------------------------------------------------------------------------
// MAPEQ (C03, C15): a hand-written equality of two maps must compare sizes and presence.
//
// The tree compares containers with reflect.DeepEqual. Two independent authors replaced that by
// a loop over the keys of one map that looks each key up in the other — one forgot to compare
// the sizes (an object "equals" every superset: $distinct drops the larger one), the other
// passed the result of MapIndex on without testing that the key exists (a missing member
// "equals" a null one). Rule: in a function that returns bool, walks a.MapKeys()/MapRange() and
// calls b.MapIndex(..) on another value in that loop, (size) the lookup is dominated by the
// "equal" edge of a comparison of a.Len() with b.Len(), or the function also walks b's keys
// looking them up in a; (presence) every use of the looked-up value other than IsValid() is
// dominated by the true edge of its IsValid().
// ---------------------------------------------------------------------------------------

func reflectMethodCall(ins ssa.Instruction, name string) (*ssa.Call, ssa.Value) {
	call, ok := ins.(*ssa.Call)
	if !ok {
		return nil, nil
	}
	callee := call.Call.StaticCallee()
	if callee == nil || callee.Name() != name || callee.Signature.Recv() == nil || !isReflectValue(callee.Signature.Recv().Type()) {
		return nil, nil
	}
	return call, call.Call.Args[0]
}

func runMAPEQ(c *Ctx, r *Result, rule string, fns []*ssa.Function) int {
	n := 0
	for _, f := range fns {
		res := f.Signature.Results()
		if res.Len() == 0 {
			continue
		}
		if b, ok := res.At(0).Type().Underlying().(*types.Basic); !ok || b.Kind() != types.Bool {
			continue
		}
		walked := map[ssa.Value]bool{} // receivers of MapKeys / MapRange
		for _, ins := range instrsIn(f) {
			if _, recv := reflectMethodCall(ins, "MapKeys"); recv != nil {
				walked[recv] = true
			}
			if _, recv := reflectMethodCall(ins, "MapRange"); recv != nil {
				walked[recv] = true
			}
		}
		if len(walked) == 0 {
			continue
		}
		// lookups into a map other than a walked one, inside a loop
		type lookup struct {
			call *ssa.Call
			in   ssa.Value
		}
		var lookups []lookup
		lookedUpIn := map[ssa.Value]bool{}
		for _, ins := range instrsIn(f) {
			call, recv := reflectMethodCall(ins, "MapIndex")
			if call == nil || !inLoop(call.Block()) {
				continue
			}
			lookedUpIn[recv] = true
			if !walked[recv] {
				lookups = append(lookups, lookup{call, recv})
			}
		}
		ord := 0
		for _, lk := range lookups {
			ord++
			n += 2
			base := fmt.Sprintf("%s:map-equality#%d", shortFn(f), ord)
			// (size)
			o := Obligation{Rule: rule, Key: base + ":size", Fn: shortFn(f), Pos: c.W.Pos(lk.call.Pos()), Nontrivial: true}
			sized := false
			for a := range walked {
				a, b := a, lk.in
				if domGuard(lk.call.Block(), func(cond ssa.Value) (int, bool) {
					bo, ok := cond.(*ssa.BinOp)
					if !ok || (bo.Op != token.NEQ && bo.Op != token.EQL) {
						return 0, false
					}
					x, y := lenRecv(bo.X), lenRecv(bo.Y)
					if x == nil || y == nil || !((x == a && y == b) || (x == b && y == a)) {
						return 0, false
					}
					if bo.Op == token.NEQ {
						return 1, true
					}
					return 0, true
				}) {
					sized = true
				}
			}
			// symmetric walk: b's keys are looked up in a too
			if !sized && walked[lk.in] {
				sized = true
			}
			if !sized {
				for a := range walked {
					if lookedUpIn[a] && walked[lk.in] {
						sized = true
					}
				}
			}
			if sized {
				o.Verdict, o.Reason = Discharged, "the sizes of the two maps are compared (or both key sets are walked) before members are compared"
			} else {
				o.Verdict, o.Reason = Finding, "two maps are compared by walking the keys of one and looking them up in the other, but their sizes are never compared: a map equals every superset of itself"
			}
			r.Add(o)
			// (presence)
			o = Obligation{Rule: rule, Key: base + ":presence", Fn: shortFn(f), Pos: c.W.Pos(lk.call.Pos()), Nontrivial: true}
			var valid *ssa.Call
			for _, ref := range *lk.call.Referrers() {
				if vc, recv := reflectMethodCall(ref, "IsValid"); vc != nil && recv == lk.call {
					valid = vc
				}
			}
			bad := ""
			for _, ref := range *lk.call.Referrers() {
				if vc, recv := reflectMethodCall(ref, "IsValid"); vc != nil && recv == lk.call {
					continue
				}
				if _, ok := ref.(*ssa.DebugRef); ok {
					continue
				}
				ok := false
				if valid != nil {
					ok = domGuard(ref.Block(), func(cond ssa.Value) (int, bool) { return boolEdge(cond, valid, true) })
				}
				if !ok {
					bad = c.W.Pos(ref.Pos())
				}
			}
			if bad == "" {
				o.Verdict, o.Reason = Discharged, "the looked-up member is used only after IsValid() has shown that the key exists"
			} else {
				o.Verdict, o.Reason = Finding, "the member looked up in the other map is used ("+bad+") without a dominating IsValid(): a key that is missing there is taken for a member (a missing member equals a null one)"
			}
			r.Add(o)
		}
	}
	return n
}

// lenRecv: v is x.Len() on a reflect.Value, or len(x): returns x.
func lenRecv(v ssa.Value) ssa.Value {
	call, ok := v.(*ssa.Call)
	if !ok {
		return nil
	}
	if bi, ok := call.Call.Value.(*ssa.Builtin); ok && bi.Name() == "len" {
		return call.Call.Args[0]
	}
	if c2, recv := reflectMethodCall(call, "Len"); c2 != nil {
		return recv
	}
	return nil
}

// ---------------------------------------------------------------------------------------
// HORDER and CALLSEQ (C20): the call protocol of a Go extension.
//
// HORDER: the EvalContextHandler hook is consulted (and the context item prepended) before the
// UndefinedHandler hook sees the arguments — the built-ins' undefined handlers look at the
// argument list the function will actually receive. The roles of goCallable's handler fields
// are read off newGoCallable (which Extension field each is initialised from), not off their
// names.
// CALLSEQ: the function value is only ever invoked with the argument list that came out of
// validateArgTypes, which got the one that came out of validateArgCount, each after its error
// was tested nil: no path calls the Go function with unchecked or unconverted arguments.
// ---------------------------------------------------------------------------------------

func runHORDER(c *Ctx, r *Result, rule string) int {
	pkg := c.W.LibSSA["jsonata"]
	if pkg == nil {
		r.LoseAnchor("HORDER: package jsonata not loaded")
		return 0
	}
	var gcT types.Type
	if tn, ok := pkg.Pkg.Scope().Lookup("goCallable").(*types.TypeName); ok {
		gcT = tn.Type()
	}
	if gcT == nil {
		r.LoseAnchor("HORDER: type goCallable not found")
		return 0
	}
	isGC := func(t types.Type) bool {
		p, ok := t.Underlying().(*types.Pointer)
		return ok && types.Identical(p.Elem(), gcT)
	}
	// which Extension field does v read?
	extField := func(v ssa.Value) string {
		switch x := v.(type) {
		case *ssa.Field:
			if isNamed(x.X.Type(), "jsonata-go", "Extension") || strings.HasSuffix(x.X.Type().String(), ".Extension") {
				return x.X.Type().Underlying().(*types.Struct).Field(x.Field).Name()
			}
		case *ssa.UnOp:
			if fa, ok := x.X.(*ssa.FieldAddr); ok && x.Op == token.MUL {
				if p, ok := fa.X.Type().Underlying().(*types.Pointer); ok && strings.HasSuffix(p.Elem().String(), ".Extension") {
					return p.Elem().Underlying().(*types.Struct).Field(fa.Field).Name()
				}
			}
		}
		return ""
	}
	role := map[int]string{} // goCallable field index -> "context" | "undefined"
	for _, f := range c.G.Funcs {
		if f.Pkg != pkg {
			continue
		}
		for _, ins := range instrsIn(f) {
			st, ok := ins.(*ssa.Store)
			if !ok {
				continue
			}
			fa, ok := st.Addr.(*ssa.FieldAddr)
			if !ok || !isGC(fa.X.Type()) {
				continue
			}
			switch extField(st.Val) {
			case "EvalContextHandler":
				role[fa.Field] = "context"
			case "UndefinedHandler":
				role[fa.Field] = "undefined"
			}
		}
	}
	if len(role) != 2 {
		r.LoseAnchor("HORDER: the goCallable fields initialised from Extension.EvalContextHandler / UndefinedHandler were not found (%d)", len(role))
		return 0
	}
	type hcall struct {
		ci   ssa.CallInstruction
		role string
	}
	calls := map[*ssa.Function][]hcall{}
	for _, f := range c.G.Funcs {
		if f.Pkg != pkg {
			continue
		}
		for _, ci := range callsIn(f) {
			ld, ok := ci.Common().Value.(*ssa.UnOp)
			if !ok || ld.Op != token.MUL {
				continue
			}
			fa, ok := ld.X.(*ssa.FieldAddr)
			if !ok || !isGC(fa.X.Type()) || role[fa.Field] == "" {
				continue
			}
			calls[f] = append(calls[f], hcall{ci, role[fa.Field]})
		}
	}
	before := func(a, b ssa.Instruction) bool { // a is executed before b whenever both are, and never after
		if a.Block() == b.Block() {
			for _, ins := range a.Block().Instrs {
				if ins == a {
					return true
				}
				if ins == b {
					return false
				}
			}
		}
		return reaches(a.Block(), b.Block()) && !reaches(b.Block(), a.Block())
	}
	n := 0
	for f, hs := range calls {
		var ctx, und []ssa.CallInstruction
		for _, h := range hs {
			if h.role == "context" {
				ctx = append(ctx, h.ci)
			} else {
				und = append(und, h.ci)
			}
		}
		if len(ctx) == 0 || len(und) == 0 {
			continue
		}
		n++
		o := Obligation{Rule: rule, Key: shortFn(f) + ":context-before-undefined", Fn: shortFn(f), Pos: c.W.Pos(und[0].Pos()), Nontrivial: true}
		ok := true
		for _, u := range und {
			for _, x := range ctx {
				if !before(x, u) {
					ok = false
				}
			}
		}
		if ok {
			o.Verdict, o.Reason = Discharged, "the EvalContextHandler hook is consulted (and the context item prepended) before the UndefinedHandler hook is given the argument list"
		} else {
			o.Verdict, o.Reason = Finding, "the UndefinedHandler hook can be consulted before the EvalContextHandler hook has prepended the context item: it sees an argument list the function will not receive"
		}
		r.Add(o)
	}
	if n == 0 {
		// the two hooks are consulted in different functions: judge the order of those calls in a common caller
		var fc, fu *ssa.Function
		for f, hs := range calls {
			for _, h := range hs {
				if h.role == "context" {
					fc = f
				} else {
					fu = f
				}
			}
		}
		if fc != nil && fu != nil {
			for _, f := range c.G.Funcs {
				if f.Pkg != pkg {
					continue
				}
				var cc, cu []ssa.CallInstruction
				for _, ci := range callsIn(f) {
					switch ci.Common().StaticCallee() {
					case fc:
						cc = append(cc, ci)
					case fu:
						cu = append(cu, ci)
					}
				}
				if len(cc) == 0 || len(cu) == 0 {
					continue
				}
				n++
				o := Obligation{Rule: rule, Key: shortFn(f) + ":context-before-undefined", Fn: shortFn(f), Pos: c.W.Pos(cu[0].Pos()), Nontrivial: true}
				ok := true
				for _, u := range cu {
					for _, x := range cc {
						if !before(x, u) {
							ok = false
						}
					}
				}
				if ok {
					o.Verdict, o.Reason = Discharged, "the function consulting EvalContextHandler is called before the one consulting UndefinedHandler"
				} else {
					o.Verdict, o.Reason = Finding, "the UndefinedHandler hook can be consulted before the EvalContextHandler hook has prepended the context item"
				}
				r.Add(o)
			}
		}
	}
	return n
}

func runCALLSEQ(c *Ctx, r *Result, rule string) int {
	call := c.mustFn(r, "jsonata.(*goCallable).Call")
	vc := c.mustFn(r, "jsonata.(*goCallable).validateArgCount")
	vt := c.mustFn(r, "jsonata.(*goCallable).validateArgTypes")
	if call == nil || vc == nil || vt == nil {
		return 0
	}
	firstResultOf := func(v ssa.Value, callee *ssa.Function) *ssa.Call {
		ex, ok := v.(*ssa.Extract)
		if !ok || ex.Index != 0 {
			return nil
		}
		cl, ok := ex.Tuple.(*ssa.Call)
		if !ok || cl.Call.StaticCallee() != callee {
			return nil
		}
		return cl
	}
	n := 0
	// judge(args, at): the argument list args, used in block at, is validateArgTypes(validateArgCount(…))
	// with both errors tested nil; a parameter of a helper is judged at every call of the helper
	var judge func(f *ssa.Function, args ssa.Value, at *ssa.BasicBlock, depth int) string
	judge = func(f *ssa.Function, args ssa.Value, at *ssa.BasicBlock, depth int) string {
		if p, ok := args.(*ssa.Parameter); ok && depth < 2 && !c.G.AddrTaken[f] {
			idx := -1
			for i, q := range f.Params {
				if q == p {
					idx = i
				}
			}
			sites := c.G.staticUse[f]
			if idx < 0 || len(sites) == 0 || (f.Object() != nil && f.Object().Exported()) {
				return "the Go function is invoked with an argument list that is not the result of validateArgTypes: unconverted or unchecked arguments reach it"
			}
			for _, ci := range sites {
				if idx >= len(ci.Common().Args) {
					return "unresolved call of " + shortFn(f)
				}
				if why := judge(ci.Parent(), ci.Common().Args[idx], ci.Block(), depth+1); why != "" {
					return why + " (call of " + shortFn(f) + " at " + c.W.Pos(ci.Pos()) + ")"
				}
			}
			return ""
		}
		t := firstResultOf(args, vt)
		switch {
		case t == nil:
			return "the Go function is invoked with an argument list that is not the result of validateArgTypes: unconverted or unchecked arguments reach it (a surplus argument is dropped silently instead of raising ArgCountError)"
		case !errNilDominates(t, at):
			return "the Go function is invoked although validateArgTypes' error was not tested nil"
		}
		cnt := firstResultOf(t.Call.Args[1], vc)
		switch {
		case cnt == nil:
			return "validateArgTypes is given an argument list that did not go through validateArgCount (handlers, optional padding and the count check are skipped)"
		case !errNilDominates(cnt, t.Block()):
			return "validateArgTypes runs although validateArgCount's error was not tested nil"
		}
		return ""
	}
	recvT := call.Signature.Recv().Type()
	var fns []*ssa.Function
	for _, f := range c.W.FuncsOf(PkgSet{call.Pkg.Pkg: true}) {
		if f.Signature.Recv() != nil && types.Identical(f.Signature.Recv().Type(), recvT) {
			fns = append(fns, f)
		}
	}
	for _, f := range fns {
		for _, ins := range instrsIn(f) {
			cl, ok := ins.(*ssa.Call)
			if !ok || staticName(cl) != "reflect.Value.Call" {
				continue
			}
			n++
			o := Obligation{Rule: rule, Key: fmt.Sprintf("(*goCallable).Call:invoke#%d", n), Fn: shortFn(f), Pos: c.W.Pos(cl.Pos()), Nontrivial: true}
			if why := judge(f, cl.Call.Args[1], cl.Block(), 0); why != "" {
				o.Verdict, o.Reason = Finding, why
			} else {
				o.Verdict, o.Reason = Discharged, "fn.Call(argv) with argv = validateArgTypes(validateArgCount(argv)), each error tested nil on the way (at every call site when the invocation lives in a helper)"
			}
			r.Add(o)
		}
	}
	return n
}

// ---------------------------------------------------------------------------------------
// VALIDALL (C18): every sub-picture of a picture string is validated, whichever one is used.
//
// `$formatNumber` must reject a picture outside the decimal-format grammar. A picture has one or
// two sub-pictures and only one of them renders a given number; a version that parses just the
// sub-picture it is going to use accepts `0.00;(0..00)` for every positive number. Rule: in the
// function that splits the picture and hands the pieces to the validating function (the one that
// reaches validateSubpictureParts), every success return is reached only over paths on which each
// piece was either handed to the validator or tested to be empty (forward must-analysis).
// ---------------------------------------------------------------------------------------

func runVALIDALL(c *Ctx, r *Result, rule string) int {
	val := c.mustFn(r, "jxpath.validateSubpictureParts")
	if val == nil {
		return 0
	}
	// validators: functions whose every success return is behind a call of val
	isValidator := map[*ssa.Function]bool{val: true}
	for round := 0; round < 3; round++ {
		for _, f := range c.G.Funcs {
			if f.Pkg == nil || f.Pkg != val.Pkg || isValidator[f] || len(f.Blocks) == 0 {
				continue
			}
			calls := false
			for _, ci := range callsIn(f) {
				if isValidator[ci.Common().StaticCallee()] {
					calls = true
				}
			}
			if calls && allPathsCall(f, isValidator, 0) && len(f.Params) >= 1 && isStringType(f.Params[0].Type()) {
				isValidator[f] = true
			}
		}
	}
	n := 0
	for _, f := range c.G.Funcs {
		if f.Pkg == nil || f.Pkg != val.Pkg || isValidator[f] || len(f.Blocks) == 0 {
			continue
		}
		// the pieces: string results of one multi-result call that are handed to a validator
		pieces := map[ssa.Value]int{}
		var split *ssa.Call
		for _, ci := range callsIn(f) {
			if !isValidator[ci.Common().StaticCallee()] || len(ci.Common().Args) == 0 {
				continue
			}
			if ex, ok := ci.Common().Args[0].(*ssa.Extract); ok {
				if sc, ok := ex.Tuple.(*ssa.Call); ok {
					split = sc
				}
			}
		}
		if split == nil {
			continue
		}
		for _, ref := range *split.Referrers() {
			if ex, ok := ref.(*ssa.Extract); ok && isStringType(ex.Type()) {
				pieces[ex] = ex.Index
			}
		}
		if len(pieces) < 2 {
			continue
		}
		all := uint(0)
		for _, i := range pieces {
			all |= 1 << uint(i)
		}
		// forward must-analysis: bit i = piece i was validated or is empty
		in := map[*ssa.BasicBlock]uint{}
		seen := map[*ssa.BasicBlock]bool{}
		gen := func(b *ssa.BasicBlock) uint {
			var g uint
			for _, ins := range b.Instrs {
				if ci, ok := ins.(ssa.CallInstruction); ok && isValidator[ci.Common().StaticCallee()] && len(ci.Common().Args) > 0 {
					if i, ok := pieces[ci.Common().Args[0]]; ok {
						g |= 1 << uint(i)
					}
				}
			}
			return g
		}
		edge := func(from, to *ssa.BasicBlock) uint {
			iff, ok := from.Instrs[len(from.Instrs)-1].(*ssa.If)
			if !ok || from.Succs[0] == from.Succs[1] {
				return 0
			}
			bo, ok := iff.Cond.(*ssa.BinOp)
			if !ok || (bo.Op != token.EQL && bo.Op != token.NEQ) {
				return 0
			}
			for _, pr := range [][2]ssa.Value{{bo.X, bo.Y}, {bo.Y, bo.X}} {
				i, isPiece := pieces[pr[0]]
				k, isK := pr[1].(*ssa.Const)
				if !isPiece || !isK || k.Value == nil || k.Value.ExactString() != `""` {
					continue
				}
				emptyOnTrue := bo.Op == token.EQL
				if (to == from.Succs[0]) == emptyOnTrue {
					return 1 << uint(i)
				}
			}
			return 0
		}
		work := []*ssa.BasicBlock{f.Blocks[0]}
		in[f.Blocks[0]] = 0
		seen[f.Blocks[0]] = true
		for len(work) > 0 {
			b := work[0]
			work = work[1:]
			out := in[b] | gen(b)
			for _, s := range b.Succs {
				v := out | edge(b, s)
				if !seen[s] {
					seen[s] = true
					in[s] = v
					work = append(work, s)
				} else if in[s]&v != in[s] {
					in[s] &= v
					work = append(work, s)
				}
			}
		}
		rets := 0
		for _, b := range f.Blocks {
			ret, ok := b.Instrs[len(b.Instrs)-1].(*ssa.Return)
			if !ok || !seen[b] || !isSuccessReturn(ret) {
				continue
			}
			rets++
			n++
			o := Obligation{Rule: rule, Key: fmt.Sprintf("%s:success-return#%d", shortFn(f), rets), Fn: shortFn(f), Pos: c.W.Pos(ret.Pos()), Nontrivial: true}
			if got := in[b] | gen(b); got&all == all {
				o.Verdict, o.Reason = Discharged, fmt.Sprintf("every path to this return validated each of the %d sub-pictures or found it empty", len(pieces))
			} else {
				o.Verdict, o.Reason = Finding, "a picture can be accepted on a path on which one of its sub-pictures was neither validated nor empty: an invalid sub-picture goes unnoticed whenever the number's sign selects the other one"
			}
			r.Add(o)
		}
	}
	return n
}

// ---------------------------------------------------------------------------------------
// F2I (C02, C03, C18): no silent truncation of a JSONata number.
//
// JSONata numbers are doubles; where the evaluator needs an integer the specification says how
// it is obtained (floor for a predicate index, round for a radix, "must be an integer" for a
// range bound). Go's int(f) truncates toward zero, which differs from floor for every negative
// fraction (x[-0.5] must select the last item, not the first). Rule: every float -> integer
// conversion in the given functions converts the result of math.Floor/Ceil/Round/Trunc (or of a
// module function that only returns such results, or of jlib.Round), or a sum/difference of
// integral values; anything else needs a reviewed entry.
// ---------------------------------------------------------------------------------------

var f2iExceptions = map[string]string{
	"jsonata.evalRange:int#1":  "[value] both bounds were tested with isInteger (a non-integer bound is the error ErrNonIntegerLHS/RHS a few lines above), so their difference is integral",
	"jlib.callMatchFunc:int#1": "[protocol] the offsets of a match object: matchCallable writes them from int values; a user-defined matcher that returns fractions gets them truncated, which no property speaks about",
	"jlib.callMatchFunc:int#2": "[protocol] as #1",
}

func isFloatT(t types.Type) bool {
	b, ok := t.Underlying().(*types.Basic)
	return ok && b.Info()&types.IsFloat != 0
}

func integralFloat(c *Ctx, v ssa.Value, depth int) bool {
	if depth > 4 {
		return false
	}
	switch x := v.(type) {
	case *ssa.Const:
		if x.Value == nil {
			return false
		}
		f, _ := constant.Float64Val(constant.ToFloat(x.Value))
		return f == math.Trunc(f)
	case *ssa.Convert:
		// an integer converted to float
		if b, ok := x.X.Type().Underlying().(*types.Basic); ok && b.Info()&types.IsInteger != 0 {
			return true
		}
	case *ssa.Call:
		switch staticName(x) {
		case "math.Floor", "math.Ceil", "math.Round", "math.Trunc", "math.RoundToEven":
			return true
		}
		if callee := x.Call.StaticCallee(); callee != nil && c.G.InSc[callee] && len(callee.Blocks) > 0 {
			if shortFn(callee) == "jlib.Round" {
				// reviewed: Round(x, precision unset) rounds to an integer
				return true
			}
			all, n := true, 0
			for _, b := range callee.Blocks {
				if ret, ok := b.Instrs[len(b.Instrs)-1].(*ssa.Return); ok && len(ret.Results) >= 1 && isFloatT(ret.Results[0].Type()) {
					n++
					if !integralFloat(c, ret.Results[0], depth+1) {
						all = false
					}
				}
			}
			return all && n > 0
		}
	case *ssa.BinOp:
		if x.Op == token.ADD || x.Op == token.SUB || x.Op == token.MUL {
			return integralFloat(c, x.X, depth+1) && integralFloat(c, x.Y, depth+1)
		}
	case *ssa.UnOp:
		if x.Op == token.SUB {
			return integralFloat(c, x.X, depth+1)
		}
	case *ssa.Phi:
		for _, e := range x.Edges {
			if e != v && !integralFloat(c, e, depth+1) {
				return false
			}
		}
		return true
	}
	return false
}

func runF2I(c *Ctx, r *Result, rule string, fns []*ssa.Function) int {
	n := 0
	for _, f := range fns {
		ord := 0
		for _, ins := range instrsIn(f) {
			cv, ok := ins.(*ssa.Convert)
			if !ok || !isFloatT(cv.X.Type()) {
				continue
			}
			if b, ok := cv.Type().Underlying().(*types.Basic); !ok || b.Info()&types.IsInteger == 0 {
				continue
			}
			ord++
			n++
			key := fmt.Sprintf("%s:int#%d", shortFn(f), ord)
			o := Obligation{Rule: rule, Key: key, Fn: shortFn(f), Pos: c.W.Pos(cv.Pos()), Nontrivial: true}
			switch {
			case integralFloat(c, cv.X, 0):
				o.Verdict, o.Reason = Discharged, "the converted value is the result of Floor/Ceil/Round/Trunc (or a sum of such): the conversion does not truncate"
			case f2iExceptions[key] != "":
				o.Verdict, o.Reason = Exception, "reviewed ("+key+"): "+f2iExceptions[key]
			default:
				o.Verdict, o.Reason = Finding, "a JSONata number ("+describeVal(cv.X)+") is converted to an integer without Floor/Ceil/Round/Trunc: Go truncates toward zero, so negative fractions go the wrong way (x[-0.5] selects the first item instead of the last)"
			}
			r.Add(o)
		}
	}
	return n
}

// ---------------------------------------------------------------------------------------
// SORTTYPES (C13, C09): one type per sort term, remembered over ALL items.
//
// makeLessFunc compares keys with lt, which panics on a number and a string; buildSortInfo
// keeps that from happening by remembering, per sort term, which type it has seen. Two
// independent authors replaced the record by something that only remembers the previous item
// (a comparison with the neighbour; a per-term slot that is overwritten for every item, also for
// items without the key): mixed keys separated by an item that lacks the key then reach lt, or
// are silently mis-ordered. Rule, in buildSortInfo: (1) every return of ErrSortMismatch is
// controlled by a load from a per-term record (a slice made in the function, indexed by the
// index of the loop over the terms); (2) every store into such a record is monotone — a constant
// true, or a store under a test that the slot is still unset.
// ---------------------------------------------------------------------------------------

func runSORTTYPES(c *Ctx, r *Result, rule string) int {
	f := c.mustFn(r, "jsonata.buildSortInfo")
	if f == nil {
		return 0
	}
	errConst := int64(-1)
	if k, ok := f.Pkg.Pkg.Scope().Lookup("ErrSortMismatch").(*types.Const); ok {
		errConst, _ = constant.Int64Val(k.Val())
	}
	if errConst < 0 {
		r.LoseAnchor("SORTTYPES: constant ErrSortMismatch not found")
		return 0
	}
	// slices made in f
	madeHere := func(v ssa.Value) bool {
		seen := map[ssa.Value]bool{}
		var walk func(v ssa.Value) bool
		walk = func(v ssa.Value) bool {
			if seen[v] {
				return true
			}
			seen[v] = true
			switch x := v.(type) {
			case *ssa.MakeSlice:
				return true
			case *ssa.Phi:
				for _, e := range x.Edges {
					if !walk(e) {
						return false
					}
				}
				return true
			case *ssa.UnOp: // load of a local cell holding a made slice
				if al, ok := x.X.(*ssa.Alloc); ok && x.Op == token.MUL {
					if stores, ok := cellStores(al); ok && len(stores) > 0 {
						for _, st := range stores {
							if !walk(st.Val) {
								return false
							}
						}
						return true
					}
				}
			}
			return false
		}
		return walk(v)
	}
	isRecordLoad := func(v ssa.Value) (*ssa.IndexAddr, bool) {
		ld, ok := v.(*ssa.UnOp)
		if !ok || ld.Op != token.MUL {
			return nil, false
		}
		ia, ok := ld.X.(*ssa.IndexAddr)
		if !ok || !madeHere(ia.X) {
			return nil, false
		}
		return ia, true
	}
	var condRecord func(cond ssa.Value, depth int) (*ssa.IndexAddr, bool)
	condRecord = func(cond ssa.Value, depth int) (*ssa.IndexAddr, bool) {
		if depth > 3 {
			return nil, false
		}
		if ia, ok := isRecordLoad(cond); ok {
			return ia, true
		}
		switch x := cond.(type) {
		case *ssa.UnOp:
			if x.Op == token.NOT {
				return condRecord(x.X, depth+1)
			}
		case *ssa.BinOp:
			if ia, ok := condRecord(x.X, depth+1); ok {
				return ia, true
			}
			return condRecord(x.Y, depth+1)
		}
		return nil, false
	}
	n := 0
	records := map[string]bool{} // types of the record slices
	var recordIdx []ssa.Value
	ord := 0
	for _, ins := range instrsIn(f) {
		call, ok := ins.(*ssa.Call)
		if !ok {
			continue
		}
		isMismatch := false
		for _, a := range call.Call.Args {
			if k, ok := a.(*ssa.Const); ok && k.Value != nil && k.Value.Kind() == constant.Int {
				if nt, ok := k.Type().(*types.Named); ok && nt.Obj().Name() == "ErrType" {
					if v, _ := constant.Int64Val(k.Value); v == errConst {
						isMismatch = true
					}
				}
			}
		}
		if !isMismatch {
			continue
		}
		ord++
		n++
		o := Obligation{Rule: rule, Key: fmt.Sprintf("buildSortInfo:mismatch#%d", ord), Fn: shortFn(f), Pos: c.W.Pos(call.Pos()), Nontrivial: true}
		var rec *ssa.IndexAddr
		for d := call.Block(); d != nil && rec == nil; d = d.Idom() {
			if len(d.Preds) != 1 {
				continue
			}
			pr := d.Preds[0]
			if iff, ok := pr.Instrs[len(pr.Instrs)-1].(*ssa.If); ok {
				if ia, ok := condRecord(iff.Cond, 0); ok {
					rec = ia
				}
			}
		}
		if rec == nil {
			o.Verdict, o.Reason = Finding, "the mixed-type error of a sort term is not decided from a per-term record kept over all items (a slice made here and indexed by the term): comparing with the neighbouring item only misses mixed keys separated by an item without the key, and lt panics on them"
		} else {
			o.Verdict, o.Reason = Discharged, "the error is controlled by the per-term record "+rec.X.Name()+"["+rec.Index.Name()+"]"
			records[rec.X.Type().String()] = true
			recordIdx = append(recordIdx, rec.Index)
		}
		r.Add(o)
	}
	// stores into the records are monotone
	sord := 0
	for _, ins := range instrsIn(f) {
		st, ok := ins.(*ssa.Store)
		if !ok {
			continue
		}
		ia, ok := st.Addr.(*ssa.IndexAddr)
		if !ok || !records[ia.X.Type().String()] || !madeHere(ia.X) {
			continue
		}
		sord++
		n++
		o := Obligation{Rule: rule, Key: fmt.Sprintf("buildSortInfo:record-store#%d", sord), Fn: shortFn(f), Pos: c.W.Pos(st.Pos()), Nontrivial: true}
		mono := false
		if k, ok := st.Val.(*ssa.Const); ok && k.Value != nil && k.Value.Kind() == constant.Bool && constant.BoolVal(k.Value) {
			mono = true
		}
		if !mono {
			// only written while still unset: dominated by `record[j] == zero`
			mono = domGuard(st.Block(), func(cond ssa.Value) (int, bool) {
				bo, ok := cond.(*ssa.BinOp)
				if !ok || (bo.Op != token.EQL && bo.Op != token.NEQ) {
					return 0, false
				}
				for _, pr := range [][2]ssa.Value{{bo.X, bo.Y}, {bo.Y, bo.X}} {
					ia2, isRec := isRecordLoad(pr[0])
					k, isK := pr[1].(*ssa.Const)
					if !isRec || !isK || ia2.X != ia.X && ia2.X.Type() != ia.X.Type() {
						continue
					}
					zero := k.Value == nil
					if k.Value != nil {
						switch k.Value.Kind() {
						case constant.Int:
							v, _ := constant.Int64Val(k.Value)
							zero = v == 0
						case constant.Bool:
							zero = !constant.BoolVal(k.Value)
						case constant.String:
							zero = constant.StringVal(k.Value) == ""
						}
					}
					if !zero {
						continue
					}
					if bo.Op == token.EQL {
						return 0, true
					}
					return 1, true
				}
				return 0, false
			})
		}
		if mono {
			o.Verdict, o.Reason = Discharged, "the record only ever goes from unset to set"
		} else {
			o.Verdict, o.Reason = Finding, "the per-term type record is overwritten with a computed value ("+describeVal(st.Val)+"): it then remembers the latest item only, and an item without the key resets it"
		}
		r.Add(o)
	}
	return n
}

// ---------------------------------------------------------------------------------------
// NEGFOLD (C03): the optimiser folds a negation only into a number literal.
//
// evalNegation is where a non-numeric operand of unary minus becomes an error. The optimiser may
// fold `-<number literal>`; anything else it returns for a NegationNode must still be a
// NegationNode, or the check is optimised away (`--"a"` = "a"). Rule: every success return of
// (*NegationNode).optimize boxes a *NegationNode or a *NumberNode.
// ---------------------------------------------------------------------------------------

func runNEGFOLD(c *Ctx, r *Result, rule string) int {
	f := c.mustFn(r, "jparse.(*NegationNode).optimize")
	if f == nil {
		return 0
	}
	n := 0
	for _, b := range f.Blocks {
		ret, ok := b.Instrs[len(b.Instrs)-1].(*ssa.Return)
		if !ok || len(ret.Results) != 2 || !isSuccessReturn(ret) {
			continue
		}
		n++
		o := Obligation{Rule: rule, Key: fmt.Sprintf("(*NegationNode).optimize:result#%d", n), Fn: shortFn(f), Pos: c.W.Pos(ret.Pos()), Nontrivial: true}
		bad := ""
		var walk func(v ssa.Value, seen map[ssa.Value]bool)
		walk = func(v ssa.Value, seen map[ssa.Value]bool) {
			if seen[v] {
				return
			}
			seen[v] = true
			switch x := v.(type) {
			case *ssa.Phi:
				for _, e := range x.Edges {
					walk(e, seen)
				}
			case *ssa.MakeInterface:
				t := shortType(x.X.Type())
				if t != "*jparse.NegationNode" && t != "*jparse.NumberNode" {
					bad = "a " + t
				}
			case *ssa.Const:
				if !x.IsNil() {
					bad = "a constant"
				}
			default:
				bad = "a node of unknown type (" + describeVal(v) + ")"
			}
		}
		walk(ret.Results[0], map[ssa.Value]bool{})
		if bad == "" {
			o.Verdict, o.Reason = Discharged, "the optimised negation is a NegationNode (checked at evaluation time) or a folded number literal"
		} else {
			o.Verdict, o.Reason = Finding, "the optimiser replaces a negation by "+bad+": the operand-type check of unary minus in evalNegation is optimised away"
		}
		r.Add(o)
	}
	return n
}

// ---------------------------------------------------------------------------------------
// ARGPOS (C12, C20): an argument-type error names the position of the argument in the call.
//
// Rule: in the validateArgTypes methods, the position handed to newArgTypeError is idx+1 where
// idx is the index of the loop that ranges over the argument list parameter itself — not over a
// sub-slice of it, whose indexes start again at 0.
// ---------------------------------------------------------------------------------------

func runARGPOS(c *Ctx, r *Result, rule string) int {
	mk := c.mustFn(r, "jsonata.newArgTypeError")
	if mk == nil {
		return 0
	}
	n := 0
	for _, f := range c.G.Funcs {
		// the functions that check an argument list against a signature: they take the list
		// ([]reflect.Value) and report a position that is computed, not a constant
		if f.Pkg == nil || f.Pkg != mk.Pkg || len(f.Blocks) == 0 {
			continue
		}
		var argv *ssa.Parameter
		for _, p := range f.Params {
			if sl, ok := p.Type().Underlying().(*types.Slice); ok && isReflectValue(sl.Elem()) {
				argv = p
			}
		}
		if argv == nil {
			continue
		}
		ord := 0
		for _, ci := range callsIn(f) {
			if ci.Common().StaticCallee() != mk || len(ci.Common().Args) < 2 {
				continue
			}
			if _, isConst := ci.Common().Args[1].(*ssa.Const); isConst {
				continue
			}
			ord++
			n++
			o := Obligation{Rule: rule, Key: fmt.Sprintf("%s:position#%d", shortFn(f), ord), Fn: shortFn(f), Pos: c.W.Pos(ci.Pos()), Nontrivial: true}
			pos := ci.Common().Args[1]
			ok := false
			why := "the position is " + describeVal(pos)
			if add, isAdd := pos.(*ssa.BinOp); isAdd && add.Op == token.ADD {
				if k, isK := intConstOf(add.Y); isK && k == 1 {
					// idx is the induction variable of a loop bounded by len(argv)
					idx := add.X
					for _, hb := range f.Blocks {
						iff, isIf := hb.Instrs[len(hb.Instrs)-1].(*ssa.If)
						if !isIf || !hb.Succs[0].Dominates(ci.Block()) && hb.Succs[0] != ci.Block() {
							continue
						}
						bo, isBo := iff.Cond.(*ssa.BinOp)
						if !isBo || bo.Op != token.LSS || bo.X != idx {
							continue
						}
						if lc, isLen := bo.Y.(*ssa.Call); isLen && isLenCall(lc) && argv != nil && lc.Call.Args[0] == ssa.Value(argv) {
							ok = true
						} else {
							why = "the loop index runs over " + describeVal(bo.Y) + ", not over the argument list itself"
						}
					}
				}
			}
			if ok {
				o.Verdict, o.Reason = Discharged, "the reported position is the index in the argument list plus one"
			} else {
				o.Verdict, o.Reason = Finding, "the argument position reported by an ArgTypeError is not the index in the argument list plus one: "+why
			}
			r.Add(o)
		}
	}
	return n
}

// ---------------------------------------------------------------------------------------
// OPTALL (C08, C09): the optimised tree contains optimised nodes only.
//
// eval has no case for the parser's interim node types (dotNode, predicateNode,
// singletonArrayNode): TAB shows their own optimize methods never return the receiver, which is
// only enough if every child that is put into the optimised tree went through optimize() too. A
// child taken from the receiver as it was parsed and stored or returned unoptimised (`append(…,
// n.rhs)` instead of `append(…, rhs)`) makes Eval panic with "unexpected node type". Rule, in
// every optimize method of jparse: a node value read from a field of the receiver (or an element
// of such a field) that has not been replaced by the result of an optimize() call is "raw"; raw
// values may be inspected and have optimize() called on them, but are never stored into a node,
// appended to a node list, or returned.
// ---------------------------------------------------------------------------------------

func runOPTALL(c *Ctx, r *Result, rule string) int {
	pkg := c.W.LibSSA["jparse"]
	if pkg == nil {
		r.LoseAnchor("OPTALL: package jparse not loaded")
		return 0
	}
	var nodeIface *types.Interface
	if tn, ok := pkg.Pkg.Scope().Lookup("Node").(*types.TypeName); ok {
		nodeIface, _ = tn.Type().Underlying().(*types.Interface)
	}
	if nodeIface == nil {
		r.LoseAnchor("OPTALL: interface jparse.Node not found")
		return 0
	}
	var isNodeT func(t types.Type, depth int) bool
	isNodeT = func(t types.Type, depth int) bool {
		if depth > 3 {
			return false
		}
		switch u := t.Underlying().(type) {
		case *types.Interface:
			return types.Identical(u, nodeIface)
		case *types.Slice:
			return isNodeT(u.Elem(), depth+1)
		case *types.Array:
			return isNodeT(u.Elem(), depth+1)
		case *types.Pointer:
			return types.Implements(t, nodeIface) && !types.IsInterface(u.Elem())
		}
		return false
	}
	n := 0
	for _, f := range c.G.Funcs {
		if f.Pkg != pkg || f.Name() != "optimize" || f.Signature.Recv() == nil || len(f.Blocks) == 0 || len(f.Params) == 0 {
			continue
		}
		recv := f.Params[0]
		// stores of optimised values into receiver fields: field index -> stores
		type fstore struct {
			st  *ssa.Store
			fld int
		}
		var fstores []fstore
		raw := map[ssa.Value]bool{}
		isOptimizeCall := func(v ssa.Value) bool {
			switch x := v.(type) {
			case *ssa.Extract:
				if call, ok := x.Tuple.(*ssa.Call); ok && x.Index == 0 {
					if call.Call.IsInvoke() {
						return call.Call.Method.Name() == "optimize"
					}
					if callee := call.Call.StaticCallee(); callee != nil {
						return callee.Name() == "optimize" || callee.Name() == "optimizeNodes"
					}
				}
			}
			return false
		}
		instrs := instrsIn(f)
		for _, ins := range instrs {
			if st, ok := ins.(*ssa.Store); ok {
				if fa, ok := st.Addr.(*ssa.FieldAddr); ok && fa.X == ssa.Value(recv) {
					fstores = append(fstores, fstore{st, fa.Field})
				}
			}
		}
		// fixpoint over raw-ness
		for changed := true; changed; {
			changed = false
			mark := func(v ssa.Value) {
				if !raw[v] {
					raw[v] = true
					changed = true
				}
			}
			for _, ins := range instrs {
				v, ok := ins.(ssa.Value)
				if !ok || raw[v] {
					continue
				}
				switch x := ins.(type) {
				case *ssa.UnOp:
					if x.Op != token.MUL || !isNodeT(x.Type(), 0) {
						continue
					}
					switch a := x.X.(type) {
					case *ssa.FieldAddr:
						if a.X != ssa.Value(recv) {
							continue
						}
						// replaced earlier by an optimised value?
						replaced := false
						for _, fs := range fstores {
							if fs.fld == a.Field && !raw[fs.st.Val] && instrBefore(fs.st, x) {
								replaced = true
							}
						}
						if !replaced {
							mark(x)
						}
					case *ssa.IndexAddr:
						if raw[a.X] {
							// an element of a raw list: raw unless that element was replaced earlier
							replaced := false
							for _, i2 := range instrs {
								if st, ok := i2.(*ssa.Store); ok && !raw[st.Val] && instrBefore(st, x) {
									if ia2, ok := st.Addr.(*ssa.IndexAddr); ok && ia2.X == a.X && ia2.Index == a.Index {
										replaced = true
									}
								}
							}
							if !replaced {
								mark(x)
							}
						}
					}
				case *ssa.Phi:
					for _, e := range x.Edges {
						if raw[e] {
							mark(x)
						}
					}
				case *ssa.TypeAssert:
					if raw[x.X] && isNodeT(x.Type(), 0) {
						mark(x)
					}
				case *ssa.Extract:
					if ta, ok := x.Tuple.(*ssa.TypeAssert); ok && x.Index == 0 && raw[ta.X] && isNodeT(x.Type(), 0) {
						mark(x)
					}
				case *ssa.MakeInterface:
					if raw[x.X] {
						mark(x)
					}
				case *ssa.ChangeInterface:
					if raw[x.X] {
						mark(x)
					}
				case *ssa.Slice:
					if raw[x.X] {
						mark(x)
					}
				case *ssa.Call:
					if bi, ok := x.Call.Value.(*ssa.Builtin); ok && bi.Name() == "append" && isNodeT(x.Type(), 0) {
						if raw[x.Call.Args[0]] {
							mark(x)
						}
						for _, e := range variadicElems(x.Call.Args[1]) {
							if raw[e] {
								mark(x)
							}
						}
						if len(x.Call.Args) > 1 && raw[x.Call.Args[1]] {
							mark(x)
						}
					}
				}
			}
		}
		_ = isOptimizeCall
		ord := 0
		report := func(ins ssa.Instruction, what string, v ssa.Value) {
			ord++
			n++
			o := Obligation{Rule: rule, Key: fmt.Sprintf("%s:%s#%d", shortFn(f), what, ord), Fn: shortFn(f), Pos: c.W.Pos(ins.Pos()), Nontrivial: true}
			if raw[v] {
				o.Verdict, o.Reason = Finding, "a child node taken from the receiver as it was parsed ("+describeVal(v)+") is "+map[string]string{"store": "stored into the optimised tree", "return": "returned as the optimised node"}[what]+" without having gone through optimize(): an interim node type can reach Eval, which has no case for it"
			} else {
				o.Verdict, o.Reason = Discharged, "only optimised children (results of optimize(), or nodes built here from them) are put into the tree"
			}
			r.Add(o)
		}
		for _, ins := range instrs {
			switch x := ins.(type) {
			case *ssa.Store:
				if !isNodeT(x.Val.Type(), 0) {
					continue
				}
				if _, isAlloc := x.Addr.(*ssa.Alloc); isAlloc {
					continue // a local variable
				}
				// writing a field's own value back is no change
				if ld, ok := x.Val.(*ssa.UnOp); ok && ld.Op == token.MUL && ld.X == x.Addr {
					continue
				}
				report(x, "store", x.Val)
			case *ssa.Return:
				if len(x.Results) == 2 && isSuccessReturn(x) {
					report(x, "return", x.Results[0])
				}
			}
		}
	}
	return n
}

// ---------------------------------------------------------------------------------------
// ESCSKIP (C11): inside a string literal the rune after a backslash is skipped.
//
// A JSON text such as "\"" or "\\" is a string literal only if the scanner does not take the
// quote (or the second backslash) after a backslash for a delimiter. Rule, in scanString: the
// rune read by nextRune is compared with '\\', and on the true edge of that comparison every
// path back to the read passes another nextRune call (the escaped rune is consumed, whatever it
// is). A scanner that no longer works rune by rune is reported as not decided.
// ---------------------------------------------------------------------------------------

func runESCSKIP(c *Ctx, r *Result, rule string) int {
	return runESCSKIPOn(c, r, rule, "jparse.(*lexer).scanString", "scanString")
}

// runESCSKIPOn applies the rule to the scanner method fname (scanString for string literals,
// scanRegex for regular-expression literals, where the escaped rune may be the delimiter "/").
// Besides the form "on a backslash read one more rune" it knows the form "remember the previous
// rune": the comparison of a loop-carried variable with the escape character. That form is right
// only if the variable does not hold the escaped rune in the next round (after "\\" the second
// backslash would escape what follows): on every path from the escaped case back to the loop head
// the value carried over must not be the rune just read.
func runESCSKIPOn(c *Ctx, r *Result, rule, fname, label string) int {
	f := c.mustFn(r, fname)
	next := c.mustFn(r, "jparse.(*lexer).nextRune")
	if f == nil || next == nil {
		return 0
	}
	isNext := func(v ssa.Value) bool {
		call, ok := v.(*ssa.Call)
		return ok && call.Call.StaticCallee() == next
	}
	hasNext := func(b *ssa.BasicBlock, except ssa.Value) bool {
		for _, ins := range b.Instrs {
			if v, ok := ins.(ssa.Value); ok && isNext(v) && v != except {
				return true
			}
		}
		return false
	}
	n := 0
	// the scan loop may live in a method scanString calls
	var blocks []*ssa.BasicBlock
	blocks = append(blocks, f.Blocks...)
	for _, ci := range callsIn(f) {
		if g := ci.Common().StaticCallee(); g != nil && g != next && g.Pkg == f.Pkg && g.Signature.Recv() != nil && len(g.Blocks) > 0 {
			blocks = append(blocks, g.Blocks...)
		}
	}
	for _, hb := range blocks {
		iff, ok := hb.Instrs[len(hb.Instrs)-1].(*ssa.If)
		if !ok {
			continue
		}
		bo, ok := iff.Cond.(*ssa.BinOp)
		if !ok || (bo.Op != token.EQL && bo.Op != token.NEQ) {
			continue
		}
		var read ssa.Value
		for _, pr := range [][2]ssa.Value{{bo.X, bo.Y}, {bo.Y, bo.X}} {
			if k, isK := intConstOf(pr[1]); isK && k == '\\' && isNext(pr[0]) {
				read = pr[0]
			}
		}
		if read == nil {
			// the previous-rune form
			for _, pr := range [][2]ssa.Value{{bo.X, bo.Y}, {bo.Y, bo.X}} {
				k, isK := intConstOf(pr[1])
				phi, isPhi := pr[0].(*ssa.Phi)
				if !isK || k != '\\' || !isPhi {
					continue
				}
				hd := phi.Block()
				back := false
				for _, p := range hd.Preds {
					if hd.Dominates(p) {
						back = true
					}
				}
				if !back {
					continue
				}
				n++
				o := Obligation{Rule: rule, Key: fmt.Sprintf("%s:escape-prev#%d", label, n), Fn: shortFn(f), Pos: c.W.Pos(bo.Pos()), Nontrivial: true}
				esc := hb.Succs[0]
				if bo.Op == token.NEQ {
					esc = hb.Succs[1]
				}
				// walk from the escaped case to the loop head; look at what the head's phi receives
				bad := false
				seenB := map[*ssa.BasicBlock]bool{}
				var walk func(b *ssa.BasicBlock)
				walk = func(b *ssa.BasicBlock) {
					if seenB[b] || bad {
						return
					}
					seenB[b] = true
					for _, sb := range b.Succs {
						if sb == hd {
							for i, p := range hd.Preds {
								if p != b {
									continue
								}
								in := phi.Edges[i]
								// resolve a merge phi on the way: the value it has when coming from the
								// blocks we walked is not tracked, so anything but a constant is suspect
								if _, isConst := in.(*ssa.Const); !isConst {
									bad = true
								}
							}
							continue
						}
						walk(sb)
					}
				}
				walk(esc)
				if bad {
					o.Verdict, o.Reason = Finding, "the scanner decides \"escaped\" by the previous rune, and after an escaped rune that rune itself is carried over as the previous one: in \"\\\\\" followed by the delimiter the second backslash escapes the delimiter, so a literal that ends in an escaped backslash is not terminated where it ends"
				} else {
					o.Verdict, o.Reason = Discharged, "previous-rune form: after an escaped rune a constant is carried over, so the escaped rune cannot escape the next one"
				}
				r.Add(o)
			}
			continue
		}
		n++
		o := Obligation{Rule: rule, Key: fmt.Sprintf("%s:escape#%d", label, n), Fn: shortFn(f), Pos: c.W.Pos(bo.Pos()), Nontrivial: true}
		esc := hb.Succs[0]
		if bo.Op == token.NEQ {
			esc = hb.Succs[1]
		}
		home := read.(ssa.Instruction).Block()
		seen := map[*ssa.BasicBlock]bool{}
		var unskipped func(b *ssa.BasicBlock) bool
		unskipped = func(b *ssa.BasicBlock) bool {
			if seen[b] {
				return false
			}
			seen[b] = true
			if hasNext(b, read) {
				return false
			}
			if b == home {
				return true
			}
			for _, s := range b.Succs {
				if unskipped(s) {
					return true
				}
			}
			return false
		}
		if unskipped(esc) {
			o.Verdict, o.Reason = Finding, "after a backslash the scanner can go back to reading the next rune without having consumed the escaped one: an escaped quote or backslash is taken for a delimiter"
		} else {
			o.Verdict, o.Reason = Discharged, "after a backslash the next rune is consumed before the scan continues"
		}
		r.Add(o)
	}
	if n == 0 {
		r.Add(Obligation{Rule: rule, Key: label + ":escape", Fn: shortFn(f), Pos: c.W.Pos(f.Pos()), Nontrivial: true, Verdict: Undecided,
			Reason: label + " does not compare the rune it reads with the escape character: how it finds the end of a literal that contains an escaped delimiter is not decided by this rule"})
		n++
	}
	return n
}

// ---------------------------------------------------------------------------------------
// NUMGATE (C18): what $number accepts is decided by the reviewed regular expression.
//
// strconv.ParseFloat accepts far more than the property allows ("1.", ".5", "0x10", "1_0",
// "Inf", "+1"), so jlib.Number gates it with a regular expression. Rule: every ParseFloat call
// in jlib.Number is dominated by the true edge of MatchString on a package-level pattern applied
// to the same string, and the pattern — read from the package initialiser and compiled by the
// checker itself — accepts and rejects a battery of strings written from the property's grammar
// (optional minus, digits, optional fraction with at least one digit, optional exponent with at
// least one digit). A gate of another kind is reported as not decided.
// ---------------------------------------------------------------------------------------

var numgateAccept = []string{"0", "-0", "7", "12", "-12", "1.5", "-1.5", "0.25", "1e5", "1E5", "1e+5", "1e-5", "1.5e10", "-1.5E-10", "12345678901234567890"}
var numgateReject = []string{"", "-", "+1", "1.", ".5", "-.5", "1e", "1e+", "1e-", "e5", "1.e3", " 1", "1 ", "0x10", "1_0", "NaN", "Inf", "Infinity", "--1", "1.2.3", "1e5.5", "1e5e5", "١", "1,5", "true"}

func runNUMGATE(c *Ctx, r *Result, rule string) int {
	f := c.mustFn(r, "jlib.Number")
	if f == nil {
		return 0
	}
	patternOf := func(g *ssa.Global) (string, bool) {
		init := g.Pkg.Func("init")
		if init == nil {
			return "", false
		}
		for _, ins := range instrsIn(init) {
			st, ok := ins.(*ssa.Store)
			if !ok || st.Addr != ssa.Value(g) {
				continue
			}
			call, ok := st.Val.(*ssa.Call)
			if !ok || (staticName(call) != "regexp.MustCompile" && staticName(call) != "regexp.MustCompilePOSIX") {
				return "", false
			}
			k, ok := call.Call.Args[0].(*ssa.Const)
			if !ok || k.Value == nil || k.Value.Kind() != constant.String {
				return "", false
			}
			return constant.StringVal(k.Value), true
		}
		return "", false
	}
	n := 0
	// $number and the package functions it calls (the gate and the conversion may have been
	// extracted together into a helper)
	var all []ssa.Instruction
	for _, g := range withCallees(c, []*ssa.Function{f}, 2) {
		if g.Pkg == f.Pkg {
			all = append(all, instrsIn(g)...)
		}
	}
	for _, ins := range all {
		call, ok := ins.(*ssa.Call)
		if !ok || staticName(call) != "strconv.ParseFloat" {
			continue
		}
		n++
		o := Obligation{Rule: rule, Key: fmt.Sprintf("jlib.Number:ParseFloat#%d", n), Fn: shortFn(call.Parent()), Pos: c.W.Pos(call.Pos()), Nontrivial: true}
		s := call.Call.Args[0]
		pattern, found := "", false
		domGuard(call.Block(), func(cond ssa.Value) (int, bool) {
			m, ok := cond.(*ssa.Call)
			if !ok || staticName(m) != "*regexp.Regexp.MatchString" || len(m.Call.Args) != 2 || m.Call.Args[1] != s {
				return 0, false
			}
			if ld, ok := m.Call.Args[0].(*ssa.UnOp); ok && ld.Op == token.MUL {
				if g, ok := ld.X.(*ssa.Global); ok {
					if p, ok := patternOf(g); ok {
						pattern, found = p, true
						return 0, true
					}
				}
			}
			return 0, false
		})
		if !found {
			// `ok && re.MatchString(s)`: the call sits in the block that the ok-test leads to
			for d := call.Block(); d != nil && !found; d = d.Idom() {
				if len(d.Preds) != 1 {
					continue
				}
				pr := d.Preds[0]
				iff, isIf := pr.Instrs[len(pr.Instrs)-1].(*ssa.If)
				if !isIf || pr.Succs[0] != d {
					continue
				}
				if m, ok := iff.Cond.(*ssa.Call); ok && staticName(m) == "*regexp.Regexp.MatchString" && len(m.Call.Args) == 2 && m.Call.Args[1] == s {
					if ld, ok := m.Call.Args[0].(*ssa.UnOp); ok && ld.Op == token.MUL {
						if g, ok := ld.X.(*ssa.Global); ok {
							if p, ok := patternOf(g); ok {
								pattern, found = p, true
							}
						}
					}
				}
			}
		}
		switch {
		case !found:
			o.Verdict, o.Reason = Undecided, "strconv.ParseFloat in $number is not gated by MatchString of a package-level regular expression on the same string: which strings $number accepts is not decided by this rule (ParseFloat alone accepts \"1.\", \".5\", \"0x10\", \"Inf\")"
		default:
			re, err := regexp.Compile(pattern)
			if err != nil {
				o.Verdict, o.Reason = Finding, "the number pattern does not compile: "+err.Error()
				break
			}
			bad := ""
			for _, a := range numgateAccept {
				if !re.MatchString(a) {
					bad = fmt.Sprintf("rejects %q", a)
				}
			}
			for _, x := range numgateReject {
				if re.MatchString(x) {
					bad = fmt.Sprintf("accepts %q", x)
				}
			}
			if bad == "" {
				o.Verdict, o.Reason = Discharged, fmt.Sprintf("gated by the pattern %s, which accepts the %d well-formed and rejects the %d malformed strings of the battery", pattern, len(numgateAccept), len(numgateReject))
			} else {
				o.Verdict, o.Reason = Finding, "the pattern "+pattern+" that gates $number "+bad+", against the number grammar of the property"
			}
		}
		r.Add(o)
	}
	return n
}

// ---------------------------------------------------------------------------------------
// MISSLAST (C13): items without the key sort after all items that have it.
//
// In the order-by comparator less(i, j): when the key of item i is absent (and that of j is
// not) the answer is false, when the key of item j is absent the answer is true — whatever the
// direction of the term. Rule: in every func(int, int) bool closure of the evaluator that tests a
// value reached through its first (second) parameter against `undefined` and returns a constant
// on the true edge of that test, the constant is false (true).
// ---------------------------------------------------------------------------------------

func runMISSLAST(c *Ctx, r *Result, rule string) int {
	mk := c.mustFn(r, "jsonata.makeLessFunc")
	if mk == nil {
		return 0
	}
	n := 0
	for _, f := range mk.AnonFuncs {
		if len(f.Params) != 2 || !isIntType(f.Params[0].Type()) || !isIntType(f.Params[1].Type()) {
			continue
		}
		// which parameter does the value come from (info[i].values[t] -> i)?
		var from func(v ssa.Value, depth int) int
		from = func(v ssa.Value, depth int) int {
			if depth > 10 {
				return -1
			}
			switch x := v.(type) {
			case *ssa.UnOp:
				return from(x.X, depth+1)
			case *ssa.FieldAddr:
				return from(x.X, depth+1)
			case *ssa.Field:
				return from(x.X, depth+1)
			case *ssa.IndexAddr:
				for i, p := range f.Params {
					if x.Index == ssa.Value(p) {
						return i
					}
				}
				return from(x.X, depth+1)
			case *ssa.Index:
				for i, p := range f.Params {
					if x.Index == ssa.Value(p) {
						return i
					}
				}
				return from(x.X, depth+1)
			}
			return -1
		}
		// the absent-key test a branch condition makes: which item, and on which edge it is absent
		undefTest := func(cond ssa.Value) (int, bool) {
			bo, ok := cond.(*ssa.BinOp)
			if !ok || bo.Op != token.EQL {
				return -1, false
			}
			var x ssa.Value
			switch {
			case isUndefinedLoad(bo.Y) || isZeroValueConst(bo.Y):
				x = bo.X
			case isUndefinedLoad(bo.X) || isZeroValueConst(bo.X):
				x = bo.Y
			default:
				return -1, false
			}
			who := from(x, 0)
			return who, who >= 0
		}
		for _, rb := range f.Blocks {
			ret, ok := rb.Instrs[len(rb.Instrs)-1].(*ssa.Return)
			if !ok || len(rb.Instrs) != 1 || len(ret.Results) != 1 {
				continue
			}
			k, ok := ret.Results[0].(*ssa.Const)
			if !ok || k.Value == nil || k.Value.Kind() != constant.Bool {
				continue
			}
			// what the dominating branches say about the two keys
			absent := map[int]bool{}
			present := map[int]bool{}
			for d := rb; d != nil; d = d.Idom() {
				if len(d.Preds) != 1 {
					continue
				}
				pr := d.Preds[0]
				iff, isIf := pr.Instrs[len(pr.Instrs)-1].(*ssa.If)
				if !isIf || pr.Succs[0] == pr.Succs[1] {
					continue
				}
				if who, ok := undefTest(iff.Cond); ok {
					if d == pr.Succs[0] {
						absent[who] = true
					} else {
						present[who] = true
					}
				}
			}
			var who int
			switch {
			case absent[0] && !absent[1]:
				who = 0
			case absent[1] && !absent[0]:
				who = 1
			default:
				continue
			}
			n++
			o := Obligation{Rule: rule, Key: fmt.Sprintf("%s:missing-key#%d", shortFn(f), n), Fn: shortFn(f), Pos: c.W.Pos(ret.Pos()), Nontrivial: true}
			got := constant.BoolVal(k.Value)
			want := who == 1 // key of j missing: i sorts first
			if got == want {
				o.Verdict, o.Reason = Discharged, fmt.Sprintf("when the key of the %s item is absent the comparator answers %v: items without the key go last", []string{"first", "second"}[who], got)
			} else {
				o.Verdict, o.Reason = Finding, fmt.Sprintf("when the key of the %s item is absent the comparator answers %v: items without the key sort before the others", []string{"first", "second"}[who], got)
			}
			r.Add(o)
		}
	}
	return n
}

// ---------------------------------------------------------------------------------------
// PARENS (C01, C04): parentheses are opaque to the tree builder.
//
// A parenthesised sub-expression is one step of a path, evaluated once per context item in a
// scope of its own; `(a.b).c`, `a.(b.[c])` and `($$.a).b` differ from their flattened forms
// exactly where the evaluator treats first steps, constructor steps and [] specially. Rule
// (who-may-read): inside jparse the contents of a BlockNode (field Exprs) are read only by
// BlockNode's own methods; no optimize method or helper looks inside a block to splice its
// contents into the enclosing node.
// ---------------------------------------------------------------------------------------

func runPARENS(c *Ctx, r *Result, rule string) int {
	pkg := c.W.LibSSA["jparse"]
	if pkg == nil {
		r.LoseAnchor("PARENS: package jparse not loaded")
		return 0
	}
	var blockT types.Type
	if tn, ok := pkg.Pkg.Scope().Lookup("BlockNode").(*types.TypeName); ok {
		blockT = tn.Type()
	}
	if blockT == nil {
		r.LoseAnchor("PARENS: type BlockNode not found")
		return 0
	}
	n := 0
	own := 0
	for _, f := range c.G.Funcs {
		if f.Pkg != pkg || len(f.Blocks) == 0 {
			continue
		}
		isOwn := false
		if rv := f.Signature.Recv(); rv != nil {
			t := rv.Type()
			if p, ok := t.(*types.Pointer); ok {
				t = p.Elem()
			}
			isOwn = types.Identical(t, blockT)
		}
		ord := 0
		for _, ins := range instrsIn(f) {
			var base ssa.Value
			fld := -1
			switch x := ins.(type) {
			case *ssa.FieldAddr:
				base, fld = x.X, x.Field
			case *ssa.Field:
				base, fld = x.X, x.Field
			default:
				continue
			}
			t := base.Type()
			if p, ok := t.Underlying().(*types.Pointer); ok {
				t = p.Elem()
			}
			if !types.Identical(t, blockT) {
				continue
			}
			if st, ok := blockT.Underlying().(*types.Struct); !ok || st.Field(fld).Name() != "Exprs" {
				continue
			}
			if isOwn {
				own++
				continue
			}
			// the constructor fills the field of the node it has just allocated
			if _, fresh := base.(*ssa.Alloc); fresh {
				continue
			}
			ord++
			n++
			r.Add(Obligation{Rule: rule, Key: fmt.Sprintf("%s:reads-block#%d", shortFn(f), ord), Fn: shortFn(f), Pos: c.W.Pos(ins.Pos()), Nontrivial: true, Verdict: Finding,
				Reason: "the contents of a parenthesised block are read outside BlockNode's own methods: splicing them into the enclosing node changes what a path step, a first step or a constructor step is"})
		}
	}
	n++
	o := Obligation{Rule: rule, Key: "jparse:block-contents-private", Fn: "jparse.BlockNode", Pos: "jparse/node.go", Nontrivial: true}
	if own == 0 {
		o.Verdict, o.Reason = Undecided, "BlockNode's own methods do not read its Exprs field: the representation of blocks changed"
	} else {
		o.Verdict, o.Reason = Discharged, fmt.Sprintf("BlockNode.Exprs is read at %d places, all in BlockNode's own methods (optimize, String)", own)
	}
	r.Add(o)
	return n
}

// ---------------------------------------------------------------------------------------
// RANGE12 (C19): the 12-hour clock shows 12, 1 … 11 — never 0, never more than 12.
//
// Interval proof with the difference-constraint prover of BND: in the function registered for
// the 12-hour component (the case of expandDateComponent for that component constant), and in
// the helper it calls with a constant-true flag, every integer handed to the integer formatter
// is shown to lie in [1, 12] (time.Time.Hour is in [0, 23]; x % 12 is in [0, 11]; a value shown
// different from 0 and non-negative is at least 1; edges that contradict the flag are not taken).
// ---------------------------------------------------------------------------------------

func runRANGE12(c *Ctx, r *Result, rule string) int {
	exp := c.mustFn(r, "jxpath.expandDateComponent")
	fmtInt := c.mustFn(r, "jxpath.formatIntegerComponent")
	if exp == nil || fmtInt == nil {
		return 0
	}
	var k12 int64 = -1
	if k, ok := exp.Pkg.Pkg.Scope().Lookup("dateHour12").(*types.Const); ok {
		k12, _ = constant.Int64Val(k.Val())
	}
	if k12 < 0 {
		r.LoseAnchor("RANGE12: constant dateHour12 not found")
		return 0
	}
	// the function the 12-hour case calls
	var f12 *ssa.Function
	var f12Assume map[ssa.Value]bool
	for _, b := range exp.Blocks {
		ks, ok := caseConstsOf(b, func(v ssa.Value) bool { return true })
		if !ok {
			continue
		}
		is12 := false
		for _, k := range ks {
			if k == k12 {
				is12 = true
			}
		}
		if !is12 {
			continue
		}
		for _, ins := range b.Instrs {
			if call, ok := ins.(*ssa.Call); ok {
				if g := call.Call.StaticCallee(); g != nil && g.Pkg == exp.Pkg {
					f12 = g
					f12Assume = constBoolArgs(call, g)
				}
			}
		}
	}
	if f12 == nil {
		r.LoseAnchor("RANGE12: the formatter of the 12-hour component was not found in expandDateComponent")
		return 0
	}
	bndCtx = c
	n := 0
	check := func(f *ssa.Function, assume map[ssa.Value]bool) {
		for _, ins := range instrsIn(f) {
			call, ok := ins.(*ssa.Call)
			if !ok || call.Call.StaticCallee() != fmtInt || len(call.Call.Args) < 1 {
				continue
			}
			// a call that lies behind a branch the assumed flag rules out is not the 12-hour path
			dead := false
			for pv, val := range assume {
				pv, val := pv, val
				if domGuard(call.Block(), func(cond ssa.Value) (int, bool) { return boolEdge(cond, pv, !val) }) {
					dead = true
				}
			}
			if dead {
				continue
			}
			n++
			o := Obligation{Rule: rule, Key: fmt.Sprintf("%s:hour12#%d", shortFn(f), n), Fn: shortFn(f), Pos: c.W.Pos(call.Pos()), Nontrivial: true}
			lo, hi := range12(c, call, call.Call.Args[0], assume, 0)
			switch {
			case lo && hi:
				o.Verdict, o.Reason = Discharged, "the hour handed to the integer formatter for [h] is shown to lie in 1..12"
			case !lo:
				o.Verdict, o.Reason = Finding, "the hour handed to the integer formatter for [h] can be 0: the 12-hour clock must show 12 for the midnight (and noon) hour"
			default:
				o.Verdict, o.Reason = Finding, "the hour handed to the integer formatter for [h] can exceed 12"
			}
			r.Add(o)
		}
	}
	check(f12, f12Assume)
	for _, ci := range callsIn(f12) {
		g := ci.Common().StaticCallee()
		if g == nil || g.Pkg != f12.Pkg || g == fmtInt || len(g.Blocks) == 0 {
			continue
		}
		if assume := constBoolArgs(ci, g); len(assume) > 0 {
			check(g, assume)
		}
	}
	return n
}

// constBoolArgs: the parameters of g that this call binds to boolean constants.
func constBoolArgs(ci ssa.CallInstruction, g *ssa.Function) map[ssa.Value]bool {
	assume := map[ssa.Value]bool{}
	for i, a := range ci.Common().Args {
		if k, ok := a.(*ssa.Const); ok && k.Value != nil && k.Value.Kind() == constant.Bool && i < len(g.Params) {
			assume[g.Params[i]] = constant.BoolVal(k.Value)
		}
	}
	return assume
}

// range12: v, used at instruction at, lies in [1, 12]: shown by the interval prover at the use,
// or — when v is the result of a function of the package — for the value of every return of that
// function (whose parameters get the ranges their call sites establish).
func range12(c *Ctx, at ssa.Instruction, v ssa.Value, assume map[ssa.Value]bool, depth int) (lo, hi bool) {
	p := newBndProver(c, at, 0)
	p.assume = assume
	x := bnorm(v)
	lo = p.prove(blin{c: 1}, x)
	hi = p.prove(x, blin{c: 12})
	if lo && hi {
		return
	}
	call, ok := v.(*ssa.Call)
	if !ok || depth >= 2 {
		return
	}
	g := call.Call.StaticCallee()
	if g == nil || g.Pkg != at.Parent().Pkg || len(g.Blocks) == 0 || g.Signature.Results().Len() != 1 {
		return
	}
	allLo, allHi, n := true, true, 0
	for _, b := range g.Blocks {
		ret, isRet := b.Instrs[len(b.Instrs)-1].(*ssa.Return)
		if !isRet {
			continue
		}
		n++
		l, h := range12(c, ret, ret.Results[0], constBoolArgs(call, g), depth+1)
		allLo, allHi = allLo && l, allHi && h
	}
	if n == 0 {
		return
	}
	return lo || allLo, hi || allHi
}

// ---------------------------------------------------------------------------------------
// CLOSURE (C12): a function value that closes over its definition site is never altered.
//
// The closure types are the struct types of package jsonata whose pointer implements
// jtypes.Callable and that hold an *environment (the bindings of the definition site). Every
// store into a field of such a struct, and every store of a whole struct of such a type, must
// go to an object the storing function itself has just allocated (the composite literal that
// builds the function value, or a private copy). A store through any other pointer changes a
// function value that already exists: its context item, body, parameters or scope would depend
// on who called it before.
// ---------------------------------------------------------------------------------------

func runCLOSURE(c *Ctx, r *Result, rule string) int {
	lib := c.W.Lib["jsonata"]
	jt := c.W.Lib["jtypes"]
	if lib == nil || jt == nil {
		r.LoseAnchor("CLOSURE: packages jsonata/jtypes not loaded")
		return 0
	}
	callableObj, _ := jt.Types.Scope().Lookup("Callable").(*types.TypeName)
	envObj, _ := lib.Types.Scope().Lookup("environment").(*types.TypeName)
	if callableObj == nil || envObj == nil {
		r.LoseAnchor("CLOSURE: jtypes.Callable or jsonata.environment not found")
		return 0
	}
	iface := callableObj.Type().Underlying().(*types.Interface)
	closure := map[*types.Named]bool{}
	for _, name := range lib.Types.Scope().Names() {
		tn, ok := lib.Types.Scope().Lookup(name).(*types.TypeName)
		if !ok {
			continue
		}
		nt, ok := tn.Type().(*types.Named)
		if !ok {
			continue
		}
		st, ok := nt.Underlying().(*types.Struct)
		if !ok || !types.Implements(types.NewPointer(nt), iface) {
			continue
		}
		for i := 0; i < st.NumFields(); i++ {
			if p, ok := st.Field(i).Type().(*types.Pointer); ok && types.Identical(p.Elem(), envObj.Type()) {
				closure[nt] = true
			}
		}
	}
	r.Count(rule+" closure types (callables holding an *environment)", len(closure))
	if len(closure) == 0 {
		r.LoseAnchor("CLOSURE: no callable type holds an *environment")
		return 0
	}
	closureOf := func(t types.Type) *types.Named {
		if p, ok := t.Underlying().(*types.Pointer); ok {
			if nt, ok := p.Elem().(*types.Named); ok && closure[nt] {
				return nt
			}
		}
		return nil
	}
	n := 0
	for _, f := range c.W.FuncsOf(PkgSet{lib.Types: true}) {
		ord := map[string]int{}
		for _, ins := range instrsIn(f) {
			st, ok := ins.(*ssa.Store)
			if !ok {
				continue
			}
			var obj ssa.Value
			var nt *types.Named
			what := ""
			if fa, ok := st.Addr.(*ssa.FieldAddr); ok {
				if nt = closureOf(fa.X.Type()); nt != nil {
					obj = fa.X
					what = "field " + nt.Underlying().(*types.Struct).Field(fa.Field).Name()
				}
			}
			if nt == nil {
				if nt = closureOf(st.Addr.Type()); nt != nil {
					obj = st.Addr
					what = "the whole struct"
				}
			}
			if nt == nil {
				continue
			}
			n++
			k := nt.Obj().Name() + "." + strings.TrimPrefix(what, "field ")
			ord[k]++
			o := Obligation{Rule: rule, Key: fmt.Sprintf("%s:%s#%d", shortFn(f), k, ord[k]), Fn: shortFn(f), Pos: c.W.Pos(st.Pos()), Nontrivial: true}
			if alwaysFreshAlloc(obj, 0) {
				o.Verdict, o.Reason = Discharged, "store into "+what+" of a "+nt.Obj().Name()+" that this function has just allocated, itself or through a constructor whose every return is a new allocation (construction or private copy)"
			} else if closureInitParam(c, f, obj) {
				o.Verdict, o.Reason = Discharged, "store into "+what+" of a "+nt.Obj().Name()+" handed in by callers that have all just allocated it (an initialiser called from the constructing functions only)"
			} else {
				o.Verdict, o.Reason = Finding, "store into "+what+" of a "+nt.Obj().Name()+" that already exists: the function value no longer keeps what it had at its definition site (a later call sees what an earlier call left)"
			}
			r.Add(o)
		}
	}
	return n
}

// closureInitParam: obj is a parameter of f, f is only ever called directly (it is not used as
// a value and is not an exported method reachable through an interface), and at every call the
// argument is an allocation of the caller.
func closureInitParam(c *Ctx, f *ssa.Function, obj ssa.Value) bool {
	p, ok := obj.(*ssa.Parameter)
	if !ok || c.G.AddrTaken[f] {
		return false
	}
	idx := -1
	for i, q := range f.Params {
		if q == p {
			idx = i
		}
	}
	sites := c.G.staticUse[f]
	if idx < 0 || len(sites) == 0 {
		return false
	}
	if f.Signature.Recv() != nil {
		// a method may be called through an interface: only unexported methods that no
		// interface of the module declares are safe to treat as direct-call only
		if f.Object() == nil || f.Object().Exported() {
			return false
		}
		for _, T := range c.G.named {
			if it, ok := T.Underlying().(*types.Interface); ok {
				for i := 0; i < it.NumMethods(); i++ {
					if it.Method(i).Name() == f.Name() {
						return false
					}
				}
			}
		}
	}
	for _, ci := range sites {
		args := ci.Common().Args
		if idx >= len(args) {
			return false
		}
		if _, ok := args[idx].(*ssa.Alloc); !ok {
			return false
		}
	}
	return true
}

// ---------------------------------------------------------------------------------------
// FLAT1 (C01): a path step splices array-valued results one level, never recursively.
//
// Necessary condition in the shape of the code: the functions that evalPathStep (and the path
// evaluator around it) reach without going back through the node dispatcher eval contain no
// recursion. Evaluating a sub-expression legitimately recurses through eval; anything else
// that recurses under a path step walks a value to arbitrary depth (the recursive flattener
// that the wildcard and descendant operators use is the one that exists today).
// ---------------------------------------------------------------------------------------

func runFLAT1(c *Ctx, r *Result, rule string) int {
	disp := c.mustFn(r, "jsonata.eval")
	var roots []*ssa.Function
	for _, n := range []string{"jsonata.evalPathStep", "jsonata.evalPath"} {
		if f := c.mustFn(r, n); f != nil {
			roots = append(roots, f)
		}
	}
	if disp == nil || len(roots) == 0 {
		return 0
	}
	set := map[*ssa.Function]bool{}
	var order []*ssa.Function
	var visit func(f *ssa.Function)
	visit = func(f *ssa.Function) {
		if set[f] || f == disp {
			return
		}
		set[f] = true
		order = append(order, f)
		for _, e := range c.G.Out[f] {
			if e.Kind == "callback" {
				continue // String/Error methods a library may call on a value: not value walking
			}
			visit(e.Callee)
		}
	}
	for _, f := range roots {
		visit(f)
	}
	reaches := func(from, to *ssa.Function) bool {
		seen := map[*ssa.Function]bool{}
		var dfs func(f *ssa.Function) bool
		dfs = func(f *ssa.Function) bool {
			for _, e := range c.G.Out[f] {
				g := e.Callee
				if g == disp || !set[g] || e.Kind == "callback" {
					continue
				}
				if g == to {
					return true
				}
				if !seen[g] {
					seen[g] = true
					if dfs(g) {
						return true
					}
				}
			}
			return false
		}
		return dfs(from)
	}
	sortFns(order)
	n := 0
	for _, f := range order {
		if f.Synthetic != "" {
			continue
		}
		n++
		o := Obligation{Rule: rule, Key: "norec:" + shortFn(f), Fn: shortFn(f), Pos: c.W.Pos(f.Pos()), Nontrivial: true}
		if reaches(f, f) {
			o.Verdict, o.Reason = Finding, "recursive function reachable from a path step without passing through eval: a step result would be walked to arbitrary depth, but array-valued step results are spliced one level only"
		} else {
			o.Verdict, o.Reason = Discharged, "reached from evalPath/evalPathStep outside eval and not part of any call cycle"
		}
		r.Add(o)
	}
	return n
}

// ---------------------------------------------------------------------------------------
// RANGECAP (C03): a size computed from JSONata numbers is capped before it sizes anything.
//
// Every integer obtained by converting a float (and what is derived from it by adding or
// subtracting constants, or by handing it to a function of the package) that
//   (a) becomes the length or capacity of a slice that is made,
//   (b) initialises the counter of a loop, or
//   (c) is the bound in the condition of a loop
// must be shown, at that point, to be at most the constant maxRangeItems (interval proof with
// the difference-constraint prover over the dominating branches). A second way of materialising
// a range that forgets the test produces the ten-million-and-one items as a value.
// ---------------------------------------------------------------------------------------

func runRANGECAP(c *Ctx, r *Result, rule string, fns []*ssa.Function) int {
	lib := c.W.Lib["jsonata"]
	var K int64 = -1
	if lib != nil {
		if k, ok := lib.Types.Scope().Lookup("maxRangeItems").(*types.Const); ok {
			K, _ = constant.Int64Val(k.Val())
		}
	}
	if K <= 0 {
		r.LoseAnchor("RANGECAP: constant maxRangeItems not found")
		return 0
	}
	bndCtx = c
	n := 0
	type job struct {
		f    *ssa.Function
		v    ssa.Value
		from string
		d    int
	}
	var jobs []job
	for _, f := range fns {
		ord := 0
		for _, ins := range instrsIn(f) {
			cv, ok := ins.(*ssa.Convert)
			if !ok || !isFloatT(cv.X.Type()) {
				continue
			}
			if b, ok := cv.Type().Underlying().(*types.Basic); !ok || b.Info()&types.IsInteger == 0 {
				continue
			}
			ord++
			jobs = append(jobs, job{f, cv, fmt.Sprintf("%s:int#%d", shortFn(f), ord), 0})
		}
	}
	reaches := func(from, b *ssa.BasicBlock) bool {
		if from == b {
			return true
		}
		seen := map[*ssa.BasicBlock]bool{}
		var dfs func(x *ssa.BasicBlock) bool
		dfs = func(x *ssa.BasicBlock) bool {
			for _, s := range x.Succs {
				if s == b {
					return true
				}
				if !seen[s] {
					seen[s] = true
					if dfs(s) {
						return true
					}
				}
			}
			return false
		}
		return dfs(from)
	}
	// the block ends in a branch that decides between another round of a loop it is part of
	// and leaving that loop
	loopExitTest := func(b *ssa.BasicBlock) bool {
		if len(b.Succs) != 2 {
			return false
		}
		r0, r1 := reaches(b.Succs[0], b), reaches(b.Succs[1], b)
		return r0 != r1
	}
	loopHeader := func(b *ssa.BasicBlock) bool {
		for _, pr := range b.Preds {
			if b.Dominates(pr) {
				return true
			}
		}
		return false
	}
	done := map[string]bool{}
	for len(jobs) > 0 {
		j := jobs[0]
		jobs = jobs[1:]
		// derived values within the function
		derived := map[ssa.Value]bool{j.v: true}
		for changed := true; changed; {
			changed = false
			for _, ins := range instrsIn(j.f) {
				bo, ok := ins.(*ssa.BinOp)
				if !ok || derived[bo] || (bo.Op != token.ADD && bo.Op != token.SUB) {
					continue
				}
				_, cx := bo.X.(*ssa.Const)
				_, cy := bo.Y.(*ssa.Const)
				if (derived[bo.X] && cy) || (derived[bo.Y] && cx && bo.Op == token.ADD) {
					derived[bo] = true
					changed = true
				}
			}
		}
		ord := 0
		check := func(at ssa.Instruction, d ssa.Value, what string) {
			ord++
			n++
			key := fmt.Sprintf("%s>%s#%d", j.from, what, ord)
			if j.d > 0 {
				key = fmt.Sprintf("%s>%s:%s#%d", j.from, shortFn(j.f), what, ord)
			}
			if done[key] {
				return
			}
			done[key] = true
			o := Obligation{Rule: rule, Key: key, Fn: shortFn(j.f), Pos: c.W.Pos(at.Pos()), Nontrivial: true}
			if o.Pos == "" || o.Pos == "-" {
				o.Pos = c.W.Pos(j.f.Pos())
			}
			p := newBndProver(c, at, 0)
			if p.prove(bnorm(d), blin{c: K}) {
				o.Verdict, o.Reason = Discharged, fmt.Sprintf("the size is shown to be at most maxRangeItems (%d) where it is used as %s", K, what)
			} else {
				o.Verdict, o.Reason = Finding, fmt.Sprintf("a size converted from a JSONata number is used as %s with no test against maxRangeItems (%d) before it: a range of more than ten million items is materialised instead of being reported as an error", what, K)
			}
			r.Add(o)
		}
		for _, ins := range instrsIn(j.f) {
			switch x := ins.(type) {
			case *ssa.MakeSlice:
				if derived[x.Len] {
					check(x, x.Len, "slice length")
				}
				if derived[x.Cap] && x.Cap != x.Len {
					check(x, x.Cap, "slice capacity")
				}
			case *ssa.Call:
				g := x.Call.StaticCallee()
				if g != nil && g.String() == "reflect.MakeSlice" {
					for i, a := range x.Call.Args {
						if i >= 1 && derived[a] && (i == 1 || a != x.Call.Args[1]) {
							check(x, a, "slice length/capacity")
						}
					}
					continue
				}
				if g != nil && g.Pkg == j.f.Pkg && len(g.Blocks) > 0 && j.d < 2 {
					for i, a := range x.Call.Args {
						if derived[a] && i < len(g.Params) {
							// the callee's parameter carries the size: it has to be capped at the call
							// (then the callee may rely on it) or inside the callee
							p := newBndProver(c, x, 0)
							if !p.prove(bnorm(a), blin{c: K}) {
								jobs = append(jobs, job{g, g.Params[i], j.from, j.d + 1})
							}
						}
					}
				}
			case *ssa.Return:
				for ri, rv := range x.Results {
					if !derived[rv] {
						continue
					}
					// capped before it is handed back: the callers may rely on it; otherwise the
					// callers' uses of the result are judged
					pr := newBndProver(c, x, 0)
					if pr.prove(bnorm(rv), blin{c: K}) {
						check(x, rv, "result handed back to the callers")
						continue
					}
					if j.d >= 2 {
						continue
					}
					sites, ok := c.staticCallers(j.f)
					if !ok {
						check(x, rv, "result handed to callers that are not all known")
						continue
					}
					for _, cs := range sites {
						cv, isVal := cs.(*ssa.Call)
						if !isVal {
							continue
						}
						if len(x.Results) == 1 {
							jobs = append(jobs, job{cs.Parent(), cv, j.from, j.d + 1})
							continue
						}
						for _, rf := range *cv.Referrers() {
							if e, isEx := rf.(*ssa.Extract); isEx && e.Index == ri {
								jobs = append(jobs, job{cs.Parent(), e, j.from, j.d + 1})
							}
						}
					}
				}
			case *ssa.Phi:
				if !loopHeader(x.Block()) {
					continue
				}
				for i, e := range x.Edges {
					if derived[e] && !x.Block().Dominates(x.Block().Preds[i]) {
						pr := x.Block().Preds[i]
						check(pr.Instrs[len(pr.Instrs)-1], e, "initial value of a loop counter")
					}
				}
			case *ssa.BinOp:
				switch x.Op {
				case token.LSS, token.LEQ, token.GTR, token.GEQ, token.NEQ:
				default:
					continue
				}
				if iff, ok := x.Block().Instrs[len(x.Block().Instrs)-1].(*ssa.If); !ok || iff.Cond != x || !loopExitTest(x.Block()) {
					continue
				}
				if derived[x.X] {
					check(x, x.X, "loop bound")
				} else if derived[x.Y] {
					check(x, x.Y, "loop bound")
				}
			}
		}
	}
	return n
}

// ---------------------------------------------------------------------------------------
// PERITEM (C13): what a list loop of the parser records for one element is decided within that
// element's own round of the loop.
//
// In the functions given (the parser functions that build the sort terms), every value stored
// into a field of a record that is built inside a loop is traced back through phis and
// conversions; reaching a phi at the head of an enclosing loop with a back edge means the value
// is carried over from the previous element (a direction that is not reset for the next sort
// term). The accumulating list itself is not a field of the element and is not concerned.
// ---------------------------------------------------------------------------------------

func runPERITEM(c *Ctx, r *Result, rule string, fns []*ssa.Function) int {
	n := 0
	for _, f := range fns {
		header := map[*ssa.BasicBlock]bool{}
		for _, b := range f.Blocks {
			for _, pr := range b.Preds {
				if b.Dominates(pr) {
					header[b] = true
				}
			}
		}
		if len(header) == 0 {
			continue
		}
		inSomeLoop := func(b *ssa.BasicBlock) bool {
			for h := range header {
				if !h.Dominates(b) {
					continue
				}
				// b is in the natural loop of h if b reaches h without leaving h's dominance
				seen := map[*ssa.BasicBlock]bool{}
				var dfs func(x *ssa.BasicBlock) bool
				dfs = func(x *ssa.BasicBlock) bool {
					if x == h {
						return true
					}
					if seen[x] || !h.Dominates(x) {
						return false
					}
					seen[x] = true
					for _, s := range x.Succs {
						if dfs(s) {
							return true
						}
					}
					return false
				}
				for _, s := range b.Succs {
					if dfs(s) {
						return true
					}
				}
			}
			return false
		}
		freshBase := func(v ssa.Value) bool {
			for i := 0; i < 6; i++ {
				switch x := v.(type) {
				case *ssa.Alloc:
					return true
				case *ssa.IndexAddr:
					v = x.X
				case *ssa.FieldAddr:
					v = x.X
				default:
					return false
				}
			}
			return false
		}
		ord := map[string]int{}
		for _, ins := range instrsIn(f) {
			st, ok := ins.(*ssa.Store)
			if !ok || !inSomeLoop(st.Block()) {
				continue
			}
			fa, ok := st.Addr.(*ssa.FieldAddr)
			if !ok || !freshBase(fa.X) {
				continue
			}
			stT, ok := deref(fa.X.Type()).Underlying().(*types.Struct)
			if !ok {
				continue
			}
			fname := stT.Field(fa.Field).Name()
			tname := types.TypeString(deref(fa.X.Type()), func(*types.Package) string { return "" })
			k := tname + "." + fname
			ord[k]++
			n++
			o := Obligation{Rule: rule, Key: fmt.Sprintf("%s:%s#%d", shortFn(f), k, ord[k]), Fn: shortFn(f), Pos: c.W.Pos(st.Pos()), Nontrivial: true}
			// trace the value
			var carried *ssa.Phi
			seen := map[ssa.Value]bool{}
			var walk func(v ssa.Value)
			walk = func(v ssa.Value) {
				if seen[v] || carried != nil {
					return
				}
				seen[v] = true
				switch x := v.(type) {
				case *ssa.Phi:
					if header[x.Block()] {
						for i, pr := range x.Block().Preds {
							if x.Block().Dominates(pr) {
								if _, isConst := x.Edges[i].(*ssa.Const); !isConst {
									carried = x
									return
								}
							}
						}
					}
					for _, e := range x.Edges {
						walk(e)
					}
				case *ssa.Convert:
					walk(x.X)
				case *ssa.ChangeType:
					walk(x.X)
				case *ssa.MakeInterface:
					walk(x.X)
				}
			}
			walk(st.Val)
			if carried != nil {
				o.Verdict, o.Reason = Finding, "the value recorded in field "+fname+" of the element comes from "+describeVal(carried)+", a variable carried over from the previous round of the loop: an element without its own marker inherits the previous element's (a sort term without < or > takes the direction of the term before it)"
			} else {
				o.Verdict, o.Reason = Discharged, "the value recorded in field "+fname+" is computed within the element's own round of the loop"
			}
			r.Add(o)
		}
	}
	return n
}

// ---------------------------------------------------------------------------------------
// ARGUSE (C19): every argument of $fromMillis is consulted on every successful path.
//
// Forward must-analysis over the CFG of the function: a parameter is consulted by an
// instruction that reads it (or a field of it, through the spill slot go/ssa gives a struct
// parameter) as an operand of a comparison, a call, an arithmetic operation or a return. At every
// return that is not provably an error, every parameter must have been consulted on all paths
// from the entry — a shortcut for one argument shape that returns before the time zone has been
// looked at renders the instant in UTC and accepts an invalid zone.
// ---------------------------------------------------------------------------------------

func runARGUSE(c *Ctx, r *Result, rule string, f *ssa.Function) int {
	if f == nil || len(f.Blocks) == 0 {
		return 0
	}
	np := len(f.Params)
	// values that merely carry parameter i: the parameter, its spill slot, addresses of the
	// slot's fields, and loads from those
	carrier := map[ssa.Value]int{}
	for i, p := range f.Params {
		carrier[p] = i
	}
	for changed := true; changed; {
		changed = false
		for _, ins := range instrsIn(f) {
			switch x := ins.(type) {
			case *ssa.Store:
				if i, ok := carrier[x.Val]; ok {
					if a, isAlloc := x.Addr.(*ssa.Alloc); isAlloc {
						if _, had := carrier[a]; !had {
							carrier[a] = i
							changed = true
						}
					}
				}
			case *ssa.FieldAddr:
				if i, ok := carrier[x.X]; ok {
					if _, had := carrier[x]; !had {
						carrier[x] = i
						changed = true
					}
				}
			case *ssa.Field:
				if i, ok := carrier[x.X]; ok {
					if _, had := carrier[x]; !had {
						carrier[x] = i
						changed = true
					}
				}
			case *ssa.UnOp:
				if x.Op == token.MUL {
					if i, ok := carrier[x.X]; ok {
						if _, had := carrier[x]; !had {
							carrier[x] = i
							changed = true
						}
					}
				}
			}
		}
	}
	consults := func(ins ssa.Instruction) []int {
		switch x := ins.(type) {
		case *ssa.Store:
			if _, isAlloc := x.Addr.(*ssa.Alloc); isAlloc {
				if _, ok := carrier[x.Val]; ok {
					return nil // the spill itself
				}
			}
		case *ssa.FieldAddr, *ssa.Field, *ssa.DebugRef:
			return nil
		case *ssa.UnOp:
			if x.Op == token.MUL {
				return nil
			}
		}
		var out []int
		var ops []*ssa.Value
		for _, op := range ins.Operands(ops) {
			if op == nil || *op == nil {
				continue
			}
			if i, ok := carrier[*op]; ok {
				if _, isAlloc := (*op).(*ssa.Alloc); isAlloc {
					continue
				}
				out = append(out, i)
			}
		}
		return out
	}
	full := uint64(1)<<uint(np) - 1
	in := map[*ssa.BasicBlock]uint64{}
	out := map[*ssa.BasicBlock]uint64{}
	gen := map[*ssa.BasicBlock]uint64{}
	for _, b := range f.Blocks {
		for _, ins := range b.Instrs {
			for _, i := range consults(ins) {
				gen[b] |= 1 << uint(i)
			}
		}
		in[b], out[b] = full, full
	}
	in[f.Blocks[0]] = 0
	for changed := true; changed; {
		changed = false
		for _, b := range f.Blocks {
			v := full
			if b == f.Blocks[0] {
				v = 0
			}
			for _, pr := range b.Preds {
				v &= out[pr]
			}
			if b != f.Blocks[0] && len(b.Preds) == 0 {
				v = full // unreachable
			}
			o := v | gen[b]
			if v != in[b] || o != out[b] {
				in[b], out[b] = v, o
				changed = true
			}
		}
	}
	n := 0
	nret := 0
	missing := make([][]string, np)
	for _, b := range f.Blocks {
		ret, ok := b.Instrs[len(b.Instrs)-1].(*ssa.Return)
		if !ok || !isSuccessReturn(ret) {
			continue
		}
		nret++
		for i := 0; i < np; i++ {
			if out[b]&(1<<uint(i)) == 0 {
				missing[i] = append(missing[i], c.W.Pos(ret.Pos()))
			}
		}
	}
	if nret == 0 {
		r.LoseAnchor("ARGUSE: %s has no success return", shortFn(f))
		return 0
	}
	for i, p := range f.Params {
		n++
		o := Obligation{Rule: rule, Key: fmt.Sprintf("%s:param#%d", shortFn(f), i), Fn: shortFn(f), Pos: c.W.Pos(f.Pos()), Nontrivial: true}
		if len(missing[i]) > 0 {
			o.Verdict, o.Reason = Finding, fmt.Sprintf("argument %s is not consulted on some path to the successful return at %s: the result on that path cannot depend on it (an instant rendered without looking at the time zone, or an invalid zone accepted)", p.Name(), strings.Join(missing[i], ", "))
		} else {
			o.Verdict, o.Reason = Discharged, fmt.Sprintf("argument %s is read on every path to each of the %d successful returns", p.Name(), nret)
		}
		r.Add(o)
	}
	return n
}

// ---------------------------------------------------------------------------------------
// NUMKINDS (C15): what counts as a number is decided in one place.
//
// jtypes.AsNumber / IsNumber accept every Go integer, unsigned and float kind (a built-in such
// as $toMillis returns an int64, $count an int, the caller's document may hold any of them). A
// type switch or a comma-ok type assertion on an interface value that tests for SOME numeric
// types classifies the remaining kinds as non-numbers. Rule, for the functions under Eval
// outside package jtypes: the numeric types tested on one value are either all twelve numeric
// kinds or none; a reviewed exception names the construct.
// ---------------------------------------------------------------------------------------

var numkindsExceptions = map[string]string{
	"jlib.String:float64": "the case only adds a NaN/Inf check for float64 before the value goes to the JSON encoder, which every other kind reaches as well: nothing is classified as a non-number",
}

func runNUMKINDS(c *Ctx, r *Result, rule string, fns []*ssa.Function) int {
	all := []types.BasicKind{types.Int, types.Int8, types.Int16, types.Int32, types.Int64, types.Uint, types.Uint8, types.Uint16, types.Uint32, types.Uint64, types.Float32, types.Float64}
	n := 0
	for _, f := range fns {
		if f.Pkg != nil && f.Pkg.Pkg.Name() == "jtypes" {
			continue
		}
		byVal := map[ssa.Value]map[types.BasicKind]bool{}
		pos := map[ssa.Value]token.Pos{}
		var order []ssa.Value
		for _, ins := range instrsIn(f) {
			ta, ok := ins.(*ssa.TypeAssert)
			if !ok || !ta.CommaOk {
				continue
			}
			b, ok := ta.AssertedType.(*types.Basic)
			if !ok || b.Info()&types.IsNumeric == 0 || b.Info()&types.IsComplex != 0 {
				continue
			}
			if byVal[ta.X] == nil {
				byVal[ta.X] = map[types.BasicKind]bool{}
				pos[ta.X] = ta.Pos()
				order = append(order, ta.X)
			}
			byVal[ta.X][b.Kind()] = true
		}
		for _, v := range order {
			n++
			var have, miss []string
			for _, k := range all {
				if byVal[v][k] {
					have = append(have, types.Typ[k].Name())
				} else {
					miss = append(miss, types.Typ[k].Name())
				}
			}
			key := shortFn(f) + ":" + strings.Join(have, ",")
			o := Obligation{Rule: rule, Key: key, Fn: shortFn(f), Pos: c.W.Pos(pos[v]), Nontrivial: true}
			switch {
			case len(miss) == 0:
				o.Verdict, o.Reason = Discharged, "the type switch tests all twelve numeric kinds"
			case numkindsExceptions[key] != "":
				o.Verdict, o.Reason = Exception, "reviewed ("+key+"): "+numkindsExceptions[key]
			default:
				o.Verdict, o.Reason = Finding, "a type switch recognises "+strings.Join(have, ", ")+" as numbers but not "+strings.Join(miss, ", ")+", which jtypes.AsNumber accepts: a numeric member of another kind (the int64 of $toMillis/$millis, any integer kind in the caller's document) is treated as a non-number"
			}
			r.Add(o)
		}
	}
	return n
}

// ---------------------------------------------------------------------------------------
// CLAUSECTX (C07): the update and delete clauses of a transform are evaluated once for each
// matched object, with that object as the context.
//
// Every eval(f.updates, D, …) and eval(f.deletes, D, …) (f a transformationCallable): D must be
// an element picked by index out of the list that eval(f.pattern, …) returned — directly, through
// jtypes.Resolve/arrayify, or as the parameter of a helper whose callers all pass such an element.
// A clause evaluated against anything else (the whole copy, the argument) yields one key list
// for all matches: a context-relative delete removes the wrong names.
// ---------------------------------------------------------------------------------------

func runCLAUSECTX(c *Ctx, r *Result, rule string) int {
	ev := c.mustFn(r, "jsonata.eval")
	if ev == nil {
		return 0
	}
	clauseOf := func(v ssa.Value) string {
		ld, ok := v.(*ssa.UnOp)
		if !ok {
			return ""
		}
		fa, ok := ld.X.(*ssa.FieldAddr)
		if !ok {
			return ""
		}
		k := fieldKey(fa.X.Type(), fa.Field)
		pre := repoModule + ".transformationCallable."
		if strings.HasPrefix(k, pre) {
			return strings.TrimPrefix(k, pre)
		}
		return ""
	}
	// strip the value-preserving wrappers
	strip := func(v ssa.Value) ssa.Value {
		for i := 0; i < 6; i++ {
			call, ok := v.(*ssa.Call)
			if !ok {
				return v
			}
			g := call.Call.StaticCallee()
			if g == nil || len(call.Call.Args) == 0 {
				return v
			}
			switch shortFn(g) {
			case "jtypes.Resolve", "jsonata.arrayify":
				v = call.Call.Args[0]
			default:
				return v
			}
		}
		return v
	}
	var isPatternList func(v ssa.Value, depth int) bool
	isPatternList = func(v ssa.Value, depth int) bool {
		v = strip(v)
		switch x := v.(type) {
		case *ssa.Extract:
			if call, ok := x.Tuple.(*ssa.Call); ok && x.Index == 0 && call.Call.StaticCallee() == ev {
				return clauseOf(call.Call.Args[0]) == "pattern"
			}
		case *ssa.Phi:
			if depth > 3 {
				return false
			}
			for _, e := range x.Edges {
				if !isPatternList(e, depth+1) {
					return false
				}
			}
			return len(x.Edges) > 0
		}
		return false
	}
	var isMatchedItem func(f *ssa.Function, v ssa.Value, depth int) bool
	isMatchedItem = func(f *ssa.Function, v ssa.Value, depth int) bool {
		v = strip(v)
		switch x := v.(type) {
		case *ssa.Call:
			if g := x.Call.StaticCallee(); g != nil && g.String() == "(reflect.Value).Index" && len(x.Call.Args) == 2 {
				return isPatternList(x.Call.Args[0], 0)
			}
		case *ssa.Parameter:
			if depth >= 2 || c.G.AddrTaken[f] {
				return false
			}
			idx := -1
			for i, p := range f.Params {
				if p == x {
					idx = i
				}
			}
			sites := c.G.staticUse[f]
			if idx < 0 || len(sites) == 0 {
				return false
			}
			for _, ci := range sites {
				if idx >= len(ci.Common().Args) || !isMatchedItem(ci.Parent(), ci.Common().Args[idx], depth+1) {
					return false
				}
			}
			return true
		}
		return false
	}
	n := 0
	seen := map[string]int{}
	for _, f := range c.W.FuncsOf(PkgSet{c.W.Lib["jsonata"].Types: true}) {
		for _, ci := range callsIn(f) {
			if ci.Common().StaticCallee() != ev || len(ci.Common().Args) < 2 {
				continue
			}
			cl := clauseOf(ci.Common().Args[0])
			if cl == "" || cl == "pattern" {
				continue
			}
			n++
			seen[cl]++
			o := Obligation{Rule: rule, Key: fmt.Sprintf("%s:%s-context#%d", shortFn(f), cl, seen[cl]), Fn: shortFn(f), Pos: c.W.Pos(ci.Pos()), Nontrivial: true}
			if isMatchedItem(f, ci.Common().Args[1], 0) {
				o.Verdict, o.Reason = Discharged, "the "+cl+" clause is evaluated with an element of the list returned by eval(f.pattern, …) as its context"
			} else {
				o.Verdict, o.Reason = Finding, "the "+cl+" clause is evaluated against "+describeVal(ci.Common().Args[1])+", which is not (at every call site) an element of the list the pattern selected: a context-relative clause no longer sees the object it is applied to"
			}
			r.Add(o)
		}
	}
	return n
}

// ---------------------------------------------------------------------------------------
// WSDEF (C04): there is one definition of whitespace in the lexer.
//
// "The parse does not depend on optional whitespace between tokens" needs every place that
// tells whitespace from token text to use the same set of characters: a character that is
// skipped between tokens but does not end a name (or the reverse) changes the parse when it is
// the optional whitespace. Definitions are collected from the resolved program of package jparse:
// (1) two or more comparisons of one value with whitespace characters (a switch or an or-chain),
// (2) a string constant of two or more characters that are all whitespace (a set to range over or
// to search), (3) a call of unicode.IsSpace. All definitions must denote the same set.
// ---------------------------------------------------------------------------------------

func runWSDEF(c *Ctx, r *Result, rule string) int {
	lib := c.W.Lib["jparse"]
	if lib == nil {
		r.LoseAnchor("WSDEF: package jparse not loaded")
		return 0
	}
	isWS := func(k int64) bool {
		switch k {
		case ' ', '\t', '\n', '\r', '\v', '\f', 0x85, 0xA0:
			return true
		}
		return false
	}
	type def struct {
		fn   *ssa.Function
		pos  token.Pos
		kind string
		set  map[int64]bool
	}
	var defs []def
	for _, f := range c.W.FuncsOf(PkgSet{lib.Types: true}) {
		if !c.RCompile.Set[f] && !c.RInit.Set[f] {
			continue
		}
		byVal := map[ssa.Value]*def{}
		var order []ssa.Value
		for _, ins := range instrsIn(f) {
			switch x := ins.(type) {
			case *ssa.BinOp:
				if x.Op != token.EQL && x.Op != token.NEQ {
					continue
				}
				for _, pr := range [][2]ssa.Value{{x.X, x.Y}, {x.Y, x.X}} {
					k, ok := intConstOf(pr[1])
					if !ok || !isWS(k) {
						continue
					}
					if _, isConst := pr[0].(*ssa.Const); isConst {
						continue
					}
					d := byVal[pr[0]]
					if d == nil {
						d = &def{fn: f, pos: x.Pos(), kind: "comparisons", set: map[int64]bool{}}
						byVal[pr[0]] = d
						order = append(order, pr[0])
					}
					d.set[k] = true
				}
			case *ssa.Call:
				if g := x.Call.StaticCallee(); g != nil && g.String() == "unicode.IsSpace" {
					defs = append(defs, def{fn: f, pos: x.Pos(), kind: "unicode.IsSpace", set: map[int64]bool{' ': true, '\t': true, '\n': true, '\r': true, '\v': true, '\f': true, 0x85: true, 0xA0: true}})
				}
			}
			var ops []*ssa.Value
			for _, op := range ins.Operands(ops) {
				if op == nil || *op == nil {
					continue
				}
				k, ok := (*op).(*ssa.Const)
				if !ok || k.Value == nil || k.Value.Kind() != constant.String {
					continue
				}
				str := constant.StringVal(k.Value)
				rs := []rune(str)
				if len(rs) < 2 {
					continue
				}
				all := true
				set := map[int64]bool{}
				for _, ch := range rs {
					if !isWS(int64(ch)) {
						all = false
					}
					set[int64(ch)] = true
				}
				if all && len(set) >= 2 {
					defs = append(defs, def{fn: f, pos: ins.Pos(), kind: "string constant", set: set})
				} else if call, isCall := ins.(*ssa.Call); isCall {
					// a character set handed to strings.IndexAny and its like: the whitespace
					// characters in it are this place's idea of whitespace
					switch staticName(call) {
					case "strings.IndexAny", "strings.LastIndexAny", "strings.ContainsAny", "strings.Trim", "strings.TrimLeft", "strings.TrimRight", "bytes.IndexAny", "bytes.ContainsAny":
						ws := map[int64]bool{}
						for ch := range set {
							if isWS(ch) {
								ws[ch] = true
							}
						}
						if len(ws) >= 2 {
							defs = append(defs, def{fn: f, pos: ins.Pos(), kind: "character set", set: ws})
						}
					}
				}
			}
		}
		for _, v := range order {
			if d := byVal[v]; len(d.set) >= 2 {
				defs = append(defs, *d)
			}
		}
	}
	if len(defs) == 0 {
		return 0
	}
	show := func(s map[int64]bool) string {
		var ks []int
		for k := range s {
			ks = append(ks, int(k))
		}
		sort.Ints(ks)
		var out []string
		for _, k := range ks {
			out = append(out, strconv.QuoteRune(rune(k)))
		}
		return "{" + strings.Join(out, ", ") + "}"
	}
	// the reference is the largest definition (ties: the first in function order)
	ref := 0
	for i, d := range defs {
		if len(d.set) > len(defs[ref].set) {
			ref = i
		}
	}
	ord := map[string]int{}
	for i, d := range defs {
		k := shortFn(d.fn) + ":" + d.kind
		ord[k]++
		o := Obligation{Rule: rule, Key: fmt.Sprintf("%s#%d", k, ord[k]), Fn: shortFn(d.fn), Pos: c.W.Pos(d.pos), Nontrivial: true}
		same := len(d.set) == len(defs[ref].set)
		for ch := range d.set {
			if !defs[ref].set[ch] {
				same = false
			}
		}
		switch {
		case i == ref:
			o.Verdict, o.Reason = Discharged, fmt.Sprintf("whitespace is %s here (%s); %d other definition(s) compared with it", show(d.set), d.kind, len(defs)-1)
		case same:
			o.Verdict, o.Reason = Discharged, "the same set as in "+shortFn(defs[ref].fn)
		default:
			o.Verdict, o.Reason = Finding, fmt.Sprintf("a second definition of whitespace, %s (%s), differs from %s in %s: a character in the difference is skipped between tokens in one place and is token text in the other, so the parse depends on which whitespace character separates two tokens", show(d.set), d.kind, show(defs[ref].set), shortFn(defs[ref].fn))
		}
		r.Add(o)
	}
	return len(defs)
}

// ---------------------------------------------------------------------------------------
// OKUSE (C09): the value of a comma-ok helper is used only where ok was tested.
//
// The module's As… helpers return (value, ok); those whose value is an interface or a pointer
// return (nil, false) on their failure path. A caller that drops ok, or uses the value on a path
// on which ok was not tested true, calls a method on nil sooner or later (the composed function
// of `f ~> g` built from a nil Callable). A test of the sibling predicate (Is…) is not accepted in
// place of ok: the two are separate functions and need not agree (IsCallable is true for a
// callable struct copied by value, AsCallable is not).
// ---------------------------------------------------------------------------------------

func runOKUSE(c *Ctx, r *Result, rule string, fns []*ssa.Function) int {
	// helpers: module functions with results (T, bool), T nilable, with a return of (nil, …)
	isHelper := map[*ssa.Function]bool{}
	for _, g := range c.G.Funcs {
		if g.Pkg == nil || len(g.Blocks) == 0 || g.Synthetic != "" {
			continue
		}
		res := g.Signature.Results()
		if res.Len() != 2 {
			continue
		}
		if b, ok := res.At(1).Type().Underlying().(*types.Basic); !ok || b.Kind() != types.Bool {
			continue
		}
		switch res.At(0).Type().Underlying().(type) {
		case *types.Interface, *types.Pointer:
		default:
			continue
		}
		for _, b := range g.Blocks {
			if ret, ok := b.Instrs[len(b.Instrs)-1].(*ssa.Return); ok && len(ret.Results) == 2 && isNilConst(ret.Results[0]) {
				isHelper[g] = true
			}
		}
	}
	n := 0
	for _, f := range fns {
		ord := map[string]int{}
		for _, ci := range callsIn(f) {
			g := ci.Common().StaticCallee()
			call, isCall := ci.(*ssa.Call)
			if g == nil || !isHelper[g] || !isCall {
				continue
			}
			var val, okv ssa.Value
			for _, rf := range *call.Referrers() {
				if e, isEx := rf.(*ssa.Extract); isEx {
					if e.Index == 0 {
						val = e
					} else {
						okv = e
					}
				}
			}
			if val == nil {
				continue
			}
			ord[shortFn(g)]++
			n++
			o := Obligation{Rule: rule, Key: fmt.Sprintf("%s:%s#%d", shortFn(f), shortFn(g), ord[shortFn(g)]), Fn: shortFn(f), Pos: c.W.Pos(call.Pos()), Nontrivial: true}
			bad := ""
			for _, rf := range *val.Referrers() {
				if _, isDbg := rf.(*ssa.DebugRef); isDbg {
					continue
				}
				if bo, isBo := rf.(*ssa.BinOp); isBo && (isNilConst(bo.X) || isNilConst(bo.Y)) {
					continue // compared with nil
				}
				if okv == nil {
					bad = "the ok result is dropped and the value is used at " + c.W.Pos(rf.Pos())
					break
				}
				if ret, isRet := rf.(*ssa.Return); isRet {
					// handing (value, ok) on together is the caller's business
					both := false
					for _, x := range ret.Results {
						if x == okv {
							both = true
						}
					}
					if both {
						continue
					}
				}
				blk := rf.Block()
				if phi, isPhi := rf.(*ssa.Phi); isPhi {
					// the use is on the incoming edge
					for i, e := range phi.Edges {
						if e == val {
							blk = phi.Block().Preds[i]
						}
					}
				}
				if !domGuard(blk, func(cond ssa.Value) (int, bool) { return boolEdge(cond, okv, true) }) {
					bad = "the value is used at " + c.W.Pos(rf.Pos()) + " on a path on which ok was not tested true"
					break
				}
			}
			if bad == "" {
				o.Verdict, o.Reason = Discharged, "every use of the value of "+shortFn(g)+" is behind a test of its ok result"
			} else {
				o.Verdict, o.Reason = Finding, shortFn(g)+" returns (nil, false) when it fails, and "+bad+": a nil "+types.TypeString(g.Signature.Results().At(0).Type(), func(p *types.Package) string { return p.Name() })+" is called or stored (a test of the Is… predicate is not a test of ok)"
			}
			r.Add(o)
		}
	}
	return n
}

// ---------------------------------------------------------------------------------------
// ERRDROP (C08, C09): an error produced in a loop is looked at before the next round replaces it.
//
// For every error-typed result of a call inside a loop: if the value flows nowhere but into the
// phi of the loop head (the variable `err` as the next round sees it), and that phi is not used
// anywhere inside the loop, the error is observed only when the round that produced it happens
// to be the last — all earlier failures are overwritten (`for … { x[i], err = f(x[i]) }; return
// err`). What such a loop stores meanwhile is the failed call's other result (a nil node).
// ---------------------------------------------------------------------------------------

func runERRDROP(c *Ctx, r *Result, rule string, fns []*ssa.Function) int {
	n := 0
	for _, f := range fns {
		if len(f.Blocks) == 0 {
			continue
		}
		loops := findLoops(f)
		if len(loops) == 0 {
			continue
		}
		ord := 0
		for _, ins := range instrsIn(f) {
			v, ok := ins.(ssa.Value)
			if !ok || !isErrorType(v.Type()) {
				continue
			}
			switch x := v.(type) {
			case *ssa.Extract:
				if _, isCall := x.Tuple.(*ssa.Call); !isCall {
					continue
				}
			case *ssa.Call:
			default:
				continue
			}
			// innermost loop containing the definition
			var in *loopInfo
			for _, l := range loops {
				if l.body[ins.Block()] && (in == nil || len(l.body) < len(in.body)) {
					in = l
				}
			}
			if in == nil {
				continue
			}
			ord++
			n++
			o := Obligation{Rule: rule, Key: fmt.Sprintf("%s:loop-error#%d", shortFn(f), ord), Fn: shortFn(f), Pos: c.W.Pos(ins.Pos()), Nontrivial: true}
			refs := v.Referrers()
			onlyHead, any := true, false
			var head *ssa.Phi
			if refs != nil {
				for _, rf := range *refs {
					if _, dbg := rf.(*ssa.DebugRef); dbg {
						continue
					}
					any = true
					phi, isPhi := rf.(*ssa.Phi)
					if !isPhi || phi.Block() != in.header {
						onlyHead = false
						break
					}
					head = phi
				}
			}
			dropped := false
			if any && onlyHead && head != nil {
				dropped = true
				if hr := head.Referrers(); hr != nil {
					for _, rf := range *hr {
						if _, dbg := rf.(*ssa.DebugRef); dbg {
							continue
						}
						if in.body[rf.Block()] {
							if p2, isPhi := rf.(*ssa.Phi); isPhi && p2.Block() == in.header {
								continue
							}
							dropped = false
						}
					}
				}
			}
			if dropped {
				o.Verdict, o.Reason = Finding, "the error of one round of the loop is only carried to the next round, where nothing looks at it before it is overwritten: a failure in any round but the last is lost (and the value the failed call returned with it, a nil node, stays in place)"
			} else {
				o.Verdict, o.Reason = Discharged, "the error produced in the loop is tested, returned or handed on within the same round"
			}
			r.Add(o)
		}
	}
	return n
}

// ---------------------------------------------------------------------------------------
// BLOCKKEEP (C04, with PARENS): optimisation never removes parentheses.
//
// The tree builder decides by node type whether what follows binds into an expression (a
// predicate after a group, a second group, a path step after a literal): a parenthesised
// expression is shielded from that by being a BlockNode. Rule: every successful return of
// (*BlockNode).optimize returns a *BlockNode — the receiver, or a value type-asserted to
// *BlockNode (collapsing doubled parentheses keeps a block).
// ---------------------------------------------------------------------------------------

func runBLOCKKEEP(c *Ctx, r *Result, rule string) int {
	f := c.mustFn(r, "jparse.(*BlockNode).optimize")
	if f == nil || len(f.Params) == 0 {
		return 0
	}
	recv := f.Params[0]
	isBlock := func(v ssa.Value) bool {
		mi, ok := v.(*ssa.MakeInterface)
		if !ok {
			return false
		}
		x := mi.X
		if x == ssa.Value(recv) {
			return true
		}
		if !types.Identical(x.Type(), recv.Type()) {
			return false
		}
		// any value of the static type *BlockNode is a block
		return true
	}
	n := 0
	for _, b := range f.Blocks {
		ret, ok := b.Instrs[len(b.Instrs)-1].(*ssa.Return)
		if !ok || len(ret.Results) == 0 || !isSuccessReturn(ret) {
			continue
		}
		if isNilConst(ret.Results[0]) {
			continue
		}
		n++
		o := Obligation{Rule: rule, Key: fmt.Sprintf("(*BlockNode).optimize:return#%d", n), Fn: shortFn(f), Pos: c.W.Pos(ret.Pos()), Nontrivial: true}
		ok2 := isBlock(ret.Results[0])
		if phi, isPhi := ret.Results[0].(*ssa.Phi); isPhi {
			ok2 = true
			for _, e := range phi.Edges {
				if !isBlock(e) && !isNilConst(e) {
					ok2 = false
				}
			}
		}
		if ok2 {
			o.Verdict, o.Reason = Discharged, "the optimised block is a *BlockNode"
		} else {
			o.Verdict, o.Reason = Finding, "(*BlockNode).optimize can return "+describeVal(ret.Results[0])+", which is not a block: the parentheses are gone and what follows the expression is judged as if they had not been written (a predicate or a second group after a parenthesised group becomes a compile error)"
		}
		r.Add(o)
	}
	return n
}

// ---------------------------------------------------------------------------------------
// SORTVALID (C13): order-by yields a value only after its keys have been checked.
//
// The function that can raise the key errors of order-by (it constructs ErrNonSortable) is the
// validator. In every function that calls it, each return that hands back a value (not the
// undefined value) without an error must lie behind the validator's err == nil edge: a shortcut
// for short sequences that returns before the keys are evaluated turns "keys of another type are
// errors" into a value for those sequences.
// ---------------------------------------------------------------------------------------

func runSORTVALID(c *Ctx, r *Result, rule string) int {
	lib := c.W.Lib["jsonata"]
	if lib == nil {
		return 0
	}
	var want int64 = -1
	if k, ok := lib.Types.Scope().Lookup("ErrNonSortable").(*types.Const); ok {
		want, _ = constant.Int64Val(k.Val())
	}
	if want < 0 {
		r.LoseAnchor("SORTVALID: constant ErrNonSortable not found")
		return 0
	}
	validators := map[*ssa.Function]bool{}
	for _, f := range c.W.FuncsOf(PkgSet{lib.Types: true}) {
		for _, ci := range callsIn(f) {
			g := ci.Common().StaticCallee()
			if g == nil || shortFn(g) != "jsonata.newEvalError" || len(ci.Common().Args) == 0 {
				continue
			}
			if k, ok := constInt(ci.Common().Args[0]); ok && k == want {
				validators[exceptionRoot(f)] = true
			}
		}
	}
	if len(validators) == 0 {
		r.LoseAnchor("SORTVALID: no function constructs ErrNonSortable")
		return 0
	}
	n := 0
	for _, f := range c.W.FuncsOf(PkgSet{lib.Types: true}) {
		if validators[f] || !c.REval.Set[f] {
			continue
		}
		var vcalls []*ssa.Call
		for _, ci := range callsIn(f) {
			if g := ci.Common().StaticCallee(); g != nil && validators[g] {
				if cl, ok := ci.(*ssa.Call); ok {
					vcalls = append(vcalls, cl)
				}
			}
		}
		if len(vcalls) == 0 {
			continue
		}
		ord := 0
		for _, b := range f.Blocks {
			ret, ok := b.Instrs[len(b.Instrs)-1].(*ssa.Return)
			if !ok || len(ret.Results) != 2 || !isSuccessReturn(ret) || isUndefinedLoad(ret.Results[0]) {
				continue
			}
			ord++
			n++
			o := Obligation{Rule: rule, Key: fmt.Sprintf("%s:value-return#%d", shortFn(f), ord), Fn: shortFn(f), Pos: c.W.Pos(ret.Pos()), Nontrivial: true}
			behind := false
			for _, vc := range vcalls {
				if errNilDominates(vc, b) {
					behind = true
				}
			}
			if behind {
				o.Verdict, o.Reason = Discharged, "the value is returned behind the err == nil edge of "+shortFn(vcalls[0].Call.StaticCallee())
			} else {
				o.Verdict, o.Reason = Finding, "a value is returned without the sort keys having been evaluated and checked by "+shortFn(vcalls[0].Call.StaticCallee())+": for the inputs that take this path a key of a non-sortable type is not an error"
			}
			r.Add(o)
		}
	}
	return n
}

// ---------------------------------------------------------------------------------------
// FILTERALL (C02): a predicate is evaluated for every item of the list.
//
// In applyFilter, the loop that reads the items by index is left only through its bound test or
// through a return that carries an error. A successful return from inside the loop stops the
// scan: later items are neither kept nor judged (and their errors never raised) — the shortcut
// "a number selects at most one item" is wrong when the number depends on the item.
// ---------------------------------------------------------------------------------------

func runFILTERALL(c *Ctx, r *Result, rule string) int {
	f := c.mustFn(r, "jsonata.applyFilter")
	if f == nil {
		return 0
	}
	// the list of items is whichever reflect.Value parameter the loop reads by index
	isItems := map[ssa.Value]bool{}
	for _, p := range f.Params {
		if isReflectValue(p.Type()) {
			isItems[p] = true
		}
	}
	n := 0
	// the predicate is evaluated with the item as its context: every eval of the filter node gets
	// an element read out of the item list (a predicate judged "context-free" and evaluated once
	// without a context is wrong for built-ins that default their first argument to the context)
	if ev := c.W.Fn("jsonata.eval"); ev != nil && len(f.Params) > 0 {
		ord := 0
		for _, ci := range callsIn(f) {
			if ci.Common().StaticCallee() != ev || len(ci.Common().Args) < 2 || ci.Common().Args[0] != ssa.Value(f.Params[0]) {
				continue
			}
			ord++
			n++
			o := Obligation{Rule: rule, Key: fmt.Sprintf("applyFilter:filter-context#%d", ord), Fn: shortFn(f), Pos: c.W.Pos(ci.Pos()), Nontrivial: true}
			d := ci.Common().Args[1]
			item, isCall := d.(*ssa.Call)
			if isCall && staticName(item) == "reflect.Value.Index" && len(item.Call.Args) == 2 && isItems[item.Call.Args[0]] {
				o.Verdict, o.Reason = Discharged, "the filter is evaluated with an element of the item list as its context"
			} else {
				o.Verdict, o.Reason = Finding, "the filter is evaluated against "+describeVal(d)+", not against an item of the list: the predicate is not evaluated once per item with that item as context"
			}
			r.Add(o)
		}
	}
	for _, l := range findLoops(f) {
		reads := false
		for b := range l.body {
			for _, ins := range b.Instrs {
				if call, ok := ins.(*ssa.Call); ok && staticName(call) == "reflect.Value.Index" && len(call.Call.Args) == 2 && isItems[call.Call.Args[0]] {
					// indexed by the loop's own counter (not the inner loop over an index array)
					if phi, isPhi := call.Call.Args[1].(*ssa.Phi); isPhi && phi.Block() == l.header {
						reads = true
					}
				}
			}
		}
		if !reads {
			continue
		}
		n++
		o := Obligation{Rule: rule, Key: fmt.Sprintf("applyFilter:item-loop#%d", n), Fn: shortFn(f), Pos: c.W.Pos(firstPos(l)), Nontrivial: true}
		bad := ""
		// exits other than the loop's own bound test (taken in the header): a return block or a
		// break target reached from inside the body
		for _, b := range f.Blocks {
			if !l.body[b] || b == l.header {
				continue
			}
			for _, sb := range b.Succs {
				if l.body[sb] {
					continue
				}
				seen := map[*ssa.BasicBlock]bool{}
				var walk func(x *ssa.BasicBlock)
				walk = func(x *ssa.BasicBlock) {
					if seen[x] || l.body[x] || bad != "" {
						return
					}
					seen[x] = true
					if ret, ok := x.Instrs[len(x.Instrs)-1].(*ssa.Return); ok {
						if isSuccessReturn(ret) {
							bad = c.W.Pos(ret.Pos())
						}
						return
					}
					for _, y := range x.Succs {
						walk(y)
					}
				}
				walk(sb)
			}
		}
		if bad != "" {
			o.Verdict, o.Reason = Finding, "the loop over the items can be left from inside its body towards the successful return at "+bad+": the items after the current one are neither judged nor kept"
		} else {
			o.Verdict, o.Reason = Discharged, "the loop over the items is left only by its bound test or by error returns"
		}
		r.Add(o)
	}
	return n
}

// ---------------------------------------------------------------------------------------
// HOFARGS (C15): the callback of $map/$filter/$reduce/$single gets (value, index, whole array)
// with the whole array being the array the value was taken from.
//
// An argument list literal []reflect.Value{…, X.Index(i), reflect.ValueOf(i), A, …} is found by
// its shape (an element read by index out of X, followed by the boxed index); the element after
// them must be X itself. With the unwrapped argument in that place a scalar in array position is
// handed to a three-parameter callback as a scalar, not as the one-member array it counts as.
// ---------------------------------------------------------------------------------------

func runHOFARGS(c *Ctx, r *Result, rule string, fns []*ssa.Function) int {
	n := 0
	for _, f := range fns {
		ord := 0
		for _, ins := range instrsIn(f) {
			al, ok := ins.(*ssa.Alloc)
			if !ok {
				continue
			}
			at, ok := deref(al.Type()).Underlying().(*types.Array)
			if !ok || !isReflectValue(at.Elem()) || at.Len() < 3 {
				continue
			}
			elems := map[int64]ssa.Value{}
			for _, rf := range *al.Referrers() {
				ia, ok := rf.(*ssa.IndexAddr)
				if !ok {
					continue
				}
				k, isK := intConstOf(ia.Index)
				if !isK {
					continue
				}
				for _, rf2 := range *ia.Referrers() {
					if st, ok := rf2.(*ssa.Store); ok && st.Addr == ssa.Value(ia) {
						elems[k] = st.Val
					}
				}
			}
			for k := int64(0); k+2 < at.Len(); k++ {
				// the list is built in a helper from its parameters: judged at the helper's calls
				if pi, isP := elems[k].(*ssa.Parameter); isP {
					pa, isPA := elems[k+2].(*ssa.Parameter)
					vo, isVO := elems[k+1].(*ssa.Call)
					if !isPA || !isVO || staticName(vo) != "reflect.ValueOf" || !isReflectValue(pi.Type()) || !isReflectValue(pa.Type()) {
						continue
					}
					sites, ok := c.staticCallers(f)
					if !ok || len(sites) == 0 {
						continue
					}
					ii, ia := -1, -1
					for i, q := range f.Params {
						if q == pi {
							ii = i
						}
						if q == pa {
							ia = i
						}
					}
					for _, cs := range sites {
						args := cs.Common().Args
						if ii < 0 || ia < 0 || ii >= len(args) || ia >= len(args) {
							continue
						}
						item, isCall := args[ii].(*ssa.Call)
						if !isCall || staticName(item) != "reflect.Value.Index" || len(item.Call.Args) != 2 {
							continue
						}
						ord++
						n++
						o := Obligation{Rule: rule, Key: fmt.Sprintf("%s:callback-args#%d", shortFn(cs.Parent()), ord), Fn: shortFn(cs.Parent()), Pos: c.W.Pos(cs.Pos()), Nontrivial: true}
						X, A := item.Call.Args[0], args[ia]
						if A == X || (bndCtx != nil && bndCtx.canon(A) == bndCtx.canon(X)) {
							o.Verdict, o.Reason = Discharged, "the third callback argument (handed to "+shortFn(f)+") is the array the member was read from"
						} else {
							o.Verdict, o.Reason = Finding, "the callback's whole-array argument is "+describeVal(A)+" while the member is read from "+describeVal(X)+": for an argument that is not an array the callback sees the bare value instead of the one-member array it stands for"
						}
						r.Add(o)
					}
					continue
				}
				item, isCall := elems[k].(*ssa.Call)
				if !isCall || staticName(item) != "reflect.Value.Index" || len(item.Call.Args) != 2 {
					continue
				}
				idx, isVO := elems[k+1].(*ssa.Call)
				if !isVO || staticName(idx) != "reflect.ValueOf" {
					continue
				}
				X := item.Call.Args[0]
				A := elems[k+2]
				ord++
				n++
				o := Obligation{Rule: rule, Key: fmt.Sprintf("%s:callback-args#%d", shortFn(f), ord), Fn: shortFn(f), Pos: c.W.Pos(al.Pos()), Nontrivial: true}
				if A == X || (bndCtx != nil && A != nil && bndCtx.canon(A) == bndCtx.canon(X)) {
					o.Verdict, o.Reason = Discharged, "the third callback argument is the array the member was read from"
				} else {
					o.Verdict, o.Reason = Finding, "the callback's whole-array argument is "+describeVal(A)+" while the member is read from "+describeVal(X)+": for an argument that is not an array the callback sees the bare value instead of the one-member array it stands for"
				}
				r.Add(o)
			}
		}
	}
	return n
}

// ---------------------------------------------------------------------------------------
// REFLTYPE (C09): reflect.AppendSlice joins two slices of the same type.
//
// reflect.AppendSlice(s, t) panics unless s and t have the same slice type. Rule: both operands
// are rooted in reflect.MakeSlice of the same package-level type value — through Append and
// AppendSlice (their first operand), phis, and calls of module functions whose every return is
// rooted the same way (a function that is being judged counts as rooted: the recursive flattener
// returns what it built). A fast path that hands back its argument "because there is nothing to
// flatten" returns a slice of whatever type the argument has.
// ---------------------------------------------------------------------------------------

func runREFLTYPE(c *Ctx, r *Result, rule string, fns []*ssa.Function) int {
	onPath := map[ssa.Value]bool{}
	var root func(v ssa.Value, busy map[*ssa.Function]bool, depth int) string
	root = func(v ssa.Value, busy map[*ssa.Function]bool, depth int) string {
		if depth > 40 {
			return ""
		}
		switch x := v.(type) {
		case *ssa.Phi:
			if onPath[v] {
				return "*" // a cycle through phis: judged by the other edges
			}
			onPath[v] = true
			defer delete(onPath, v)
			res := ""
			for _, e := range x.Edges {
				if e == v {
					continue
				}
				t := root(e, busy, depth+1)
				if t == "*" {
					continue
				}
				if t == "" || (res != "" && res != t) {
					return ""
				}
				res = t
			}
			if res == "" {
				return "*"
			}
			return res
		case *ssa.Call:
			g := x.Call.StaticCallee()
			if g == nil {
				return ""
			}
			switch g.String() {
			case "reflect.MakeSlice":
				if ld, ok := x.Call.Args[0].(*ssa.UnOp); ok && ld.Op == token.MUL {
					if gl, ok := ld.X.(*ssa.Global); ok {
						return gl.String()
					}
				}
				return ""
			case "reflect.Append", "reflect.AppendSlice":
				return root(x.Call.Args[0], busy, depth+1)
			}
			if len(g.Blocks) == 0 || !c.G.InSc[g] {
				return ""
			}
			if busy[g] {
				return "*" // coinductive: judged by the other returns
			}
			busy[g] = true
			defer delete(busy, g)
			res := ""
			for _, b := range g.Blocks {
				ret, ok := b.Instrs[len(b.Instrs)-1].(*ssa.Return)
				if !ok || len(ret.Results) == 0 {
					continue
				}
				t := root(ret.Results[0], busy, depth+1)
				if t == "*" {
					continue
				}
				if t == "" || (res != "" && res != t) {
					return ""
				}
				res = t
			}
			if res == "" {
				return "*"
			}
			return res
		}
		return ""
	}
	n := 0
	for _, f := range fns {
		ord := 0
		for _, ci := range callsIn(f) {
			g := ci.Common().StaticCallee()
			if g == nil || g.String() != "reflect.AppendSlice" {
				continue
			}
			ord++
			n++
			o := Obligation{Rule: rule, Key: fmt.Sprintf("%s:AppendSlice#%d", shortFn(f), ord), Fn: shortFn(f), Pos: c.W.Pos(ci.Pos()), Nontrivial: true}
			a := root(ci.Common().Args[0], map[*ssa.Function]bool{}, 0)
			b := root(ci.Common().Args[1], map[*ssa.Function]bool{}, 0)
			if a != "" && a != "*" && (b == a || b == "*") {
				o.Verdict, o.Reason = Discharged, "both operands are slices made with reflect.MakeSlice("+a+", …)"
			} else {
				o.Verdict, o.Reason = Finding, "reflect.AppendSlice panics when its operands have different slice types, and the second operand ("+describeVal(ci.Common().Args[1])+") is not, on every path, a slice made with the same type as the first: a typed slice such as the []string of $split or $keys reaches it"
			}
			r.Add(o)
		}
	}
	return n
}

// ---------------------------------------------------------------------------------------
// DEDUP (C14, C15): a value admitted because it was not in the "seen" set is put into the set.
//
// Test-and-set pairing: where a branch is taken because a lookup M[k] in a set-like map
// (map[K]bool / map[K]struct{}) said "absent", and the code under that branch appends k to a
// result list, the same region must also store k into M. Otherwise a later occurrence of the
// same k is admitted again: "each distinct name exactly once" fails for names first met late.
// ---------------------------------------------------------------------------------------

func runDEDUP(c *Ctx, r *Result, rule string, fns []*ssa.Function) int {
	n := 0
	for _, f := range fns {
		ord := 0
		for _, b := range f.Blocks {
			iff, ok := b.Instrs[len(b.Instrs)-1].(*ssa.If)
			if !ok {
				continue
			}
			cond := iff.Cond
			neg := false
			for i := 0; i < 3; i++ {
				if u, isU := cond.(*ssa.UnOp); isU && u.Op == token.NOT {
					cond, neg = u.X, !neg
				}
			}
			var look *ssa.Lookup
			switch x := cond.(type) {
			case *ssa.Lookup:
				if !x.CommaOk {
					look = x
				}
			case *ssa.Extract:
				if lk, isLk := x.Tuple.(*ssa.Lookup); isLk && lk.CommaOk && x.Index == 1 {
					look = lk
				}
			}
			if look == nil {
				continue
			}
			mt, isMap := look.X.Type().Underlying().(*types.Map)
			if !isMap {
				continue
			}
			switch e := mt.Elem().Underlying().(type) {
			case *types.Basic:
				if e.Kind() != types.Bool {
					continue
				}
			case *types.Struct:
				if e.NumFields() != 0 {
					continue
				}
			default:
				continue
			}
			// the successor taken when the key is absent
			absent := b.Succs[1]
			if neg {
				absent = b.Succs[0]
			}
			if len(absent.Preds) != 1 {
				continue
			}
			appends, stores := false, false
			for _, rb := range f.Blocks {
				if rb != absent && !absent.Dominates(rb) {
					continue
				}
				for _, ins := range rb.Instrs {
					switch x := ins.(type) {
					case *ssa.MapUpdate:
						if x.Map == look.X && sameKeyValue(c, x.Key, look.Index) {
							stores = true
						}
					case *ssa.Call:
						if bi, isB := x.Call.Value.(*ssa.Builtin); isB && bi.Name() == "append" {
							for _, el := range variadicElems(x.Call.Args[1]) {
								if el == look.Index || sameKeyValue(c, el, look.Index) {
									appends = true
								}
							}
						}
					}
				}
			}
			if !appends {
				continue
			}
			ord++
			n++
			o := Obligation{Rule: rule, Key: fmt.Sprintf("%s:test-and-set#%d", shortFn(f), ord), Fn: shortFn(f), Pos: c.W.Pos(look.Pos()), Nontrivial: true}
			if stores {
				o.Verdict, o.Reason = Discharged, "the value appended because it was absent from the set is stored into the set under the same branch"
			} else {
				o.Verdict, o.Reason = Finding, "a value is appended to the result because the set lookup said it was absent, but it is not put into the set: a later occurrence of the same value is appended again"
			}
			r.Add(o)
		}
	}
	return n
}

// ---------------------------------------------------------------------------------------
// AMPM (C19): the am/pm marker is "pm" exactly for the hours 12..23.
//
// In the function dispatched for the am/pm component, the value that reaches the name formatter
// is a choice between the language's am and pm names. Interval proof at each arm of the choice:
// where the pm names are chosen the hour of the day (time.Time.Hour of the function's time
// argument) is shown >= 12, where the am names are chosen it is shown <= 11. A flag computed by a
// 12-hour helper that says pm only for hours above 12 makes noon "am".
// ---------------------------------------------------------------------------------------

func runAMPM(c *Ctx, r *Result, rule string) int {
	exp := c.mustFn(r, "jxpath.expandDateComponent")
	if exp == nil {
		return 0
	}
	var kP int64 = -1
	if k, ok := exp.Pkg.Pkg.Scope().Lookup("dateAMPM").(*types.Const); ok {
		kP, _ = constant.Int64Val(k.Val())
	}
	if kP < 0 {
		r.LoseAnchor("AMPM: constant dateAMPM not found")
		return 0
	}
	var fP *ssa.Function
	for _, b := range exp.Blocks {
		ks, ok := caseConstsOf(b, func(v ssa.Value) bool { return true })
		if !ok {
			continue
		}
		is := false
		for _, k := range ks {
			if k == kP {
				is = true
			}
		}
		if !is {
			continue
		}
		for _, ins := range b.Instrs {
			if call, ok := ins.(*ssa.Call); ok {
				if g := call.Call.StaticCallee(); g != nil && g.Pkg == exp.Pkg {
					fP = g
				}
			}
		}
	}
	if fP == nil {
		r.LoseAnchor("AMPM: the formatter of the am/pm component was not found in expandDateComponent")
		return 0
	}
	bndCtx = c
	// the hour of the day in fP
	var hour ssa.Value
	for _, ci := range callsIn(fP) {
		if g := ci.Common().StaticCallee(); g != nil && g.String() == "(time.Time).Hour" {
			if v, ok := ci.(*ssa.Call); ok {
				hour = v
			}
		}
	}
	fieldOf := func(v ssa.Value) string {
		ld, ok := v.(*ssa.UnOp)
		if !ok || ld.Op != token.MUL {
			return ""
		}
		fa, ok := ld.X.(*ssa.FieldAddr)
		if !ok {
			return ""
		}
		st, ok := deref(fa.X.Type()).Underlying().(*types.Struct)
		if !ok {
			return ""
		}
		return st.Field(fa.Field).Name()
	}
	n := 0
	for _, ins := range instrsIn(fP) {
		phi, ok := ins.(*ssa.Phi)
		if !ok {
			continue
		}
		arms := map[string][]int{}
		for i, e := range phi.Edges {
			if fn := fieldOf(e); fn == "am" || fn == "pm" {
				arms[fn] = append(arms[fn], i)
			}
		}
		if len(arms["am"]) == 0 || len(arms["pm"]) == 0 {
			continue
		}
		for _, which := range []string{"am", "pm"} {
			for _, i := range arms[which] {
				n++
				pr := phi.Block().Preds[i]
				o := Obligation{Rule: rule, Key: fmt.Sprintf("%s:%s-arm#%d", shortFn(fP), which, len(arms[which])), Fn: shortFn(fP), Pos: c.W.Pos(phi.Edges[i].Pos()), Nontrivial: true}
				if hour == nil {
					o.Verdict, o.Reason = Undecided, "the function does not read time.Time.Hour itself: how it decides between am and pm is not followed"
					r.Add(o)
					continue
				}
				// the arm is the edge pr -> phi.Block(): facts of the branch that governs it
				p := newBndProver(c, pr.Instrs[len(pr.Instrs)-1], 0)
				if to := phi.Block(); len(pr.Succs) == 2 {
					p.edgeFacts(pr, to)
				}
				h := bnorm(hour)
				okArm := false
				if which == "pm" {
					okArm = p.prove(blin{c: 12}, h)
				} else {
					okArm = p.prove(h, blin{c: 11})
				}
				switch {
				case okArm && which == "pm":
					o.Verdict, o.Reason = Discharged, "where the pm names are chosen the hour of the day is shown to be at least 12"
				case okArm:
					o.Verdict, o.Reason = Discharged, "where the am names are chosen the hour of the day is shown to be at most 11"
				case which == "pm":
					o.Verdict, o.Reason = Finding, "where the pm names are chosen the hour of the day is not shown to be at least 12"
				default:
					o.Verdict, o.Reason = Finding, "where the am names are chosen the hour of the day is not shown to be at most 11 (a flag that is true only above 12 shows noon as am)"
				}
				r.Add(o)
			}
		}
	}
	return n
}

// ---------------------------------------------------------------------------------------
// PAIR (C08): a parser function returns either a node and no error, or an error and no node.
//
// Every return of a jparse function with results (node, error): the error is the nil constant,
// or the node is the nil constant, or both results are the two results of one call of another
// such function (a pair that is handed on satisfies the rule if its producer does). `return n,
// optimizeOperands(…)` hands out a half-optimised node (with a nil child) together with the
// error: jparse.Parse then returns a non-nil expression and an error.
// ---------------------------------------------------------------------------------------

func runPAIR(c *Ctx, r *Result, rule string, fns []*ssa.Function) int {
	n := 0
	for _, f := range fns {
		res := f.Signature.Results()
		if res.Len() != 2 || !isErrorType(res.At(1).Type()) {
			continue
		}
		switch res.At(0).Type().Underlying().(type) {
		case *types.Interface, *types.Pointer:
		default:
			continue
		}
		ord := 0
		for _, b := range f.Blocks {
			ret, ok := b.Instrs[len(b.Instrs)-1].(*ssa.Return)
			if !ok || len(ret.Results) != 2 {
				continue
			}
			ord++
			n++
			o := Obligation{Rule: rule, Key: fmt.Sprintf("%s:return#%d", shortFn(f), ord), Fn: shortFn(f), Pos: c.W.Pos(ret.Pos()), Nontrivial: false}
			v, e := ret.Results[0], ret.Results[1]
			if f.Recover != nil && b == f.Recover {
				// the return after a recovered panic hands out what the deferred closure stored
				// into the named results; that closure is the subject of the ERR rule
				o.Verdict, o.Reason = Discharged, "return after a recovered panic: the named results are set by the deferred closure (ERR rule)"
				r.Add(o)
				continue
			}
			// named results that a deferred closure can see are returned through their cells:
			// what is returned is what this block stored into them last
			// what a load of a result cell yields: the last value stored into the cell before the
			// load, looked up through loads of cells in turn (`root, err = f(); return root, err`
			// stores, reloads and stores again)
			var cellAt func(x ssa.Value, depth int) ssa.Value
			cellAt = func(x ssa.Value, depth int) ssa.Value {
				ld, ok := x.(*ssa.UnOp)
				if !ok || ld.Op != token.MUL || depth > 6 {
					return x
				}
				al, ok := ld.X.(*ssa.Alloc)
				if !ok {
					return x
				}
				blk := ld.Block()
				limit := -1
				for k, ins := range blk.Instrs {
					if ins == ssa.Instruction(ld) {
						limit = k
					}
				}
				for hops := 0; blk != nil && hops < 4; hops++ {
					var last ssa.Value
					for k, ins := range blk.Instrs {
						if limit >= 0 && k >= limit {
							break
						}
						if st, isSt := ins.(*ssa.Store); isSt && st.Addr == ssa.Value(al) {
							last = st.Val
						}
					}
					if last != nil {
						return cellAt(last, depth+1)
					}
					if len(blk.Preds) != 1 {
						break
					}
					blk, limit = blk.Preds[0], -1
				}
				return x
			}
			cellVal := func(x ssa.Value) ssa.Value { return cellAt(x, 0) }
			v, e = cellVal(v), cellVal(e)
			forwarded := false
			if x0, ok0 := v.(*ssa.Extract); ok0 {
				if x1, ok1 := e.(*ssa.Extract); ok1 && x0.Tuple == x1.Tuple && x0.Index == 0 && x1.Index == 1 {
					forwarded = true
				}
			}
			switch {
			case isNilConst(e):
				o.Verdict, o.Reason = Discharged, "returns without an error"
			case isNilConst(v):
				o.Verdict, o.Reason = Discharged, "returns an error and no node"
			case forwarded:
				o.Verdict, o.Reason = Discharged, "hands on the pair another function returned"
			case errProvablyNil(e, b):
				o.Verdict, o.Reason = Discharged, "the error is nil on this path"
			default:
				o.Nontrivial = true
				o.Verdict, o.Reason = Finding, "a node ("+describeVal(v)+") is returned together with an error that may be non-nil ("+describeVal(e)+"): callers that test only the error are fine, but jparse.Parse hands the pair out — a non-nil, half-built expression next to an error"
			}
			r.Add(o)
		}
	}
	return n
}

// errProvablyNil: block b lies on the err == nil edge of a test of e.
func errProvablyNil(e ssa.Value, b *ssa.BasicBlock) bool {
	return domGuard(b, func(cond ssa.Value) (int, bool) { return nilEdge(cond, e, true) })
}

// ---------------------------------------------------------------------------------------
// ERRIS (C20, C10): "no value" is the sentinel itself, not an error that wraps it.
//
// An extension's non-nil error becomes Eval's error; only the bare jtypes.ErrUndefined stands
// for "no value". A comparison by errors.Is (or errors.As) against an ErrUndefined sentinel also
// accepts fmt.Errorf("…: %w", ErrUndefined) and swallows that error. Rule: no call of errors.Is /
// errors.As under Eval has a sentinel named ErrUndefined as its target.
// ---------------------------------------------------------------------------------------

func runERRIS(c *Ctx, r *Result, rule string, fns []*ssa.Function) int {
	n := 0
	for _, f := range fns {
		ord := 0
		for _, ci := range callsIn(f) {
			g := ci.Common().StaticCallee()
			if g == nil || (g.String() != "errors.Is" && g.String() != "errors.As") || len(ci.Common().Args) != 2 {
				continue
			}
			ord++
			n++
			o := Obligation{Rule: rule, Key: fmt.Sprintf("%s:%s#%d", shortFn(f), g.Name(), ord), Fn: shortFn(f), Pos: c.W.Pos(ci.Pos()), Nontrivial: true}
			target := ci.Common().Args[1]
			if mi, ok := target.(*ssa.MakeInterface); ok {
				target = mi.X
			}
			name := ""
			if ld, ok := target.(*ssa.UnOp); ok && ld.Op == token.MUL {
				if gl, ok := ld.X.(*ssa.Global); ok {
					name = gl.Name()
				}
			}
			if name == "ErrUndefined" {
				o.Verdict, o.Reason = Finding, "an error is compared with the ErrUndefined sentinel by errors."+g.Name()+": an error that wraps the sentinel counts as \"no value\" and is swallowed instead of becoming Eval's error"
			} else {
				o.Verdict, o.Reason = Discharged, "errors."+g.Name()+" against something other than the no-value sentinel"
			}
			r.Add(o)
		}
	}
	return n
}

// ---------------------------------------------------------------------------------------
// HALFADD (C18): rounding to the nearest integer is not floor(x + 0.5).
//
// x + 0.5 is itself rounded: for the largest double below 0.5 (0.49999999999999994) the sum is
// exactly 1.0, so math.Floor(x + 0.5) gives 1 where the nearest integer is 0; the same happens
// for odd integers above 2^52, where x + 0.5 rounds up to the next even number. math.Round and
// math.RoundToEven exist because of this. Rule: under the number functions no value of the
// forms math.Floor(v + 0.5), math.Ceil(v - 0.5), math.Trunc(v ± 0.5).
// ---------------------------------------------------------------------------------------

func runHALFADD(c *Ctx, r *Result, rule string, fns []*ssa.Function) int {
	isHalf := func(v ssa.Value, want float64) bool {
		k, ok := v.(*ssa.Const)
		if !ok || k.Value == nil {
			return false
		}
		f, _ := constant.Float64Val(constant.ToFloat(k.Value))
		return f == want
	}
	n, scanned := 0, 0
	for _, f := range fns {
		ord := 0
		for _, ci := range callsIn(f) {
			g := ci.Common().StaticCallee()
			if g == nil || len(ci.Common().Args) != 1 {
				continue
			}
			name := g.String()
			if name != "math.Floor" && name != "math.Ceil" && name != "math.Trunc" {
				continue
			}
			scanned++
			bo, ok := ci.Common().Args[0].(*ssa.BinOp)
			if !ok || !isFloatT(bo.Type()) {
				continue
			}
			half := false
			switch bo.Op {
			case token.ADD:
				half = isHalf(bo.X, 0.5) || isHalf(bo.Y, 0.5) || isHalf(bo.X, -0.5) || isHalf(bo.Y, -0.5)
			case token.SUB:
				half = isHalf(bo.Y, 0.5) || isHalf(bo.Y, -0.5)
			}
			if !half {
				continue
			}
			ord++
			n++
			r.Add(Obligation{Rule: rule, Key: fmt.Sprintf("%s:%s-half#%d", shortFn(f), g.Name(), ord), Fn: shortFn(f), Pos: c.W.Pos(ci.Pos()), Nontrivial: true,
				Verdict: Finding, Reason: "math." + g.Name() + " of a value plus or minus 0.5 is used as rounding to the nearest integer: the addition is itself rounded, so the largest double below 0.5 (0.49999999999999994) becomes 1 instead of 0 and odd integers above 2^52 move to the next even number; math.Round / math.RoundToEven do it exactly"})
		}
	}
	r.Count(rule+" math.Floor/Ceil/Trunc calls scanned", scanned)
	return n
}

// ---------------------------------------------------------------------------------------
// ACCFRESH (C02): the survivors of a filter are collected in a list of their own.
//
// Every reflect.Append in applyFilter appends to a value rooted in reflect.MakeSlice — through
// earlier Appends and phis, or through a parameter for which every caller passes such a value.
// An accumulator that is a re-slice of the list being read (items.Slice(0, 0): "compact in
// place") is overwritten ahead of the read position as soon as one item is kept twice, which an
// index-array predicate with repeated positions does.
// ---------------------------------------------------------------------------------------

func runACCFRESH(c *Ctx, r *Result, rule string) int {
	f := c.mustFn(r, "jsonata.applyFilter")
	if f == nil {
		return 0
	}
	onPath := map[ssa.Value]bool{}
	var fresh func(v ssa.Value, depth int) bool
	fresh = func(v ssa.Value, depth int) bool {
		if depth > 20 {
			return false
		}
		switch x := v.(type) {
		case *ssa.Phi:
			if onPath[v] {
				return true
			}
			onPath[v] = true
			defer delete(onPath, v)
			for _, e := range x.Edges {
				if !fresh(e, depth+1) {
					return false
				}
			}
			return len(x.Edges) > 0
		case *ssa.Call:
			switch staticName(x) {
			case "reflect.MakeSlice":
				return true
			case "reflect.Append", "reflect.AppendSlice":
				return fresh(x.Call.Args[0], depth+1)
			}
			// a constructor of the module: every return is a fresh list
			if g := x.Call.StaticCallee(); g != nil && c.G.InSc[g] && len(g.Blocks) > 0 {
				nret := 0
				for _, b := range g.Blocks {
					ret, ok := b.Instrs[len(b.Instrs)-1].(*ssa.Return)
					if !ok || len(ret.Results) == 0 {
						continue
					}
					nret++
					if !fresh(ret.Results[0], depth+1) {
						return false
					}
				}
				return nret > 0
			}
			return false
		case *ssa.Parameter:
			g := x.Parent()
			idx := -1
			for i, q := range g.Params {
				if q == x {
					idx = i
				}
			}
			sites, ok := c.staticCallers(g)
			if !ok || idx < 0 || len(sites) == 0 {
				return false
			}
			for _, s := range sites {
				if idx >= len(s.Common().Args) || !fresh(s.Common().Args[idx], depth+1) {
					return false
				}
			}
			return true
		}
		return false
	}
	n := 0
	for _, ci := range callsIn(f) {
		call, ok := ci.(*ssa.Call)
		if !ok || staticName(call) != "reflect.Append" {
			continue
		}
		n++
		o := Obligation{Rule: rule, Key: fmt.Sprintf("applyFilter:append#%d", n), Fn: shortFn(f), Pos: c.W.Pos(call.Pos()), Nontrivial: true}
		if fresh(call.Call.Args[0], 0) {
			o.Verdict, o.Reason = Discharged, "the survivors are appended to a list made with reflect.MakeSlice for them"
		} else {
			o.Verdict, o.Reason = Finding, "the survivors are appended to "+describeVal(call.Call.Args[0])+", which is not (on every path and at every call) a list made for them: collecting them in a re-slice of the list being filtered overwrites items that have not been read yet when one item is kept more than once"
		}
		r.Add(o)
	}
	return n
}

// ---------------------------------------------------------------------------------------
// SORTGATE (C13): a collector that skips members of the wrong type runs only on arrays that were
// checked as a whole.
//
// sortNumberArray / sortStringArray copy the members that jtypes.AsNumber / AsString accept and
// silently leave out the others (they have no error result). That is right only because $sort
// calls them behind jtypes.IsArrayOf(v, IsNumber / IsString), which looks at every member. Rule:
// every call of such a collector (a jlib function without an error result whose loop over the
// array keeps only the members an As… helper accepts) lies on the true edge of jtypes.IsArrayOf
// applied to the same value. A dispatch that looks at the first member only lets `$sort(["b",
// true, "a"])` return ["a", "b"] instead of an error.
// ---------------------------------------------------------------------------------------

func runSORTGATE(c *Ctx, r *Result, rule string) int {
	lib := c.W.Lib["jlib"]
	if lib == nil {
		return 0
	}
	collectors := map[*ssa.Function]bool{}
	for _, f := range c.W.FuncsOf(PkgSet{lib.Types: true}) {
		if !c.REval.Set[f] || len(f.Params) != 1 || !isReflectValue(f.Params[0].Type()) || len(findLoops(f)) == 0 {
			continue
		}
		res := f.Signature.Results()
		if res.Len() != 1 {
			continue
		}
		if _, isSlice := res.At(0).Type().Underlying().(*types.Slice); !isSlice {
			continue
		}
		for _, ci := range callsIn(f) {
			g := ci.Common().StaticCallee()
			if g == nil || (shortFn(g) != "jtypes.AsNumber" && shortFn(g) != "jtypes.AsString") {
				continue
			}
			collectors[f] = true
		}
	}
	n := 0
	for _, f := range c.W.FuncsOf(PkgSet{lib.Types: true}) {
		if !c.REval.Set[f] {
			continue
		}
		ord := 0
		for _, ci := range callsIn(f) {
			g := ci.Common().StaticCallee()
			if g == nil || !collectors[g] || len(ci.Common().Args) != 1 {
				continue
			}
			ord++
			n++
			// jtypes.Resolve of a value is the same array seen through its interface/pointer wrappers
			unresolved := func(v ssa.Value) ssa.Value {
				for {
					rc, ok := v.(*ssa.Call)
					if !ok || rc.Call.StaticCallee() == nil || shortFn(rc.Call.StaticCallee()) != "jtypes.Resolve" || len(rc.Call.Args) != 1 {
						return v
					}
					v = rc.Call.Args[0]
				}
			}
			v := unresolved(ci.Common().Args[0])
			o := Obligation{Rule: rule, Key: fmt.Sprintf("%s:%s#%d", shortFn(f), g.Name(), ord), Fn: shortFn(f), Pos: c.W.Pos(ci.Pos()), Nontrivial: true}
			gated := domGuard(ci.Block(), func(cond ssa.Value) (int, bool) {
				m, ok := cond.(*ssa.Call)
				if !ok || m.Call.StaticCallee() == nil || shortFn(m.Call.StaticCallee()) != "jtypes.IsArrayOf" || len(m.Call.Args) != 2 || unresolved(m.Call.Args[0]) != v {
					return 0, false
				}
				return 0, true
			})
			if gated {
				o.Verdict, o.Reason = Discharged, "called on the true edge of jtypes.IsArrayOf on the same array: every member has the type the collector keeps"
			} else {
				o.Verdict, o.Reason = Finding, g.Name()+" leaves out members of another type without an error, and this call is not behind jtypes.IsArrayOf on the same array: an array with one member of another type is sorted with that member silently dropped"
			}
			r.Add(o)
		}
	}
	return n
}

// ---------------------------------------------------------------------------------------
// LEDLOOP (C04): only parseExpression decides, by binding power, whether the next operator
// belongs to the expression being built.
//
// A nud/led function may loop over a delimited list (arguments, array items, object pairs, sort
// terms), parsing each item with parseExpression(0). A loop in such a function that parses
// operands with the binding power of an operator is a second operator loop: it takes the next
// operator without asking the right binding power of its caller, so `a - b * c + d` groups as
// a - ((b * c) + d). Rule: outside parseExpression, every call of parseExpression that lies in
// a loop has the constant 0 as its argument.
// ---------------------------------------------------------------------------------------

func runLEDLOOP(c *Ctx, r *Result, rule string) int {
	pe := c.mustFn(r, "jparse.(*parser).parseExpression")
	lib := c.W.Lib["jparse"]
	if pe == nil || lib == nil {
		return 0
	}
	n := 0
	for _, f := range c.W.FuncsOf(PkgSet{lib.Types: true}) {
		if f == pe || !c.RCompile.Set[f] {
			continue
		}
		loops := findLoops(f)
		if len(loops) == 0 {
			continue
		}
		ord := 0
		for _, ci := range callsIn(f) {
			if ci.Common().StaticCallee() != pe || len(ci.Common().Args) < 2 {
				continue
			}
			in := false
			for _, l := range loops {
				if l.body[ci.Block()] {
					in = true
				}
			}
			if !in {
				continue
			}
			ord++
			n++
			o := Obligation{Rule: rule, Key: fmt.Sprintf("%s:parseExpression-in-loop#%d", shortFn(f), ord), Fn: shortFn(f), Pos: c.W.Pos(ci.Pos()), Nontrivial: true}
			if k, ok := intConstOf(ci.Common().Args[1]); ok && k == 0 {
				o.Verdict, o.Reason = Discharged, "an item of a delimited list is parsed with parseExpression(0)"
			} else {
				o.Verdict, o.Reason = Finding, "a loop outside parseExpression parses operands with a binding power that is not 0 ("+describeVal(ci.Common().Args[1])+"): a second operator loop, which takes following operators without regard to the right binding power of the expression it is part of"
			}
			r.Add(o)
		}
	}
	return n
}
