package main

import (
	"fmt"
	"go/token"
	"go/types"

	"golang.org/x/tools/go/ssa"
)

// ---------------------------------------------------------------------------------------
// Rules added after the fifth round of seeded changes. Each is a structural necessary
// condition that two independent authors broke in the same way.
// ---------------------------------------------------------------------------------------

// LASTSTEP (C01).
//
// evalPathStep turns the per-item results of a step into a *sequence*: array-valued results are
// flattened one level into it, array-constructor results are kept as units. The one place where
// a raw per-item result leaves the function unwrapped is the lone-array shortcut, and that is
// only sound for the LAST step of a path: the next step would map over the members of a
// constructed array instead of seeing it as one item (`a.[b,c].$count($)`). Rule: in the step
// function evalPath's loop calls, every success return whose value is not "no value" and not a
// boxed *sequence is dominated by the true edge of the last-step flag, and the flag every call
// site passes is a test that the loop index is the last index of the step list.
func runLASTSTEP(c *Ctx, r *Result, rule string) int {
	ep := c.W.Fn("jsonata.evalPath")
	step := c.W.Fn("jsonata.evalPathStep")
	if ep == nil || step == nil {
		r.LoseAnchor("LASTSTEP: jsonata.evalPath or jsonata.evalPathStep not found")
		return 0
	}
	n := 0
	// the boolean parameters of the step function
	var flags []*ssa.Parameter
	for _, p := range step.Params {
		if b, ok := p.Type().Underlying().(*types.Basic); ok && b.Kind() == types.Bool {
			flags = append(flags, p)
		}
	}
	var seqT types.Type
	if tn, ok := step.Pkg.Pkg.Scope().Lookup("sequence").(*types.TypeName); ok {
		seqT = tn.Type()
	}
	isSeqBox := func(v ssa.Value) bool {
		call, ok := v.(*ssa.Call)
		if !ok || staticName(call) != "reflect.ValueOf" {
			return false
		}
		mi, ok := call.Call.Args[0].(*ssa.MakeInterface)
		if !ok {
			return false
		}
		pt, ok := mi.X.Type().(*types.Pointer)
		return ok && seqT != nil && types.Identical(pt.Elem(), seqT)
	}
	var rawWhy func(v ssa.Value, seen map[ssa.Value]bool) string
	rawWhy = func(v ssa.Value, seen map[ssa.Value]bool) string {
		if seen[v] {
			return ""
		}
		seen[v] = true
		switch x := v.(type) {
		case *ssa.Phi:
			for _, e := range x.Edges {
				if w := rawWhy(e, seen); w != "" {
					return w
				}
			}
			return ""
		case *ssa.Const:
			return ""
		case *ssa.UnOp:
			if isUndefinedLoad(x) {
				return ""
			}
		case *ssa.Call:
			if isSeqBox(x) {
				return ""
			}
		}
		return describeVal(v)
	}
	rets := 0
	for _, b := range step.Blocks {
		ret, ok := b.Instrs[len(b.Instrs)-1].(*ssa.Return)
		if !ok || len(ret.Results) != 2 || !isSuccessReturn(ret) {
			continue
		}
		rets++
		n++
		o := Obligation{Rule: rule, Key: fmt.Sprintf("evalPathStep:result#%d", rets), Fn: shortFn(step), Pos: c.W.Pos(ret.Pos()), Nontrivial: true}
		why := rawWhy(ret.Results[0], map[ssa.Value]bool{})
		switch {
		case why == "":
			o.Verdict, o.Reason = Discharged, "returns no value or a boxed *sequence (flattened once, constructor results kept as units)"
		default:
			guarded := false
			for _, fl := range flags {
				fl := fl
				if domGuard(b, func(cond ssa.Value) (int, bool) { return boolEdge(cond, fl, true) }) {
					guarded = true
				}
			}
			if guarded {
				o.Verdict, o.Reason = Discharged, "a per-item result is returned unwrapped only under the last-step flag"
			} else {
				o.Verdict, o.Reason = Finding, "a per-item result ("+why+") is returned unwrapped on a path that is not restricted to the last step of the path: the next step would map over the members of a constructed array instead of taking it as one item"
			}
		}
		r.Add(o)
	}
	// the flag passed by evalPath
	ord := 0
	for _, ins := range instrsIn(ep) {
		call, ok := ins.(*ssa.Call)
		if !ok || call.Call.StaticCallee() != step {
			continue
		}
		for i, p := range step.Params {
			isFlag := false
			for _, fl := range flags {
				if fl == p {
					isFlag = true
				}
			}
			if !isFlag || i >= len(call.Call.Args) {
				continue
			}
			ord++
			n++
			o := Obligation{Rule: rule, Key: fmt.Sprintf("evalPath:last-step-flag#%d", ord), Fn: shortFn(ep), Pos: c.W.Pos(call.Pos()), Nontrivial: true}
			if isLastIndexTest(call.Call.Args[i]) {
				o.Verdict, o.Reason = Discharged, "the flag is a test that the loop index is the last index of the step list"
			} else {
				o.Verdict, o.Reason = Undecided, "the last-step flag passed to evalPathStep is "+describeVal(call.Call.Args[i])+", not a recognised test that the loop index is len(steps)-1"
			}
			r.Add(o)
		}
	}
	return n
}

// isLastIndexTest: i == len(x)-1 (or >=), i+1 == len(x) (or >=), with either operand order.
func isLastIndexTest(v ssa.Value) bool {
	b, ok := v.(*ssa.BinOp)
	if !ok {
		return false
	}
	lenMinus := func(x ssa.Value, k int64) bool {
		// len(..) - k, or len(..) when k == 0
		if k == 0 {
			return isLenCall(x)
		}
		s, ok := x.(*ssa.BinOp)
		if !ok || s.Op != token.SUB {
			return false
		}
		kk, ok := intConstOf(s.Y)
		return ok && kk == k && isLenCall(s.X)
	}
	plus := func(x ssa.Value, k int64) (ssa.Value, bool) {
		s, ok := x.(*ssa.BinOp)
		if !ok || s.Op != token.ADD {
			return nil, false
		}
		if kk, ok := intConstOf(s.Y); ok && kk == k {
			return s.X, true
		}
		if kk, ok := intConstOf(s.X); ok && kk == k {
			return s.Y, true
		}
		return nil, false
	}
	isIndex := func(x ssa.Value) bool {
		_, isPhi := x.(*ssa.Phi)
		if isPhi {
			return true
		}
		// range loops over a slice number their iterations with phi+1
		if in, ok := plus(x, 1); ok {
			_, isPhi := in.(*ssa.Phi)
			return isPhi
		}
		return false
	}
	try := func(idx, bound ssa.Value, op token.Token) bool {
		if op != token.EQL && op != token.GEQ {
			return false
		}
		if lenMinus(bound, 1) && isIndex(idx) {
			return true
		}
		if in, ok := plus(idx, 1); ok && lenMinus(bound, 0) && isIndex(in) {
			return true
		}
		return false
	}
	switch b.Op {
	case token.EQL:
		return try(b.X, b.Y, token.EQL) || try(b.Y, b.X, token.EQL)
	case token.GEQ:
		return try(b.X, b.Y, token.GEQ)
	case token.LEQ:
		return try(b.Y, b.X, token.GEQ)
	}
	return false
}

func isLenCall(v ssa.Value) bool {
	call, ok := v.(*ssa.Call)
	if !ok {
		return false
	}
	bi, ok := call.Call.Value.(*ssa.Builtin)
	return ok && bi.Name() == "len"
}

// ---------------------------------------------------------------------------------------
// SEPLEN (C16): "the output is not empty yet" is not "this is not the first element".
//
// A loop that builds text from elements and separators and decides whether to write the
// separator by testing the accumulated output for emptiness (`b.Len() > 0`, `out != ""`,
// `len(buf) > 0`) drops the separator after every leading element that is itself empty:
// `$join(["", "x"], "-")` gives "x". Two independent authors rewrote $join this way. The rule
// flags, in every loop of the given functions, a branch on the emptiness of a text accumulator
// (strings.Builder, bytes.Buffer, string, []byte) that guards a write into the same accumulator,
// when the loop also writes an element that has not been tested to be non-empty.
// ---------------------------------------------------------------------------------------

type textAcc struct {
	ptr ssa.Value // *strings.Builder / *bytes.Buffer
	val ssa.Value // string or []byte value (usually a phi)
}

func isTextBuilderPtr(t types.Type) bool {
	p, ok := t.(*types.Pointer)
	if !ok {
		return false
	}
	n, ok := p.Elem().(*types.Named)
	if !ok || n.Obj().Pkg() == nil {
		return false
	}
	q := n.Obj().Pkg().Path() + "." + n.Obj().Name()
	return q == "strings.Builder" || q == "bytes.Buffer"
}

func isTextValue(t types.Type) bool {
	switch u := t.Underlying().(type) {
	case *types.Basic:
		return u.Info()&types.IsString != 0
	case *types.Slice:
		b, ok := u.Elem().Underlying().(*types.Basic)
		return ok && b.Kind() == types.Byte
	}
	return false
}

// emptinessTest: cond is a test of the accumulated text for emptiness; returns the accumulator
// and the successor index (0 true / 1 false) on which the text is NOT empty.
func emptinessTest(cond ssa.Value) (textAcc, int, bool) {
	b, ok := cond.(*ssa.BinOp)
	if !ok {
		return textAcc{}, 0, false
	}
	lenOf := func(v ssa.Value) (textAcc, bool) {
		call, ok := v.(*ssa.Call)
		if !ok {
			return textAcc{}, false
		}
		if bi, ok := call.Call.Value.(*ssa.Builtin); ok && bi.Name() == "len" && isTextValue(call.Call.Args[0].Type()) {
			return textAcc{val: call.Call.Args[0]}, true
		}
		if callee := call.Call.StaticCallee(); callee != nil && callee.Name() == "Len" && callee.Signature.Recv() != nil && len(call.Call.Args) == 1 && isTextBuilderPtr(call.Call.Args[0].Type()) {
			return textAcc{ptr: call.Call.Args[0]}, true
		}
		return textAcc{}, false
	}
	// len(A) OP k
	if acc, ok := lenOf(b.X); ok {
		if k, ok := intConstOf(b.Y); ok {
			switch {
			case (b.Op == token.GTR || b.Op == token.NEQ) && k == 0, b.Op == token.GEQ && k == 1:
				return acc, 0, true
			case (b.Op == token.EQL || b.Op == token.LEQ) && k == 0, b.Op == token.LSS && k == 1:
				return acc, 1, true
			}
		}
	}
	if acc, ok := lenOf(b.Y); ok {
		if k, ok := intConstOf(b.X); ok {
			switch {
			case (b.Op == token.LSS || b.Op == token.NEQ) && k == 0, b.Op == token.LEQ && k == 1:
				return acc, 0, true
			case (b.Op == token.EQL || b.Op == token.GEQ) && k == 0, b.Op == token.GTR && k == 1:
				return acc, 1, true
			}
		}
	}
	// A != "" / A == ""
	isEmptyStr := func(v ssa.Value) bool {
		k, ok := v.(*ssa.Const)
		return ok && k.Value != nil && k.Value.ExactString() == `""`
	}
	for _, pr := range [][2]ssa.Value{{b.X, b.Y}, {b.Y, b.X}} {
		if isEmptyStr(pr[1]) && isTextValue(pr[0].Type()) {
			switch b.Op {
			case token.NEQ:
				return textAcc{val: pr[0]}, 0, true
			case token.EQL:
				return textAcc{val: pr[0]}, 1, true
			}
		}
	}
	return textAcc{}, 0, false
}

// textWrite: ins writes text into the accumulator; returns what is written.
func textWrite(ins ssa.Instruction, acc textAcc) (ssa.Value, bool) {
	switch x := ins.(type) {
	case *ssa.Call:
		if acc.ptr != nil {
			if callee := x.Call.StaticCallee(); callee != nil && callee.Signature.Recv() != nil && len(x.Call.Args) == 2 && x.Call.Args[0] == acc.ptr {
				switch callee.Name() {
				case "WriteString", "Write", "WriteByte", "WriteRune":
					return x.Call.Args[1], true
				}
			}
			return nil, false
		}
		if bi, ok := x.Call.Value.(*ssa.Builtin); ok && bi.Name() == "append" && len(x.Call.Args) == 2 && sameAccValue(x.Call.Args[0], acc.val) {
			return x.Call.Args[1], true
		}
	case *ssa.BinOp:
		if acc.val != nil && x.Op == token.ADD && isTextValue(x.Type()) && sameAccValue(x.X, acc.val) {
			return x.Y, true
		}
	}
	return nil, false
}

// sameAccValue: v is the accumulator value a (the loop phi) or a value derived from it by
// earlier writes in the same iteration (a + sep).
func sameAccValue(v, a ssa.Value) bool {
	for d := 0; d < 6; d++ {
		if v == a {
			return true
		}
		switch x := v.(type) {
		case *ssa.BinOp:
			if x.Op != token.ADD {
				return false
			}
			v = x.X
		case *ssa.Phi:
			for _, e := range x.Edges {
				if e != v && sameAccValue2(e, a, d+1) {
					return true
				}
			}
			return false
		case *ssa.Call:
			if bi, ok := x.Call.Value.(*ssa.Builtin); ok && bi.Name() == "append" {
				v = x.Call.Args[0]
				continue
			}
			return false
		default:
			return false
		}
	}
	return false
}

func sameAccValue2(v, a ssa.Value, d int) bool {
	if d > 6 {
		return false
	}
	if v == a {
		return true
	}
	switch x := v.(type) {
	case *ssa.BinOp:
		if x.Op == token.ADD {
			return sameAccValue2(x.X, a, d+1)
		}
	case *ssa.Call:
		if bi, ok := x.Call.Value.(*ssa.Builtin); ok && bi.Name() == "append" {
			return sameAccValue2(x.Call.Args[0], a, d+1)
		}
	}
	return false
}

// provenNonEmpty: block b is dominated by a test showing text value x is not empty.
func provenNonEmpty(x ssa.Value, b *ssa.BasicBlock) bool {
	if k, ok := x.(*ssa.Const); ok {
		return k.Value != nil && k.Value.ExactString() != `""`
	}
	if _, ok := x.Type().Underlying().(*types.Basic); ok && !isTextValue(x.Type()) {
		return true // a byte or a rune is never empty
	}
	return domGuard(b, func(cond ssa.Value) (int, bool) {
		acc, succ, ok := emptinessTest(cond)
		if !ok || acc.val == nil || acc.val != x {
			return 0, false
		}
		return succ, true
	})
}

func runSEPLEN(c *Ctx, r *Result, rule string, fns []*ssa.Function) int {
	n := 0
	for _, f := range fns {
		ord := 0
		for _, hb := range f.Blocks {
			if len(hb.Instrs) == 0 || !inLoop(hb) {
				continue
			}
			iff, ok := hb.Instrs[len(hb.Instrs)-1].(*ssa.If)
			if !ok {
				continue
			}
			acc, succ, ok := emptinessTest(iff.Cond)
			if !ok {
				continue
			}
			guarded := hb.Succs[succ]
			if len(guarded.Preds) != 1 {
				continue
			}
			// a write into the same accumulator under the "not empty" edge
			sepWrite := false
			for _, gb := range f.Blocks {
				if !guarded.Dominates(gb) {
					continue
				}
				for _, ins := range gb.Instrs {
					if _, ok := textWrite(ins, acc); ok {
						sepWrite = true
					}
				}
			}
			if !sepWrite {
				continue
			}
			ord++
			n++
			o := Obligation{Rule: rule, Key: fmt.Sprintf("%s:separator-by-length#%d", shortFn(f), ord), Fn: shortFn(f), Pos: c.W.Pos(iff.Cond.Pos()), Nontrivial: true}
			// an element written in the same loop that may be empty
			bad := ""
			for _, eb := range f.Blocks {
				if guarded.Dominates(eb) || !reaches(eb, hb) || !reaches(hb, eb) {
					continue
				}
				for _, ins := range eb.Instrs {
					if x, ok := textWrite(ins, acc); ok && !provenNonEmpty(x, eb) {
						bad = describeVal(x) + " at " + c.W.Pos(ins.Pos())
					}
				}
			}
			if bad == "" {
				o.Verdict, o.Reason = Discharged, "every element written in this loop is tested to be non-empty, so a non-empty output means an element was written"
			} else {
				o.Verdict, o.Reason = Finding, "the separator is written when the accumulated output is not empty, but the loop also writes an element that may be empty ("+bad+"): every leading empty element loses its separator"
			}
			r.Add(o)
		}
	}
	return n
}

// ---------------------------------------------------------------------------------------
// MAPEQ (C03, C15): a hand-written equality of two maps must compare sizes and presence.
//
// The tree compares containers with reflect.DeepEqual. Two independent authors replaced that by
// a loop over the keys of one map that looks each key up in the other — one forgot to compare
// the sizes (an object "equals" every superset: $distinct drops the larger one), the other
// passed the result of MapIndex on without testing that the key exists (a missing member
// "equals" a null one). Rule: in a function that returns bool, walks a.MapKeys()/MapRange() and
// calls b.MapIndex(..) on another value in that loop, (size) the lookup is dominated by the
// "equal" edge of a comparison of a.Len() with b.Len(), or the function also walks b's keys
// looking them up in a; (presence) every use of the looked-up value other than IsValid() is
// dominated by the true edge of its IsValid().
// ---------------------------------------------------------------------------------------

func reflectMethodCall(ins ssa.Instruction, name string) (*ssa.Call, ssa.Value) {
	call, ok := ins.(*ssa.Call)
	if !ok {
		return nil, nil
	}
	callee := call.Call.StaticCallee()
	if callee == nil || callee.Name() != name || callee.Signature.Recv() == nil || !isReflectValue(callee.Signature.Recv().Type()) {
		return nil, nil
	}
	return call, call.Call.Args[0]
}

func runMAPEQ(c *Ctx, r *Result, rule string, fns []*ssa.Function) int {
	n := 0
	for _, f := range fns {
		res := f.Signature.Results()
		if res.Len() == 0 {
			continue
		}
		if b, ok := res.At(0).Type().Underlying().(*types.Basic); !ok || b.Kind() != types.Bool {
			continue
		}
		walked := map[ssa.Value]bool{} // receivers of MapKeys / MapRange
		for _, ins := range instrsIn(f) {
			if _, recv := reflectMethodCall(ins, "MapKeys"); recv != nil {
				walked[recv] = true
			}
			if _, recv := reflectMethodCall(ins, "MapRange"); recv != nil {
				walked[recv] = true
			}
		}
		if len(walked) == 0 {
			continue
		}
		// lookups into a map other than a walked one, inside a loop
		type lookup struct {
			call *ssa.Call
			in   ssa.Value
		}
		var lookups []lookup
		lookedUpIn := map[ssa.Value]bool{}
		for _, ins := range instrsIn(f) {
			call, recv := reflectMethodCall(ins, "MapIndex")
			if call == nil || !inLoop(call.Block()) {
				continue
			}
			lookedUpIn[recv] = true
			if !walked[recv] {
				lookups = append(lookups, lookup{call, recv})
			}
		}
		ord := 0
		for _, lk := range lookups {
			ord++
			n += 2
			base := fmt.Sprintf("%s:map-equality#%d", shortFn(f), ord)
			// (size)
			o := Obligation{Rule: rule, Key: base + ":size", Fn: shortFn(f), Pos: c.W.Pos(lk.call.Pos()), Nontrivial: true}
			sized := false
			for a := range walked {
				a, b := a, lk.in
				if domGuard(lk.call.Block(), func(cond ssa.Value) (int, bool) {
					bo, ok := cond.(*ssa.BinOp)
					if !ok || (bo.Op != token.NEQ && bo.Op != token.EQL) {
						return 0, false
					}
					x, y := lenRecv(bo.X), lenRecv(bo.Y)
					if x == nil || y == nil || !((x == a && y == b) || (x == b && y == a)) {
						return 0, false
					}
					if bo.Op == token.NEQ {
						return 1, true
					}
					return 0, true
				}) {
					sized = true
				}
			}
			// symmetric walk: b's keys are looked up in a too
			if !sized && walked[lk.in] {
				sized = true
			}
			if !sized {
				for a := range walked {
					if lookedUpIn[a] && walked[lk.in] {
						sized = true
					}
				}
			}
			if sized {
				o.Verdict, o.Reason = Discharged, "the sizes of the two maps are compared (or both key sets are walked) before members are compared"
			} else {
				o.Verdict, o.Reason = Finding, "two maps are compared by walking the keys of one and looking them up in the other, but their sizes are never compared: a map equals every superset of itself"
			}
			r.Add(o)
			// (presence)
			o = Obligation{Rule: rule, Key: base + ":presence", Fn: shortFn(f), Pos: c.W.Pos(lk.call.Pos()), Nontrivial: true}
			var valid *ssa.Call
			for _, ref := range *lk.call.Referrers() {
				if vc, recv := reflectMethodCall(ref, "IsValid"); vc != nil && recv == lk.call {
					valid = vc
				}
			}
			bad := ""
			for _, ref := range *lk.call.Referrers() {
				if vc, recv := reflectMethodCall(ref, "IsValid"); vc != nil && recv == lk.call {
					continue
				}
				if _, ok := ref.(*ssa.DebugRef); ok {
					continue
				}
				ok := false
				if valid != nil {
					ok = domGuard(ref.Block(), func(cond ssa.Value) (int, bool) { return boolEdge(cond, valid, true) })
				}
				if !ok {
					bad = c.W.Pos(ref.Pos())
				}
			}
			if bad == "" {
				o.Verdict, o.Reason = Discharged, "the looked-up member is used only after IsValid() has shown that the key exists"
			} else {
				o.Verdict, o.Reason = Finding, "the member looked up in the other map is used ("+bad+") without a dominating IsValid(): a key that is missing there is taken for a member (a missing member equals a null one)"
			}
			r.Add(o)
		}
	}
	return n
}

// lenRecv: v is x.Len() on a reflect.Value, or len(x): returns x.
func lenRecv(v ssa.Value) ssa.Value {
	call, ok := v.(*ssa.Call)
	if !ok {
		return nil
	}
	if bi, ok := call.Call.Value.(*ssa.Builtin); ok && bi.Name() == "len" {
		return call.Call.Args[0]
	}
	if c2, recv := reflectMethodCall(call, "Len"); c2 != nil {
		return recv
	}
	return nil
}
