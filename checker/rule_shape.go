package main

import (
	"fmt"
	"go/constant"
	"go/token"
	"go/types"
	"math"
	"regexp"
	"strings"

	"golang.org/x/tools/go/ssa"
)

// ---------------------------------------------------------------------------------------
// Rules added after the fifth round of seeded changes. Each is a structural necessary
// condition that two independent authors broke in the same way.
// ---------------------------------------------------------------------------------------

// LASTSTEP (C01).
//
// evalPathStep turns the per-item results of a step into a *sequence*: array-valued results are
// flattened one level into it, array-constructor results are kept as units. The one place where
// a raw per-item result leaves the function unwrapped is the lone-array shortcut, and that is
// only sound for the LAST step of a path: the next step would map over the members of a
// constructed array instead of seeing it as one item (`a.[b,c].$count($)`). Rule: in the step
// function evalPath's loop calls, every success return whose value is not "no value" and not a
// boxed *sequence is dominated by the true edge of the last-step flag, and the flag every call
// site passes is a test that the loop index is the last index of the step list.
func runLASTSTEP(c *Ctx, r *Result, rule string) int {
	ep := c.W.Fn("jsonata.evalPath")
	step := c.W.Fn("jsonata.evalPathStep")
	if ep == nil || step == nil {
		r.LoseAnchor("LASTSTEP: jsonata.evalPath or jsonata.evalPathStep not found")
		return 0
	}
	n := 0
	// the boolean parameters of the step function
	var flags []*ssa.Parameter
	for _, p := range step.Params {
		if b, ok := p.Type().Underlying().(*types.Basic); ok && b.Kind() == types.Bool {
			flags = append(flags, p)
		}
	}
	var seqT types.Type
	if tn, ok := step.Pkg.Pkg.Scope().Lookup("sequence").(*types.TypeName); ok {
		seqT = tn.Type()
	}
	isSeqBox := func(v ssa.Value) bool {
		call, ok := v.(*ssa.Call)
		if !ok || staticName(call) != "reflect.ValueOf" {
			return false
		}
		mi, ok := call.Call.Args[0].(*ssa.MakeInterface)
		if !ok {
			return false
		}
		pt, ok := mi.X.Type().(*types.Pointer)
		return ok && seqT != nil && types.Identical(pt.Elem(), seqT)
	}
	var rawWhy func(v ssa.Value, seen map[ssa.Value]bool) string
	rawWhy = func(v ssa.Value, seen map[ssa.Value]bool) string {
		if seen[v] {
			return ""
		}
		seen[v] = true
		switch x := v.(type) {
		case *ssa.Phi:
			for _, e := range x.Edges {
				if w := rawWhy(e, seen); w != "" {
					return w
				}
			}
			return ""
		case *ssa.Const:
			return ""
		case *ssa.UnOp:
			if isUndefinedLoad(x) {
				return ""
			}
		case *ssa.Call:
			if isSeqBox(x) {
				return ""
			}
		}
		return describeVal(v)
	}
	rets := 0
	for _, b := range step.Blocks {
		ret, ok := b.Instrs[len(b.Instrs)-1].(*ssa.Return)
		if !ok || len(ret.Results) != 2 || !isSuccessReturn(ret) {
			continue
		}
		rets++
		n++
		o := Obligation{Rule: rule, Key: fmt.Sprintf("evalPathStep:result#%d", rets), Fn: shortFn(step), Pos: c.W.Pos(ret.Pos()), Nontrivial: true}
		why := rawWhy(ret.Results[0], map[ssa.Value]bool{})
		switch {
		case why == "":
			o.Verdict, o.Reason = Discharged, "returns no value or a boxed *sequence (flattened once, constructor results kept as units)"
		default:
			guarded := false
			for _, fl := range flags {
				fl := fl
				if domGuard(b, func(cond ssa.Value) (int, bool) { return boolEdge(cond, fl, true) }) {
					guarded = true
				}
			}
			if guarded {
				o.Verdict, o.Reason = Discharged, "a per-item result is returned unwrapped only under the last-step flag"
			} else {
				o.Verdict, o.Reason = Finding, "a per-item result ("+why+") is returned unwrapped on a path that is not restricted to the last step of the path: the next step would map over the members of a constructed array instead of taking it as one item"
			}
		}
		r.Add(o)
	}
	// the flag passed by evalPath
	ord := 0
	for _, ins := range instrsIn(ep) {
		call, ok := ins.(*ssa.Call)
		if !ok || call.Call.StaticCallee() != step {
			continue
		}
		for i, p := range step.Params {
			isFlag := false
			for _, fl := range flags {
				if fl == p {
					isFlag = true
				}
			}
			if !isFlag || i >= len(call.Call.Args) {
				continue
			}
			ord++
			n++
			o := Obligation{Rule: rule, Key: fmt.Sprintf("evalPath:last-step-flag#%d", ord), Fn: shortFn(ep), Pos: c.W.Pos(call.Pos()), Nontrivial: true}
			if isLastIndexTest(call.Call.Args[i]) {
				o.Verdict, o.Reason = Discharged, "the flag is a test that the loop index is the last index of the step list"
			} else {
				o.Verdict, o.Reason = Undecided, "the last-step flag passed to evalPathStep is "+describeVal(call.Call.Args[i])+", not a recognised test that the loop index is len(steps)-1"
			}
			r.Add(o)
		}
	}
	return n
}

// isLastIndexTest: i == len(x)-1 (or >=), i+1 == len(x) (or >=), with either operand order.
func isLastIndexTest(v ssa.Value) bool {
	b, ok := v.(*ssa.BinOp)
	if !ok {
		return false
	}
	lenMinus := func(x ssa.Value, k int64) bool {
		// len(..) - k, or len(..) when k == 0
		if k == 0 {
			return isLenCall(x)
		}
		s, ok := x.(*ssa.BinOp)
		if !ok || s.Op != token.SUB {
			return false
		}
		kk, ok := intConstOf(s.Y)
		return ok && kk == k && isLenCall(s.X)
	}
	plus := func(x ssa.Value, k int64) (ssa.Value, bool) {
		s, ok := x.(*ssa.BinOp)
		if !ok || s.Op != token.ADD {
			return nil, false
		}
		if kk, ok := intConstOf(s.Y); ok && kk == k {
			return s.X, true
		}
		if kk, ok := intConstOf(s.X); ok && kk == k {
			return s.Y, true
		}
		return nil, false
	}
	isIndex := func(x ssa.Value) bool {
		_, isPhi := x.(*ssa.Phi)
		if isPhi {
			return true
		}
		// range loops over a slice number their iterations with phi+1
		if in, ok := plus(x, 1); ok {
			_, isPhi := in.(*ssa.Phi)
			return isPhi
		}
		return false
	}
	try := func(idx, bound ssa.Value, op token.Token) bool {
		if op != token.EQL && op != token.GEQ {
			return false
		}
		if lenMinus(bound, 1) && isIndex(idx) {
			return true
		}
		if in, ok := plus(idx, 1); ok && lenMinus(bound, 0) && isIndex(in) {
			return true
		}
		return false
	}
	switch b.Op {
	case token.EQL:
		return try(b.X, b.Y, token.EQL) || try(b.Y, b.X, token.EQL)
	case token.GEQ:
		return try(b.X, b.Y, token.GEQ)
	case token.LEQ:
		return try(b.Y, b.X, token.GEQ)
	}
	return false
}

func isLenCall(v ssa.Value) bool {
	call, ok := v.(*ssa.Call)
	if !ok {
		return false
	}
	bi, ok := call.Call.Value.(*ssa.Builtin)
	return ok && bi.Name() == "len"
}

// ---------------------------------------------------------------------------------------
// SEPLEN (C16): "the output is not empty yet" is not "this is not the first element".
//
// A loop that builds text from elements and separators and decides whether to write the
// separator by testing the accumulated output for emptiness (`b.Len() > 0`, `out != ""`,
// `len(buf) > 0`) drops the separator after every leading element that is itself empty:
// `$join(["", "x"], "-")` gives "x". Two independent authors rewrote $join this way. The rule
// flags, in every loop of the given functions, a branch on the emptiness of a text accumulator
// (strings.Builder, bytes.Buffer, string, []byte) that guards a write into the same accumulator,
// when the loop also writes an element that has not been tested to be non-empty.
// ---------------------------------------------------------------------------------------

type textAcc struct {
	ptr ssa.Value // *strings.Builder / *bytes.Buffer
	val ssa.Value // string or []byte value (usually a phi)
}

func isTextBuilderPtr(t types.Type) bool {
	p, ok := t.(*types.Pointer)
	if !ok {
		return false
	}
	n, ok := p.Elem().(*types.Named)
	if !ok || n.Obj().Pkg() == nil {
		return false
	}
	q := n.Obj().Pkg().Path() + "." + n.Obj().Name()
	return q == "strings.Builder" || q == "bytes.Buffer"
}

func isTextValue(t types.Type) bool {
	switch u := t.Underlying().(type) {
	case *types.Basic:
		return u.Info()&types.IsString != 0
	case *types.Slice:
		b, ok := u.Elem().Underlying().(*types.Basic)
		return ok && b.Kind() == types.Byte
	}
	return false
}

// emptinessTest: cond is a test of the accumulated text for emptiness; returns the accumulator
// and the successor index (0 true / 1 false) on which the text is NOT empty.
func emptinessTest(cond ssa.Value) (textAcc, int, bool) {
	b, ok := cond.(*ssa.BinOp)
	if !ok {
		return textAcc{}, 0, false
	}
	lenOf := func(v ssa.Value) (textAcc, bool) {
		call, ok := v.(*ssa.Call)
		if !ok {
			return textAcc{}, false
		}
		if bi, ok := call.Call.Value.(*ssa.Builtin); ok && bi.Name() == "len" && isTextValue(call.Call.Args[0].Type()) {
			return textAcc{val: call.Call.Args[0]}, true
		}
		if callee := call.Call.StaticCallee(); callee != nil && callee.Name() == "Len" && callee.Signature.Recv() != nil && len(call.Call.Args) == 1 && isTextBuilderPtr(call.Call.Args[0].Type()) {
			return textAcc{ptr: call.Call.Args[0]}, true
		}
		return textAcc{}, false
	}
	// len(A) OP k
	if acc, ok := lenOf(b.X); ok {
		if k, ok := intConstOf(b.Y); ok {
			switch {
			case (b.Op == token.GTR || b.Op == token.NEQ) && k == 0, b.Op == token.GEQ && k == 1:
				return acc, 0, true
			case (b.Op == token.EQL || b.Op == token.LEQ) && k == 0, b.Op == token.LSS && k == 1:
				return acc, 1, true
			}
		}
	}
	if acc, ok := lenOf(b.Y); ok {
		if k, ok := intConstOf(b.X); ok {
			switch {
			case (b.Op == token.LSS || b.Op == token.NEQ) && k == 0, b.Op == token.LEQ && k == 1:
				return acc, 0, true
			case (b.Op == token.EQL || b.Op == token.GEQ) && k == 0, b.Op == token.GTR && k == 1:
				return acc, 1, true
			}
		}
	}
	// A != "" / A == ""
	isEmptyStr := func(v ssa.Value) bool {
		k, ok := v.(*ssa.Const)
		return ok && k.Value != nil && k.Value.ExactString() == `""`
	}
	for _, pr := range [][2]ssa.Value{{b.X, b.Y}, {b.Y, b.X}} {
		if isEmptyStr(pr[1]) && isTextValue(pr[0].Type()) {
			switch b.Op {
			case token.NEQ:
				return textAcc{val: pr[0]}, 0, true
			case token.EQL:
				return textAcc{val: pr[0]}, 1, true
			}
		}
	}
	return textAcc{}, 0, false
}

// textWrite: ins writes text into the accumulator; returns what is written.
func textWrite(ins ssa.Instruction, acc textAcc) (ssa.Value, bool) {
	switch x := ins.(type) {
	case *ssa.Call:
		if acc.ptr != nil {
			if callee := x.Call.StaticCallee(); callee != nil && callee.Signature.Recv() != nil && len(x.Call.Args) == 2 && x.Call.Args[0] == acc.ptr {
				switch callee.Name() {
				case "WriteString", "Write", "WriteByte", "WriteRune":
					return x.Call.Args[1], true
				}
			}
			return nil, false
		}
		if bi, ok := x.Call.Value.(*ssa.Builtin); ok && bi.Name() == "append" && len(x.Call.Args) == 2 && sameAccValue(x.Call.Args[0], acc.val) {
			return x.Call.Args[1], true
		}
	case *ssa.BinOp:
		if acc.val != nil && x.Op == token.ADD && isTextValue(x.Type()) && sameAccValue(x.X, acc.val) {
			return x.Y, true
		}
	}
	return nil, false
}

// sameAccValue: v is the accumulator value a (the loop phi) or a value derived from it by
// earlier writes in the same iteration (a + sep).
func sameAccValue(v, a ssa.Value) bool {
	for d := 0; d < 6; d++ {
		if v == a {
			return true
		}
		switch x := v.(type) {
		case *ssa.BinOp:
			if x.Op != token.ADD {
				return false
			}
			v = x.X
		case *ssa.Phi:
			for _, e := range x.Edges {
				if e != v && sameAccValue2(e, a, d+1) {
					return true
				}
			}
			return false
		case *ssa.Call:
			if bi, ok := x.Call.Value.(*ssa.Builtin); ok && bi.Name() == "append" {
				v = x.Call.Args[0]
				continue
			}
			return false
		default:
			return false
		}
	}
	return false
}

func sameAccValue2(v, a ssa.Value, d int) bool {
	if d > 6 {
		return false
	}
	if v == a {
		return true
	}
	switch x := v.(type) {
	case *ssa.BinOp:
		if x.Op == token.ADD {
			return sameAccValue2(x.X, a, d+1)
		}
	case *ssa.Call:
		if bi, ok := x.Call.Value.(*ssa.Builtin); ok && bi.Name() == "append" {
			return sameAccValue2(x.Call.Args[0], a, d+1)
		}
	}
	return false
}

// provenNonEmpty: block b is dominated by a test showing text value x is not empty.
func provenNonEmpty(x ssa.Value, b *ssa.BasicBlock) bool {
	if k, ok := x.(*ssa.Const); ok {
		return k.Value != nil && k.Value.ExactString() != `""`
	}
	if _, ok := x.Type().Underlying().(*types.Basic); ok && !isTextValue(x.Type()) {
		return true // a byte or a rune is never empty
	}
	return domGuard(b, func(cond ssa.Value) (int, bool) {
		acc, succ, ok := emptinessTest(cond)
		if !ok || acc.val == nil || acc.val != x {
			return 0, false
		}
		return succ, true
	})
}

func runSEPLEN(c *Ctx, r *Result, rule string, fns []*ssa.Function) int {
	n := 0
	for _, f := range fns {
		ord := 0
		for _, hb := range f.Blocks {
			if len(hb.Instrs) == 0 || !inLoop(hb) {
				continue
			}
			iff, ok := hb.Instrs[len(hb.Instrs)-1].(*ssa.If)
			if !ok {
				continue
			}
			acc, succ, ok := emptinessTest(iff.Cond)
			if !ok {
				continue
			}
			guarded := hb.Succs[succ]
			if len(guarded.Preds) != 1 {
				continue
			}
			// a write into the same accumulator under the "not empty" edge
			sepWrite := false
			for _, gb := range f.Blocks {
				if !guarded.Dominates(gb) {
					continue
				}
				for _, ins := range gb.Instrs {
					if _, ok := textWrite(ins, acc); ok {
						sepWrite = true
					}
				}
			}
			if !sepWrite {
				continue
			}
			ord++
			n++
			o := Obligation{Rule: rule, Key: fmt.Sprintf("%s:separator-by-length#%d", shortFn(f), ord), Fn: shortFn(f), Pos: c.W.Pos(iff.Cond.Pos()), Nontrivial: true}
			// an element written in the same loop that may be empty
			bad := ""
			for _, eb := range f.Blocks {
				if guarded.Dominates(eb) || !reaches(eb, hb) || !reaches(hb, eb) {
					continue
				}
				for _, ins := range eb.Instrs {
					if x, ok := textWrite(ins, acc); ok && !provenNonEmpty(x, eb) {
						bad = describeVal(x) + " at " + c.W.Pos(ins.Pos())
					}
				}
			}
			if bad == "" {
				o.Verdict, o.Reason = Discharged, "every element written in this loop is tested to be non-empty, so a non-empty output means an element was written"
			} else {
				o.Verdict, o.Reason = Finding, "the separator is written when the accumulated output is not empty, but the loop also writes an element that may be empty ("+bad+"): every leading empty element loses its separator"
			}
			r.Add(o)
		}
	}
	return n
}

// ---------------------------------------------------------------------------------------
// MAPEQ (C03, C15): a hand-written equality of two maps must compare sizes and presence.
//
// The tree compares containers with reflect.DeepEqual. Two independent authors replaced that by
// a loop over the keys of one map that looks each key up in the other — one forgot to compare
// the sizes (an object "equals" every superset: $distinct drops the larger one), the other
// passed the result of MapIndex on without testing that the key exists (a missing member
// "equals" a null one). Rule: in a function that returns bool, walks a.MapKeys()/MapRange() and
// calls b.MapIndex(..) on another value in that loop, (size) the lookup is dominated by the
// "equal" edge of a comparison of a.Len() with b.Len(), or the function also walks b's keys
// looking them up in a; (presence) every use of the looked-up value other than IsValid() is
// dominated by the true edge of its IsValid().
// ---------------------------------------------------------------------------------------

func reflectMethodCall(ins ssa.Instruction, name string) (*ssa.Call, ssa.Value) {
	call, ok := ins.(*ssa.Call)
	if !ok {
		return nil, nil
	}
	callee := call.Call.StaticCallee()
	if callee == nil || callee.Name() != name || callee.Signature.Recv() == nil || !isReflectValue(callee.Signature.Recv().Type()) {
		return nil, nil
	}
	return call, call.Call.Args[0]
}

func runMAPEQ(c *Ctx, r *Result, rule string, fns []*ssa.Function) int {
	n := 0
	for _, f := range fns {
		res := f.Signature.Results()
		if res.Len() == 0 {
			continue
		}
		if b, ok := res.At(0).Type().Underlying().(*types.Basic); !ok || b.Kind() != types.Bool {
			continue
		}
		walked := map[ssa.Value]bool{} // receivers of MapKeys / MapRange
		for _, ins := range instrsIn(f) {
			if _, recv := reflectMethodCall(ins, "MapKeys"); recv != nil {
				walked[recv] = true
			}
			if _, recv := reflectMethodCall(ins, "MapRange"); recv != nil {
				walked[recv] = true
			}
		}
		if len(walked) == 0 {
			continue
		}
		// lookups into a map other than a walked one, inside a loop
		type lookup struct {
			call *ssa.Call
			in   ssa.Value
		}
		var lookups []lookup
		lookedUpIn := map[ssa.Value]bool{}
		for _, ins := range instrsIn(f) {
			call, recv := reflectMethodCall(ins, "MapIndex")
			if call == nil || !inLoop(call.Block()) {
				continue
			}
			lookedUpIn[recv] = true
			if !walked[recv] {
				lookups = append(lookups, lookup{call, recv})
			}
		}
		ord := 0
		for _, lk := range lookups {
			ord++
			n += 2
			base := fmt.Sprintf("%s:map-equality#%d", shortFn(f), ord)
			// (size)
			o := Obligation{Rule: rule, Key: base + ":size", Fn: shortFn(f), Pos: c.W.Pos(lk.call.Pos()), Nontrivial: true}
			sized := false
			for a := range walked {
				a, b := a, lk.in
				if domGuard(lk.call.Block(), func(cond ssa.Value) (int, bool) {
					bo, ok := cond.(*ssa.BinOp)
					if !ok || (bo.Op != token.NEQ && bo.Op != token.EQL) {
						return 0, false
					}
					x, y := lenRecv(bo.X), lenRecv(bo.Y)
					if x == nil || y == nil || !((x == a && y == b) || (x == b && y == a)) {
						return 0, false
					}
					if bo.Op == token.NEQ {
						return 1, true
					}
					return 0, true
				}) {
					sized = true
				}
			}
			// symmetric walk: b's keys are looked up in a too
			if !sized && walked[lk.in] {
				sized = true
			}
			if !sized {
				for a := range walked {
					if lookedUpIn[a] && walked[lk.in] {
						sized = true
					}
				}
			}
			if sized {
				o.Verdict, o.Reason = Discharged, "the sizes of the two maps are compared (or both key sets are walked) before members are compared"
			} else {
				o.Verdict, o.Reason = Finding, "two maps are compared by walking the keys of one and looking them up in the other, but their sizes are never compared: a map equals every superset of itself"
			}
			r.Add(o)
			// (presence)
			o = Obligation{Rule: rule, Key: base + ":presence", Fn: shortFn(f), Pos: c.W.Pos(lk.call.Pos()), Nontrivial: true}
			var valid *ssa.Call
			for _, ref := range *lk.call.Referrers() {
				if vc, recv := reflectMethodCall(ref, "IsValid"); vc != nil && recv == lk.call {
					valid = vc
				}
			}
			bad := ""
			for _, ref := range *lk.call.Referrers() {
				if vc, recv := reflectMethodCall(ref, "IsValid"); vc != nil && recv == lk.call {
					continue
				}
				if _, ok := ref.(*ssa.DebugRef); ok {
					continue
				}
				ok := false
				if valid != nil {
					ok = domGuard(ref.Block(), func(cond ssa.Value) (int, bool) { return boolEdge(cond, valid, true) })
				}
				if !ok {
					bad = c.W.Pos(ref.Pos())
				}
			}
			if bad == "" {
				o.Verdict, o.Reason = Discharged, "the looked-up member is used only after IsValid() has shown that the key exists"
			} else {
				o.Verdict, o.Reason = Finding, "the member looked up in the other map is used ("+bad+") without a dominating IsValid(): a key that is missing there is taken for a member (a missing member equals a null one)"
			}
			r.Add(o)
		}
	}
	return n
}

// lenRecv: v is x.Len() on a reflect.Value, or len(x): returns x.
func lenRecv(v ssa.Value) ssa.Value {
	call, ok := v.(*ssa.Call)
	if !ok {
		return nil
	}
	if bi, ok := call.Call.Value.(*ssa.Builtin); ok && bi.Name() == "len" {
		return call.Call.Args[0]
	}
	if c2, recv := reflectMethodCall(call, "Len"); c2 != nil {
		return recv
	}
	return nil
}

// ---------------------------------------------------------------------------------------
// HORDER and CALLSEQ (C20): the call protocol of a Go extension.
//
// HORDER: the EvalContextHandler hook is consulted (and the context item prepended) before the
// UndefinedHandler hook sees the arguments — the built-ins' undefined handlers look at the
// argument list the function will actually receive. The roles of goCallable's handler fields
// are read off newGoCallable (which Extension field each is initialised from), not off their
// names.
// CALLSEQ: the function value is only ever invoked with the argument list that came out of
// validateArgTypes, which got the one that came out of validateArgCount, each after its error
// was tested nil: no path calls the Go function with unchecked or unconverted arguments.
// ---------------------------------------------------------------------------------------

func runHORDER(c *Ctx, r *Result, rule string) int {
	pkg := c.W.LibSSA["jsonata"]
	if pkg == nil {
		r.LoseAnchor("HORDER: package jsonata not loaded")
		return 0
	}
	var gcT types.Type
	if tn, ok := pkg.Pkg.Scope().Lookup("goCallable").(*types.TypeName); ok {
		gcT = tn.Type()
	}
	if gcT == nil {
		r.LoseAnchor("HORDER: type goCallable not found")
		return 0
	}
	isGC := func(t types.Type) bool {
		p, ok := t.Underlying().(*types.Pointer)
		return ok && types.Identical(p.Elem(), gcT)
	}
	// which Extension field does v read?
	extField := func(v ssa.Value) string {
		switch x := v.(type) {
		case *ssa.Field:
			if isNamed(x.X.Type(), "jsonata-go", "Extension") || strings.HasSuffix(x.X.Type().String(), ".Extension") {
				return x.X.Type().Underlying().(*types.Struct).Field(x.Field).Name()
			}
		case *ssa.UnOp:
			if fa, ok := x.X.(*ssa.FieldAddr); ok && x.Op == token.MUL {
				if p, ok := fa.X.Type().Underlying().(*types.Pointer); ok && strings.HasSuffix(p.Elem().String(), ".Extension") {
					return p.Elem().Underlying().(*types.Struct).Field(fa.Field).Name()
				}
			}
		}
		return ""
	}
	role := map[int]string{} // goCallable field index -> "context" | "undefined"
	for _, f := range c.G.Funcs {
		if f.Pkg != pkg {
			continue
		}
		for _, ins := range instrsIn(f) {
			st, ok := ins.(*ssa.Store)
			if !ok {
				continue
			}
			fa, ok := st.Addr.(*ssa.FieldAddr)
			if !ok || !isGC(fa.X.Type()) {
				continue
			}
			switch extField(st.Val) {
			case "EvalContextHandler":
				role[fa.Field] = "context"
			case "UndefinedHandler":
				role[fa.Field] = "undefined"
			}
		}
	}
	if len(role) != 2 {
		r.LoseAnchor("HORDER: the goCallable fields initialised from Extension.EvalContextHandler / UndefinedHandler were not found (%d)", len(role))
		return 0
	}
	type hcall struct {
		ci   ssa.CallInstruction
		role string
	}
	calls := map[*ssa.Function][]hcall{}
	for _, f := range c.G.Funcs {
		if f.Pkg != pkg {
			continue
		}
		for _, ci := range callsIn(f) {
			ld, ok := ci.Common().Value.(*ssa.UnOp)
			if !ok || ld.Op != token.MUL {
				continue
			}
			fa, ok := ld.X.(*ssa.FieldAddr)
			if !ok || !isGC(fa.X.Type()) || role[fa.Field] == "" {
				continue
			}
			calls[f] = append(calls[f], hcall{ci, role[fa.Field]})
		}
	}
	before := func(a, b ssa.Instruction) bool { // a is executed before b whenever both are, and never after
		if a.Block() == b.Block() {
			for _, ins := range a.Block().Instrs {
				if ins == a {
					return true
				}
				if ins == b {
					return false
				}
			}
		}
		return reaches(a.Block(), b.Block()) && !reaches(b.Block(), a.Block())
	}
	n := 0
	for f, hs := range calls {
		var ctx, und []ssa.CallInstruction
		for _, h := range hs {
			if h.role == "context" {
				ctx = append(ctx, h.ci)
			} else {
				und = append(und, h.ci)
			}
		}
		if len(ctx) == 0 || len(und) == 0 {
			continue
		}
		n++
		o := Obligation{Rule: rule, Key: shortFn(f) + ":context-before-undefined", Fn: shortFn(f), Pos: c.W.Pos(und[0].Pos()), Nontrivial: true}
		ok := true
		for _, u := range und {
			for _, x := range ctx {
				if !before(x, u) {
					ok = false
				}
			}
		}
		if ok {
			o.Verdict, o.Reason = Discharged, "the EvalContextHandler hook is consulted (and the context item prepended) before the UndefinedHandler hook is given the argument list"
		} else {
			o.Verdict, o.Reason = Finding, "the UndefinedHandler hook can be consulted before the EvalContextHandler hook has prepended the context item: it sees an argument list the function will not receive"
		}
		r.Add(o)
	}
	if n == 0 {
		// the two hooks are consulted in different functions: judge the order of those calls in a common caller
		var fc, fu *ssa.Function
		for f, hs := range calls {
			for _, h := range hs {
				if h.role == "context" {
					fc = f
				} else {
					fu = f
				}
			}
		}
		if fc != nil && fu != nil {
			for _, f := range c.G.Funcs {
				if f.Pkg != pkg {
					continue
				}
				var cc, cu []ssa.CallInstruction
				for _, ci := range callsIn(f) {
					switch ci.Common().StaticCallee() {
					case fc:
						cc = append(cc, ci)
					case fu:
						cu = append(cu, ci)
					}
				}
				if len(cc) == 0 || len(cu) == 0 {
					continue
				}
				n++
				o := Obligation{Rule: rule, Key: shortFn(f) + ":context-before-undefined", Fn: shortFn(f), Pos: c.W.Pos(cu[0].Pos()), Nontrivial: true}
				ok := true
				for _, u := range cu {
					for _, x := range cc {
						if !before(x, u) {
							ok = false
						}
					}
				}
				if ok {
					o.Verdict, o.Reason = Discharged, "the function consulting EvalContextHandler is called before the one consulting UndefinedHandler"
				} else {
					o.Verdict, o.Reason = Finding, "the UndefinedHandler hook can be consulted before the EvalContextHandler hook has prepended the context item"
				}
				r.Add(o)
			}
		}
	}
	return n
}

func runCALLSEQ(c *Ctx, r *Result, rule string) int {
	call := c.mustFn(r, "jsonata.(*goCallable).Call")
	vc := c.mustFn(r, "jsonata.(*goCallable).validateArgCount")
	vt := c.mustFn(r, "jsonata.(*goCallable).validateArgTypes")
	if call == nil || vc == nil || vt == nil {
		return 0
	}
	firstResultOf := func(v ssa.Value, callee *ssa.Function) *ssa.Call {
		ex, ok := v.(*ssa.Extract)
		if !ok || ex.Index != 0 {
			return nil
		}
		cl, ok := ex.Tuple.(*ssa.Call)
		if !ok || cl.Call.StaticCallee() != callee {
			return nil
		}
		return cl
	}
	n := 0
	for _, ins := range instrsIn(call) {
		cl, ok := ins.(*ssa.Call)
		if !ok || staticName(cl) != "reflect.Value.Call" {
			continue
		}
		n++
		o := Obligation{Rule: rule, Key: fmt.Sprintf("(*goCallable).Call:invoke#%d", n), Fn: shortFn(call), Pos: c.W.Pos(cl.Pos()), Nontrivial: true}
		args := cl.Call.Args[1]
		t := firstResultOf(args, vt)
		switch {
		case t == nil:
			o.Verdict, o.Reason = Finding, "the Go function is invoked with an argument list that is not the result of validateArgTypes: unconverted or unchecked arguments reach it"
		case !errNilDominates(t, cl.Block()):
			o.Verdict, o.Reason = Finding, "the Go function is invoked although validateArgTypes' error was not tested nil"
		default:
			cnt := firstResultOf(t.Call.Args[1], vc)
			switch {
			case cnt == nil:
				o.Verdict, o.Reason = Finding, "validateArgTypes is given an argument list that did not go through validateArgCount (handlers, optional padding and the count check are skipped)"
			case !errNilDominates(cnt, t.Block()):
				o.Verdict, o.Reason = Finding, "validateArgTypes runs although validateArgCount's error was not tested nil"
			default:
				o.Verdict, o.Reason = Discharged, "fn.Call(argv) with argv = validateArgTypes(validateArgCount(argv)), each error tested nil on the way"
			}
		}
		r.Add(o)
	}
	return n
}

// ---------------------------------------------------------------------------------------
// VALIDALL (C18): every sub-picture of a picture string is validated, whichever one is used.
//
// `$formatNumber` must reject a picture outside the decimal-format grammar. A picture has one or
// two sub-pictures and only one of them renders a given number; a version that parses just the
// sub-picture it is going to use accepts `0.00;(0..00)` for every positive number. Rule: in the
// function that splits the picture and hands the pieces to the validating function (the one that
// reaches validateSubpictureParts), every success return is reached only over paths on which each
// piece was either handed to the validator or tested to be empty (forward must-analysis).
// ---------------------------------------------------------------------------------------

func runVALIDALL(c *Ctx, r *Result, rule string) int {
	val := c.mustFn(r, "jxpath.validateSubpictureParts")
	if val == nil {
		return 0
	}
	// validators: functions whose every success return is behind a call of val
	isValidator := map[*ssa.Function]bool{val: true}
	for round := 0; round < 3; round++ {
		for _, f := range c.G.Funcs {
			if f.Pkg == nil || f.Pkg != val.Pkg || isValidator[f] || len(f.Blocks) == 0 {
				continue
			}
			calls := false
			for _, ci := range callsIn(f) {
				if isValidator[ci.Common().StaticCallee()] {
					calls = true
				}
			}
			if calls && allPathsCall(f, isValidator, 0) && len(f.Params) >= 1 && isStringType(f.Params[0].Type()) {
				isValidator[f] = true
			}
		}
	}
	n := 0
	for _, f := range c.G.Funcs {
		if f.Pkg == nil || f.Pkg != val.Pkg || isValidator[f] || len(f.Blocks) == 0 {
			continue
		}
		// the pieces: string results of one multi-result call that are handed to a validator
		pieces := map[ssa.Value]int{}
		var split *ssa.Call
		for _, ci := range callsIn(f) {
			if !isValidator[ci.Common().StaticCallee()] || len(ci.Common().Args) == 0 {
				continue
			}
			if ex, ok := ci.Common().Args[0].(*ssa.Extract); ok {
				if sc, ok := ex.Tuple.(*ssa.Call); ok {
					split = sc
				}
			}
		}
		if split == nil {
			continue
		}
		for _, ref := range *split.Referrers() {
			if ex, ok := ref.(*ssa.Extract); ok && isStringType(ex.Type()) {
				pieces[ex] = ex.Index
			}
		}
		if len(pieces) < 2 {
			continue
		}
		all := uint(0)
		for _, i := range pieces {
			all |= 1 << uint(i)
		}
		// forward must-analysis: bit i = piece i was validated or is empty
		in := map[*ssa.BasicBlock]uint{}
		seen := map[*ssa.BasicBlock]bool{}
		gen := func(b *ssa.BasicBlock) uint {
			var g uint
			for _, ins := range b.Instrs {
				if ci, ok := ins.(ssa.CallInstruction); ok && isValidator[ci.Common().StaticCallee()] && len(ci.Common().Args) > 0 {
					if i, ok := pieces[ci.Common().Args[0]]; ok {
						g |= 1 << uint(i)
					}
				}
			}
			return g
		}
		edge := func(from, to *ssa.BasicBlock) uint {
			iff, ok := from.Instrs[len(from.Instrs)-1].(*ssa.If)
			if !ok || from.Succs[0] == from.Succs[1] {
				return 0
			}
			bo, ok := iff.Cond.(*ssa.BinOp)
			if !ok || (bo.Op != token.EQL && bo.Op != token.NEQ) {
				return 0
			}
			for _, pr := range [][2]ssa.Value{{bo.X, bo.Y}, {bo.Y, bo.X}} {
				i, isPiece := pieces[pr[0]]
				k, isK := pr[1].(*ssa.Const)
				if !isPiece || !isK || k.Value == nil || k.Value.ExactString() != `""` {
					continue
				}
				emptyOnTrue := bo.Op == token.EQL
				if (to == from.Succs[0]) == emptyOnTrue {
					return 1 << uint(i)
				}
			}
			return 0
		}
		work := []*ssa.BasicBlock{f.Blocks[0]}
		in[f.Blocks[0]] = 0
		seen[f.Blocks[0]] = true
		for len(work) > 0 {
			b := work[0]
			work = work[1:]
			out := in[b] | gen(b)
			for _, s := range b.Succs {
				v := out | edge(b, s)
				if !seen[s] {
					seen[s] = true
					in[s] = v
					work = append(work, s)
				} else if in[s]&v != in[s] {
					in[s] &= v
					work = append(work, s)
				}
			}
		}
		rets := 0
		for _, b := range f.Blocks {
			ret, ok := b.Instrs[len(b.Instrs)-1].(*ssa.Return)
			if !ok || !seen[b] || !isSuccessReturn(ret) {
				continue
			}
			rets++
			n++
			o := Obligation{Rule: rule, Key: fmt.Sprintf("%s:success-return#%d", shortFn(f), rets), Fn: shortFn(f), Pos: c.W.Pos(ret.Pos()), Nontrivial: true}
			if got := in[b] | gen(b); got&all == all {
				o.Verdict, o.Reason = Discharged, fmt.Sprintf("every path to this return validated each of the %d sub-pictures or found it empty", len(pieces))
			} else {
				o.Verdict, o.Reason = Finding, "a picture can be accepted on a path on which one of its sub-pictures was neither validated nor empty: an invalid sub-picture goes unnoticed whenever the number's sign selects the other one"
			}
			r.Add(o)
		}
	}
	return n
}

// ---------------------------------------------------------------------------------------
// F2I (C02, C03, C18): no silent truncation of a JSONata number.
//
// JSONata numbers are doubles; where the evaluator needs an integer the specification says how
// it is obtained (floor for a predicate index, round for a radix, "must be an integer" for a
// range bound). Go's int(f) truncates toward zero, which differs from floor for every negative
// fraction (x[-0.5] must select the last item, not the first). Rule: every float -> integer
// conversion in the given functions converts the result of math.Floor/Ceil/Round/Trunc (or of a
// module function that only returns such results, or of jlib.Round), or a sum/difference of
// integral values; anything else needs a reviewed entry.
// ---------------------------------------------------------------------------------------

var f2iExceptions = map[string]string{
	"jsonata.evalRange:int#1":  "[value] both bounds were tested with isInteger (a non-integer bound is the error ErrNonIntegerLHS/RHS a few lines above), so their difference is integral",
	"jlib.callMatchFunc:int#1": "[protocol] the offsets of a match object: matchCallable writes them from int values; a user-defined matcher that returns fractions gets them truncated, which no property speaks about",
	"jlib.callMatchFunc:int#2": "[protocol] as #1",
}

func isFloatT(t types.Type) bool {
	b, ok := t.Underlying().(*types.Basic)
	return ok && b.Info()&types.IsFloat != 0
}

func integralFloat(c *Ctx, v ssa.Value, depth int) bool {
	if depth > 4 {
		return false
	}
	switch x := v.(type) {
	case *ssa.Const:
		if x.Value == nil {
			return false
		}
		f, _ := constant.Float64Val(constant.ToFloat(x.Value))
		return f == math.Trunc(f)
	case *ssa.Convert:
		// an integer converted to float
		if b, ok := x.X.Type().Underlying().(*types.Basic); ok && b.Info()&types.IsInteger != 0 {
			return true
		}
	case *ssa.Call:
		switch staticName(x) {
		case "math.Floor", "math.Ceil", "math.Round", "math.Trunc", "math.RoundToEven":
			return true
		}
		if callee := x.Call.StaticCallee(); callee != nil && c.G.InSc[callee] && len(callee.Blocks) > 0 {
			if shortFn(callee) == "jlib.Round" {
				// reviewed: Round(x, precision unset) rounds to an integer
				return true
			}
			all, n := true, 0
			for _, b := range callee.Blocks {
				if ret, ok := b.Instrs[len(b.Instrs)-1].(*ssa.Return); ok && len(ret.Results) >= 1 && isFloatT(ret.Results[0].Type()) {
					n++
					if !integralFloat(c, ret.Results[0], depth+1) {
						all = false
					}
				}
			}
			return all && n > 0
		}
	case *ssa.BinOp:
		if x.Op == token.ADD || x.Op == token.SUB || x.Op == token.MUL {
			return integralFloat(c, x.X, depth+1) && integralFloat(c, x.Y, depth+1)
		}
	case *ssa.UnOp:
		if x.Op == token.SUB {
			return integralFloat(c, x.X, depth+1)
		}
	case *ssa.Phi:
		for _, e := range x.Edges {
			if e != v && !integralFloat(c, e, depth+1) {
				return false
			}
		}
		return true
	}
	return false
}

func runF2I(c *Ctx, r *Result, rule string, fns []*ssa.Function) int {
	n := 0
	for _, f := range fns {
		ord := 0
		for _, ins := range instrsIn(f) {
			cv, ok := ins.(*ssa.Convert)
			if !ok || !isFloatT(cv.X.Type()) {
				continue
			}
			if b, ok := cv.Type().Underlying().(*types.Basic); !ok || b.Info()&types.IsInteger == 0 {
				continue
			}
			ord++
			n++
			key := fmt.Sprintf("%s:int#%d", shortFn(f), ord)
			o := Obligation{Rule: rule, Key: key, Fn: shortFn(f), Pos: c.W.Pos(cv.Pos()), Nontrivial: true}
			switch {
			case integralFloat(c, cv.X, 0):
				o.Verdict, o.Reason = Discharged, "the converted value is the result of Floor/Ceil/Round/Trunc (or a sum of such): the conversion does not truncate"
			case f2iExceptions[key] != "":
				o.Verdict, o.Reason = Exception, "reviewed ("+key+"): "+f2iExceptions[key]
			default:
				o.Verdict, o.Reason = Finding, "a JSONata number ("+describeVal(cv.X)+") is converted to an integer without Floor/Ceil/Round/Trunc: Go truncates toward zero, so negative fractions go the wrong way (x[-0.5] selects the first item instead of the last)"
			}
			r.Add(o)
		}
	}
	return n
}

// ---------------------------------------------------------------------------------------
// SORTTYPES (C13, C09): one type per sort term, remembered over ALL items.
//
// makeLessFunc compares keys with lt, which panics on a number and a string; buildSortInfo
// keeps that from happening by remembering, per sort term, which type it has seen. Two
// independent authors replaced the record by something that only remembers the previous item
// (a comparison with the neighbour; a per-term slot that is overwritten for every item, also for
// items without the key): mixed keys separated by an item that lacks the key then reach lt, or
// are silently mis-ordered. Rule, in buildSortInfo: (1) every return of ErrSortMismatch is
// controlled by a load from a per-term record (a slice made in the function, indexed by the
// index of the loop over the terms); (2) every store into such a record is monotone — a constant
// true, or a store under a test that the slot is still unset.
// ---------------------------------------------------------------------------------------

func runSORTTYPES(c *Ctx, r *Result, rule string) int {
	f := c.mustFn(r, "jsonata.buildSortInfo")
	if f == nil {
		return 0
	}
	errConst := int64(-1)
	if k, ok := f.Pkg.Pkg.Scope().Lookup("ErrSortMismatch").(*types.Const); ok {
		errConst, _ = constant.Int64Val(k.Val())
	}
	if errConst < 0 {
		r.LoseAnchor("SORTTYPES: constant ErrSortMismatch not found")
		return 0
	}
	// slices made in f
	madeHere := func(v ssa.Value) bool {
		seen := map[ssa.Value]bool{}
		var walk func(v ssa.Value) bool
		walk = func(v ssa.Value) bool {
			if seen[v] {
				return true
			}
			seen[v] = true
			switch x := v.(type) {
			case *ssa.MakeSlice:
				return true
			case *ssa.Phi:
				for _, e := range x.Edges {
					if !walk(e) {
						return false
					}
				}
				return true
			case *ssa.UnOp: // load of a local cell holding a made slice
				if al, ok := x.X.(*ssa.Alloc); ok && x.Op == token.MUL {
					if stores, ok := cellStores(al); ok && len(stores) > 0 {
						for _, st := range stores {
							if !walk(st.Val) {
								return false
							}
						}
						return true
					}
				}
			}
			return false
		}
		return walk(v)
	}
	isRecordLoad := func(v ssa.Value) (*ssa.IndexAddr, bool) {
		ld, ok := v.(*ssa.UnOp)
		if !ok || ld.Op != token.MUL {
			return nil, false
		}
		ia, ok := ld.X.(*ssa.IndexAddr)
		if !ok || !madeHere(ia.X) {
			return nil, false
		}
		return ia, true
	}
	var condRecord func(cond ssa.Value, depth int) (*ssa.IndexAddr, bool)
	condRecord = func(cond ssa.Value, depth int) (*ssa.IndexAddr, bool) {
		if depth > 3 {
			return nil, false
		}
		if ia, ok := isRecordLoad(cond); ok {
			return ia, true
		}
		switch x := cond.(type) {
		case *ssa.UnOp:
			if x.Op == token.NOT {
				return condRecord(x.X, depth+1)
			}
		case *ssa.BinOp:
			if ia, ok := condRecord(x.X, depth+1); ok {
				return ia, true
			}
			return condRecord(x.Y, depth+1)
		}
		return nil, false
	}
	n := 0
	records := map[string]bool{} // types of the record slices
	var recordIdx []ssa.Value
	ord := 0
	for _, ins := range instrsIn(f) {
		call, ok := ins.(*ssa.Call)
		if !ok {
			continue
		}
		isMismatch := false
		for _, a := range call.Call.Args {
			if k, ok := a.(*ssa.Const); ok && k.Value != nil && k.Value.Kind() == constant.Int {
				if nt, ok := k.Type().(*types.Named); ok && nt.Obj().Name() == "ErrType" {
					if v, _ := constant.Int64Val(k.Value); v == errConst {
						isMismatch = true
					}
				}
			}
		}
		if !isMismatch {
			continue
		}
		ord++
		n++
		o := Obligation{Rule: rule, Key: fmt.Sprintf("buildSortInfo:mismatch#%d", ord), Fn: shortFn(f), Pos: c.W.Pos(call.Pos()), Nontrivial: true}
		var rec *ssa.IndexAddr
		for d := call.Block(); d != nil && rec == nil; d = d.Idom() {
			if len(d.Preds) != 1 {
				continue
			}
			pr := d.Preds[0]
			if iff, ok := pr.Instrs[len(pr.Instrs)-1].(*ssa.If); ok {
				if ia, ok := condRecord(iff.Cond, 0); ok {
					rec = ia
				}
			}
		}
		if rec == nil {
			o.Verdict, o.Reason = Finding, "the mixed-type error of a sort term is not decided from a per-term record kept over all items (a slice made here and indexed by the term): comparing with the neighbouring item only misses mixed keys separated by an item without the key, and lt panics on them"
		} else {
			o.Verdict, o.Reason = Discharged, "the error is controlled by the per-term record "+rec.X.Name()+"["+rec.Index.Name()+"]"
			records[rec.X.Type().String()] = true
			recordIdx = append(recordIdx, rec.Index)
		}
		r.Add(o)
	}
	// stores into the records are monotone
	sord := 0
	for _, ins := range instrsIn(f) {
		st, ok := ins.(*ssa.Store)
		if !ok {
			continue
		}
		ia, ok := st.Addr.(*ssa.IndexAddr)
		if !ok || !records[ia.X.Type().String()] || !madeHere(ia.X) {
			continue
		}
		sord++
		n++
		o := Obligation{Rule: rule, Key: fmt.Sprintf("buildSortInfo:record-store#%d", sord), Fn: shortFn(f), Pos: c.W.Pos(st.Pos()), Nontrivial: true}
		mono := false
		if k, ok := st.Val.(*ssa.Const); ok && k.Value != nil && k.Value.Kind() == constant.Bool && constant.BoolVal(k.Value) {
			mono = true
		}
		if !mono {
			// only written while still unset: dominated by `record[j] == zero`
			mono = domGuard(st.Block(), func(cond ssa.Value) (int, bool) {
				bo, ok := cond.(*ssa.BinOp)
				if !ok || (bo.Op != token.EQL && bo.Op != token.NEQ) {
					return 0, false
				}
				for _, pr := range [][2]ssa.Value{{bo.X, bo.Y}, {bo.Y, bo.X}} {
					ia2, isRec := isRecordLoad(pr[0])
					k, isK := pr[1].(*ssa.Const)
					if !isRec || !isK || ia2.X != ia.X && ia2.X.Type() != ia.X.Type() {
						continue
					}
					zero := k.Value == nil
					if k.Value != nil {
						switch k.Value.Kind() {
						case constant.Int:
							v, _ := constant.Int64Val(k.Value)
							zero = v == 0
						case constant.Bool:
							zero = !constant.BoolVal(k.Value)
						case constant.String:
							zero = constant.StringVal(k.Value) == ""
						}
					}
					if !zero {
						continue
					}
					if bo.Op == token.EQL {
						return 0, true
					}
					return 1, true
				}
				return 0, false
			})
		}
		if mono {
			o.Verdict, o.Reason = Discharged, "the record only ever goes from unset to set"
		} else {
			o.Verdict, o.Reason = Finding, "the per-term type record is overwritten with a computed value ("+describeVal(st.Val)+"): it then remembers the latest item only, and an item without the key resets it"
		}
		r.Add(o)
	}
	return n
}

// ---------------------------------------------------------------------------------------
// NEGFOLD (C03): the optimiser folds a negation only into a number literal.
//
// evalNegation is where a non-numeric operand of unary minus becomes an error. The optimiser may
// fold `-<number literal>`; anything else it returns for a NegationNode must still be a
// NegationNode, or the check is optimised away (`--"a"` = "a"). Rule: every success return of
// (*NegationNode).optimize boxes a *NegationNode or a *NumberNode.
// ---------------------------------------------------------------------------------------

func runNEGFOLD(c *Ctx, r *Result, rule string) int {
	f := c.mustFn(r, "jparse.(*NegationNode).optimize")
	if f == nil {
		return 0
	}
	n := 0
	for _, b := range f.Blocks {
		ret, ok := b.Instrs[len(b.Instrs)-1].(*ssa.Return)
		if !ok || len(ret.Results) != 2 || !isSuccessReturn(ret) {
			continue
		}
		n++
		o := Obligation{Rule: rule, Key: fmt.Sprintf("(*NegationNode).optimize:result#%d", n), Fn: shortFn(f), Pos: c.W.Pos(ret.Pos()), Nontrivial: true}
		bad := ""
		var walk func(v ssa.Value, seen map[ssa.Value]bool)
		walk = func(v ssa.Value, seen map[ssa.Value]bool) {
			if seen[v] {
				return
			}
			seen[v] = true
			switch x := v.(type) {
			case *ssa.Phi:
				for _, e := range x.Edges {
					walk(e, seen)
				}
			case *ssa.MakeInterface:
				t := shortType(x.X.Type())
				if t != "*jparse.NegationNode" && t != "*jparse.NumberNode" {
					bad = "a " + t
				}
			case *ssa.Const:
				if !x.IsNil() {
					bad = "a constant"
				}
			default:
				bad = "a node of unknown type (" + describeVal(v) + ")"
			}
		}
		walk(ret.Results[0], map[ssa.Value]bool{})
		if bad == "" {
			o.Verdict, o.Reason = Discharged, "the optimised negation is a NegationNode (checked at evaluation time) or a folded number literal"
		} else {
			o.Verdict, o.Reason = Finding, "the optimiser replaces a negation by "+bad+": the operand-type check of unary minus in evalNegation is optimised away"
		}
		r.Add(o)
	}
	return n
}

// ---------------------------------------------------------------------------------------
// ARGPOS (C12, C20): an argument-type error names the position of the argument in the call.
//
// Rule: in the validateArgTypes methods, the position handed to newArgTypeError is idx+1 where
// idx is the index of the loop that ranges over the argument list parameter itself — not over a
// sub-slice of it, whose indexes start again at 0.
// ---------------------------------------------------------------------------------------

func runARGPOS(c *Ctx, r *Result, rule string) int {
	mk := c.mustFn(r, "jsonata.newArgTypeError")
	if mk == nil {
		return 0
	}
	n := 0
	for _, f := range c.G.Funcs {
		if f.Pkg == nil || f.Pkg != mk.Pkg || f.Name() != "validateArgTypes" || len(f.Blocks) == 0 {
			continue
		}
		var argv *ssa.Parameter
		for _, p := range f.Params {
			if sl, ok := p.Type().Underlying().(*types.Slice); ok && isReflectValue(sl.Elem()) {
				argv = p
			}
		}
		ord := 0
		for _, ci := range callsIn(f) {
			if ci.Common().StaticCallee() != mk || len(ci.Common().Args) < 2 {
				continue
			}
			ord++
			n++
			o := Obligation{Rule: rule, Key: fmt.Sprintf("%s:position#%d", shortFn(f), ord), Fn: shortFn(f), Pos: c.W.Pos(ci.Pos()), Nontrivial: true}
			pos := ci.Common().Args[1]
			ok := false
			why := "the position is " + describeVal(pos)
			if add, isAdd := pos.(*ssa.BinOp); isAdd && add.Op == token.ADD {
				if k, isK := intConstOf(add.Y); isK && k == 1 {
					// idx is the induction variable of a loop bounded by len(argv)
					idx := add.X
					for _, hb := range f.Blocks {
						iff, isIf := hb.Instrs[len(hb.Instrs)-1].(*ssa.If)
						if !isIf || !hb.Succs[0].Dominates(ci.Block()) && hb.Succs[0] != ci.Block() {
							continue
						}
						bo, isBo := iff.Cond.(*ssa.BinOp)
						if !isBo || bo.Op != token.LSS || bo.X != idx {
							continue
						}
						if lc, isLen := bo.Y.(*ssa.Call); isLen && isLenCall(lc) && argv != nil && lc.Call.Args[0] == ssa.Value(argv) {
							ok = true
						} else {
							why = "the loop index runs over " + describeVal(bo.Y) + ", not over the argument list itself"
						}
					}
				}
			}
			if ok {
				o.Verdict, o.Reason = Discharged, "the reported position is the index in the argument list plus one"
			} else {
				o.Verdict, o.Reason = Finding, "the argument position reported by an ArgTypeError is not the index in the argument list plus one: "+why
			}
			r.Add(o)
		}
	}
	return n
}

// ---------------------------------------------------------------------------------------
// OPTALL (C08, C09): the optimised tree contains optimised nodes only.
//
// eval has no case for the parser's interim node types (dotNode, predicateNode,
// singletonArrayNode): TAB shows their own optimize methods never return the receiver, which is
// only enough if every child that is put into the optimised tree went through optimize() too. A
// child taken from the receiver as it was parsed and stored or returned unoptimised (`append(…,
// n.rhs)` instead of `append(…, rhs)`) makes Eval panic with "unexpected node type". Rule, in
// every optimize method of jparse: a node value read from a field of the receiver (or an element
// of such a field) that has not been replaced by the result of an optimize() call is "raw"; raw
// values may be inspected and have optimize() called on them, but are never stored into a node,
// appended to a node list, or returned.
// ---------------------------------------------------------------------------------------

func runOPTALL(c *Ctx, r *Result, rule string) int {
	pkg := c.W.LibSSA["jparse"]
	if pkg == nil {
		r.LoseAnchor("OPTALL: package jparse not loaded")
		return 0
	}
	var nodeIface *types.Interface
	if tn, ok := pkg.Pkg.Scope().Lookup("Node").(*types.TypeName); ok {
		nodeIface, _ = tn.Type().Underlying().(*types.Interface)
	}
	if nodeIface == nil {
		r.LoseAnchor("OPTALL: interface jparse.Node not found")
		return 0
	}
	var isNodeT func(t types.Type, depth int) bool
	isNodeT = func(t types.Type, depth int) bool {
		if depth > 3 {
			return false
		}
		switch u := t.Underlying().(type) {
		case *types.Interface:
			return types.Identical(u, nodeIface)
		case *types.Slice:
			return isNodeT(u.Elem(), depth+1)
		case *types.Array:
			return isNodeT(u.Elem(), depth+1)
		case *types.Pointer:
			return types.Implements(t, nodeIface) && !types.IsInterface(u.Elem())
		}
		return false
	}
	n := 0
	for _, f := range c.G.Funcs {
		if f.Pkg != pkg || f.Name() != "optimize" || f.Signature.Recv() == nil || len(f.Blocks) == 0 || len(f.Params) == 0 {
			continue
		}
		recv := f.Params[0]
		// stores of optimised values into receiver fields: field index -> stores
		type fstore struct {
			st  *ssa.Store
			fld int
		}
		var fstores []fstore
		raw := map[ssa.Value]bool{}
		isOptimizeCall := func(v ssa.Value) bool {
			switch x := v.(type) {
			case *ssa.Extract:
				if call, ok := x.Tuple.(*ssa.Call); ok && x.Index == 0 {
					if call.Call.IsInvoke() {
						return call.Call.Method.Name() == "optimize"
					}
					if callee := call.Call.StaticCallee(); callee != nil {
						return callee.Name() == "optimize" || callee.Name() == "optimizeNodes"
					}
				}
			}
			return false
		}
		instrs := instrsIn(f)
		for _, ins := range instrs {
			if st, ok := ins.(*ssa.Store); ok {
				if fa, ok := st.Addr.(*ssa.FieldAddr); ok && fa.X == ssa.Value(recv) {
					fstores = append(fstores, fstore{st, fa.Field})
				}
			}
		}
		// fixpoint over raw-ness
		for changed := true; changed; {
			changed = false
			mark := func(v ssa.Value) {
				if !raw[v] {
					raw[v] = true
					changed = true
				}
			}
			for _, ins := range instrs {
				v, ok := ins.(ssa.Value)
				if !ok || raw[v] {
					continue
				}
				switch x := ins.(type) {
				case *ssa.UnOp:
					if x.Op != token.MUL || !isNodeT(x.Type(), 0) {
						continue
					}
					switch a := x.X.(type) {
					case *ssa.FieldAddr:
						if a.X != ssa.Value(recv) {
							continue
						}
						// replaced earlier by an optimised value?
						replaced := false
						for _, fs := range fstores {
							if fs.fld == a.Field && !raw[fs.st.Val] && instrBefore(fs.st, x) {
								replaced = true
							}
						}
						if !replaced {
							mark(x)
						}
					case *ssa.IndexAddr:
						if raw[a.X] {
							// an element of a raw list: raw unless that element was replaced earlier
							replaced := false
							for _, i2 := range instrs {
								if st, ok := i2.(*ssa.Store); ok && !raw[st.Val] && instrBefore(st, x) {
									if ia2, ok := st.Addr.(*ssa.IndexAddr); ok && ia2.X == a.X && ia2.Index == a.Index {
										replaced = true
									}
								}
							}
							if !replaced {
								mark(x)
							}
						}
					}
				case *ssa.Phi:
					for _, e := range x.Edges {
						if raw[e] {
							mark(x)
						}
					}
				case *ssa.TypeAssert:
					if raw[x.X] && isNodeT(x.Type(), 0) {
						mark(x)
					}
				case *ssa.Extract:
					if ta, ok := x.Tuple.(*ssa.TypeAssert); ok && x.Index == 0 && raw[ta.X] && isNodeT(x.Type(), 0) {
						mark(x)
					}
				case *ssa.MakeInterface:
					if raw[x.X] {
						mark(x)
					}
				case *ssa.ChangeInterface:
					if raw[x.X] {
						mark(x)
					}
				case *ssa.Slice:
					if raw[x.X] {
						mark(x)
					}
				case *ssa.Call:
					if bi, ok := x.Call.Value.(*ssa.Builtin); ok && bi.Name() == "append" && isNodeT(x.Type(), 0) {
						if raw[x.Call.Args[0]] {
							mark(x)
						}
						for _, e := range variadicElems(x.Call.Args[1]) {
							if raw[e] {
								mark(x)
							}
						}
						if len(x.Call.Args) > 1 && raw[x.Call.Args[1]] {
							mark(x)
						}
					}
				}
			}
		}
		_ = isOptimizeCall
		ord := 0
		report := func(ins ssa.Instruction, what string, v ssa.Value) {
			ord++
			n++
			o := Obligation{Rule: rule, Key: fmt.Sprintf("%s:%s#%d", shortFn(f), what, ord), Fn: shortFn(f), Pos: c.W.Pos(ins.Pos()), Nontrivial: true}
			if raw[v] {
				o.Verdict, o.Reason = Finding, "a child node taken from the receiver as it was parsed ("+describeVal(v)+") is "+map[string]string{"store": "stored into the optimised tree", "return": "returned as the optimised node"}[what]+" without having gone through optimize(): an interim node type can reach Eval, which has no case for it"
			} else {
				o.Verdict, o.Reason = Discharged, "only optimised children (results of optimize(), or nodes built here from them) are put into the tree"
			}
			r.Add(o)
		}
		for _, ins := range instrs {
			switch x := ins.(type) {
			case *ssa.Store:
				if !isNodeT(x.Val.Type(), 0) {
					continue
				}
				if _, isAlloc := x.Addr.(*ssa.Alloc); isAlloc {
					continue // a local variable
				}
				// writing a field's own value back is no change
				if ld, ok := x.Val.(*ssa.UnOp); ok && ld.Op == token.MUL && ld.X == x.Addr {
					continue
				}
				report(x, "store", x.Val)
			case *ssa.Return:
				if len(x.Results) == 2 && isSuccessReturn(x) {
					report(x, "return", x.Results[0])
				}
			}
		}
	}
	return n
}

// ---------------------------------------------------------------------------------------
// ESCSKIP (C11): inside a string literal the rune after a backslash is skipped.
//
// A JSON text such as "\"" or "\\" is a string literal only if the scanner does not take the
// quote (or the second backslash) after a backslash for a delimiter. Rule, in scanString: the
// rune read by nextRune is compared with '\\', and on the true edge of that comparison every
// path back to the read passes another nextRune call (the escaped rune is consumed, whatever it
// is). A scanner that no longer works rune by rune is reported as not decided.
// ---------------------------------------------------------------------------------------

func runESCSKIP(c *Ctx, r *Result, rule string) int {
	f := c.mustFn(r, "jparse.(*lexer).scanString")
	next := c.mustFn(r, "jparse.(*lexer).nextRune")
	if f == nil || next == nil {
		return 0
	}
	isNext := func(v ssa.Value) bool {
		call, ok := v.(*ssa.Call)
		return ok && call.Call.StaticCallee() == next
	}
	hasNext := func(b *ssa.BasicBlock, except ssa.Value) bool {
		for _, ins := range b.Instrs {
			if v, ok := ins.(ssa.Value); ok && isNext(v) && v != except {
				return true
			}
		}
		return false
	}
	n := 0
	// the scan loop may live in a method scanString calls
	var blocks []*ssa.BasicBlock
	blocks = append(blocks, f.Blocks...)
	for _, ci := range callsIn(f) {
		if g := ci.Common().StaticCallee(); g != nil && g != next && g.Pkg == f.Pkg && g.Signature.Recv() != nil && len(g.Blocks) > 0 {
			blocks = append(blocks, g.Blocks...)
		}
	}
	for _, hb := range blocks {
		iff, ok := hb.Instrs[len(hb.Instrs)-1].(*ssa.If)
		if !ok {
			continue
		}
		bo, ok := iff.Cond.(*ssa.BinOp)
		if !ok || (bo.Op != token.EQL && bo.Op != token.NEQ) {
			continue
		}
		var read ssa.Value
		for _, pr := range [][2]ssa.Value{{bo.X, bo.Y}, {bo.Y, bo.X}} {
			if k, isK := intConstOf(pr[1]); isK && k == '\\' && isNext(pr[0]) {
				read = pr[0]
			}
		}
		if read == nil {
			continue
		}
		n++
		o := Obligation{Rule: rule, Key: fmt.Sprintf("scanString:escape#%d", n), Fn: shortFn(f), Pos: c.W.Pos(bo.Pos()), Nontrivial: true}
		esc := hb.Succs[0]
		if bo.Op == token.NEQ {
			esc = hb.Succs[1]
		}
		home := read.(ssa.Instruction).Block()
		seen := map[*ssa.BasicBlock]bool{}
		var unskipped func(b *ssa.BasicBlock) bool
		unskipped = func(b *ssa.BasicBlock) bool {
			if seen[b] {
				return false
			}
			seen[b] = true
			if hasNext(b, read) {
				return false
			}
			if b == home {
				return true
			}
			for _, s := range b.Succs {
				if unskipped(s) {
					return true
				}
			}
			return false
		}
		if unskipped(esc) {
			o.Verdict, o.Reason = Finding, "after a backslash the scanner can go back to reading the next rune without having consumed the escaped one: an escaped quote or backslash is taken for a delimiter"
		} else {
			o.Verdict, o.Reason = Discharged, "after a backslash the next rune is consumed before the scan continues"
		}
		r.Add(o)
	}
	if n == 0 {
		r.Add(Obligation{Rule: rule, Key: "scanString:escape", Fn: shortFn(f), Pos: c.W.Pos(f.Pos()), Nontrivial: true, Verdict: Undecided,
			Reason: "scanString does not compare the rune it reads with the escape character: how it finds the end of a literal that contains escaped quotes is not decided by this rule"})
		n++
	}
	return n
}

// ---------------------------------------------------------------------------------------
// NUMGATE (C18): what $number accepts is decided by the reviewed regular expression.
//
// strconv.ParseFloat accepts far more than the property allows ("1.", ".5", "0x10", "1_0",
// "Inf", "+1"), so jlib.Number gates it with a regular expression. Rule: every ParseFloat call
// in jlib.Number is dominated by the true edge of MatchString on a package-level pattern applied
// to the same string, and the pattern — read from the package initialiser and compiled by the
// checker itself — accepts and rejects a battery of strings written from the property's grammar
// (optional minus, digits, optional fraction with at least one digit, optional exponent with at
// least one digit). A gate of another kind is reported as not decided.
// ---------------------------------------------------------------------------------------

var numgateAccept = []string{"0", "-0", "7", "12", "-12", "1.5", "-1.5", "0.25", "1e5", "1E5", "1e+5", "1e-5", "1.5e10", "-1.5E-10", "12345678901234567890"}
var numgateReject = []string{"", "-", "+1", "1.", ".5", "-.5", "1e", "1e+", "1e-", "e5", "1.e3", " 1", "1 ", "0x10", "1_0", "NaN", "Inf", "Infinity", "--1", "1.2.3", "1e5.5", "1e5e5", "١", "1,5", "true"}

func runNUMGATE(c *Ctx, r *Result, rule string) int {
	f := c.mustFn(r, "jlib.Number")
	if f == nil {
		return 0
	}
	patternOf := func(g *ssa.Global) (string, bool) {
		init := g.Pkg.Func("init")
		if init == nil {
			return "", false
		}
		for _, ins := range instrsIn(init) {
			st, ok := ins.(*ssa.Store)
			if !ok || st.Addr != ssa.Value(g) {
				continue
			}
			call, ok := st.Val.(*ssa.Call)
			if !ok || (staticName(call) != "regexp.MustCompile" && staticName(call) != "regexp.MustCompilePOSIX") {
				return "", false
			}
			k, ok := call.Call.Args[0].(*ssa.Const)
			if !ok || k.Value == nil || k.Value.Kind() != constant.String {
				return "", false
			}
			return constant.StringVal(k.Value), true
		}
		return "", false
	}
	n := 0
	for _, ins := range instrsIn(f) {
		call, ok := ins.(*ssa.Call)
		if !ok || staticName(call) != "strconv.ParseFloat" {
			continue
		}
		n++
		o := Obligation{Rule: rule, Key: fmt.Sprintf("jlib.Number:ParseFloat#%d", n), Fn: shortFn(f), Pos: c.W.Pos(call.Pos()), Nontrivial: true}
		s := call.Call.Args[0]
		pattern, found := "", false
		domGuard(call.Block(), func(cond ssa.Value) (int, bool) {
			m, ok := cond.(*ssa.Call)
			if !ok || staticName(m) != "*regexp.Regexp.MatchString" || len(m.Call.Args) != 2 || m.Call.Args[1] != s {
				return 0, false
			}
			if ld, ok := m.Call.Args[0].(*ssa.UnOp); ok && ld.Op == token.MUL {
				if g, ok := ld.X.(*ssa.Global); ok {
					if p, ok := patternOf(g); ok {
						pattern, found = p, true
						return 0, true
					}
				}
			}
			return 0, false
		})
		if !found {
			// `ok && re.MatchString(s)`: the call sits in the block that the ok-test leads to
			for d := call.Block(); d != nil && !found; d = d.Idom() {
				if len(d.Preds) != 1 {
					continue
				}
				pr := d.Preds[0]
				iff, isIf := pr.Instrs[len(pr.Instrs)-1].(*ssa.If)
				if !isIf || pr.Succs[0] != d {
					continue
				}
				if m, ok := iff.Cond.(*ssa.Call); ok && staticName(m) == "*regexp.Regexp.MatchString" && len(m.Call.Args) == 2 && m.Call.Args[1] == s {
					if ld, ok := m.Call.Args[0].(*ssa.UnOp); ok && ld.Op == token.MUL {
						if g, ok := ld.X.(*ssa.Global); ok {
							if p, ok := patternOf(g); ok {
								pattern, found = p, true
							}
						}
					}
				}
			}
		}
		switch {
		case !found:
			o.Verdict, o.Reason = Undecided, "strconv.ParseFloat in $number is not gated by MatchString of a package-level regular expression on the same string: which strings $number accepts is not decided by this rule (ParseFloat alone accepts \"1.\", \".5\", \"0x10\", \"Inf\")"
		default:
			re, err := regexp.Compile(pattern)
			if err != nil {
				o.Verdict, o.Reason = Finding, "the number pattern does not compile: "+err.Error()
				break
			}
			bad := ""
			for _, a := range numgateAccept {
				if !re.MatchString(a) {
					bad = fmt.Sprintf("rejects %q", a)
				}
			}
			for _, x := range numgateReject {
				if re.MatchString(x) {
					bad = fmt.Sprintf("accepts %q", x)
				}
			}
			if bad == "" {
				o.Verdict, o.Reason = Discharged, fmt.Sprintf("gated by the pattern %s, which accepts the %d well-formed and rejects the %d malformed strings of the battery", pattern, len(numgateAccept), len(numgateReject))
			} else {
				o.Verdict, o.Reason = Finding, "the pattern "+pattern+" that gates $number "+bad+", against the number grammar of the property"
			}
		}
		r.Add(o)
	}
	return n
}

// ---------------------------------------------------------------------------------------
// MISSLAST (C13): items without the key sort after all items that have it.
//
// In the order-by comparator less(i, j): when the key of item i is absent (and that of j is
// not) the answer is false, when the key of item j is absent the answer is true — whatever the
// direction of the term. Rule: in every func(int, int) bool closure of the evaluator that tests a
// value reached through its first (second) parameter against `undefined` and returns a constant
// on the true edge of that test, the constant is false (true).
// ---------------------------------------------------------------------------------------

func runMISSLAST(c *Ctx, r *Result, rule string) int {
	mk := c.mustFn(r, "jsonata.makeLessFunc")
	if mk == nil {
		return 0
	}
	n := 0
	for _, f := range mk.AnonFuncs {
		if len(f.Params) != 2 || !isIntType(f.Params[0].Type()) || !isIntType(f.Params[1].Type()) {
			continue
		}
		// which parameter does the value come from (info[i].values[t] -> i)?
		var from func(v ssa.Value, depth int) int
		from = func(v ssa.Value, depth int) int {
			if depth > 10 {
				return -1
			}
			switch x := v.(type) {
			case *ssa.UnOp:
				return from(x.X, depth+1)
			case *ssa.FieldAddr:
				return from(x.X, depth+1)
			case *ssa.Field:
				return from(x.X, depth+1)
			case *ssa.IndexAddr:
				for i, p := range f.Params {
					if x.Index == ssa.Value(p) {
						return i
					}
				}
				return from(x.X, depth+1)
			case *ssa.Index:
				for i, p := range f.Params {
					if x.Index == ssa.Value(p) {
						return i
					}
				}
				return from(x.X, depth+1)
			}
			return -1
		}
		// the absent-key test a branch condition makes: which item, and on which edge it is absent
		undefTest := func(cond ssa.Value) (int, bool) {
			bo, ok := cond.(*ssa.BinOp)
			if !ok || bo.Op != token.EQL {
				return -1, false
			}
			var x ssa.Value
			switch {
			case isUndefinedLoad(bo.Y) || isZeroValueConst(bo.Y):
				x = bo.X
			case isUndefinedLoad(bo.X) || isZeroValueConst(bo.X):
				x = bo.Y
			default:
				return -1, false
			}
			who := from(x, 0)
			return who, who >= 0
		}
		for _, rb := range f.Blocks {
			ret, ok := rb.Instrs[len(rb.Instrs)-1].(*ssa.Return)
			if !ok || len(rb.Instrs) != 1 || len(ret.Results) != 1 {
				continue
			}
			k, ok := ret.Results[0].(*ssa.Const)
			if !ok || k.Value == nil || k.Value.Kind() != constant.Bool {
				continue
			}
			// what the dominating branches say about the two keys
			absent := map[int]bool{}
			present := map[int]bool{}
			for d := rb; d != nil; d = d.Idom() {
				if len(d.Preds) != 1 {
					continue
				}
				pr := d.Preds[0]
				iff, isIf := pr.Instrs[len(pr.Instrs)-1].(*ssa.If)
				if !isIf || pr.Succs[0] == pr.Succs[1] {
					continue
				}
				if who, ok := undefTest(iff.Cond); ok {
					if d == pr.Succs[0] {
						absent[who] = true
					} else {
						present[who] = true
					}
				}
			}
			var who int
			switch {
			case absent[0] && !absent[1]:
				who = 0
			case absent[1] && !absent[0]:
				who = 1
			default:
				continue
			}
			n++
			o := Obligation{Rule: rule, Key: fmt.Sprintf("%s:missing-key#%d", shortFn(f), n), Fn: shortFn(f), Pos: c.W.Pos(ret.Pos()), Nontrivial: true}
			got := constant.BoolVal(k.Value)
			want := who == 1 // key of j missing: i sorts first
			if got == want {
				o.Verdict, o.Reason = Discharged, fmt.Sprintf("when the key of the %s item is absent the comparator answers %v: items without the key go last", []string{"first", "second"}[who], got)
			} else {
				o.Verdict, o.Reason = Finding, fmt.Sprintf("when the key of the %s item is absent the comparator answers %v: items without the key sort before the others", []string{"first", "second"}[who], got)
			}
			r.Add(o)
		}
	}
	return n
}

// ---------------------------------------------------------------------------------------
// PARENS (C01, C04): parentheses are opaque to the tree builder.
//
// A parenthesised sub-expression is one step of a path, evaluated once per context item in a
// scope of its own; `(a.b).c`, `a.(b.[c])` and `($$.a).b` differ from their flattened forms
// exactly where the evaluator treats first steps, constructor steps and [] specially. Rule
// (who-may-read): inside jparse the contents of a BlockNode (field Exprs) are read only by
// BlockNode's own methods; no optimize method or helper looks inside a block to splice its
// contents into the enclosing node.
// ---------------------------------------------------------------------------------------

func runPARENS(c *Ctx, r *Result, rule string) int {
	pkg := c.W.LibSSA["jparse"]
	if pkg == nil {
		r.LoseAnchor("PARENS: package jparse not loaded")
		return 0
	}
	var blockT types.Type
	if tn, ok := pkg.Pkg.Scope().Lookup("BlockNode").(*types.TypeName); ok {
		blockT = tn.Type()
	}
	if blockT == nil {
		r.LoseAnchor("PARENS: type BlockNode not found")
		return 0
	}
	n := 0
	own := 0
	for _, f := range c.G.Funcs {
		if f.Pkg != pkg || len(f.Blocks) == 0 {
			continue
		}
		isOwn := false
		if rv := f.Signature.Recv(); rv != nil {
			t := rv.Type()
			if p, ok := t.(*types.Pointer); ok {
				t = p.Elem()
			}
			isOwn = types.Identical(t, blockT)
		}
		ord := 0
		for _, ins := range instrsIn(f) {
			var base ssa.Value
			fld := -1
			switch x := ins.(type) {
			case *ssa.FieldAddr:
				base, fld = x.X, x.Field
			case *ssa.Field:
				base, fld = x.X, x.Field
			default:
				continue
			}
			t := base.Type()
			if p, ok := t.Underlying().(*types.Pointer); ok {
				t = p.Elem()
			}
			if !types.Identical(t, blockT) {
				continue
			}
			if st, ok := blockT.Underlying().(*types.Struct); !ok || st.Field(fld).Name() != "Exprs" {
				continue
			}
			if isOwn {
				own++
				continue
			}
			// the constructor fills the field of the node it has just allocated
			if _, fresh := base.(*ssa.Alloc); fresh {
				continue
			}
			ord++
			n++
			r.Add(Obligation{Rule: rule, Key: fmt.Sprintf("%s:reads-block#%d", shortFn(f), ord), Fn: shortFn(f), Pos: c.W.Pos(ins.Pos()), Nontrivial: true, Verdict: Finding,
				Reason: "the contents of a parenthesised block are read outside BlockNode's own methods: splicing them into the enclosing node changes what a path step, a first step or a constructor step is"})
		}
	}
	n++
	o := Obligation{Rule: rule, Key: "jparse:block-contents-private", Fn: "jparse.BlockNode", Pos: "jparse/node.go", Nontrivial: true}
	if own == 0 {
		o.Verdict, o.Reason = Undecided, "BlockNode's own methods do not read its Exprs field: the representation of blocks changed"
	} else {
		o.Verdict, o.Reason = Discharged, fmt.Sprintf("BlockNode.Exprs is read at %d places, all in BlockNode's own methods (optimize, String)", own)
	}
	r.Add(o)
	return n
}
