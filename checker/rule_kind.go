package main

import (
	"fmt"
	"go/constant"
	"go/token"
	"go/types"
	"sort"
	"strings"

	"golang.org/x/tools/go/ssa"
)

// ---------------------------------------------------------------------------------------
// KIND — kind and validity preconditions of reflect.Value methods (C09).
//
// Almost every reflect.Value method panics on the zero Value, and the kind-specific ones panic
// on every other kind (Len on a struct, MapKeys on a slice, Float on a string, IsNil on an
// array, Elem on a map ...). The evaluator's "no value" is the zero Value and data is
// dynamically typed, so each such call needs a reason. The engine computes, for every
// reflect.Value in the library, the set of kind classes it may have (ascending fixpoint over
// definitions, phi edges, parameters joined over all call sites of the module call graph, and
// return summaries), refines it at each use by the dominating tests (IsValid, == undefined,
// Kind() == K and switches over Kind(), the jtypes predicates), and compares with what the
// method accepts. Interface/pointer kinds at the accessors NF is responsible for are left to NF.

type kset uint16

const (
	kInvalid kset = 1 << iota
	kBool
	kInt
	kUint
	kFloat
	kString
	kArr // slice or array
	kMap
	kStruct
	kFunc
	kIface
	kPtr
	kOther // chan, complex, unsafe pointer
	kAny   = kOther<<1 - 1
	kValid = kAny &^ kInvalid
)

var kNames = []string{"invalid", "bool", "int", "uint", "float", "string", "array", "map", "struct", "func", "interface", "pointer", "other"}

func (k kset) String() string {
	if k == kAny {
		return "any"
	}
	if k == kValid {
		return "any valid"
	}
	var out []string
	for i, n := range kNames {
		if k&(1<<uint(i)) != 0 {
			out = append(out, n)
		}
	}
	if len(out) == 0 {
		return "nothing"
	}
	return strings.Join(out, "|")
}

// classOfKindConst: reflect.Kind numeric value -> class.
func classOfKindConst(k int64) kset {
	switch {
	case k == 0:
		return kInvalid
	case k == 1:
		return kBool
	case k >= 2 && k <= 6:
		return kInt
	case k >= 7 && k <= 12:
		return kUint
	case k == 13 || k == 14:
		return kFloat
	case k == 17 || k == 23:
		return kArr
	case k == 19:
		return kFunc
	case k == 20:
		return kIface
	case k == 21:
		return kMap
	case k == 22:
		return kPtr
	case k == 24:
		return kString
	case k == 25:
		return kStruct
	}
	return kOther
}

// singleKindClass: the class corresponds to exactly one reflect.Kind, so `Kind() != K` removes it.
func singleKindClass(c kset) bool {
	switch c {
	case kInvalid, kBool, kString, kMap, kStruct, kFunc, kIface, kPtr:
		return true
	}
	return false
}

func classOfType(t types.Type) kset {
	switch u := t.Underlying().(type) {
	case *types.Basic:
		switch {
		case u.Info()&types.IsBoolean != 0:
			return kBool
		case u.Info()&types.IsString != 0:
			return kString
		case u.Info()&types.IsFloat != 0:
			return kFloat
		case u.Info()&types.IsUnsigned != 0:
			return kUint
		case u.Info()&types.IsInteger != 0:
			return kInt
		}
		return kOther
	case *types.Slice, *types.Array:
		return kArr
	case *types.Map:
		return kMap
	case *types.Struct:
		return kStruct
	case *types.Signature:
		return kFunc
	case *types.Pointer:
		return kPtr
	case *types.Interface:
		return kAny &^ kIface // the dynamic value: never of interface kind; nil gives the zero Value
	}
	return kOther
}

// predicate tables: function -> classes of the RESOLVED value when the predicate is true.
var kindPredicates = map[string]kset{
	"jtypes.IsBool": kBool, "jtypes.IsString": kString, "jtypes.IsNumber": kInt | kUint | kFloat,
	"jtypes.IsArray": kArr, "jtypes.IsMap": kMap, "jtypes.IsStruct": kStruct,
	"jtypes.isInt": kInt, "jtypes.isUint": kUint, "jtypes.isFloat": kFloat,
}

// inexactPredicates: true shows the value is valid, false shows nothing.
var inexactPredicates = map[string]bool{"jtypes.IsCallable": true}

// lenHelper: f(v reflect.Value) int returns a non-zero value only on paths where a predicate
// on v holds (jlib.arrayLen): then f(v) != 0 shows that predicate.
func (e *kindEngine) lenHelper(f *ssa.Function) (kset, bool) {
	if m, ok := e.lenHelpers[f]; ok {
		return m, m != 0
	}
	e.lenHelpers[f] = 0
	if len(f.Blocks) == 0 || len(f.Params) != 1 || !isReflectValue(f.Params[0].Type()) || f.Signature.Results().Len() != 1 || !isSignedInt(f.Signature.Results().At(0).Type()) {
		return 0, false
	}
	p := f.Params[0]
	m := kset(0)
	for _, b := range f.Blocks {
		ret, ok := b.Instrs[len(b.Instrs)-1].(*ssa.Return)
		if !ok {
			continue
		}
		if k, isK := intConstOf(ret.Results[0]); isK && k == 0 {
			continue
		}
		pm := e.refine(p, b, 0, func(cond ssa.Value) (kset, kset, bool) { return e.guard(cond, p, 0) })
		if pm == kAny {
			return 0, false
		}
		m |= pm
	}
	e.lenHelpers[f] = m
	return m, m != 0
}

type kindEngine struct {
	lenHelpers map[*ssa.Function]kset
	c          *Ctx
	g          *MCG
	fns        []*ssa.Function
	val        map[ssa.Value]kset // own kinds
	ret        map[*ssa.Function]kset
	rval       map[ssa.Value]kset // kinds of jtypes.Resolve(value)
	rret       map[*ssa.Function]kset
	extArgs    map[*ssa.Function]bool // parameters may come from outside the positional call graph
	changed    bool
}

func newKindEngine(c *Ctx, g *MCG) *kindEngine {
	e := &kindEngine{lenHelpers: map[*ssa.Function]kset{}, c: c, g: g, val: map[ssa.Value]kset{}, ret: map[*ssa.Function]kset{}, rval: map[ssa.Value]kset{}, rret: map[*ssa.Function]kset{}, extArgs: map[*ssa.Function]bool{}}
	for _, f := range g.Funcs {
		if len(f.Blocks) > 0 {
			e.fns = append(e.fns, f)
		}
	}
	sortFns(e.fns)
	hasSite := map[*ssa.Function]bool{}
	for _, callees := range g.Sites {
		for _, cal := range callees {
			hasSite[cal] = true
		}
	}
	for _, edges := range g.Out {
		for _, ed := range edges {
			if ed.Kind == "callback" || ed.Kind == "reflect" {
				e.extArgs[ed.Callee] = true
			}
		}
	}
	for _, b := range g.Boxed {
		e.extArgs[b] = true
	}
	for _, f := range e.fns {
		if !hasSite[f] {
			e.extArgs[f] = true
		}
		if f.Object() != nil && f.Object().Exported() && f.Signature.Recv() == nil && fnPkg(f) != nil && fnPkg(f).Name() != "jtypes" && f.Parent() == nil {
			// exported API functions may be called by users with anything
			if fnPkg(f).Name() == "jsonata" {
				e.extArgs[f] = true
			}
		}
	}
	e.solve()
	return e
}

func (e *kindEngine) set(v ssa.Value, k kset) {
	if old := e.val[v]; old|k != old {
		e.val[v] = old | k
		e.changed = true
	}
}

func (e *kindEngine) setR(v ssa.Value, k kset) {
	if old := e.rval[v]; old|k != old {
		e.rval[v] = old | k
		e.changed = true
	}
}

// unwrapAll: the kinds jtypes.Resolve can yield for a value of kinds own when nothing else is
// known: a wrapper may hold anything valid (or be nil and stay as it is).
func unwrapAll(own kset) kset {
	if own&(kIface|kPtr) != 0 {
		return own | kValid
	}
	return own
}

func (e *kindEngine) solve() {
	for round := 0; round < 60; round++ {
		e.changed = false
		for _, f := range e.fns {
			for _, p := range f.Params {
				if isReflectValue(p.Type()) && e.extArgs[f] {
					e.set(p, kAny)
					e.setR(p, kAny)
				}
			}
			for _, fv := range f.FreeVars {
				_ = fv
			}
			for _, b := range f.Blocks {
				for _, ins := range b.Instrs {
					if v, ok := ins.(ssa.Value); ok && isReflectValue(v.Type()) {
						e.set(v, e.transfer(v))
						e.setR(v, e.transferR(v))
					}
					switch x := ins.(type) {
					case ssa.CallInstruction:
						if e.correlatedCall(x, b) {
							break
						}
						for _, callee := range e.g.Sites[x] {
							args := x.Common().Args
							off := 0
							if x.Common().IsInvoke() {
								off = 1
							}
							for i, a := range args {
								if pi := i + off; pi < len(callee.Params) && isReflectValue(callee.Params[pi].Type()) {
									e.set(callee.Params[pi], e.at(a, b))
									e.setR(callee.Params[pi], e.resolvedAt(a, b))
								}
							}
						}
					case *ssa.Return:
						for i, rv := range x.Results {
							if i == 0 && isReflectValue(rv.Type()) && isSuccessReturn(x) {
								k := e.at(rv, b)
								if old := e.ret[f]; old|k != old {
									e.ret[f] = old | k
									e.changed = true
								}
								kr := e.resolvedAt(rv, b)
								if old := e.rret[f]; old|kr != old {
									e.rret[f] = old | kr
									e.changed = true
								}
							}
						}
					}
				}
			}
		}
		if !e.changed {
			return
		}
	}
}

// correlatedCall: a call through a variable that is a phi of function constants (each =
// eachMap / eachStruct chosen by a kind test): the callees are exactly those functions, and the
// arguments each receives are what is known on the path that selected it.
func (e *kindEngine) correlatedCall(ci ssa.CallInstruction, b *ssa.BasicBlock) bool {
	com := ci.Common()
	if com.IsInvoke() {
		return false
	}
	phi, ok := com.Value.(*ssa.Phi)
	if !ok {
		return false
	}
	var fns []*ssa.Function
	for _, ed := range phi.Edges {
		f, ok := ed.(*ssa.Function)
		if !ok || !e.g.InSc[f] {
			return false
		}
		fns = append(fns, f)
	}
	for i, f := range fns {
		pred := phi.Block().Preds[i]
		for ai, a := range com.Args {
			if ai < len(f.Params) && isReflectValue(f.Params[ai].Type()) {
				k := e.at(a, b)
				if ins, isIns := a.(ssa.Instruction); !isIns || ins.Block().Dominates(pred) {
					k &= e.at(a, pred)
				}
				e.set(f.Params[ai], k)
				kr := e.resolvedAt(a, b)
				if ins, isIns := a.(ssa.Instruction); !isIns || ins.Block().Dominates(pred) {
					kr &= e.resolvedAt(a, pred)
				}
				e.setR(f.Params[ai], kr)
			}
		}
	}
	return true
}

// storeBefore: the store is executed before the load on every path (same function).
func storeBefore(st *ssa.Store, ld *ssa.UnOp) bool {
	if st.Parent() != ld.Parent() {
		return false
	}
	if st.Block() == ld.Block() {
		for _, ins := range st.Block().Instrs {
			if ins == ssa.Instruction(st) {
				return true
			}
			if ins == ssa.Instruction(ld) {
				return false
			}
		}
	}
	return st.Block().Dominates(ld.Block())
}

func isUndefinedLoad(v ssa.Value) bool {
	u, ok := v.(*ssa.UnOp)
	if !ok || u.Op != token.MUL {
		return false
	}
	g, ok := u.X.(*ssa.Global)
	return ok && g.Name() == "undefined" && isReflectValue(g.Type().(*types.Pointer).Elem())
}

// transfer: the kinds a value may have by definition.
func (e *kindEngine) transfer(v ssa.Value) kset {
	switch x := v.(type) {
	case *ssa.Const:
		return kInvalid // the zero reflect.Value
	case *ssa.Parameter:
		return e.val[x]
	case *ssa.Phi:
		var k kset
		for i, ed := range x.Edges {
			k |= e.atEdge(ed, x.Block().Preds[i], x.Block())
		}
		return k
	case *ssa.UnOp:
		if isUndefinedLoad(x) {
			return kInvalid
		}
		if x.Op == token.MUL {
			if al, ok := x.X.(*ssa.Alloc); ok {
				if stores, ok := cellStores(al); ok && len(stores) > 0 {
					var k kset
					dominated := false
					for _, st := range stores {
						k |= e.at(st.Val, st.Block())
						if storeBefore(st, x) {
							dominated = true
						}
					}
					if dominated {
						return k
					}
					// a cell read before it is written holds the zero Value
					return k | kInvalid
				}
			}
		}
		return kAny
	case *ssa.Extract:
		if call, ok := x.Tuple.(*ssa.Call); ok && x.Index == 0 {
			return e.callResult(call)
		}
		return kAny
	case *ssa.Call:
		return e.callResult(x)
	}
	return kAny
}

// transferR: the kinds jtypes.Resolve(v) may have, by definition of v.
func (e *kindEngine) transferR(v ssa.Value) kset {
	switch x := v.(type) {
	case *ssa.Const:
		return kInvalid
	case *ssa.Parameter:
		return e.rval[x]
	case *ssa.Phi:
		var k kset
		for i, ed := range x.Edges {
			k |= e.resolvedAtEdge(ed, x.Block().Preds[i], x.Block())
		}
		return k
	case *ssa.UnOp:
		if isUndefinedLoad(x) {
			return kInvalid
		}
		if x.Op == token.MUL {
			if al, ok := x.X.(*ssa.Alloc); ok {
				if stores, ok := cellStores(al); ok && len(stores) > 0 {
					var k kset
					dominated := false
					for _, st := range stores {
						k |= e.resolvedAt(st.Val, st.Block())
						if storeBefore(st, x) {
							dominated = true
						}
					}
					if dominated {
						return k
					}
					return k | kInvalid
				}
			}
		}
		return kAny
	case *ssa.Extract:
		if call, ok := x.Tuple.(*ssa.Call); ok && x.Index == 0 {
			return e.callResultR(call)
		}
		return kAny
	case *ssa.Call:
		return e.callResultR(x)
	}
	return kAny
}

func (e *kindEngine) callResultR(call *ssa.Call) kset {
	callee := call.Call.StaticCallee()
	if callee != nil && shortFn(callee) == "jtypes.Resolve" {
		return e.resolvedAt(call.Call.Args[0], call.Block())
	}
	if callee != nil && e.g.InSc[callee] && len(callee.Blocks) > 0 {
		return e.rret[callee]
	}
	return unwrapAll(e.callResult(call))
}

func (e *kindEngine) callResult(call *ssa.Call) kset {
	name := staticName(call)
	args := call.Call.Args
	switch name {
	case "reflect.ValueOf":
		if mi, ok := args[0].(*ssa.MakeInterface); ok {
			return classOfType(mi.X.Type())
		}
		if k, ok := args[0].(*ssa.Const); ok && k.IsNil() {
			return kInvalid
		}
		return kAny &^ kIface
	case "reflect.MakeSlice", "reflect.Append", "reflect.AppendSlice":
		return kArr
	case "reflect.MakeMap", "reflect.MakeMapWithSize":
		return kMap
	case "reflect.New":
		return kPtr
	case "reflect.Zero", "reflect.Indirect":
		return kValid
	case "reflect.Value.Convert":
		if u, ok := args[1].(*ssa.UnOp); ok && u.Op == token.MUL {
			if g, ok := u.X.(*ssa.Global); ok {
				if t := e.c.reflectTypeGlobals()[g]; t != nil {
					if _, isIface := t.Underlying().(*types.Interface); !isIface {
						return classOfType(t)
					}
				}
			}
		}
		return kValid
	case "reflect.Value.Index", "reflect.Value.Field", "reflect.Value.FieldByIndex":
		return kValid
	case "reflect.Value.Slice", "reflect.Value.Slice3":
		return kArr | kString
	case "reflect.Value.Addr":
		return kPtr
	case "reflect.Value.MapIndex", "reflect.Value.FieldByName", "reflect.Value.Elem", "reflect.Value.FieldByNameFunc":
		return kAny
	}
	callee := call.Call.StaticCallee()
	if callee != nil && shortFn(callee) == "jtypes.Resolve" {
		return e.resolvedAt(args[0], call.Block())
	}
	if callee != nil && e.g.InSc[callee] && len(callee.Blocks) > 0 {
		return e.ret[callee]
	}
	if call.Call.IsInvoke() || callee == nil {
		var k kset
		cs := e.g.Sites[call]
		if len(cs) == 0 {
			return kAny
		}
		for _, cf := range cs {
			k |= e.ret[cf]
		}
		// an interface method may also be implemented outside the module (user callables)
		return k | kAny
	}
	return kAny
}

// resolvedValue: v is the result of jtypes.Resolve (or only of such), so a nil interface/pointer
// is the only way it can still be of interface/pointer kind.
func resolvedValue(v ssa.Value, depth int) bool {
	if depth > 4 {
		return false
	}
	switch x := v.(type) {
	case *ssa.Call:
		if callee := x.Call.StaticCallee(); callee != nil && shortFn(callee) == "jtypes.Resolve" {
			return true
		}
	case *ssa.Phi:
		for _, ed := range x.Edges {
			if !resolvedValue(ed, depth+1) {
				return false
			}
		}
		return len(x.Edges) > 0
	}
	return false
}

// guard interprets cond as a test on v; returns the kinds on the true and on the false edge.
func (e *kindEngine) guard(cond ssa.Value, v ssa.Value, depth int) (kset, kset, bool) {
	if depth > 3 {
		return 0, 0, false
	}
	switch x := cond.(type) {
	case *ssa.UnOp:
		if x.Op == token.NOT {
			t, f, ok := e.guard(x.X, v, depth+1)
			return f, t, ok
		}
	case *ssa.Call:
		name := staticName(x)
		if name == "reflect.Value.IsValid" && x.Call.Args[0] == v {
			return kValid, kInvalid, true
		}
		if name == "reflect.Value.CanInterface" && x.Call.Args[0] == v {
			return kValid, kValid, true // it would have panicked on the zero Value
		}
		// helper(v.Kind()) where helper is a pure predicate on a reflect.Kind: evaluate it on
		// every kind constant (constant folding over its body)
		if callee := x.Call.StaticCallee(); callee != nil && len(x.Call.Args) == 1 && len(callee.Params) == 1 && len(callee.Blocks) > 0 && isReflectKindType(callee.Params[0].Type()) {
			if kc, isCall := x.Call.Args[0].(*ssa.Call); isCall && staticName(kc) == "reflect.Value.Kind" && kc.Call.Args[0] == v {
				var t, f kset
				okAll := true
				for k := int64(0); k <= 26; k++ {
					res, ok := evalPredicateOnConst(callee, k, nil)
					if !ok {
						okAll = false
						break
					}
					if res {
						t |= classOfKindConst(k)
					} else {
						f |= classOfKindConst(k)
					}
				}
				if okAll {
					return t, f, true
				}
			}
		}
		// a predicate of the module written in terms of other predicates (isPlainStruct(v) =
		// IsStruct(v) && !IsCallable(v)): what its own guards establish for the parameter on the
		// paths that return true (false)
		if callee := x.Call.StaticCallee(); callee != nil && len(callee.Blocks) > 0 && e.g.InSc[callee] && kindPredicates[shortFn(callee)] == 0 && !inexactPredicates[shortFn(callee)] && shortFn(callee) != "jtypes.IsArrayOf" {
			for i, a := range x.Call.Args {
				if a == v && i < len(callee.Params) {
					if t, f, ok := e.wrapperGuard(callee, i, depth); ok {
						return t, f, true
					}
				}
			}
		}
		if callee := x.Call.StaticCallee(); callee != nil && len(x.Call.Args) >= 1 && x.Call.Args[0] == v {
			if inexactPredicates[shortFn(callee)] {
				return kValid, kAny, true
			}
			if m, ok := kindPredicates[shortFn(callee)]; ok {
				// the predicate looks through wrappers: true leaves the wrappers possible,
				// false excludes the bare kinds. A value that is itself the result of
				// Resolve can only be a nil wrapper, for which the predicate is false.
				if resolvedValue(v, 0) {
					return m, kAny &^ m, true
				}
				return m | kIface | kPtr, kAny &^ m, true
			}
			if shortFn(callee) == "jtypes.IsArrayOf" {
				return kArr | kIface | kPtr, kAny, true
			}
		}
	case *ssa.BinOp:
		// n < lenHelper(v), lenHelper(v) > n with n >= 0: the helper returns non-zero only for
		// the kinds its own guard admits
		if x.Op == token.LSS || x.Op == token.GTR || x.Op == token.NEQ || x.Op == token.EQL {
			small, big := x.X, x.Y
			if x.Op == token.GTR {
				small, big = x.Y, x.X
			}
			for _, pr := range [][2]ssa.Value{{small, big}, {big, small}} {
				call, isCall := pr[1].(*ssa.Call)
				if !isCall || len(call.Call.Args) != 1 || call.Call.Args[0] != v {
					continue
				}
				callee := call.Call.StaticCallee()
				if callee == nil {
					continue
				}
				m, ok := e.lenHelper(callee)
				if !ok {
					continue
				}
				switch x.Op {
				case token.LSS, token.GTR:
					if pr[0] == small && structNonNeg(small, map[ssa.Value]bool{}) {
						return m, kAny, true
					}
				case token.NEQ:
					if k, isK := intConstOf(pr[0]); isK && k == 0 {
						return m, kAny, true
					}
				case token.EQL:
					if k, isK := intConstOf(pr[0]); isK && k == 0 {
						return kAny, m, true
					}
				}
			}
		}
		if x.Op != token.EQL && x.Op != token.NEQ {
			return 0, 0, false
		}
		var t, f kset
		ok := false
		for _, pr := range [][2]ssa.Value{{x.X, x.Y}, {x.Y, x.X}} {
			// v == undefined
			if pr[0] == v && (isUndefinedLoad(pr[1]) || isZeroValueConst(pr[1])) {
				t, f, ok = kInvalid, kValid, true
			}
			// v.Kind() == K
			if call, isCall := pr[0].(*ssa.Call); isCall && staticName(call) == "reflect.Value.Kind" && call.Call.Args[0] == v {
				if k, isK := pr[1].(*ssa.Const); isK && k.Value != nil && k.Value.Kind() == constant.Int {
					kv, _ := constant.Int64Val(k.Value)
					cls := classOfKindConst(kv)
					t = cls
					f = kAny
					if singleKindClass(cls) {
						f = kAny &^ cls
					}
					ok = true
				}
			}
		}
		if ok {
			if x.Op == token.NEQ {
				return f, t, true
			}
			return t, f, true
		}
	}
	return 0, 0, false
}

func isZeroValueConst(v ssa.Value) bool {
	k, ok := v.(*ssa.Const)
	return ok && k.Value == nil && isReflectValue(k.Type())
}

// base: kinds of v by definition.
func (e *kindEngine) base(v ssa.Value) kset {
	if !isReflectValue(v.Type()) {
		return kAny
	}
	if _, isConst := v.(*ssa.Const); isConst {
		return kInvalid
	}
	if isUndefinedLoad(v) {
		return kInvalid
	}
	k, ok := e.val[v]
	if !ok {
		switch v.(type) {
		case ssa.Instruction, *ssa.Parameter:
			return 0 // bottom: not yet reached in the fixpoint
		}
		return kAny
	}
	return k
}

// at: kinds of v as seen from block b (definition refined by the dominating tests, and at a
// merge point by the union of what arrives over each incoming edge).
func (e *kindEngine) at(v ssa.Value, b *ssa.BasicBlock) kset {
	return e.atDepth(v, b, 0)
}

func (e *kindEngine) atDepth(v ssa.Value, b *ssa.BasicBlock, depth int) kset {
	k := e.base(v)
	if k == 0 || b == nil {
		return k
	}
	return k & e.refine(v, b, depth, func(cond ssa.Value) (kset, kset, bool) { return e.guard(cond, v, 0) })
}

// refine walks the dominator chain of b applying test (kinds on the true edge, on the false
// edge) and, at blocks with several forward predecessors, the union over the incoming edges.
func (e *kindEngine) refine(v ssa.Value, b *ssa.BasicBlock, depth int, test func(cond ssa.Value) (kset, kset, bool)) kset {
	k := kAny
	defBlock := (*ssa.BasicBlock)(nil)
	if v != nil {
		if ins, ok := v.(ssa.Instruction); ok {
			defBlock = ins.Block()
		}
	}
	for d := b; d != nil; d = d.Idom() {
		if defBlock != nil && !defBlock.Dominates(d) {
			break
		}
		if len(d.Preds) == 1 {
			pr := d.Preds[0]
			if iff, isIf := pr.Instrs[len(pr.Instrs)-1].(*ssa.If); isIf && pr.Succs[0] != pr.Succs[1] {
				// a short-circuit condition: phi of booleans defined in pr. On the edge we are
				// on, the incoming edges whose constant contradicts it are infeasible.
				if phi, isPhi := iff.Cond.(*ssa.Phi); isPhi && phi.Block() == pr && depth < 3 && (defBlock == nil || defBlock != pr) {
					truth := d == pr.Succs[0]
					var u kset
					feasible := 0
					okAll := true
					for i, ed := range phi.Edges {
						if kc, isK := ed.(*ssa.Const); isK && kc.Value != nil && kc.Value.Kind() == constant.Bool {
							if constant.BoolVal(kc.Value) != truth {
								continue // infeasible
							}
						}
						pp := pr.Preds[i]
						if pr.Dominates(pp) || (defBlock != nil && !defBlock.Dominates(pp)) {
							okAll = false
							break
						}
						feasible++
						ek := e.refine(v, pp, depth+1, test)
						if iff2, isIf2 := pp.Instrs[len(pp.Instrs)-1].(*ssa.If); isIf2 && pp.Succs[0] != pp.Succs[1] {
							if t, f, okc := test(iff2.Cond); okc {
								if pp.Succs[0] == pr {
									ek &= t
								} else {
									ek &= f
								}
							}
						}
						if _, isK := ed.(*ssa.Const); !isK {
							if t, f, okc := test(ed); okc {
								if truth {
									ek &= t
								} else {
									ek &= f
								}
							}
						}
						u |= ek
					}
					if okAll && feasible > 0 {
						return k & u
					}
				}
				if t, f, ok := test(iff.Cond); ok {
					if d == pr.Succs[0] {
						k &= t
					} else {
						k &= f
					}
				}
			}
			continue
		}
		if len(d.Preds) > 1 && depth < 3 && d != defBlock {
			var u kset
			ok := true
			for _, pr := range d.Preds {
				if d.Dominates(pr) { // back edge: no information
					ok = false
					break
				}
				if defBlock != nil && !defBlock.Dominates(pr) {
					ok = false
					break
				}
				ek := e.refine(v, pr, depth+1, test)
				if iff, isIf := pr.Instrs[len(pr.Instrs)-1].(*ssa.If); isIf && pr.Succs[0] != pr.Succs[1] {
					if t, f, okc := test(iff.Cond); okc {
						if pr.Succs[0] == d {
							ek &= t
						} else {
							ek &= f
						}
					}
				}
				u |= ek
			}
			if ok {
				k &= u
				// the incoming edges already account for everything above them
				return k
			}
		}
	}
	return k
}

// baseR: kinds of jtypes.Resolve(v) by definition.
func (e *kindEngine) baseR(v ssa.Value) kset {
	if !isReflectValue(v.Type()) {
		return kAny
	}
	if _, isConst := v.(*ssa.Const); isConst {
		return kInvalid
	}
	if isUndefinedLoad(v) {
		return kInvalid
	}
	k, ok := e.rval[v]
	if !ok {
		switch v.(type) {
		case ssa.Instruction, *ssa.Parameter:
			return 0
		}
		return kAny
	}
	return k
}

// guardR interprets cond as a test on x and returns what it shows about jtypes.Resolve(x).
func (e *kindEngine) guardR(cond ssa.Value, x ssa.Value, depth int) (kset, kset, bool) {
	if depth > 3 {
		return 0, 0, false
	}
	switch c := cond.(type) {
	case *ssa.UnOp:
		if c.Op == token.NOT {
			t, f, ok := e.guardR(c.X, x, depth+1)
			return f, t, ok
		}
	case *ssa.Call:
		name := staticName(c)
		if (name == "reflect.Value.IsValid" || name == "reflect.Value.CanInterface") && c.Call.Args[0] == x {
			if name == "reflect.Value.IsValid" {
				return kValid, kInvalid, true
			}
			return kValid, kValid, true
		}
		if callee := c.Call.StaticCallee(); callee != nil && len(callee.Blocks) > 0 && e.g.InSc[callee] && kindPredicates[shortFn(callee)] == 0 && !inexactPredicates[shortFn(callee)] && shortFn(callee) != "jtypes.IsArrayOf" {
			for i, a := range c.Call.Args {
				if a == x && i < len(callee.Params) {
					if t, f, ok := e.wrapperGuardR(callee, i, depth); ok {
						return t, f, true
					}
				}
			}
		}
		if callee := c.Call.StaticCallee(); callee != nil && len(c.Call.Args) >= 1 && c.Call.Args[0] == x {
			if inexactPredicates[shortFn(callee)] {
				return kValid, kAny, true
			}
			if m, ok := kindPredicates[shortFn(callee)]; ok {
				return m, kAny &^ m, true
			}
			if shortFn(callee) == "jtypes.IsArrayOf" {
				return kArr, kAny, true
			}
		}
	case *ssa.BinOp:
		// tests on x's own kind say something about the resolved kind when they exclude or
		// establish a non-wrapper kind: reuse the own-kind guard and translate
		t, f, ok := e.guard(cond, x, depth)
		if !ok {
			return 0, 0, false
		}
		tr := func(k kset) kset {
			if k&(kIface|kPtr) != 0 {
				return unwrapAll(k)
			}
			return k
		}
		// a false edge that only removes non-wrapper kinds from the own view removes nothing
		// certain from the resolved view unless the value has no wrappers; stay conservative
		own := e.base(x)
		if own&(kIface|kPtr) == 0 {
			return tr(t), tr(f), true
		}
		return tr(t), kAny, true
	}
	return 0, 0, false
}

// resolvedAt: kinds of jtypes.Resolve(x) as seen from block b.
func (e *kindEngine) resolvedAt(x ssa.Value, b *ssa.BasicBlock) kset {
	k := e.baseR(x)
	if k == 0 || b == nil {
		return k
	}
	// what is known of x's own kinds also bounds the resolved kinds
	k &= unwrapAll(e.at(x, b))
	return k & e.refine(x, b, 0, func(cond ssa.Value) (kset, kset, bool) { return e.guardR(cond, x, 0) })
}

func (e *kindEngine) resolvedAtEdge(v ssa.Value, pred, succ *ssa.BasicBlock) kset {
	k := e.resolvedAt(v, pred)
	if iff, ok := pred.Instrs[len(pred.Instrs)-1].(*ssa.If); ok && pred.Succs[0] != pred.Succs[1] {
		if t, f, ok := e.guardR(iff.Cond, v, 0); ok {
			if pred.Succs[0] == succ {
				k &= t
			} else {
				k &= f
			}
		}
	}
	return k
}

// atEdge: kinds of v arriving over the edge pred -> succ.
func (e *kindEngine) atEdge(v ssa.Value, pred, succ *ssa.BasicBlock) kset {
	k := e.at(v, pred)
	if iff, ok := pred.Instrs[len(pred.Instrs)-1].(*ssa.If); ok && pred.Succs[0] != pred.Succs[1] {
		if t, f, ok := e.guard(iff.Cond, v, 0); ok {
			if pred.Succs[0] == succ {
				k &= t
			} else {
				k &= f
			}
		}
	}
	return k
}

// kindNeeds: what the receiver of a reflect.Value method must be. nfOwned: interface/pointer
// kinds at this accessor are NF's obligation.
var kindNeeds = map[string]struct {
	ok      kset
	nfOwned bool
}{
	"Len":          {kArr | kMap | kString | kOther, true},
	"Index":        {kArr | kString, true},
	"MapKeys":      {kMap, true},
	"MapIndex":     {kMap, true},
	"MapRange":     {kMap, true},
	"SetMapIndex":  {kMap, true},
	"NumField":     {kStruct, true},
	"Field":        {kStruct, true},
	"FieldByName":  {kStruct, true},
	"FieldByIndex": {kStruct, true},
	"Float":        {kFloat, false},
	"Int":          {kInt, false},
	"Uint":         {kUint, false},
	"Bool":         {kBool, false},
	"IsNil":        {kFunc | kIface | kMap | kPtr | kArr | kOther, false}, // slice yes, array no: see arrays below
	"Elem":         {kIface | kPtr, false},
	"Pointer":      {kFunc | kMap | kPtr | kArr | kOther, false},
	"Call":         {kFunc, false},
	"Type":         {kValid, false},
	"Interface":    {kValid, false},
	"CanInterface": {kValid, false},
	"CanAddr":      {kAny, false},
	"Addr":         {kValid, false},
	"Convert":      {kValid, false},
	"Set":          {kValid, false},
	"Slice":        {kArr | kString, true},
	"Cap":          {kArr | kOther, true},
}

var kindExceptions = map[string]string{
	"(*jsonata.goCallable).Call:Call#1":           "[protocol] c.fn is set once by newGoCallable, which rejects anything whose Kind() is not Func",
	"(*jsonata.goCallable).Call:IsNil#1":          "[protocol] results[1] exists only for functions whose second result type implements error (validateGoCallableFunc), an interface: IsNil is defined",
	"(*jsonata.goCallable).Call:Interface#1":      "[protocol] a value returned by reflect.Value.Call is valid",
	"jsonata.processOptionalArg:Elem#1":           "[value] opt is reflect.New(param.t).Interface(): a non-nil pointer, so ValueOf(opt) is of pointer kind",
	"jsonata.evalPathStep:CanInterface#1":         "[protocol] evalOverArray and evalOverSequence append only results for which IsValid() holds",
	"jsonata.evalOverArray:Len#1":                 "[protocol] evalPath hands evalPathStep an array on the first step (the input if IsArray, else a fresh one-element slice, or the value of an array constructor) and the previous step's *sequence afterwards; sequences take the other branch, so data resolves to an array",
	"jsonata.evalOverArray:Index#1":               "[protocol] as for Len#1",
	"jlib.Zip:Index#1":                            "[value] every vs[j] was replaced by forceArray(Resolve(..)) in the first loop and an invalid or non-array argument makes the function return before the second",
	"jlib.Single:Len#1":                           "[value] inside `case reflect.Slice` of a switch on reflect.TypeOf(filteredValue).Kind(), s being reflect.ValueOf of the same value",
	"jlib.Single:Len#2":                           "[value] as Len#1",
	"jlib.Single:Index#1":                         "[value] as Len#1, and s.Len() == 1 was tested",
	"jlib.Single:Interface#2":                     "[value] filteredValue is the non-nil success result of Filter (NILTYPE shows it), so ValueOf of it is valid",
	"jlib.Spread:CanInterface#1":                  "[value] k ranges over v.MapKeys(), so v.MapIndex(k) exists and is valid",
	"(*jtypes.OptionalInt).Set:Int#1":             "[protocol] processOptionalArg passes the argument converted to the optional's underlying type (Type() = int)",
	"(*jtypes.OptionalFloat64).Set:Float#1":       "[protocol] as OptionalInt: converted to float64",
	"(*jtypes.OptionalBool).Set:Bool#1":           "[protocol] as OptionalInt: converted to bool",
	"(*jtypes.OptionalInterface).Set:Interface#1": "[protocol] processGoCallableArg returned ok, so the converted value is valid",
	"(*jtypes.OptionalValue).Set:Interface#1":     "[protocol] as OptionalInterface",
	"(*jtypes.OptionalCallable).Set:Interface#1":  "[protocol] as OptionalInterface",
}

func runKIND(c *Ctx, r *Result, rule string, fns []*ssa.Function, reach *Reach) int {
	return runKINDIn(c, c.G, r, rule, fns, reach)
}

func runKINDIn(c *Ctx, g *MCG, r *Result, rule string, fns []*ssa.Function, reach *Reach) int {
	e := newKindEngine(c, g)
	n := 0
	type pending struct {
		o   Obligation
		f   *ssa.Function
		key excSiteKey
		bad kset
		got kset
		m   string
		arg bool
	}
	var pend []pending
	for _, f := range fns {
		ord := map[string]int{}
		for _, ins := range instrsIn(f) {
			call, ok := ins.(*ssa.Call)
			if !ok {
				continue
			}
			callee := call.Call.StaticCallee()
			// argument validity: Set(x), reflect.Append(s, x...), reflect.AppendSlice(s, t) panic when
			// x / t is the zero Value ("no value")
			for _, a := range kindValidArgs(call) {
				n++
				k := shortFn(f) + ":" + a.what
				ord[k]++
				got := e.at(a.v, call.Block())
				o := Obligation{Rule: rule, Key: fmt.Sprintf("%s#%d", k, ord[k]), Fn: shortFn(f), Pos: c.W.Pos(call.Pos()), Nontrivial: true}
				pend = append(pend, pending{o: o, f: f, key: excSiteKey{shortFn(f), a.what, ord[k]}, bad: got & kInvalid, got: got, m: a.what, arg: true})
			}
			if callee == nil || callee.Signature.Recv() == nil || !isReflectValue(callee.Signature.Recv().Type()) {
				continue
			}
			need, ok := kindNeeds[callee.Name()]
			if !ok {
				continue
			}
			n++
			k := shortFn(f) + ":" + callee.Name()
			ord[k]++
			recv := call.Call.Args[0]
			got := e.at(recv, call.Block())
			allowed := need.ok
			if need.nfOwned {
				allowed |= kIface | kPtr
			}
			o := Obligation{Rule: rule, Key: fmt.Sprintf("%s#%d", k, ord[k]), Fn: shortFn(f), Pos: c.W.Pos(call.Pos()), Nontrivial: true}
			pend = append(pend, pending{o: o, f: f, key: excSiteKey{shortFn(f), callee.Name(), ord[k]}, bad: got &^ allowed, got: got, m: callee.Name()})
		}
	}
	var keys []string
	for k := range kindExceptions {
		keys = append(keys, k)
	}
	var siteKeys, needKeys []excSiteKey
	for _, p := range pend {
		siteKeys = append(siteKeys, p.key)
		if p.bad != 0 {
			needKeys = append(needKeys, p.key)
		}
	}
	resolver := newExcResolver(c, keys, siteKeys, needKeys, fns, true)
	for _, p := range pend {
		o := p.o
		switch {
		case p.bad == 0 && p.arg:
			o.Verdict, o.Reason = Discharged, fmt.Sprintf("argument may be %s: never the zero Value", p.got)
			if p.got == 0 {
				o.Reason = "unreachable in the module call graph (no value reaches the argument)"
			}
		case p.bad == 0:
			o.Verdict, o.Reason = Discharged, fmt.Sprintf("receiver may be %s, %s accepts that", p.got, p.m)
			if p.got == 0 {
				o.Reason = "unreachable in the module call graph (no value reaches the receiver)"
			}
		default:
			if k := resolver.resolve(p.key); k != "" {
				o.Verdict, o.Reason = Exception, "reviewed ("+k+"): "+kindExceptions[k]
				break
			}
			o.Verdict, o.Reason = Finding, fmt.Sprintf("reflect.Value.%s panics on a receiver of kind %s, which no dominating test excludes (receiver may be %s)", p.m, p.bad, p.got)
			if p.arg {
				o.Reason = fmt.Sprintf("%s panics when this argument is the zero Value (\"no value\"), which no dominating test excludes (it may be %s)", p.m, p.got)
			}
			if reach != nil {
				o.Path = reach.Path(p.f)
			}
		}
		r.Add(o)
	}
	return n
}

func dumpKIND(c *Ctx) {
	r := NewResult("dump")
	n := runKIND(c, r, "KIND", libFuncsIn(c, c.REval), nil)
	var lines []string
	cnt := map[string]int{}
	for _, o := range r.Obls {
		cnt[o.Verdict]++
		if o.Verdict != Discharged {
			lines = append(lines, fmt.Sprintf("%-10s %-28s %s\n      %s", o.Verdict, o.Pos, o.Key, o.Reason))
		}
	}
	sort.Strings(lines)
	for _, l := range lines {
		fmt.Println(l)
	}
	fmt.Println(n, cnt)
}

func dumpKINDfn(c *Ctx, name string) {
	e := newKindEngine(c, c.G)
	f := c.W.Fn(name)
	if f == nil {
		fmt.Println("no such function")
		return
	}
	fmt.Println("extArgs:", e.extArgs[f], "ret:", e.ret[f])
	for _, p := range f.Params {
		fmt.Printf("  param %s: %s\n", p.Name(), e.val[p])
	}
	for _, edges := range c.G.Out {
		for _, ed := range edges {
			if ed.Callee == f {
				site := "-"
				if ed.Site != nil {
					site = shortFn(ed.Site.Parent()) + " " + c.W.Pos(ed.Site.Pos())
				}
				fmt.Printf("  in-edge %s from %s\n", ed.Kind, site)
			}
		}
	}
	for _, b := range f.Blocks {
		for _, ins := range b.Instrs {
			if v, ok := ins.(ssa.Value); ok && isReflectValue(v.Type()) {
				fmt.Printf("  %s = %s : %s\n", v.Name(), ins.String(), e.val[v])
			}
		}
	}
}

// kindValidArg: an argument of a reflect call that must not be the zero Value.
type kindValidArg struct {
	v    ssa.Value
	what string
}

func kindValidArgs(call *ssa.Call) []kindValidArg {
	args := call.Call.Args
	switch staticName(call) {
	case "reflect.Value.Set":
		return []kindValidArg{{args[1], "Set.arg"}}
	case "reflect.AppendSlice":
		return []kindValidArg{{args[1], "AppendSlice.arg"}}
	case "reflect.Append":
		var out []kindValidArg
		for _, x := range variadicElems(args[1]) {
			out = append(out, kindValidArg{x, "Append.arg"})
		}
		return out
	}
	return nil
}

func isReflectKindType(t types.Type) bool {
	n, ok := t.(*types.Named)
	return ok && n.Obj().Pkg() != nil && n.Obj().Pkg().Path() == "reflect" && n.Obj().Name() == "Kind"
}

// wrapperGuard: g returns a bool and takes a reflect.Value as parameter idx. The kinds the
// parameter can have where g returns true, and where it returns false, are read off g's own
// guards (union over the return points; a result that is not a constant is split by the guard
// it is itself).
func (e *kindEngine) wrapperGuard(g *ssa.Function, idx int, depth int) (kset, kset, bool) {
	if depth > 1 || !isReflectValue(g.Params[idx].Type()) {
		return 0, 0, false
	}
	res := g.Signature.Results()
	if res.Len() != 1 {
		return 0, 0, false
	}
	if b, ok := res.At(0).Type().Underlying().(*types.Basic); !ok || b.Kind() != types.Bool {
		return 0, 0, false
	}
	p := g.Params[idx]
	var t, f kset
	constBool := func(v ssa.Value) (bool, bool) {
		k, ok := v.(*ssa.Const)
		if !ok || k.Value == nil || k.Value.Kind() != constant.Bool {
			return false, false
		}
		return constant.BoolVal(k.Value), true
	}
	add := func(val ssa.Value, here kset) {
		if bv, isK := constBool(val); isK {
			if bv {
				t |= here
			} else {
				f |= here
			}
			return
		}
		if tt, ff, ok := e.guard(val, p, depth+2); ok {
			t |= here & tt
			f |= here & ff
			return
		}
		t |= here
		f |= here
	}
	n := 0
	for _, b := range g.Blocks {
		ret, ok := b.Instrs[len(b.Instrs)-1].(*ssa.Return)
		if !ok {
			continue
		}
		n++
		v := ret.Results[0]
		if phi, isPhi := v.(*ssa.Phi); isPhi && phi.Block() == b {
			for i, ev := range phi.Edges {
				add(ev, e.atEdge(p, b.Preds[i], b))
			}
			continue
		}
		add(v, e.at(p, b))
	}
	if n == 0 {
		return 0, 0, false
	}
	return t, f, true
}

// wrapperGuardR: as wrapperGuard, for the kinds of jtypes.Resolve(parameter).
func (e *kindEngine) wrapperGuardR(g *ssa.Function, idx int, depth int) (kset, kset, bool) {
	if depth > 1 || !isReflectValue(g.Params[idx].Type()) {
		return 0, 0, false
	}
	res := g.Signature.Results()
	if res.Len() != 1 {
		return 0, 0, false
	}
	if b, ok := res.At(0).Type().Underlying().(*types.Basic); !ok || b.Kind() != types.Bool {
		return 0, 0, false
	}
	p := g.Params[idx]
	var t, f kset
	add := func(val ssa.Value, here kset) {
		if k, ok := val.(*ssa.Const); ok && k.Value != nil && k.Value.Kind() == constant.Bool {
			if constant.BoolVal(k.Value) {
				t |= here
			} else {
				f |= here
			}
			return
		}
		if tt, ff, ok := e.guardR(val, p, depth+2); ok {
			t |= here & tt
			f |= here & ff
			return
		}
		t |= here
		f |= here
	}
	n := 0
	for _, b := range g.Blocks {
		ret, ok := b.Instrs[len(b.Instrs)-1].(*ssa.Return)
		if !ok {
			continue
		}
		n++
		v := ret.Results[0]
		if phi, isPhi := v.(*ssa.Phi); isPhi && phi.Block() == b {
			for i, ev := range phi.Edges {
				add(ev, e.resolvedAtEdge(p, b.Preds[i], b))
			}
			continue
		}
		add(v, e.resolvedAt(p, b))
	}
	if n == 0 {
		return 0, 0, false
	}
	return t, f, true
}
